#!/usr/bin/env python3
"""Builds /verif/known_findings.jsonl from (a) a list of observed signatures
(/tmp/sigall.txt style: one signature per line, optional count prefix) and (b)
the description table below.  A signature without a description is an error:
nothing is listed as a known finding without having been triaged.

This script is a maintenance tool; checks never write known_findings.jsonl.
"""
import json
import re
import sys

# (regex on the signature, what fails, call site / witness).  First match wins.
DESC = [
    # ---- C01
    (r"^C01/rerender-differs/empty-leaf-list$", "a non-nil empty leaf-list renders as [] and decodes to nil, so re-rendering differs (representation class: Go []T{} has no YANG counterpart)", "ygot/render.go jsonSlice; witness: Scalars.LlStr = []string{}"),
    # ---- C02
    (r"^C02/rejected/empty-leaf-list$", "a non-nil empty leaf-list is emitted as leaflist_val:{} which UnmarshalNotifications rejects ('got empty leaf list')", "ytypes/leaf_list.go unmarshalLeafList; witness: Scalars.LlStr = []string{}"),
    (r"^C02/render-error/detected nested _ list$", "TogNMINotifications refuses an ordered-by user list nested in another ordered-by user list (documented 'not supported')", "ygot/render.go; witness: /olists/oc3/outer[k]/nest/inner-o"),
    (r"^C02/tree-differs/sibling-of-ordered-list$", "the atomic notification of an ordered list uses the parent container as prefix, so applying it deletes the list's sibling nodes (non-OpenConfig layouts)", "ygot/render.go orderedMapLeaves; witness: /olists/sibling + /olists/sib-ordered"),
    # ---- C03
    (r"^C03/applied-differs/beside-ordered-list$", "DiffWithAtomic deletes the container of a changed ordered list, wiping sibling nodes of the list", "ygot/diff.go; witness: /olists/sibling next to /olists/sib-ordered"),
    (r"^C03/applied-differs/entry-left-without-key-leaf$", "Diff deletes the leaves of a removed list entry one by one, key leaf included; applied in an unlucky order the entry survives without its key", "ygot/diff.go + ytypes.DeleteNode; witness: removed entry of /lists/by-idref"),
    (r"^C03/apply-error/cannot convert type invalid to a string for use in a key$", "same root: after the key leaf of a union-keyed entry was deleted, the next delete fails converting the nil key", "ytypes/list.go; witness: removed entry of /lists/by-union"),
    (r"^C03/applied-differs/leaf:leaf:union\+zero-value$", "Diff ignores simple-union leaves holding 0, \"\" or false (IsValueNilOrDefault), so such leaves never reach the replica", "ygot/diff.go findSetLeaves; witness: Scalars.Un = UnionInt64(0)"),
    (r"^C03/diff-error/detected nested _ list$", "Diff refuses nested ordered-by user lists (documented 'not supported')", "ygot/render.go"),
    # ---- C04
    (r"^C04/shared-memory:(DeepCopy|MergeStructs)/map-key-pointer$", "wrapper-union list keys are pointers; the copy's map uses the original's key pointer, which is also the entry's key leaf", "ygot/struct_validation_map.go copyMapField; witness: vt/U-wrapper /lists/by-union"),
    # ---- C05
    (r"^C05/(conflict-not-detected/leaf-conflict:leaf:string|overwrite-result/leaf:leaf:string|swap-differs/leaf:leaf:string|result-not-union/leaf:leaf:string)@wrapper-union-key$", "wrapper-union list keys are compared by pointer, so entries with equal keys are not merged (two map entries for one YANG key)", "ygot copyMapField; witness: vt/U-wrapper /lists/by-union"),
    (r"^C05/conflict-not-detected/ordered-list-partial-overlap$", "orderedMapKeysMergeable accepts partially overlapping ordered lists when src's first key is not in dst (greedy scan ends with si==0 = 'disjoint')", "ygot/struct_validation_map.go; witness: dst=[x,y] src=[z,y]"),
    (r"^C05/(overwrite-result|result-not-union)/order:ordered-list@wrapper-union-key$", "same root for ordered lists keyed by a wrapper union: entries with equal keys are not recognised as the same entry, the merged list holds both", "ygot/struct_validation_map.go mergeOrderedMap; witness: vt/U-wrapper /olists/oc5/ord-un"),
    (r"^C05/conflict-not-detected/(ordered-list-partial-overlap|ordered-list-order-conflict|leaf-conflict:leaf:string)@wrapper-union-key$", "same root: conflicting entries / orders of an ordered list keyed by a wrapper union are not seen as conflicts because no two keys ever compare equal", "ygot orderedMapKeysMergeable; witness: vt/U-wrapper /olists/oc5/ord-un"),
    # ---- C06
    (r"^C06/decimal-range/", "yang.FromFloat converts the float64 inexactly (or to more than 18 fraction digits), so values equal to a range bound / tiny values are misjudged", "ytypes/decimal_type.go + goyang FromFloat; witness: fd=2 range 2.01..10.00 value 2.01"),
    (r"^C06/pattern-rejects-own-member/rejects-member:caret-after-escaped-bracket$", "fixYangRegexp keeps '^' as an anchor after an escaped '\\[' (prevChar check ignores the escape), so the pattern matches nothing", "util/yang.go fixYangRegexp; witness: pattern \\[^a"),
    (r"^C06/string-pattern/accepts-nonmember:dot-matches-carriage-return$", "XSD '.' excludes \\r as well as \\n; RE2 '.' only excludes \\n", "util/yang.go; witness: pattern '.' value \"\\r\""),
    (r"^C06/string-pattern/unanchored-accepts-nonmember:empty-pattern$", "the empty pattern is left unanchored and accepts every string", "util/yang.go fixYangRegexp; witness: pattern \"\""),
    (r"^C06/string-pattern/unanchored-accepts-nonmember:leading-caret-top-level-alternation$", "a pattern starting with '^' is not wrapped in a group, so a top-level alternation escapes the anchors", "util/yang.go fixYangRegexp; witness: ^a|b accepts aX"),
    # ---- C07
    (r"^C07/fault-accepted/enum-undefined", "Validate does not check that enumeration / identityref values are defined members", "ytypes/leaf.go validateLeaf"),
    (r"^C07/fault-accepted/choice-two-cases", "Validate does not detect two populated cases of a choice whose cases are shorthand / nested", "ytypes/choice.go; witness: /choices c1a + c3"),
    (r"^C07/fault-accepted/leaf-list-", "Validate does not enforce uniqueness or min/max-elements of leaf-lists", "ytypes/leaf_list.go validateLeafList"),
    (r"^C07/fault-accepted/list-below-min-elements:nil-map$", "min-elements of a list is not enforced when the map is nil under an existing parent", "ytypes/list.go validateList; witness: /lists/bounded absent"),
    # ---- C08
    (r"^C08/.*/value-contains:backslash$", "PathToString does not escape '\\' in key values", "ygot/pathstrings.go elemToString; witness: e0[k0=\\]"),
    (r"^C08/.*/value-contains://$", "path.Join in PathToString cleans '//' inside key values", "ygot/pathstrings.go; witness: e0[k0=//]"),
    (r"^C08/.*/value-contains:/\./$", "path.Join cleans '/./' inside key values", "ygot/pathstrings.go; witness: e0[k0=/./]"),
    (r"^C08/.*/value-contains:/\.\./$", "path.Join cleans '/../' inside key values (eats the element)", "ygot/pathstrings.go; witness: e0[k0=/../]"),
    (r"^C08/.*/value-contains:\]/$", "SplitPath ignores escapes inside keys: '\\]' ends the key and '/' splits the element", "util/path.go SplitPath; witness: e0[k0=]/]"),
    (r"^C08/.*/value-contains:\]\]$", "SplitPath loses track after the first escaped ']'", "util/path.go SplitPath; witness: e0[k0=]]]"),
    # ---- C09
    # ---- C12 / C13
    (r"^C12/delete-error/whole-(ordered-)?list:present:list-path-without-keys$", "a keyed-list path without keys cannot be deleted on uncompressed code (NotFound)", "ytypes/node.go retrieveNodeList; witness: DeleteNode(/lists/bounded)"),
    (r"^C13/tree-differs-from-model/.*@wrapper-union-key$", "an update whose JSON names an existing entry of a wrapper-union-keyed list adds a second entry instead of merging into it (keys compared by pointer; same root as the C31/C05 entries)", "ytypes/list.go unmarshalList; witness: vt/U-wrapper two updates of /lists naming /lists/by-un64[k=MANUAL]"),
    (r"^C13/request-rejected/(list-path-without-keys|failed to create map value for insert)$", "delete/replace of a keyed-list path without keys is rejected", "ytypes/node.go; witness: replace /cfgstate/cl with a JSON array"),
    # ---- C15
    (r"^C15/nil-key-accepted/AppendNilKey:(map|parent):single-key:union-key$", "Append on an ordered map (and the parent's Append<List>) accepts an entry whose union key is nil and stores it under the nil interface key", "gogen/ordered_list.go Append; witness: oc5 ord-un Append(&Entry{})"),
    # ---- C22 / C11 / C21 : fixed, nothing listed
    (r"^C22/same-intent-differs/json-for-leaves:schema:non-openconfig-list-entry$", "with a schema, gnmidiff still flattens JSON by the OpenConfig convention: every direct leaf child of a list entry is taken for a key", "gnmidiff/json.go flattenOCJSONAux; witness: vt /lists/multi"),
    # ---- C24
    (r"^C24/protofrompaths-error/direct-only:leaflist-", "PathsFromProto returns leaf-lists as []interface{}, ProtoFromPaths accepts only typed slices or a TypedValue", "protomap/proto.go makeSimpleLeafList"),
    (r"^C24/roundtrip-differs/both:list\[uint64\]>container:missing$", "a container nested in a keyed-list entry is dropped (prefix with keys does not match the annotated path)", "protomap/proto.go; witness: Afts.NextHop[1].IpInIp"),
    (r"^C24/roundtrip-differs/both:leaflist-union:changed", "an enum member of a union leaf-list comes back as the string member", "protomap/proto.go makeUnionLeafList"),
    (r"^C24/path-value-differs/leaflist-union:nil-for-zero-valued-member$", "a union element holding a proto3 zero value is emitted as nil", "protomap/proto.go; witness: PushedMplsLabelStack [0]"),
    (r"^C24/list-not-rebuilt/list\[string\]@depth1$", "a keyed list without a surrounding container is not rebuilt (entry path assumed two elements deep)", "protomap/proto.go createListField; witness: ExampleMessage.em"),
    # ---- C25
    # ---- C26
    (r"^C26/schema-node-not-covered/top-level-choice$", "data nodes inside a choice at the top of a module are silently dropped from the fake root", "ygen/genir.go; witness: module-level 'choice label { case data_link { leaf kind ...'"),
    # ---- C28 (generated protobufs)
    (r"^C28/duplicate-field-number/", "field tags of sibling fields / oneof members collide (same hash) and are emitted", "protogen fieldTag"),
    (r"^C28/duplicate-field-name/oneof-member\+sibling-field$", "a oneof member <field>_<type> of a union leaf has the name of a sibling field", "protogen; witness: leaf u (union) next to leaf u_string"),
    (r"^C28/duplicate-field-name/list-key-message:two-key-fields$", "two keys of a multi-key list whose names differ only in '-' / '_' / '.' get the same field name in the <List>Key message", "protogen genListKeyProto; witness: list with keys delta-id and delta_id"),
    (r"^C28/enum-value-lost/", "identity/enum values are lost when their value numbers collide or hit 0/-1", "protogen"),
    (r"^C28/enum-first-not-zero/", "a YANG enum with a negative value makes the first proto enum value non-zero", "protogen"),
    (r"^C28/enum-value-out-of-range/", "YANG enum value 2147483647 overflows the proto enum range after the +1 shift", "protogen"),
    (r"^C28/enum-duplicate-name/", "enum value names collide after sanitising non-identifier characters", "protogen"),
    (r"^C28/parse-error/groups are not allowed in proto_$", "a container or list named 'group' becomes the package 'group' under -package_hierarchy, and a field type that starts with the token 'group' (group.UpTime) is parsed as a proto2 group: the file is not valid proto3", "protogen; witness: random schema 1-18 /link/interface/group/up-time, options hierarchy (thorough tier)"),
    (r"^C28/parse-error/", "yang_name option strings are not escaped (quotes, backslashes)", "protogen"),
    (r"^C28/json-name-conflict/", "field names that differ only by '_'/case have the same proto3 JSON name", "protogen"),
    (r"^C28/duplicate-symbol/", "message/enum/enum-value/field/oneof/package symbols collide in one scope: protogen keeps no common name space per scope, so names that differ only in case or in - _ . meet; which two kinds meet depends on the concrete names only (all pairs of the family are listed)", "protogen"),
    (r"^C28/unresolved-import/", "an import refers to a file that is not generated (empty name / enums.proto)", "protogen"),
    (r"^C28/unresolved-type/type-reference:shadowed-by-inner-scope$", "a relative type reference (interface.Group) whose first component also names an inner package resolves to that package, where the type does not exist", "protogen type references under -package_hierarchy; witness: random schema 1-18 /link/interface/group (thorough tier)"),
    (r"^C28/unresolved-type/", "a referenced type or option is defined in a file that is not imported / nowhere", "protogen"),
    # ---- C29
    (r"^C29/enum-key-value-unusable/yang-value-minus-one-is-go-zero$", "a YANG enumeration value -1 is generated as Go value 0 (value+1), which ygot treats as unset: used as a list key (path structs, KeyValueAsString) it resolves to an empty key string", "gogen enum numbering; witness: random OpenConfig-style schema, seed 6, enum 'foo-bar' { value -1; } as list key"),
    (r"^C29/resolve-error/top-level-node-named-id-hides-root-Id-method$", "a top-level node named 'id' generates DevicePath.Id(...), hiding the root's own Id() method; ResolvePath then fails for every path of the schema", "ypathgen; witness: random OpenConfig-style schema with top-level list 'id'"),
    # ---- C30
    (r"^C30/dangling-accepted/.*:predicate-value-is-the-string-\*$", "a leafref key predicate [k=current()/../x] whose x holds the string \"*\" is evaluated as a wildcard key: every entry matches, so a reference that dangles is accepted", "ytypes/leafref.go leafRefToGNMIPath + GetNode wildcards; witness: /scalars/sel-a = \"*\", lref-pred (thorough tier)"),
    # ---- C31
    (r"^C31/merge-differs-from-model/leaf:leaf:string@wrapper-union-key$", "Unmarshal into an existing entry of a wrapper-union-keyed list adds a second entry instead of updating (keys compared by pointer)", "ytypes/list.go; witness: vt/U-wrapper /lists/by-union"),
    # ---- C33
    (r"^C33/valid-tree-invalid-after-defaults/choice-cases$", "PopulateDefaults sets the defaults of all cases of a choice, after which Validate reports multiple cases", "gogen goDefaultMethodTemplate; witness: /chdef"),
    # ---- C34
    (r"^C34/nil-key-accepted/Append:union:", "Append<List> accepts an entry whose union key is nil", "gogen/unordered_list.go goListAppendTemplate; witness: Lists.AppendByUnion(&Vt_Lists_ByUnion{})"),
]


def main():
    src = sys.argv[1] if len(sys.argv) > 1 else "/tmp/sigall.txt"
    sigs = []
    for l in open(src):
        l = l.strip()
        if not l:
            continue
        m = re.match(r"^\d+\s+(.*)$", l)
        sigs.append(m.group(1) if m else l)
    sigs = sorted(set(sigs))
    out, missing = [], []
    for s in sigs:
        for rx, what, where in DESC:
            if re.search(rx, s):
                out.append(dict(kind="known", property=s.split("/")[0], signature=s, what_fails=what, locus=where))
                break
        else:
            missing.append(s)
    if missing:
        print("signatures without a triaged description:")
        for s in missing:
            print("  ", s)
        return 1
    fixed = [l for l in open("/verif/tools/fixed.jsonl")] if __import__("os").path.exists("/verif/tools/fixed.jsonl") else []
    with open("/verif/known_findings.jsonl", "w") as fh:
        fh.write("# One JSON record per line.  kind=known: genuine defect of the pinned tree that is recorded, not repaired;\n")
        fh.write("# a violation whose signature equals the record is reported as KNOWN-FINDING.  kind=fixed: repaired by a\n")
        fh.write("# 'fix:' commit in /repo; suppresses nothing.  Never written at run time.\n")
        for l in fixed:
            fh.write(l if l.endswith("\n") else l + "\n")
        for r in out:
            fh.write(json.dumps(r) + "\n")
    print("wrote %d known findings, %d fixed records" % (len(out), len(fixed)))
    return 0


if __name__ == "__main__":
    sys.exit(main())
