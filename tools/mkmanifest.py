#!/usr/bin/env python3
"""Writes /verif/MANIFEST.json from the table below (kept in one place so that the
file is always valid and complete)."""
import json, os, subprocess
V = os.path.dirname(os.path.dirname(os.path.abspath(__file__)))
props = {}
for l in open(os.path.join(V, "properties.jsonl")):
    p = json.loads(l); props[p["id"]] = p

TECH = {
 "C01": ("reference-model monitor: schema-directed tree generator, render->parse composition, independent leaf-set observer", "3.2/3.3/6.C01"),
 "C02": ("reference-model monitor: TogNMINotifications->UnmarshalNotifications composition vs leaf-set observer, all prefixes", "6.C02"),
 "C03": ("reference-model monitor: Diff/DiffWithAtomic applied to a regenerated copy, per-update soundness/minimality, chains of versions", "6.C03"),
 "C04": ("structural heap-disjointness walk + in-place scribbling monitor on DeepCopy/MergeStructs results", "6.C04"),
 "C05": ("executable set-union model of MergeStructs on leaf-set observations, conflict classes by construction", "6.C05"),
 "C06": ("oracle monitor: math/big range membership, independent XSD regex matcher, samples from each pattern's own language", "6.C06"),
 "C07": ("valid-by-construction trees + single targeted fault injection per class, Validate verdict monitor", "6.C07"),
 "C08": ("round-trip and injectivity monitor over exhaustive small alphabets + random paths, witness minimisation", "6.C08"),
 "C09": ("product-set (bitmask) denotation oracle, exhaustive over a bounded path alphabet, repeated evaluation for order dependence", "6.C09"),
 "C10": ("SetNode/GetNode history monitor with whole-tree frame check against the leaf-set model", "6.C10"),
 "C11": ("deep before/after snapshots of every argument of every listed API (GoStruct observer, proto.Clone+bytes, option structs) + spare-capacity canaries in every repeated message field (detects append-in-place into the caller's slices)", "6.C11"),
 "C12": ("DeleteNode history monitor: leaf-set frame, GetNode after delete, ancestor emptiness, idempotence", "6.C12"),
 "C13": ("reference interpreter of gNMI Set semantics on a path->value model, compared after every request of a sequence", "6.C13"),
 "C14": ("invariant monitor on PruneEmptyBranches: panic guard, leaf-set preservation, no empty container left, idempotence", "6.C14"),
 "C15": ("history + executable model: exhaustive and random histories of generated ordered-map helpers called by reflection", "6.C15"),
 "C16": ("key-string round-trip monitor: ygot's own emitted key strings fed to GetNode/SetNode/DeleteNode per key type", "6.C16"),
 "C17": ("exhaustive enum-value placement monitor (defined/zero/undefined) through every render and parse route, goyang name sets", "6.C17"),
 "C18": ("classified-input monitor (must-accept with exact value / must-reject / don't-care) over JSON and TypedValue decoding", "6.C18"),
 "C19": ("JSON token/lexical-form checker driven by the leaf-set observer and a direct goyang compilation", "6.C19"),
 "C20": ("panic monitor: seed corpus + structure-aware mutation of JSON/paths/TypedValues/SetRequests over every entry point; thorough tier adds Go native coverage-guided fuzzing (go test -fuzz, fixed execution count) seeded with the same corpus", "6.C20"),
 "C21": ("Go race detector (-race, GORACE log parsing, de-duplicated by writer frame) on shared-tree/shared-message/shared-path-struct workloads in cold processes + result equality with sequential runs", "5/6.C21"),
 "C22": ("metamorphic monitor: intent-preserving SetRequest rewrites, self-diff and swap laws of gnmidiff.DiffSetRequest", "6.C22"),
 "C23": ("single-edit classification monitor for gnmidiff.DiffSetRequestToNotifications against the Set reference model", "6.C23"),
 "C24": ("protoreflect-driven random populator, PathsFromProto/ProtoFromPaths round trip and annotation oracle", "6.C24"),
 "C25": ("differential execution: N independent generator processes per (schema, flag set), byte-level digest comparison", "6.C25"),
 "C26": ("generate+compile+vet of random schemas, reflective tag-resolution/kind-fit monitor inside the compiled package, goyang coverage", "6.C26"),
 "C27": ("lock-step walk of the embedded schema against a direct goyang compilation (translation validation by execution)", "6.C27"),
 "C28": ("proto3 parser + structural checker over generated .proto files incl. adversarial hash-colliding schemas, cross-run stability", "6.C28"),
 "C29": ("reflective path-struct accessor driver, ResolvePath vs GoStruct-tag data paths and harness key formatter", "6.C29"),
 "C30": ("harness leafref XPath-subset evaluator on the leaf-set model vs Validate verdicts, satisfied and dangling trees", "6.C30"),
 "C31": ("merge model (path->value) vs Unmarshal into populated trees, unknown-member injection", "6.C31"),
 "C32": ("config-flag oracle from a direct goyang compilation vs PruneConfigFalse on compressed and uncompressed code", "6.C32"),
 "C33": ("defaults oracle from a direct goyang compilation vs generated PopulateDefaults, validity preservation", "6.C33"),
 "C34": ("history + executable model: exhaustive and random histories of generated keyed-list helpers called by reflection", "6.C34"),
}
LEVEL = {k: "exploration" for k in TECH}
checks = []
for pid in sorted(TECH):
    tech, ref = TECH[pid]
    checks.append({
        "property_id": pid,
        "quick_cmd": "./vcheck %s --tier quick" % pid,
        "thorough_cmd": "./vcheck %s --tier thorough" % pid,
        "evidence_file": "/verif/evidence/%s.json" % pid,
        "replay_cmd_template": "./vcheck %s --replay {path}" % pid,
        "engine": "vcheck",
        "level_claimed": {
            "category": LEVEL[pid],
            "text": "Runtime monitoring: the property held on every execution explored (counts, coverage matrix and samples in the evidence file); listed known findings are reported as KNOWN-FINDING. Exploration, not proof: %s" % props[pid]["title"],
            "design_ref": "DESIGN.md section " + ref,
        },
        "level_note": "Trusted base: the harness observer/models/encoders under /verif/harness/lib, goyang's parser, Go reflect/encoding/json/math/big, protobuf-go; inputs come from seeded generators (VERIF_SEED), bounded by case counts; a clean run says nothing about inputs that were not generated.",
        "technique": tech,
    })
m = {
 "version": 1,
 "setup_cmd": "cd /verif && ./tools/setup.sh",
 "hooks": {
   "guard": "verif",
   "enable": "no source hooks are needed: harness code under /verif/harness is compiled into ygot's module with `go build -overlay ... -tags verif` (nothing is written to /repo)",
   "baseline_off_cmd": "for m in $(cat /w/out/gomods.txt); do MF=$(cd /repo/$m && . /w/out/goenv.sh && gomodflag); (cd /repo/$m && go test $MF -json -vet=off -count=1 -timeout 25m ./...); done",
   "source_commits": [],
   "add_only": True,
 },
 "engines": [
   {"name": "vcheck", "path": "/verif/vcheck", "serves_properties": sorted(TECH), "kind_free_text": "Python driver: rebuilds generators from /repo's working tree, regenerates configurations, overlays the Go harness into ygot's module, runs the monitor, writes evidence"},
   {"name": "vmon", "path": "/verif/harness", "serves_properties": sorted(TECH), "kind_free_text": "Go runtime monitors (reference models, observers, fault injectors), race-detector build for C21"},
 ],
 "checks": checks,
 "notes": "Every check exits 0 (held, possibly with KNOWN-FINDING lines for the entries of known_findings.jsonl), 1 (VIOLATION lines) or 2 (INCONCLUSIVE: build problem / vacuity guard / watchdog). Fixes of genuine defects are the 'fix:' commits in /repo, recorded as 'fixed' entries in known_findings.jsonl.",
 "not_applicable": [],
}
json.dump(m, open(os.path.join(V, "MANIFEST.json"), "w"), indent=1)
print("wrote MANIFEST.json with", len(checks), "checks")
