#!/bin/bash
# run every thorough check (P at a time) and collect verdict lines under .work/thorough/
SEED=${VERIF_SEED:-1}; P=${P:-4}; OUT=/verif/.work/thorough; mkdir -p $OUT
ids=${IDS:-$(python3 -c "print(' '.join('C%02d'%i for i in range(1,35)))")}
echo $ids | tr ' ' '\n' | xargs -P $P -I{} sh -c "cd /verif && t0=\$(date +%s); VERIF_SEED=$SEED timeout 8000 ./vcheck {} --tier thorough > $OUT/{}.out 2>&1; rc=\$?; echo {} exit=\$rc wall=\$((\$(date +%s)-t0))s >> $OUT/exits"
sort $OUT/exits
