#!/bin/bash
# seeded.sh [dir ...]: apply each stored seeded change to /repo, run the quick check(s) of its
# property, record whether a VIOLATION (not a KNOWN-FINDING) was raised, and undo the change.
# Results: /verif/seeded/<name>/result.json.  /repo must be clean; nothing is committed there.
# With WT=<scratch worktree of /repo HEAD> the change is applied there instead and the checks run with
# VERIF_REPO=$WT (tools/seeded_par.sh uses this to run several at a time).
cd /verif
R=${WT:-/repo}
[ -z "$(git -C $R status --porcelain)" ] || { echo "$R is not clean"; exit 2; }
dirs=${@:-$(ls -d seeded/*/)}
for d in $dirs; do
  d=${d%/}; name=$(basename $d); prop=${name%%-*}
  also=$(python3 -c "import json,sys; print(' '.join(json.load(open('$d/meta.json')).get('also_check',[])))" 2>/dev/null)
  git -C $R apply /verif/$d/patch.diff || { echo "$name: patch does not apply"; continue; }
  : > $d/result.log
  detected=false; exits=""
  for p in $prop $also; do
    t0=$(date +%s)
    ${WT:+env VERIF_REPO=$WT} env VERIF_NO_EVIDENCE=1 ./vcheck $p --tier quick > $d/.out.$p 2>&1; rc=$?
    t1=$(date +%s)
    echo "== $p exit=$rc wall=$((t1-t0))s" >> $d/result.log
    grep -A2 "^VIOLATION" $d/.out.$p | cut -c1-400 >> $d/result.log
    exits="$exits $p:$rc"
    [ $rc -eq 1 ] && grep -q "^VIOLATION property=$p" $d/.out.$p && detected=true
    rm -f $d/.out.$p
  done
  git -C $R checkout -- . && git -C $R clean -fdq
  python3 - "$d" "$detected" "$exits" <<'PY'
import json,sys,re
d,det,exits=sys.argv[1:4]
log=open(d+'/result.log').read()
sigs=sorted(set(re.findall(r"signature: (\S.*)",log)))
json.dump({"detected":det=="true","checks":exits.split(),"new_signatures":sigs[:12],"n_new_signatures":len(sigs)},open(d+'/result.json','w'),indent=1)
print(d, "DETECTED" if det=="true" else "MISSED", exits, len(sigs),"signatures")
PY
done
[ -z "$(git -C $R status --porcelain)" ] || echo "WARNING: $R not clean after run"
