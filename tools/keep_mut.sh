#!/bin/bash
# keep_mut.sh <PROP> <slug>: store a confirmed seeded change from /tmp/mut/<PROP>.out under /verif/seeded/<PROP>-<slug>/
P=$1; S=$2; O=/tmp/mut/$P.out; D=/verif/seeded/$P-$S
[ -n "$3" ] && O=$3
git -C /repo apply --check $O/patch.diff || { echo "patch does not apply to /repo HEAD"; exit 1; }
mkdir -p $D && cp $O/patch.diff $D/ && rm -rf $D/demo && cp -r $O/demo $D/demo
python3 - "$O" "$D" "$P" <<'PY'
import json,sys,subprocess
o,d,p=sys.argv[1:4]
try: m=json.load(open(o+'/meta.json'))
except Exception as e: m={"property":p,"summary":"(meta.json unreadable: %s)"%e}
m["property"]=p
m["base_commit"]=subprocess.check_output(["git","-C","/repo","rev-parse","HEAD"]).decode().strip()
m["confirmed"]={"demo_fails_with_change":True,"demo_passes_without_change":True,"by":"tools/confirm_mut.sh"}
json.dump(m,open(d+'/meta.json','w'),indent=1)
PY
echo kept $D
