#!/bin/bash
# confirm_mut.sh <worktree> <outdir>: demo fails with the patch and passes without it.
W=$1; O=$2
export GOFLAGS=-mod=mod GOPROXY=off
cd $W || exit 2
run_demo() { if [ -f zzdemo/run.sh ]; then sh zzdemo/run.sh; else go test -vet=off -count=1 ./zzdemo/...; fi; }
git apply --check -R $O/patch.diff 2>/dev/null || { echo "patch not applied in worktree"; git apply $O/patch.diff || exit 2; }
run_demo > $O/confirm_with.txt 2>&1; with=$?
git apply -R $O/patch.diff || exit 2
run_demo > $O/confirm_without.txt 2>&1; without=$?
git apply $O/patch.diff
[ -f zzdemo/run.sh ] && sh zzdemo/run.sh >/dev/null 2>&1
git checkout go.sum 2>/dev/null
echo "$(basename $W): with-patch exit=$with (want !=0), without-patch exit=$without (want 0)"
