#!/bin/bash
# seeded_par.sh [K]: the tools/seeded.sh matrix, K stored changes at a time, each slot in its own scratch
# worktree of /repo HEAD under /tmp/seedwt (removed at the end).  Same result files as seeded.sh.
K=${1:-4}; cd /verif
mkdir -p /tmp/seedwt
ls -d seeded/*/ | awk -v k=$K '{print > ("/tmp/seedwt/list." (NR%k))}'
for i in $(seq 0 $((K-1))); do
  ( git -C /repo worktree add -q --detach /tmp/seedwt/wt$i HEAD && WT=/tmp/seedwt/wt$i tools/seeded.sh $(cat /tmp/seedwt/list.$i) > /tmp/seedwt/log.$i 2>&1
    git -C /repo worktree remove --force /tmp/seedwt/wt$i; rm -rf /verif/.work/*@tmp_seedwt_wt$i ) &
done
wait
cat /tmp/seedwt/log.* | grep -c DETECTED; cat /tmp/seedwt/log.* | grep -v DETECTED
git -C /repo worktree prune; rm -rf /tmp/seedwt
