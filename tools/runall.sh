#!/bin/bash
# run every quick check (P at a time) and collect verdict lines under .work/runall/<seed>/
SEED=${VERIF_SEED:-1}; P=${P:-4}; OUT=/verif/.work/runall/$SEED; mkdir -p $OUT
ids=${IDS:-$(python3 -c "print(' '.join('C%02d'%i for i in range(1,35)))")}
echo $ids | tr ' ' '\n' | xargs -P $P -I{} sh -c "cd /verif && VERIF_SEED=$SEED timeout 1500 ./vcheck {} > $OUT/{}.out 2>&1; echo {} exit=\$? >> $OUT/exits"
sort $OUT/exits
