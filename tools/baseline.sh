#!/bin/bash
# Runs the repository's test suite (hooks off: plain build) and compares the set of
# passing tests with BASELINE.json's stable_pass list.  Exit 0 iff all 3015 pass.
cd /repo && GOFLAGS=-mod=mod go test -json -vet=off -count=1 -timeout 25m ./... > /tmp/verif-baseline.json 2>/dev/null
python3 - <<'PY'
import json
want=set(json.load(open('/root/.vp/BASELINE.json'))['stable_pass'])
got=set()
for l in open('/tmp/verif-baseline.json'):
    try: e=json.loads(l)
    except: continue
    if e.get('Action')=='pass' and e.get('Test'):
        got.add(e['Package']+'::'+e['Test'])
miss=sorted(want-got)
print("baseline: %d/%d stable tests pass"%(len(want&got),len(want)))
for m in miss[:40]: print("  MISSING", m)
import sys; sys.exit(1 if miss else 0)
PY
rc=$?; rm -f /tmp/verif-baseline.json; cd /repo && git checkout go.sum 2>/dev/null; exit $rc
