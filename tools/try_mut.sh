#!/bin/bash
# try_mut.sh <worktree dir name under /tmp/mut> <PROP>: confirm the demo, run the quick check against the worktree,
# print signatures that the unchanged tree does not produce (baseline: .work/runall/*/<PROP>.out)
W=/tmp/mut/$1; P=$2
cd /verif
tools/confirm_mut.sh $W $W.out
VERIF_REPO=$W VERIF_NO_EVIDENCE=1 ./vcheck $P > /tmp/mut/res/$1.out 2>&1; rc=$?
grep -h "signature:" /tmp/mut/res/$1.out | sed 's/^ *//' | sort -u > /tmp/mut/res/$1.sigs
cat .work/runall/*/$P.out 2>/dev/null | grep -h "signature:" | sed 's/^ *//' | sort -u > /tmp/mut/res/$1.base
echo "== $1 ($P) exit=$rc; new signatures:"
comm -13 /tmp/mut/res/$1.base /tmp/mut/res/$1.sigs | head -12
grep -h "INCONCL" /tmp/mut/res/$1.out | head -3
