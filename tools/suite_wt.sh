#!/bin/bash
# suite.sh <worktree>: pinned suite (3015 stable tests) against a worktree, zzdemo excluded
W=$1; cd $W && GOFLAGS=-mod=mod GOPROXY=off go test -json -vet=off -count=1 -timeout 25m ./... > /tmp/suite-$(basename $W).json 2>/dev/null
python3 - /tmp/suite-$(basename $W).json <<'PY'
import json,sys
want=set(json.load(open('/root/.vp/BASELINE.json'))['stable_pass'])
got=set()
for l in open(sys.argv[1]):
    try: e=json.loads(l)
    except: continue
    if e.get('Action')=='pass' and e.get('Test'): got.add(e['Package']+'::'+e['Test'])
miss=sorted(want-got)
print("suite: %d/%d stable tests pass"%(len(want&got),len(want)))
for m in miss[:10]: print("  MISSING", m)
PY
rm -f /tmp/suite-$(basename $W).json; git -C $W checkout go.sum 2>/dev/null
