#!/bin/bash
# Builds everything the checks share from files on disk only (offline): the code
# generators and one harness binary, so that the Go build cache is warm.
set -e
cd /verif
export GOFLAGS=-mod=readonly GOPROXY=off
python3 - <<'PY'
import sys
sys.path.insert(0, "/verif/driver")
import vlib
work, binary, _ = vlib.prepare_dataplane("setup")
print("setup: built", binary)
PY
rm -rf /verif/.work/setup
