"""C25  Code generation is deterministic.

Running the generator twice with the same YANG files, include paths and flags produces byte-identical
Go structs, path structs and protobuf output, whatever the map iteration order or process.

Events   the working tree's `generator` and `proto_generator` binaries (vlib.build_generators, or the
         directory named by $VERIF_GENERATOR_BIN_DIR) are run N times as SEPARATE PROCESSES on every
         (schema, flag set) configuration; Go randomises map iteration per process and per `range`.
         Additionally harness/cmd/vgenconc calls gogen / ypathgen / protogen IN-PROCESS from 8 goroutines
         concurrently on the same inputs.
Oracle   the set of output files and the SHA-256 of every output file coincide over the N runs. A
         difference is a violation `nondeterministic-output` with features
         <gostructs|pathstructs|proto>[-inproc]:<flag set>:<construct class of the differing lines>.
         A generator that exits non-zero on some runs only is a violation `nondeterministic-exit`;
         failing on all N runs means "unsupported schema/flag combination": skipped and counted.
Workload schemas/ of the harness, the repository corpus, yanggen random schemas (plain and oc style,
         mostly with hazards=True: colliding names, same-named enums/typedefs/identities in several
         modules, unions of typedef'd enums, augments of one node from several modules).
"""
import concurrent.futures
import difflib
import gzip
import hashlib
import json
import os
import re
import shutil
import sys
import time

import vlib
import vreport
import yanggen

PROP = "C25"
RULE = ("one case = one (schema, flag set, output kind) configuration generated N times by independent processes "
        "(quick N=6, thorough N=40) or 16 times in-process from 8 goroutines; key = configuration id; non-trivial iff all "
        "runs exited 0 and wrote at least one output file; distinct = distinct configuration ids. Schemas: harness "
        "schemas, repository corpus, yanggen random schemas (seeded).")

C = vlib.COMMON_FLAGS
NODEF = [f for f in C if f != "-generate_populate_defaults"]
COMP = ["-compress_paths", "-ignore_shadow_schema_paths"]
ENUMF = ["-shorten_enum_leaf_names", "-typedef_enum_with_defmod", "-enum_suffix_for_simple_union_enums",
         "-trim_enum_openconfig_prefix"]
PATHBASE = ["-generate_structs=false", "-generate_path_structs", "-compress_paths", "-fakeroot_name=device",
            "-schema_struct_path=example.com/structs", "-package_name=pkg"]

# name -> dict(kind, bin, flags, out, oc (needs OpenConfig-style schema), wrapper (no union defaults))
# out: how output locations are passed: single | dir | paths-single | paths-dir | paths-module | both | proto
FLAGSETS = {
    # Go structs, uncompressed
    "U-simple": dict(kind="gostructs", flags=C + ["-generate_simple_unions"], out="single"),
    "U-simple-split": dict(kind="gostructs", flags=C + ["-generate_simple_unions", "-structs_split_files_count=3"], out="dir"),
    "U-wrapper": dict(kind="gostructs", flags=NODEF, out="single", wrapper=True),
    "U-enumflags-nodedup": dict(kind="gostructs", flags=C + ["-generate_simple_unions", "-typedef_enum_with_defmod",
                                                             "-enum_suffix_for_simple_union_enums", "-skip_enum_deduplication",
                                                             "-include_model_data", "-annotations", "-include_descriptions"],
                                out="single"),
    # Go structs, compressed
    "C-prefcfg": dict(kind="gostructs", flags=C + COMP + ["-generate_simple_unions"], out="single", oc=True),
    "C-prefcfg-split": dict(kind="gostructs", flags=C + COMP + ["-generate_simple_unions", "-structs_split_files_count=2"],
                            out="dir", oc=True),
    "C-opstate": dict(kind="gostructs", flags=C + COMP + ["-generate_simple_unions", "-prefer_operational_state"], out="single", oc=True),
    "C-wrapper": dict(kind="gostructs", flags=NODEF + ["-compress_paths"], out="single", oc=True, wrapper=True),
    "C-enumflags": dict(kind="gostructs", flags=C + COMP + ["-generate_simple_unions"] + ENUMF, out="single", oc=True),
    "C-opstate-enumflags-nodedup": dict(kind="gostructs", flags=C + COMP + ["-generate_simple_unions", "-prefer_operational_state",
                                                                            "-skip_enum_deduplication"] + ENUMF, out="single", oc=True),
    "C-exclstate": dict(kind="gostructs", flags=C + ["-compress_paths", "-generate_simple_unions", "-exclude_state"], out="single", oc=True),
    # path structs
    "P-single": dict(kind="pathstructs", flags=PATHBASE, out="paths-single", oc=True),
    "P-splitfiles": dict(kind="pathstructs", flags=PATHBASE + ["-path_structs_split_files_count=2"], out="paths-dir", oc=True),
    "P-module": dict(kind="pathstructs", flags=PATHBASE + ["-split_pathstructs_by_module", "-base_import_path=example.com/gen",
                                                           "-trim_path_package_prefix=openconfig-"], out="paths-module", oc=True),
    "P-module-splitfiles": dict(kind="pathstructs", flags=PATHBASE + ["-split_pathstructs_by_module", "-base_import_path=example.com/gen",
                                                                      "-path_structs_split_files_count=2"], out="paths-module", oc=True),
    "P-opstate-enumflags": dict(kind="pathstructs", flags=PATHBASE + ["-prefer_operational_state", "-simplify_wildcard_paths",
                                                                      "-list_builder_key_threshold=2"] + ENUMF,
                                out="paths-single", oc=True),
    "P-with-structs": dict(kind="pathstructs", flags=C + COMP + ["-generate_simple_unions", "-generate_path_structs", "-package_name=pkg"],
                           out="both", oc=True),
    # protobuf
    "proto-flat": dict(kind="proto", flags=["-generate_fakeroot"], out="proto"),
    "proto-flat-nodedup": dict(kind="proto", flags=["-generate_fakeroot", "-skip_enum_deduplication"], out="proto"),
    "proto-hier": dict(kind="proto", flags=["-generate_fakeroot", "-package_hierarchy", "-base_import_path=example.com/proto",
                                            "-go_package_base=example.com/proto"], out="proto"),
    "proto-compress": dict(kind="proto", flags=["-generate_fakeroot", "-compress_paths"], out="proto", oc=True),
    "proto-compress-hier-nodedup": dict(kind="proto", flags=["-generate_fakeroot", "-compress_paths", "-package_hierarchy",
                                                             "-skip_enum_deduplication", "-prefer_operational_state",
                                                             "-base_import_path=example.com/proto"], out="proto", oc=True),
}
for _n, _f in FLAGSETS.items():
    _f["name"] = _n
    _f.setdefault("oc", False)
    _f.setdefault("wrapper", False)

# in-process configurations: name -> (kind, vgenconc flags, needs oc)
INPROC = {
    "U-simple": ("gostructs", ["-generate_simple_unions"], False),
    "U-wrapper": ("gostructs", [], False),
    "C-prefcfg": ("gostructs", ["-compress_paths", "-generate_simple_unions"], True),
    "C-opstate-enumflags-nodedup": ("gostructs", ["-compress_paths", "-generate_simple_unions", "-prefer_operational_state",
                                                  "-enumflags", "-skip_enum_deduplication"], True),
    "P-single": ("pathstructs", ["-compress_paths"], True),
    "P-module": ("pathstructs", ["-compress_paths", "-split_pathstructs_by_module"], True),
    "proto-flat": ("proto", [], False),
    "proto-compress-hier": ("proto", ["-compress_paths", "-package_hierarchy"], True),
}


# ------------------------------------------------------------------------------------------------
# schemas
# ------------------------------------------------------------------------------------------------

def S(id, source, path, files, oc=False, exclude=None, both=False, feats=None, nud=None):
    """oc: OpenConfig style (only compressed / path struct flag sets); both: try every flag set."""
    return dict(id=id, source=source, path=path, files=files, oc=oc, both=both, exclude=exclude, feats=feats or [], nud=nud)


def harness_schemas():
    d = os.path.join(vlib.VERIF, "schemas")
    j = lambda *fs: [os.path.join(d, f) for f in fs]
    return [S("vt", "harness", d, j("vt.yang", "vt-aug.yang", "vt-undef.yang")),
            S("vtoc", "harness", d, j("openconfig-vtoc.yang"), both=True),
            # a module split into submodules, all of which augment the same nodes
            S("vtsub", "harness", d, j("vt-subbase.yang", "vt-sub.yang"))]


def corpus_schemas():
    R = vlib.REPO
    out = []

    def add(id, path, files, **kw):
        files = [os.path.join(R, f) for f in files]
        if os.path.isdir(os.path.join(R, path)) and all(os.path.exists(f) for f in files):
            out.append(S(id, "corpus", os.path.join(R, path), files, **kw))
    so = "integration_tests/schemaops/yang"
    add("schemaops-c", so, [so + "/ctestschema.yang", so + "/ctestschema-rootmod.yang"], both=True)
    add("schemaops-u", so, [so + "/utestschema.yang", so + "/refschema.yang", so + "/ctestschema.yang",
                            so + "/ctestschema-rootmod.yang"], both=True)
    un = "integration_tests/uncompressed/yang"
    add("it-uncompressed", un, [un + "/uncompressed.yang"], both=True)
    gs = "demo/getting_started/yang"
    add("demo-interfaces", gs, [gs + "/openconfig-interfaces.yang", gs + "/openconfig-if-ip.yang"], both=True,
        exclude="ietf-interfaces")
    du = "demo/uncompressed/yang"
    add("demo-uncompressed", du, [du + "/example.yang"], both=True)
    pg = "demo/protobuf_getting_started/yang"
    add("demo-rib-bgp", pg, [pg + "/rib/openconfig-rib-bgp.yang"], both=True, exclude="ietf-interfaces")
    for sub in ("testdata/modules", "protogen/testdata/proto", "gogen/testdata/schema"):
        d = os.path.join(R, sub)
        if not os.path.isdir(d):
            continue
        for f in sorted(os.listdir(d)):
            if f.endswith(".yang"):
                add("%s/%s" % (sub.split("/")[0] + ("-" + sub.split("/")[-1] if sub.count("/") > 1 else ""), f[:-5]), sub,
                    [sub + "/" + f], both=True)
    # several corpus modules that augment the same targets, generated together
    tm = "testdata/modules"
    add("testdata/simple+augments", tm, [tm + "/openconfig-simple-target.yang", tm + "/openconfig-simple-augment.yang",
                                         tm + "/openconfig-simple-augment2.yang"], both=True)
    return out


def random_schema(work, seed, index, style, hazards):
    sid = "rnd-%s-%s%d-%d" % (style, "hz" if hazards else "safe", seed, index)
    d = os.path.join(work, "schemas", sid)
    sch = yanggen.gen_schema(seed, index, style, hazards=hazards)
    tops = yanggen.write_schema(sch, d)
    # variant without defaults on unions for wrapper-union flag sets
    dn = d + "-nud"
    topsn = yanggen.write_schema(yanggen.gen_schema(seed, index, style, hazards=hazards, union_defaults=False), dn)
    s = S(sid, "random-" + style, d, tops, oc=(style == "oc"), both=(style == "oc"), feats=sch["features"],
          nud=dict(path=dn, files=topsn))
    return s


# ------------------------------------------------------------------------------------------------
# running
# ------------------------------------------------------------------------------------------------

def build_cmd(bindir, sch, fs, outdir, wrapper_variant=True):
    path, files = sch["path"], sch["files"]
    if fs["wrapper"] and sch.get("nud"):
        path, files = sch["nud"]["path"], sch["nud"]["files"]
    out = fs["out"]
    if fs["kind"] == "proto":
        cmd = [os.path.join(bindir, "proto_generator"), "-logtostderr", "-path=" + path, "-output_dir=" + outdir]
    else:
        cmd = [os.path.join(bindir, "generator"), "-logtostderr", "-path=" + path]
        if out == "single":
            cmd += ["-package_name=pkg", "-output_file=" + os.path.join(outdir, "structs.go")]
        elif out == "dir":
            cmd += ["-package_name=pkg", "-output_dir=" + outdir]
        elif out == "paths-single":
            cmd += ["-path_structs_output_file=" + os.path.join(outdir, "paths.go")]
        elif out == "paths-dir":
            cmd += ["-output_dir=" + outdir]
        elif out == "paths-module":
            cmd += ["-output_dir=" + outdir, "-path_structs_output_file=" + os.path.join(outdir, "root.go")]
        elif out == "both":
            cmd += ["-output_file=" + os.path.join(outdir, "structs.go"),
                    "-path_structs_output_file=" + os.path.join(outdir, "paths.go")]
    cmd += fs["flags"]
    if sch.get("exclude"):
        cmd.append("-exclude_modules=" + sch["exclude"])
    return cmd + files


def digest_dir(d):
    out = {}
    for root, _, fs in os.walk(d):
        for f in fs:
            p = os.path.join(root, f)
            with open(p, "rb") as fh:
                out[os.path.relpath(p, d)] = hashlib.sha256(fh.read()).hexdigest()
    return out


def run_one(job):
    cfg, k, cmd, outdir, cwd = job
    shutil.rmtree(outdir, ignore_errors=True)
    os.makedirs(outdir)
    try:
        rc, out = vlib.sh(cmd, cwd=cwd, timeout=600)
    except Exception as ex:  # timeout
        rc, out = -9, "timeout/exception: %s" % ex
    return cfg, k, rc, out[-1500:], digest_dir(outdir) if rc == 0 else {}


# ------------------------------------------------------------------------------------------------
# classification of a difference
# ------------------------------------------------------------------------------------------------

BLOB_LINE = re.compile(r"^\t\t0x[0-9a-f]{2},")
BLOCKS = [
    (re.compile(r"^var ΛEnum = map"), "enum-map"),
    (re.compile(r"^var ΛEnumTypes = map"), "enum-type-map"),
    (re.compile(r"^type E_\S+ int64"), "enum-type"),
    (re.compile(r"^type \S+ struct \{"), "struct-field-order"),
    (re.compile(r"^type \S+ interface \{"), "union-interface"),
    (re.compile(r"^import \("), "import-order"),
    (re.compile(r"^const \("), "enum-const"),
    (re.compile(r"^func "), "func-body"),
    (re.compile(r"^var \("), "var-block"),
    (re.compile(r"^\s*message \S+ \{"), "proto-message"),
    (re.compile(r"^\s*enum \S+ \{"), "proto-enum"),
    (re.compile(r"^/\*"), "header-comment"),
]


def classify_line(lines, i):
    ln = lines[i] if i < len(lines) else ""
    if BLOB_LINE.match(ln):
        return "schema-blob"
    if ln.startswith("import ") or (ln.strip().startswith('"') and ln.strip().endswith('"')):
        return "import-order"
    if ln.startswith("//"):
        # doc comment: classify by what it documents
        j = i
        while j < len(lines) and lines[j].startswith("//"):
            j += 1
        if j < len(lines):
            for rx, cls in BLOCKS:
                if rx.match(lines[j]):
                    return cls
        return "comment"
    for j in range(i, max(-1, i - 4000), -1):
        l = lines[j]
        for rx, cls in BLOCKS:
            if rx.match(l):
                return cls
        if j < i and l.startswith("}"):
            break
    return "bytes"


def extract_blob_json(text):
    try:
        i = text.index("ySchema = []byte{")
        j = text.index("\n\t}", i)
        bs = bytes(int(x, 16) for x in re.findall(r"0x([0-9a-f]{2})", text[i:j]))
        return json.loads(gzip.decompress(bs))
    except Exception:
        return None


def json_diff_classes(a, b, path="", acc=None, limit=40):
    """set of schema-JSON loci that differ: the key of the first list on the path, else the last key."""
    acc = set() if acc is None else acc
    if len(acc) >= limit:
        return acc

    def locus(p):
        parts = [x for x in p.split("/") if x]
        for x in parts:
            if "[" in x:
                return x.split("[")[0]
        return parts[-1] if parts else "root"
    if type(a) != type(b):
        acc.add(locus(path))
    elif isinstance(a, dict):
        for k in sorted(set(a) | set(b)):
            if k not in a or k not in b:
                acc.add(locus(path + "/" + k))
            else:
                json_diff_classes(a[k], b[k], path + "/" + k, acc, limit)
    elif isinstance(a, list):
        if len(a) != len(b):
            acc.add(locus(path + "[]"))
        else:
            canon = lambda x: json.dumps(x, sort_keys=True)
            if sorted(map(canon, a)) == sorted(map(canon, b)) and a != b:
                acc.add(path.rsplit("/", 1)[-1] + "-order")
            else:
                for i, (x, y) in enumerate(zip(a, b)):
                    json_diff_classes(x, y, "%s[%d]" % (path, i), acc, limit)
    elif a != b:
        acc.add(locus(path))
    return acc


def classify_files(pa, pb):
    """classes of the differing constructs between two versions of one output file, and a diff excerpt."""
    try:
        ta, tb = open(pa, encoding="utf-8", errors="replace").read(), open(pb, encoding="utf-8", errors="replace").read()
    except OSError:
        return ["bytes"], ""
    la, lb = ta.split("\n"), tb.split("\n")
    classes = []
    blob_excerpt = ""
    first = next((i for i in range(min(len(la), len(lb))) if la[i] != lb[i]), min(len(la), len(lb)))
    permuted = sorted(la) == sorted(lb)
    if len(la) == len(lb) and not permuted:
        idx = [i for i in range(len(la)) if la[i] != lb[i]]
    else:
        # same lines in another order (whole constructs moved), or different length: the first difference names it
        idx = [first]
    for i in idx[:5000]:
        c = classify_line(la, i)
        if c not in classes:
            classes.append(c)
    if permuted:
        classes = [c + "(reordered)" for c in classes]
    if "schema-blob" in classes:
        ja, jb = extract_blob_json(ta), extract_blob_json(tb)
        classes.remove("schema-blob")
        if ja is not None and jb is not None:
            loci = sorted(json_diff_classes(ja, jb)) or ["gzip-bytes"]
            classes += ["schema-blob." + x for x in loci[:4]]
            pa_, pb_ = json.dumps(ja, indent=1, sort_keys=True).split("\n"), json.dumps(jb, indent=1, sort_keys=True).split("\n")
            f0 = next((i for i in range(min(len(pa_), len(pb_))) if pa_[i] != pb_[i]), 0)
            # nearest enclosing keys for orientation
            ctx = []
            ind = len(pa_[f0]) - len(pa_[f0].lstrip()) if f0 < len(pa_) else 0
            for j in range(f0, -1, -1):
                k = len(pa_[j]) - len(pa_[j].lstrip())
                if k < ind and pa_[j].rstrip().endswith(("{", "[")):
                    ctx.append(pa_[j].strip())
                    ind = k
                if len(ctx) >= 6:
                    break
            blob_excerpt = "decoded ySchema JSON, first difference below %s:\n" % " < ".join(ctx) + "\n".join(
                x[:160] for x in list(difflib.unified_diff(pa_[max(0, f0 - 2):f0 + 8], pb_[max(0, f0 - 2):f0 + 8], "run-a", "run-b",
                                                           lineterm="", n=1))[:24])
        else:
            classes.append("schema-blob")
    # excerpt: unified diff around the first non-blob difference if any, else the first difference
    nb = [i for i in idx if not BLOB_LINE.match(la[i])] or idx
    i0 = nb[0] if nb else 0
    lo, hi = max(0, i0 - 3), i0 + 12
    ex = list(difflib.unified_diff(la[lo:hi], lb[lo:hi], "run-a:%d" % (lo + 1), "run-b:%d" % (lo + 1), lineterm="", n=2))
    text = "\n".join(x[:200] for x in ex[:40])
    if "schema-blob" in " ".join(classes) and BLOB_LINE.match(la[i0] if i0 < len(la) else ""):
        text = blob_excerpt or text
    elif "schema-blob" in " ".join(classes):
        text += "\n" + blob_excerpt
    return classes or ["bytes"], text


# ------------------------------------------------------------------------------------------------
# the monitor
# ------------------------------------------------------------------------------------------------

def applicable(sch, fs):
    if sch["both"]:
        return True
    return fs["oc"] == sch["oc"]


def plan(r, work, tier, seed):
    """list of (schema, flag set name)."""
    hs = harness_schemas()
    cs = corpus_schemas()
    names = list(FLAGSETS)
    cfgs = []
    if tier != "thorough":
        vt, vtoc, vtsub = hs
        byid = {s["id"]: s for s in cs}
        fixed = [(vt, "U-simple"), (vt, "U-wrapper"), (vt, "proto-flat"), (vtoc, "C-prefcfg-split"), (vtoc, "P-module"),
                 (vtoc, "proto-compress-hier-nodedup"), (vtsub, "U-simple"), (vtsub, "U-simple-split"),
                 (vt, "U-enumflags-nodedup"), (vt, "proto-flat-nodedup")]
        cfgs += fixed
        # rotating corpus picks
        big = [x for x in ("schemaops-c", "schemaops-u", "it-uncompressed", "demo-interfaces", "demo-uncompressed", "demo-rib-bgp",
                           "testdata/simple+augments", "testdata/openconfig-complex", "testdata/enum-module",
                           "testdata/openconfig-unione", "protogen-proto/proto-test-a", "protogen-proto/proto-enums")
               if x in byid]
        rot = [("C-enumflags", "P-single", "proto-compress"), ("C-opstate", "P-splitfiles", "proto-hier"),
               ("C-prefcfg", "P-opstate-enumflags", "proto-flat"), ("U-enumflags-nodedup", "P-with-structs", "proto-compress")]
        for k in range(4):
            if not big:
                break
            s = byid[big[(seed * 4 + k) % len(big)]]
            for fn in rot[(seed + k) % len(rot)]:
                cfgs.append((s, fn))
        # always: the repository's own demo with the flags of its go:generate line family
        if "demo-interfaces" in byid:
            cfgs.append((byid["demo-interfaces"], "C-enumflags"))
        # random schemas
        for k in range(3):
            s = random_schema(work, seed, k, "plain", hazards=(k != 2))
            for fn in (["U-simple", "proto-flat"], ["U-enumflags-nodedup", "U-wrapper"], ["U-simple-split", "proto-hier"])[k]:
                cfgs.append((s, fn))
        for k in range(3):
            s = random_schema(work, seed, k, "oc", hazards=(k != 2))
            for fn in (["C-prefcfg", "P-module", "proto-compress"], ["C-opstate-enumflags-nodedup", "P-single", "C-wrapper"],
                       ["C-enumflags", "P-module-splitfiles", "U-simple"])[k]:
                cfgs.append((s, fn))
    else:
        rnd = []
        for k in range(25):
            rnd.append(random_schema(work, seed, k, "plain", hazards=(k % 5 != 4)))
        for k in range(25):
            rnd.append(random_schema(work, seed, k, "oc", hazards=(k % 5 != 4)))
        for s in hs + cs + rnd:
            for fn in names:
                if applicable(s, FLAGSETS[fn]):
                    cfgs.append((s, fn))
    # de-duplicate, keep order
    seen, out = set(), []
    for s, fn in cfgs:
        if (s["id"], fn) not in seen:
            seen.add((s["id"], fn))
            out.append((s, fn))
    return out, hs, cs


def inproc_plan(tier, seed, cfgs):
    """(schema, inproc config name) pairs: schemas taken from the process-level plan."""
    schemas = []
    for s, _ in cfgs:
        if s not in schemas:
            schemas.append(s)
    out = []
    names = list(INPROC)
    if tier != "thorough":
        pick = [s for s in schemas if s["id"] in ("vt", "vtoc", "demo-interfaces") or s["source"].startswith("random")]
        for i, s in enumerate(pick):
            ok = [n for n in names if s["both"] or INPROC[n][2] == s["oc"]]
            for j in range(2):
                out.append((s, ok[(seed + i * 2 + j) % len(ok)]))
    else:
        for s in schemas:
            if s["source"] == "corpus" and not s["id"].startswith(("schemaops", "demo", "it-", "testdata/simple+")):
                continue
            for n in names:
                if s["both"] or INPROC[n][2] == s["oc"]:
                    out.append((s, n))
    seen, res = set(), []
    for s, n in out:
        if (s["id"], n) not in seen:
            seen.add((s["id"], n))
            res.append((s, n))
    return res


def save_witness(work, cid, sch, fs, cmd, da, db, rel):
    wd = os.path.join(work, "witness", re.sub(r"[^A-Za-z0-9_.-]+", "_", cid))
    shutil.rmtree(wd, ignore_errors=True)
    os.makedirs(os.path.join(wd, "a"))
    os.makedirs(os.path.join(wd, "b"))
    os.makedirs(os.path.join(wd, "yang"))
    pa = pb = None
    if rel:
        if os.path.exists(os.path.join(da, rel)):
            pa = os.path.join(wd, "a", os.path.basename(rel))
            shutil.copy(os.path.join(da, rel), pa)
        if os.path.exists(os.path.join(db, rel)):
            pb = os.path.join(wd, "b", os.path.basename(rel))
            shutil.copy(os.path.join(db, rel), pb)
    yfiles = []
    src = sch["nud"]["path"] if (fs and fs.get("wrapper") and sch.get("nud")) else sch["path"]
    if sch["source"].startswith("random"):
        for f in sorted(os.listdir(src)):
            if f.endswith(".yang"):
                shutil.copy(os.path.join(src, f), os.path.join(wd, "yang", f))
                yfiles.append(os.path.join(wd, "yang", f))
    with open(os.path.join(wd, "cmd.txt"), "w") as fh:
        fh.write(" ".join(cmd) + "\n")
    if yfiles:
        # the witness copy is self-contained: top-level files only, include path = witness yang dir
        tops = [os.path.basename(f) for f in (sch["nud"]["files"] if (fs and fs.get("wrapper") and sch.get("nud")) else sch["files"])]
        yfiles = [os.path.join(wd, "yang", t) for t in tops]
    return wd, pa, pb, yfiles


def run(tier, seed, replay, extra):
    r = vreport.Run(PROP, tier, seed, level="exploration")
    r.rule = RULE
    work = vlib.workdir(PROP)
    bindir = os.environ.get("VERIF_GENERATOR_BIN_DIR")
    if bindir:
        r.assume("generator binaries taken from VERIF_GENERATOR_BIN_DIR=%s" % bindir)
    else:
        bindir = vlib.build_generators(work)
    n = r.n(8, 40)
    for a in extra:
        if a.startswith("--runs="):
            n = int(a.split("=")[1])
    shutil.rmtree(os.path.join(work, "out"), ignore_errors=True)
    if not replay:
        shutil.rmtree(os.path.join(work, "schemas"), ignore_errors=True)
        shutil.rmtree(os.path.join(work, "witness"), ignore_errors=True)

    if replay:
        w = json.load(open(replay)).get("witness") or {}
        cfgs = [(S("replay", "replay", w["include_path"], w["schema_files"], both=True, exclude=w.get("exclude_modules")),
                 w["flagset"])] if w.get("flagset") in FLAGSETS else []
        hs, cs = [], []
        r.floor = 0
    else:
        cfgs, hs, cs = plan(r, work, tier, seed)
    allcfgs = cfgs
    only = [a.split("=")[1] for a in extra if a.startswith("--only=")]
    if only:
        cfgs = [(s, fn) for s, fn in cfgs if any(o in "%s|%s" % (s["id"], fn) for o in only)]
        r.floor = 0

    r.assume("a schema/flag-set combination on which the generator fails in all N runs is unsupported input, not a violation")
    r.assume("N identical outputs are evidence, not proof, of determinism; workloads maximise map-ordered decisions "
             "(name collisions, several modules augmenting one node, same-named enums in several modules)")
    if not replay and not only:
        r.require_cov("kind:gostructs", "kind:pathstructs", "kind:proto")

    jobs = []
    meta = {}
    for sch, fn in cfgs:
        fs = FLAGSETS[fn]
        cid = "%s|%s" % (sch["id"], fn)
        base = os.path.join(work, "out", re.sub(r"[^A-Za-z0-9_.-]+", "_", cid))
        meta[cid] = dict(sch=sch, fs=fs, base=base, res={}, cmd=None)
        for k in range(n):
            od = os.path.join(base, "r%d" % k)
            cmd = build_cmd(bindir, sch, fs, os.path.join(base, "OUT"))
            # every run writes to its own directory, but the command line must be identical apart from that; the
            # output location is not embedded in the generated code
            cmd = [c.replace(os.path.join(base, "OUT"), od) for c in cmd]
            meta[cid]["cmd"] = meta[cid]["cmd"] or cmd
            jobs.append((cid, k, cmd, od, work))

    total_runs = 0
    distinct_hist = {}
    skipped_reasons = {}
    ncpu = min(16, os.cpu_count() or 4)
    t0 = time.time()
    with concurrent.futures.ThreadPoolExecutor(max_workers=ncpu) as ex:
        for cid, k, rc, out, dig in ex.map(run_one, jobs):
            total_runs += 1
            m = meta[cid]
            m["res"][k] = (rc, out, dig)
            if len(m["res"]) == n:
                finalize(r, work, cid, m, n, distinct_hist, skipped_reasons)

    # in-process variant
    inproc_runs = 0
    if not replay and "--no-inproc" not in extra:
        try:
            ov = vlib.overlay_for(work, {})
            vg = vlib.build_binary(work, ov, "./zzverif/cmd/vgenconc", os.path.join(work, "bin", "vgenconc"))
        except vlib.BuildError as e:
            vg = None
            r.assume("in-process variant not run: vgenconc did not build (%s)" % e.out[-300:])
        if vg:
            ip = inproc_plan(tier, seed, allcfgs)
            if only:
                ip = [(s, nme) for s, nme in ip if any(o in "%s|inproc-%s" % (s["id"], nme) for o in only)]
            ijobs = []
            for sch, nme in ip:
                kind, fl, _ = INPROC[nme]
                path, files = sch["path"], sch["files"]
                if nme.endswith("wrapper") and sch.get("nud"):
                    path, files = sch["nud"]["path"], sch["nud"]["files"]
                cmd = [vg, "-kind", kind, "-g", "8", "-rounds", "2", "-path", path] + fl
                if sch.get("exclude"):
                    cmd += ["-exclude_modules", sch["exclude"]]
                ijobs.append((sch, nme, kind, cmd + files))

            def runip(j):
                try:
                    rc, out = vlib.sh(j[3], cwd=work, timeout=900)
                except Exception as exn:
                    rc, out = -9, str(exn)
                return j, rc, out
            with concurrent.futures.ThreadPoolExecutor(max_workers=max(2, ncpu // 4)) as ex:
                for (sch, nme, kind, cmd), rc, out in ex.map(runip, ijobs):
                    inproc_runs += 16
                    finalize_inproc(r, work, sch, nme, kind, cmd, rc, out, distinct_hist, skipped_reasons)

    r.extra["runs"] = total_runs
    r.extra["inproc_generations"] = inproc_runs
    r.extra["programs"] = r.evals
    r.extra["runs_per_config"] = n
    r.extra["distinct_digests_per_config"] = dict(max=max([int(k) for k in distinct_hist] or [0]),
                                                  histogram=distinct_hist)
    r.extra["skipped_unsupported_reasons"] = dict(sorted(skipped_reasons.items(), key=lambda kv: -kv[1])[:25])
    r.extra["generator_wall_s"] = round(time.time() - t0, 1)
    r.extra["bindir"] = bindir
    if not os.environ.get("VERIF_KEEP_OUT"):
        shutil.rmtree(os.path.join(work, "out"), ignore_errors=True)
    return r.finish()


def norm_reason(out):
    lines = [l for l in out.splitlines() if l.strip()]
    first = next((l for l in lines if "rror" in l or l.startswith("F0")), lines[0] if lines else "?")
    first = re.sub(r"^[A-Z][0-9]+ [0-9:.]+ +[0-9]+ [^ ]+\] ", "", first)
    return vreport.norm_err(re.sub(r"/[^ :]+/", "", first))[:100]


def finalize(r, work, cid, m, n, distinct_hist, skipped_reasons):
    sch, fs = m["sch"], m["fs"]
    kind, fn = fs["kind"], fs["name"]
    res = [m["res"][k] for k in range(n)]
    rcs = [x[0] for x in res]
    nfail = sum(1 for c in rcs if c != 0)
    if nfail == n:
        r.case(cid, nontrivial=False)
        r.hit("skipped-unsupported")
        reason = norm_reason(res[0][1])
        skipped_reasons[reason] = skipped_reasons.get(reason, 0) + 1
        shutil.rmtree(m["base"], ignore_errors=True)
        return
    if nfail:
        ok = rcs.index(0)
        bad = next(i for i, c in enumerate(rcs) if c != 0)
        wd, _, _, yf = save_witness(work, cid, sch, fs, m["cmd"], m["base"], m["base"], None)
        r.violate("nondeterministic-exit", "%s:%s" % (kind, fn),
                  "generator exited non-zero in %d of %d runs on identical inputs (config %s): %s" % (nfail, n, cid, res[bad][1][-300:]),
                  dict(config=cid, schema_files=sch["files"], include_path=sch["path"], flagset=fn, cmd=m["cmd"],
                       exclude_modules=sch.get("exclude"), exit_codes=rcs, stderr_failing_run=res[bad][1], witness_dir=wd,
                       ok_run=ok, failing_run=bad))
        r.case(cid, nontrivial=False)
        return
    digs = [tuple(sorted(x[2].items())) for x in res]
    distinct = len(set(digs))
    distinct_hist[str(distinct)] = distinct_hist.get(str(distinct), 0) + 1
    nfiles = len(res[0][2])
    r.case(cid, nontrivial=nfiles >= 1)
    r.hit("kind:" + kind)
    r.hit("flagset:" + fn)
    r.hit("source:" + sch["source"])
    r.hit("files-per-run:%s" % ("1" if nfiles == 1 else "2-5" if nfiles <= 5 else ">5"))
    for ft in sch["feats"]:
        if ft.startswith(("hazard:", "name:camel", "augment", "identity:", "typedef:same", "union:typedef", "module:")):
            r.hit("schema-feature:" + ft)
    whole = hashlib.sha256(repr(digs[0]).encode()).hexdigest()[:16]
    r.sample(dict(config=cid, files=nfiles, runs=n, digest=whole, distinct_digests=distinct))
    if distinct > 1:
        a = 0
        b = next(i for i in range(n) if digs[i] != digs[0])
        da, db = os.path.join(m["base"], "r%d" % a), os.path.join(m["base"], "r%d" % b)
        fa, fb = res[a][2], res[b][2]
        if set(fa) != set(fb):
            wd, pa, pb, yf = save_witness(work, cid, sch, fs, m["cmd"], da, db, None)
            r.violate("nondeterministic-output", "%s:file-set" % kind,
                      "output file set differs between two runs of config %s: only in a: %s, only in b: %s"
                      % (cid, sorted(set(fa) - set(fb))[:5], sorted(set(fb) - set(fa))[:5]),
                      dict(config=cid, schema_files=yf or sch["files"], include_path=sch["path"], flagset=fn, cmd=m["cmd"],
                           exclude_modules=sch.get("exclude"), witness_dir=wd, runs=n, distinct_digests=distinct))
        for rel in sorted(set(fa) & set(fb)):
            if fa[rel] == fb[rel]:
                continue
            classes, excerpt = classify_files(os.path.join(da, rel), os.path.join(db, rel))
            new = [c for c in classes if "%s/nondeterministic-output/%s:%s:%s" % (PROP, kind, fn, c) not in r.viol]
            if new:
                # files are kept only for the first occurrence of a signature
                wd, pa, pb, yf = save_witness(work, cid + "." + rel, sch, fs, m["cmd"], da, db, rel)
            else:
                wd = pa = pb = None
                yf = []
            for cls in classes:
                r.violate("nondeterministic-output", "%s:%s" % (kind, cls),
                          "%d distinct outputs in %d runs of config %s; file %s differs (%s) between run %d and run %d: %s"
                          % (distinct, n, cid, rel, ",".join(classes), a, b, excerpt[:400]),
                          dict(config=cid, schema_files=yf or sch["files"],
                               include_path=os.path.dirname(yf[0]) if yf else sch["path"], flagset=fn,
                               cmd=m["cmd"], exclude_modules=sch.get("exclude"), differing_file=rel, file_a=pa, file_b=pb,
                               witness_dir=wd, classes=classes, diff_excerpt=excerpt, runs=n, distinct_digests=distinct,
                               sha256_a=fa[rel], sha256_b=fb[rel]))
    shutil.rmtree(m["base"], ignore_errors=True)


def finalize_inproc(r, work, sch, nme, kind, cmd, rc, out, distinct_hist, skipped_reasons):
    cid = "%s|inproc-%s" % (sch["id"], nme)
    try:
        d = json.loads(out.strip().splitlines()[-1])
        digs, errs = d["digests"], d["errors"]
    except Exception:
        # the process died (e.g. a data race inside goyang/ygot under concurrent use): not a determinism verdict
        r.case(cid, nontrivial=False)
        r.hit("inproc-no-verdict")
        r.extra.setdefault("inproc_no_verdict", []).append(dict(config=cid, exit=rc, tail=out[-400:]))
        return
    nerr = sum(1 for e in errs if e)
    if nerr == len(errs):
        r.case(cid, nontrivial=False)
        r.hit("skipped-unsupported")
        reason = "inproc: " + vreport.norm_err(errs[0])[:90]
        skipped_reasons[reason] = skipped_reasons.get(reason, 0) + 1
        return
    r.hit("kind:%s-inproc" % kind)
    r.hit("flagset:inproc-" + nme)
    if nerr:
        r.case(cid, nontrivial=False)
        r.violate("nondeterministic-exit", "%s-inproc:%s" % (kind, nme),
                  "%d of %d concurrent in-process generations failed, the others succeeded (config %s): %s"
                  % (nerr, len(errs), cid, next(e for e in errs if e)[:300]),
                  dict(config=cid, cmd=cmd, errors=errs, schema_files=sch["files"], include_path=sch["path"]))
        return
    distinct = len(set(digs))
    distinct_hist[str(distinct)] = distinct_hist.get(str(distinct), 0) + 1
    r.case(cid, nontrivial=d.get("bytes", 0) > 0)
    if distinct > 1:
        fd = d.get("first_diff", "")
        cls = "bytes"
        m = re.search(r"^--- (.*)$", fd, re.M)
        if m and BLOB_LINE.match(m.group(1)):
            cls = "schema-blob"
        elif m:
            blk = re.search(r"^block: (.*)$", fd, re.M)
            ctx = [blk.group(1) if blk else ""] + [m.group(1)]
            cls = classify_line(ctx, len(ctx) - 1)
        r.violate("nondeterministic-output", "%s-inproc:%s" % (kind, cls),
                  "%d distinct results in %d in-process generations (8 goroutines x 2) of config %s: %s"
                  % (distinct, len(digs), cid, fd[:400]),
                  dict(config=cid, cmd=cmd, digests=digs, first_diff=fd, schema_files=sch["files"], include_path=sch["path"]))


if __name__ == "__main__":
    tier = "quick"
    args = sys.argv[1:]
    if "--tier" in args:
        tier = args[args.index("--tier") + 1]
    sys.exit(run(tier, int(os.environ.get("VERIF_SEED", "1")), None, [a for a in args if a.startswith("--") and a != "--tier"]))
