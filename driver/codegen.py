"""Dispatcher for the code-generation properties C25-C29."""
import importlib


def run(prop, tier, seed, replay, extra):
    mod = importlib.import_module(prop.lower())
    return mod.run(tier, seed, replay, extra)
