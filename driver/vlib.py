"""Shared driver code: build substrate, code generation, overlay, run."""
import hashlib
import json
import os
import shutil
import subprocess
import sys
import time

VERIF = os.path.dirname(os.path.dirname(os.path.abspath(__file__)))
REPO = os.environ.get("VERIF_REPO", "/repo")
MODPATH = "github.com/openconfig/ygot"

COMMON_FLAGS = [
    "-generate_fakeroot", "-fakeroot_name=device", "-generate_append", "-generate_rename",
    "-generate_delete", "-generate_getters", "-generate_leaf_getters", "-generate_leaf_setters",
    "-generate_populate_defaults", "-yangpresence", "-include_schema",
]

# name -> (package, yang files, flags, attributes)
CFGS = {
    "vt/U-simple": dict(pkg="vtus", files=["vt.yang", "vt-aug.yang", "vt-undef.yang"], flags=["-generate_simple_unions"],
                        attrs=dict(Compressed=False, Wrapper=False)),
    "vt/U-wrapper": dict(pkg="vtuw", files=["vt.yang", "vt-aug.yang"], flags=[],
                         attrs=dict(Compressed=False, Wrapper=True)),
    "vtoc/C-simple": dict(pkg="vtocs", files=["openconfig-vtoc.yang"],
                          flags=["-compress_paths", "-generate_simple_unions", "-ignore_shadow_schema_paths"],
                          attrs=dict(Compressed=True, Wrapper=False, Shadow=True)),
    "vtoc/C-opstate": dict(pkg="vtoco", files=["openconfig-vtoc.yang"],
                           flags=["-compress_paths", "-prefer_operational_state", "-generate_simple_unions",
                                  "-ignore_shadow_schema_paths"],
                           attrs=dict(Compressed=True, Wrapper=False, OpState=True, Shadow=True)),
    "vtoc/C-wrapper": dict(pkg="vtocw", files=["openconfig-vtoc.yang"], flags=["-compress_paths"],
                           attrs=dict(Compressed=True, Wrapper=True)),
    # enum-naming flags (C17 in every tier; all data-plane monitors in the thorough tier)
    "vt/U-enumflags": dict(pkg="vtue", files=["vt.yang", "vt-aug.yang", "vt-undef.yang"],
                           flags=["-generate_simple_unions", "-shorten_enum_leaf_names", "-typedef_enum_with_defmod",
                                  "-enum_suffix_for_simple_union_enums", "-skip_enum_deduplication"],
                           attrs=dict(Compressed=False, Wrapper=False)),
    "vtoc/C-enumflags": dict(pkg="vtoce", files=["openconfig-vtoc.yang"],
                             flags=["-compress_paths", "-generate_simple_unions", "-ignore_shadow_schema_paths",
                                    "-shorten_enum_leaf_names", "-typedef_enum_with_defmod",
                                    "-enum_suffix_for_simple_union_enums", "-trim_enum_openconfig_prefix"],
                             attrs=dict(Compressed=True, Wrapper=False, Shadow=True)),
}


def goenv():
    env = dict(os.environ)
    env["GOFLAGS"] = "-mod=readonly"
    env["GOPROXY"] = "off"
    env.pop("GOTOOLCHAIN", None)
    env.pop("GOSUMDB", None)
    env.setdefault("HOME", "/root")
    return env


def sh(cmd, cwd=None, env=None, timeout=None, capture=True):
    p = subprocess.run(cmd, cwd=cwd, env=env or goenv(), timeout=timeout,
                       stdout=subprocess.PIPE if capture else None,
                       stderr=subprocess.STDOUT if capture else None, text=True)
    return p.returncode, (p.stdout or "")


class BuildError(Exception):
    def __init__(self, stage, out):
        super().__init__(stage)
        self.stage = stage
        self.out = out


def workdir(prop):
    # a development run against another tree (VERIF_REPO) gets its own scratch space
    suffix = "" if REPO == "/repo" else "@" + REPO.strip("/").replace("/", "_")
    w = os.path.join(VERIF, ".work", prop + suffix)
    os.makedirs(w, exist_ok=True)
    return w


def build_generators(work):
    bindir = os.path.join(work, "bin")
    os.makedirs(bindir, exist_ok=True)
    for name in ("generator", "proto_generator"):
        rc, out = sh(["go", "build", "-o", os.path.join(bindir, name), "./" + name], cwd=REPO)
        if rc != 0:
            raise BuildError("build " + name, out)
    return bindir


def generate_cfg(work, bindir, name, spec, extra_flags=None, outname=None):
    pkg = outname or spec["pkg"]
    outdir = os.path.join(work, "gen", pkg)
    shutil.rmtree(outdir, ignore_errors=True)
    os.makedirs(outdir)
    ydir = spec.get("ydir", os.path.join(VERIF, "schemas"))
    files = [f if os.path.isabs(f) else os.path.join(ydir, f) for f in spec["files"]]
    cmd = [os.path.join(bindir, "generator"), "-logtostderr", "-path=" + spec.get("path", ydir),
           "-output_file=" + os.path.join(outdir, pkg + ".go"), "-package_name=" + pkg]
    common = spec.get("common", COMMON_FLAGS)
    if spec.get("attrs", {}).get("Wrapper"):
        # wrapper unions do not support defaults in PopulateDefaults generation
        common = [f for f in common if f != "-generate_populate_defaults"]
    if spec.get("pathstructs"):
        cmd += ["-generate_path_structs", "-path_structs_output_file=" + os.path.join(outdir, pkg + "_path.go")]
    cmd += common + spec["flags"] + (extra_flags or []) + files
    rc, out = sh(cmd, cwd=work)
    if rc != 0:
        raise BuildError("generate " + name, out)
    return outdir


def overlay_for(work, gen_pkgs, extra=None):
    """Map /verif/harness/** and generated packages into /repo/zzverif/**."""
    rep = {}
    hroot = os.path.join(VERIF, "harness")
    for d, _, fs in os.walk(hroot):
        for f in fs:
            if f.endswith(".go"):
                src = os.path.join(d, f)
                rel = os.path.relpath(src, hroot)
                rep[os.path.join(REPO, "zzverif", rel)] = src
    for pkg, d in gen_pkgs.items():
        for f in os.listdir(d):
            if f.endswith(".go"):
                rep[os.path.join(REPO, "zzverif", "gen", pkg, f)] = os.path.join(d, f)
    for k, v in (extra or {}).items():
        rep[k] = v
    path = os.path.join(work, "overlay.json")
    with open(path, "w") as fh:
        json.dump({"Replace": rep}, fh, indent=1)
    return path


def write_shim(work, cfgs):
    d = os.path.join(work, "shim")
    os.makedirs(d, exist_ok=True)
    lines = ["// Code generated by vcheck. DO NOT EDIT.", "package cfgs", "", "import (",
             '\t"%s/zzverif/lib"' % MODPATH]
    for name, spec in cfgs.items():
        lines.append('\t%s "%s/zzverif/gen/%s"' % (spec["pkg"], MODPATH, spec["pkg"]))
    lines += [")", "", "func init() {"]
    for name, spec in cfgs.items():
        attrs = ", ".join("%s: %s" % (k, "true" if v else "false") for k, v in spec["attrs"].items())
        files = ", ".join(json.dumps(os.path.join(spec.get("ydir", os.path.join(VERIF, "schemas")), f)) for f in spec["files"])
        extra = ""
        if spec.get("pathstructs"):
            extra = ", PathRoot: func() interface{} { return %s.DeviceRoot(\"\") }" % spec["pkg"]
        lines.append('\tlib.Register(&lib.Cfg{Name: %s, SchemaFn: %s.Schema, YangFiles: []string{%s}, YangPath: %s, %s%s})'
                     % (json.dumps(name), spec["pkg"], files, json.dumps(spec.get("path", os.path.join(VERIF, "schemas"))), attrs, extra))
    lines += ["}", ""]
    p = os.path.join(d, "cfgs.go")
    with open(p, "w") as fh:
        fh.write("\n".join(lines))
    return {os.path.join(REPO, "zzverif", "cfgs", "cfgs.go"): p}


def build_binary(work, overlay, pkg, out, race=False, tags="verif", test=False, extra=None):
    cmd = ["go", "build", "-overlay", overlay, "-tags", tags, "-o", out]
    if test:
        cmd = ["go", "test", "-c", "-vet=off", "-overlay", overlay, "-tags", tags, "-o", out]
    if race:
        cmd.append("-race")
    cmd += (extra or []) + [pkg]
    rc, o = sh(cmd, cwd=REPO)
    if rc != 0:
        raise BuildError("build " + pkg, o)
    return out


def prepare_dataplane(prop, race=False, cfgs=None):
    """Build generators, generate all configurations, compile vmon."""
    work = workdir(prop)
    bindir = build_generators(work)
    cfgs = cfgs or CFGS
    gen = {}
    for name, spec in cfgs.items():
        gen[spec["pkg"]] = generate_cfg(work, bindir, name, spec)
    extra = write_shim(work, cfgs)
    ov = overlay_for(work, gen, extra)
    out = os.path.join(work, "bin", "vmon" + ("-race" if race else ""))
    build_binary(work, ov, "./zzverif/cmd/vmon", out, race=race)
    return work, out, ov


def fail_build(prop, e, work):
    log = os.path.join(work, "build-failure.log")
    with open(log, "w") as fh:
        fh.write(e.out)
    sys.stdout.write(e.out[-3000:] + "\n")
    if prop == "C26" and (e.stage.startswith("generate") or e.stage.startswith("build ./zzverif")):
        print("VIOLATION property=C26 replay=%s" % log)
        print("  generated code for the harness schemas does not build: %s" % e.stage)
        return 1
    print("INCONCLUSIVE property=%s build failed at stage '%s' (log %s)" % (prop, e.stage, log))
    return 2


def run_vmon(prop, binary, tier, seed, replay, extra, work, timeout=None, env_extra=None):
    cmd = [binary, "-prop", prop, "-tier", tier, "-seed", str(seed)]
    if replay:
        cmd += ["-replay", replay]
    cmd += extra
    env = goenv()
    env["VERIF_DIR"] = VERIF
    env["VERIF_WORK"] = work
    env.update(env_extra or {})
    log = os.path.join(work, "run.log")
    t0 = time.time()
    to = timeout or (900 if tier == "quick" else 7200)
    with open(log, "w") as fh:
        try:
            p = subprocess.run(cmd, cwd=VERIF, env=env, stdout=subprocess.PIPE, stderr=fh, text=True, timeout=to)
            out, rc = p.stdout, p.returncode
        except subprocess.TimeoutExpired as ex:
            out = (ex.stdout or b"").decode() if isinstance(ex.stdout, bytes) else (ex.stdout or "")
            sys.stdout.write(out)
            print("INCONCLUSIVE property=%s watchdog fired after %ds" % (prop, to))
            return 2
    sys.stdout.write(out)
    if "SUMMARY property=" not in out:
        # the monitor process died (fatal runtime error, os.Exit from a library, ...)
        tail = open(log).read()[-6000:]
        os.makedirs(os.path.join(VERIF, "replay"), exist_ok=True)
        rp = os.path.join(VERIF, "replay", "%s-crash.json" % prop)
        with open(rp, "w") as fh:
            json.dump({"property": prop, "signature": prop + "/fatal/process-died", "exit": rc, "stderr_tail": tail,
                       "cmd": cmd, "seed": seed, "tier": tier}, fh, indent=1)
        sys.stdout.write(tail[-2500:] + "\n")
        print("VIOLATION property=%s replay=%s" % (prop, rp))
        print("  monitor process died without a verdict (exit %s) after %.1fs" % (rc, time.time() - t0))
        return 1
    return rc


DATAPLANE = {"C01", "C02", "C03", "C04", "C05", "C06", "C07", "C08", "C09", "C10", "C11", "C12", "C13", "C14",
             "C15", "C16", "C17", "C18", "C19", "C20", "C22", "C23", "C24", "C30", "C31", "C32", "C33", "C34"}


def run_property(prop, tier, seed, replay, extra):
    try:
        if prop in DATAPLANE:
            cfgs = None
            if prop == "C10":
                # key-focused schema of its own (multi-key lists with decimal64 / 64-bit / union keys)
                cfgs = dict(CFGS)
                cfgs["vtk/U-simple"] = dict(pkg="vtkus", files=["vt-keys.yang"], flags=["-generate_simple_unions"],
                                            attrs=dict(Compressed=False, Wrapper=False))
            work, binary, ov = prepare_dataplane(prop, cfgs=cfgs)
            env_extra = None
            if prop == "C20" and tier == "thorough" and not replay:
                # coverage-guided native fuzz target (harness/fuzz), run by the monitor itself
                fz = os.path.join(work, "bin", "fuzzc20.test")
                build_binary(work, ov, "./zzverif/fuzz", fz, test=True, extra=["-fuzz=^FuzzC20$"])
                env_extra = {"VERIF_FUZZ_BIN": fz}
            return run_vmon(prop, binary, tier, seed, replay, extra, work, env_extra=env_extra)
        if prop == "C21":
            import race
            return race.run(tier, seed, replay, extra)
        if prop in ("C25", "C26", "C27", "C28", "C29"):
            import codegen
            return codegen.run(prop, tier, seed, replay, extra)
    except BuildError as e:
        return fail_build(prop, e, workdir(prop))
    print("unknown property", prop)
    return 2
