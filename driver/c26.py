"""C26: generated Go code compiles, vets, and matches the schema it embeds."""
import os
import shutil

import cgcommon
import vlib
import vreport


def vet(r, work, ok, ov):
    """go vet needs real directories: copy the working tree (8 MB) and the generated
    packages under the work dir, vet there, remove it."""
    tier_all = r.tier == "thorough"
    copy = os.path.join(work, "vetcopy")
    shutil.rmtree(copy, ignore_errors=True)
    rc, out = vlib.sh(["rsync", "-a", "--exclude", ".git", vlib.REPO + "/", copy + "/"])
    if rc != 0:
        r.inconclusive("cannot copy the tree for go vet: " + out[-200:])
        return
    names = sorted(ok)
    if not tier_all:
        names = [n for n in names if n.startswith("vt")][:2] + [n for n in names if n.startswith("rnd-")][:2]
    try:
        for name in names:
            spec = ok[name]
            dst = os.path.join(copy, "zzverif", "gen", spec["pkg"])
            os.makedirs(dst, exist_ok=True)
            src = os.path.join(work, "gen", spec["pkg"])
            for f in os.listdir(src):
                shutil.copy(os.path.join(src, f), dst)
            rc, out = vlib.sh(["go", "vet", "./zzverif/gen/" + spec["pkg"]], cwd=copy)
            r.case("vet " + name, True)
            r.hit("vetted")
            if rc != 0:
                lines = [l for l in out.splitlines() if ".go:" in l]
                cls = vreport.norm_err(lines[0].split(": ", 1)[-1]) if lines else "vet-error"
                r.violate("go-vet", cls, out[:1500], dict(cfg=name, yang_dir=spec.get("ydir"), flags=spec["flags"], output=out[:4000]))
    finally:
        shutil.rmtree(copy, ignore_errors=True)


def run(tier, seed, replay, extra):
    return cgcommon.run_reflective("C26", tier, seed, replay, extra, post=vet)
