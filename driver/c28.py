"""C28: generated protobufs are well-formed.

Events   proto_generator (built from the working tree) is run on
           (a) the harness schemas (schemas/*.yang),
           (b) the repository corpus,
           (c) seeded random schemas (driver/yanggen.py when present, else a local generator),
           (d) adversarial schemas: sibling names found with a Python re-implementation of
               protogen's fieldTag (FNV-1/32 of the schema path & (2^29-1)) whose numbers collide,
               land on 0, on the range borders, inside 1..1000 / 19000..19999, identity names
               whose enum numbers collide, names that become equal after sanitisation, ...
Oracle   a recursive-descent proto3 parser written here (no protoc offline) must accept every
         generated file; per message distinct field names / numbers (oneof members share the
         message's number space), 1 <= number <= 2^29-1 and not in 19000..19999; per enum distinct
         value names / numbers, first value 0, numbers in int32; imports and type names resolve
         (protoc scoping rules); symbols of one scope are distinct; default JSON names of the
         fields of one message are distinct (protoc rejects such proto3 files); numbers are
         identical across two runs and when an unrelated leaf / module is added.
A generator refusal (non-zero exit) is not a violation: the property speaks about emitted files.

Environment: VERIF_GENERATOR_BIN_DIR=<dir with proto_generator> checks that binary instead of building
/repo's working tree (used for kill tests against a modified copy of the repository).
Replay: ./vcheck C28 --replay replay/C28-<hash>.json re-runs the witness schema with its option set.
"""
import concurrent.futures
import glob
import json
import os
import random
import re
import shutil
import subprocess
import sys
import time

import vlib
import vreport

PROP = "C28"
REPO = vlib.REPO
M32 = 0xFFFFFFFF
M29 = 0x1FFFFFFF
FNV_OFFSET = 2166136261
FNV_PRIME = 16777619
FNV_PRIME_INV = pow(FNV_PRIME, -1, 1 << 32)
MAX_FIELD = (1 << 29) - 1
YWRAPPER_DEFAULT = "github.com/openconfig/ygot/proto/ywrapper"
YEXT_DEFAULT = "github.com/openconfig/ygot/proto/yext"


# ----------------------------------------------------------------------------------------------
# Re-implementation of protogen.fieldTag (oracle side; never calls ygot)
# ----------------------------------------------------------------------------------------------

def fnv1_32(data, h=FNV_OFFSET):
    for b in data:
        h = ((h * FNV_PRIME) & M32) ^ b
    return h


def raw_tag(s):
    return fnv1_32(s.encode()) & M29


def in_retry_range(v):
    return (19000 <= v <= 19999) or (0 <= v <= 1000)


def field_tag(s):
    """protogen.fieldTag as of the pinned tree: retry with '_' appended while in 1..1000 / 19000..19999."""
    for _ in range(64):
        v = raw_tag(s)
        if not in_retry_range(v):
            return v
        s += "_"
    return v


# ----------------------------------------------------------------------------------------------
# proto3 parser
# ----------------------------------------------------------------------------------------------

class ParseError(Exception):
    def __init__(self, kind, line, got=""):
        super().__init__("%s (line %d, got %r)" % (kind, line, got))
        self.kind, self.line, self.got = kind, line, got


TOK_RE = re.compile(r"""
  (?P<ws>\s+)
 |(?P<lc>//[^\n]*)
 |(?P<bc>/\*.*?\*/)
 |(?P<float>\d+\.\d*(?:[eE][+-]?\d+)?|\d+[eE][+-]?\d+|\.\d+(?:[eE][+-]?\d+)?)
 |(?P<int>0[xX][0-9a-fA-F]+|\d+)
 |(?P<ident>[A-Za-z_][A-Za-z0-9_]*)
 |(?P<str>"(?:[^"\\\n]|\\[^\n])*"|'(?:[^'\\\n]|\\[^\n])*')
 |(?P<sym>[;{}\[\]()<>=,.\-+:])
""", re.X | re.S)

ESC_RE = re.compile(r"""\\(?:[abfnrtv\\'"?]|[xX][0-9a-fA-F]{1,2}|[0-7]{1,3}|u[0-9a-fA-F]{4}|U000[0-9a-fA-F]{5}|U0010[0-9a-fA-F]{4})""")

SCALARS = {"double", "float", "int32", "int64", "uint32", "uint64", "sint32", "sint64", "fixed32", "fixed64",
           "sfixed32", "sfixed64", "bool", "string", "bytes"}
MAP_KEY_TYPES = SCALARS - {"double", "float", "bytes"}


def tokenize(text):
    toks = []
    pos, line, n = 0, 1, len(text)
    while pos < n:
        m = TOK_RE.match(text, pos)
        if not m:
            ch = text[pos]
            if ch in "\"'":
                raise ParseError("unterminated or multi-line string literal", line, text[pos:pos + 30])
            if ch == "/":
                raise ParseError("stray '/' or unterminated block comment", line, text[pos:pos + 10])
            raise ParseError("invalid character", line, ch)
        kind = m.lastgroup
        s = m.group()
        if kind in ("int", "float"):
            if m.end() < n and (text[m.end()].isalpha() or text[m.end()] == "_"):
                raise ParseError("need space between number and identifier", line, text[pos:m.end() + 4])
            if kind == "int" and len(s) > 1 and s[0] == "0" and s[1] not in "xX" and re.search("[89]", s):
                raise ParseError("invalid octal literal", line, s)
        if kind == "str":
            body = s[1:-1]
            rest = ESC_RE.sub("", body)
            if "\\" in rest:
                raise ParseError("invalid escape sequence in string literal", line, s[:40])
        if kind not in ("ws", "lc", "bc"):
            toks.append((kind, s, line))
        line += s.count("\n")
        pos = m.end()
    toks.append(("eof", "", line))
    return toks


def unquote(s):
    body = s[1:-1]

    def rep(m):
        e = m.group()[1:]
        simple = {"a": "\a", "b": "\b", "f": "\f", "n": "\n", "r": "\r", "t": "\t", "v": "\v", "\\": "\\", "'": "'",
                  '"': '"', "?": "?"}
        if e in simple:
            return simple[e]
        if e[0] in "xX":
            return chr(int(e[1:], 16))
        if e[0] in "uU":
            return chr(int(e[1:], 16))
        return chr(int(e, 8) & 0xFF)
    return ESC_RE.sub(rep, body)


def intval(s):
    if s[:2] in ("0x", "0X"):
        return int(s, 16)
    if len(s) > 1 and s[0] == "0":
        return int(s, 8)
    return int(s)


class Parser:
    def __init__(self, text):
        self.toks = tokenize(text)
        self.i = 0

    def peek(self, k=0):
        return self.toks[min(self.i + k, len(self.toks) - 1)]

    def next(self):
        t = self.toks[self.i]
        if self.i < len(self.toks) - 1:
            self.i += 1
        return t

    def at(self, kind, val=None, k=0):
        t = self.peek(k)
        return t[0] == kind and (val is None or t[1] == val)

    def at_sym(self, val, k=0):
        return self.at("sym", val, k)

    def at_kw(self, val, k=0):
        return self.at("ident", val, k)

    def expect_sym(self, val, ctx):
        t = self.next()
        if t[0] != "sym" or t[1] != val:
            raise ParseError("expected '%s' %s" % (val, ctx), t[2], t[1] or t[0])
        return t

    def expect_ident(self, ctx):
        t = self.next()
        if t[0] != "ident":
            raise ParseError("expected identifier %s" % ctx, t[2], t[1] or t[0])
        return t

    def full_ident(self, ctx, leading_dot=True):
        s = ""
        if leading_dot and self.at_sym("."):
            self.next()
            s = "."
        s += self.expect_ident(ctx)[1]
        while self.at_sym(".") and self.at("ident", None, 1):
            self.next()
            s += "." + self.next()[1]
        return s

    def str_lit(self, ctx):
        t = self.next()
        if t[0] != "str":
            raise ParseError("expected string literal %s" % ctx, t[2], t[1] or t[0])
        v = unquote(t[1])
        while self.at("str"):
            v += unquote(self.next()[1])
        return v

    def int_lit(self, ctx, allow_neg=False):
        neg = False
        if self.at_sym("-"):
            if not allow_neg:
                t = self.peek()
                raise ParseError("negative number not allowed %s" % ctx, t[2], "-")
            self.next()
            neg = True
        t = self.next()
        if t[0] != "int":
            raise ParseError("expected integer %s" % ctx, t[2], t[1] or t[0])
        v = intval(t[1])
        return -v if neg else v

    # constant = fullIdent | [+-] int | [+-] float | strLit | aggregate
    def constant(self, ctx):
        t = self.peek()
        if t[0] == "str":
            return ("str", self.str_lit(ctx))
        if t[0] == "sym" and t[1] in "+-":
            self.next()
            u = self.next()
            if u[0] == "int":
                return ("int", intval(u[1]) * (-1 if t[1] == "-" else 1))
            if u[0] == "float":
                return ("float", t[1] + u[1])
            if u[0] == "ident" and u[1] in ("inf", "nan"):
                return ("float", t[1] + u[1])
            raise ParseError("expected number after sign %s" % ctx, u[2], u[1] or u[0])
        if t[0] == "int":
            self.next()
            return ("int", intval(t[1]))
        if t[0] == "float":
            self.next()
            return ("float", t[1])
        if t[0] == "ident":
            return ("ident", self.full_ident(ctx, leading_dot=False))
        if t[0] == "sym" and t[1] == "{":
            depth = 0
            start = t[2]
            while True:
                u = self.next()
                if u[0] == "eof":
                    raise ParseError("unterminated aggregate option value", start, "")
                if u[0] == "sym" and u[1] == "{":
                    depth += 1
                elif u[0] == "sym" and u[1] == "}":
                    depth -= 1
                    if depth == 0:
                        return ("aggregate", None)
        raise ParseError("expected option value %s" % ctx, t[2], t[1] or t[0])

    def option_name(self, ctx):
        parts = []
        while True:
            if self.at_sym("("):
                self.next()
                parts.append("(" + self.full_ident(ctx) + ")")
                self.expect_sym(")", "closing extension option name " + ctx)
            else:
                parts.append(self.expect_ident("as option name " + ctx)[1])
            if self.at_sym("."):
                self.next()
                continue
            return ".".join(parts)

    def option_stmt(self):
        self.next()  # option
        name = self.option_name("in option statement")
        self.expect_sym("=", "in option statement")
        val = self.constant("in option statement")
        self.expect_sym(";", "after option statement")
        return (name, val)

    def bracket_options(self, ctx):
        opts = []
        if not self.at_sym("["):
            return opts
        self.next()
        while True:
            name = self.option_name(ctx)
            self.expect_sym("=", "in %s" % ctx)
            val = self.constant(ctx)
            opts.append((name, val))
            if self.at_sym(","):
                self.next()
                continue
            break
        self.expect_sym("]", "closing %s" % ctx)
        return opts

    def parse_file(self):
        f = dict(syntax=None, package=None, imports=[], options=[], messages=[], enums=[], services=[], extends=[])
        first = True
        while not self.at("eof"):
            t = self.peek()
            if t[0] == "sym" and t[1] == ";":
                self.next()
                continue
            if t[0] != "ident":
                raise ParseError("expected top-level statement", t[2], t[1] or t[0])
            kw = t[1]
            if kw == "syntax":
                if not first:
                    raise ParseError("syntax statement must be the first statement", t[2], kw)
                self.next()
                self.expect_sym("=", "after syntax")
                f["syntax"] = self.str_lit("as syntax")
                self.expect_sym(";", "after syntax statement")
            elif kw == "import":
                self.next()
                mod = ""
                if self.at_kw("weak") or self.at_kw("public"):
                    mod = self.next()[1]
                p = self.str_lit("as import path")
                self.expect_sym(";", "after import")
                f["imports"].append((p, mod, t[2]))
            elif kw == "package":
                self.next()
                if f["package"] is not None:
                    raise ParseError("multiple package definitions", t[2], kw)
                f["package"] = self.full_ident("as package name", leading_dot=False)
                self.expect_sym(";", "after package")
            elif kw == "option":
                f["options"].append(self.option_stmt())
            elif kw == "message":
                f["messages"].append(self.message())
            elif kw == "enum":
                f["enums"].append(self.enum())
            elif kw == "service":
                f["services"].append(self.service())
            elif kw == "extend":
                f["extends"].append(self.extend())
            else:
                raise ParseError("expected top-level statement", t[2], kw)
            first = False
        return f

    def message(self):
        start = self.next()  # message
        name = self.expect_ident("as message name")
        self.expect_sym("{", "after message name")
        m = dict(name=name[1], line=start[2], fields=[], oneofs=[], messages=[], enums=[], reserved=[],
                 reserved_names=[], options=[], extends=[])
        while True:
            t = self.peek()
            if t[0] == "eof":
                raise ParseError("unexpected end of file in message body", t[2], "")
            if t[0] == "sym" and t[1] == "}":
                self.next()
                m["end_line"] = t[2]
                return m
            if t[0] == "sym" and t[1] == ";":
                self.next()
                continue
            if t[0] == "ident":
                kw = t[1]
                n1, n2 = self.peek(1), self.peek(2)
                if kw == "message" and n1[0] == "ident" and n2[0] == "sym" and n2[1] == "{":
                    m["messages"].append(self.message())
                    continue
                if kw == "enum" and n1[0] == "ident" and n2[0] == "sym" and n2[1] == "{":
                    m["enums"].append(self.enum())
                    continue
                if kw == "oneof" and n1[0] == "ident" and n2[0] == "sym" and n2[1] == "{":
                    self.oneof(m)
                    continue
                if kw == "option" and (n1[0] == "ident" or (n1[0] == "sym" and n1[1] == "(")) and not (
                        n2[0] == "sym" and n2[1] == "="and n1[0] == "ident" and self.peek(3)[0] == "int"
                        and self.peek(4)[1] in (";", "[")):
                    m["options"].append(self.option_stmt())
                    continue
                if kw == "reserved" and (n1[0] in ("int", "str")):
                    self.reserved(m)
                    continue
                if kw == "extensions" and n1[0] == "int":
                    raise ParseError("extension ranges are not allowed in proto3", t[2], kw)
                if kw == "extend" and n1[0] in ("ident",) and (n2[1] in ("{", ".")):
                    m["extends"].append(self.extend())
                    continue
                if kw == "group" or (kw in ("optional", "repeated", "required") and n1[1] == "group"):
                    if (kw == "group" and n1[0] == "ident" and n2[1] == "=") and self.peek(4)[1] == "{" or kw != "group":
                        raise ParseError("groups are not allowed in proto3", t[2], kw)
                if kw == "map" and n1[0] == "sym" and n1[1] == "<":
                    m["fields"].append(self.map_field())
                    continue
            m["fields"].append(self.field(None))

    def field(self, oneof):
        t = self.peek()
        label = ""
        if t[0] == "ident" and t[1] in ("repeated", "optional", "required") and not (
                self.peek(1)[0] == "sym" and self.peek(1)[1] == "="):
            # a label, unless this is a type called e.g. 'repeated' (then next would be an ident followed by '=')
            n1, n2 = self.peek(1), self.peek(2)
            is_type_named_like_label = n1[0] == "ident" and n2[0] == "sym" and n2[1] == "="
            if not is_type_named_like_label:
                label = self.next()[1]
                if label == "required":
                    raise ParseError("required fields are not allowed in proto3", t[2], label)
                if oneof is not None:
                    raise ParseError("fields in oneofs must not have labels", t[2], label)
        if self.peek()[0] not in ("ident",) and not self.at_sym("."):
            u = self.peek()
            raise ParseError("expected field type", u[2], u[1] or u[0])
        ftype = self.full_ident("as field type")
        name = self.expect_ident("as field name")
        self.expect_sym("=", "after field name")
        num = self.int_lit("as field number")
        opts = self.bracket_options("field options")
        self.expect_sym(";", "after field")
        for oname, _ in opts:
            if oname == "default":
                raise ParseError("explicit default values are not allowed in proto3", name[2], "default")
        return dict(name=name[1], number=num, type=ftype, label=label, oneof=oneof, options=opts, line=name[2])

    def map_field(self):
        self.next()
        self.expect_sym("<", "after map")
        kt = self.expect_ident("as map key type")
        if kt[1] not in MAP_KEY_TYPES:
            raise ParseError("invalid map key type", kt[2], kt[1])
        self.expect_sym(",", "in map type")
        vt = self.full_ident("as map value type")
        self.expect_sym(">", "closing map type")
        name = self.expect_ident("as field name")
        self.expect_sym("=", "after field name")
        num = self.int_lit("as field number")
        opts = self.bracket_options("field options")
        self.expect_sym(";", "after field")
        return dict(name=name[1], number=num, type=vt, label="map", oneof=None, options=opts, line=name[2],
                    map_key=kt[1])

    def oneof(self, m):
        self.next()
        name = self.expect_ident("as oneof name")
        self.expect_sym("{", "after oneof name")
        cnt = 0
        while True:
            t = self.peek()
            if t[0] == "eof":
                raise ParseError("unexpected end of file in oneof body", t[2], "")
            if t[0] == "sym" and t[1] == "}":
                self.next()
                break
            if t[0] == "sym" and t[1] == ";":
                self.next()
                continue
            if t[0] == "ident" and t[1] == "option" and not (self.peek(2)[1] == "=" and self.peek(3)[0] == "int"):
                self.option_stmt()
                continue
            m["fields"].append(self.field(name[1]))
            cnt += 1
        if cnt == 0:
            raise ParseError("oneof must have at least one field", name[2], name[1])
        m["oneofs"].append(dict(name=name[1], line=name[2]))

    def reserved(self, m):
        self.next()
        if self.at("str"):
            while True:
                m["reserved_names"].append(self.str_lit("as reserved name"))
                if self.at_sym(","):
                    self.next()
                    continue
                break
        else:
            while True:
                lo = self.int_lit("as reserved number", allow_neg=True)
                hi = lo
                if self.at_kw("to"):
                    self.next()
                    if self.at_kw("max"):
                        self.next()
                        hi = None
                    else:
                        hi = self.int_lit("as reserved range end", allow_neg=True)
                m["reserved"].append((lo, hi))
                if self.at_sym(","):
                    self.next()
                    continue
                break
        self.expect_sym(";", "after reserved")

    def enum(self):
        start = self.next()
        name = self.expect_ident("as enum name")
        self.expect_sym("{", "after enum name")
        e = dict(name=name[1], line=start[2], values=[], options=[], reserved=[], reserved_names=[])
        while True:
            t = self.peek()
            if t[0] == "eof":
                raise ParseError("unexpected end of file in enum body", t[2], "")
            if t[0] == "sym" and t[1] == "}":
                self.next()
                e["end_line"] = t[2]
                break
            if t[0] == "sym" and t[1] == ";":
                self.next()
                continue
            if t[0] == "ident" and t[1] == "option" and not (self.peek(1)[0] == "sym" and self.peek(1)[1] == "="):
                e["options"].append(self.option_stmt())
                continue
            if t[0] == "ident" and t[1] == "reserved" and self.peek(1)[0] in ("int", "str") or (
                    t[0] == "ident" and t[1] == "reserved" and self.peek(1)[1] == "-"):
                self.reserved(e)
                continue
            vn = self.expect_ident("as enum value name")
            self.expect_sym("=", "after enum value name")
            num = self.int_lit("as enum value number", allow_neg=True)
            opts = self.bracket_options("enum value options")
            self.expect_sym(";", "after enum value")
            e["values"].append(dict(name=vn[1], number=num, options=opts, line=vn[2]))
        if not e["values"]:
            raise ParseError("enum must contain at least one value", name[2], name[1])
        return e

    def service(self):
        self.next()
        name = self.expect_ident("as service name")
        self.expect_sym("{", "after service name")
        s = dict(name=name[1], rpcs=[])
        while True:
            t = self.peek()
            if t[0] == "eof":
                raise ParseError("unexpected end of file in service body", t[2], "")
            if self.at_sym("}"):
                self.next()
                return s
            if self.at_sym(";"):
                self.next()
                continue
            if self.at_kw("option"):
                self.option_stmt()
                continue
            if not self.at_kw("rpc"):
                raise ParseError("expected rpc in service body", t[2], t[1] or t[0])
            self.next()
            rn = self.expect_ident("as rpc name")
            types = []
            for part in ("request", "response"):
                self.expect_sym("(", "before rpc %s type" % part)
                if self.at_kw("stream") and not self.at_sym(")", 1) and not self.at_sym(".", 1):
                    self.next()
                types.append(self.full_ident("as rpc %s type" % part))
                self.expect_sym(")", "after rpc %s type" % part)
                if part == "request":
                    u = self.next()
                    if u[0] != "ident" or u[1] != "returns":
                        raise ParseError("expected 'returns' in rpc", u[2], u[1] or u[0])
            if self.at_sym("{"):
                self.next()
                while not self.at_sym("}"):
                    if self.at("eof"):
                        raise ParseError("unexpected end of file in rpc body", t[2], "")
                    if self.at_sym(";"):
                        self.next()
                    elif self.at_kw("option"):
                        self.option_stmt()
                    else:
                        u = self.peek()
                        raise ParseError("expected option in rpc body", u[2], u[1] or u[0])
                self.next()
            else:
                self.expect_sym(";", "after rpc")
            s["rpcs"].append(dict(name=rn[1], types=types))

    def extend(self):
        self.next()
        ext = self.full_ident("as extendee")
        self.expect_sym("{", "after extendee")
        fields = []
        while True:
            t = self.peek()
            if t[0] == "eof":
                raise ParseError("unexpected end of file in extend body", t[2], "")
            if self.at_sym("}"):
                self.next()
                return dict(extendee=ext, fields=fields)
            if self.at_sym(";"):
                self.next()
                continue
            fields.append(self.field(None))


def parse_proto(text):
    return Parser(text).parse_file()


# ----------------------------------------------------------------------------------------------
# semantic checks on a set of generated files
# ----------------------------------------------------------------------------------------------

_builtin_cache = {}


def builtin_files():
    """ywrapper.proto / yext.proto parsed from the repository (they are inputs of protoc, not outputs of
    protogen) plus a stub for the well-known google/protobuf files."""
    if _builtin_cache:
        return _builtin_cache
    for key, rel in (("ywrapper", "proto/ywrapper/ywrapper.proto"), ("yext", "proto/yext/yext.proto")):
        p = os.path.join(REPO, rel)
        try:
            _builtin_cache[key] = parse_proto(open(p).read())
        except (OSError, ParseError):
            _builtin_cache[key] = None
    return _builtin_cache


WELL_KNOWN = {
    "google/protobuf/any.proto": ["Any"],
    "google/protobuf/descriptor.proto": ["FileOptions", "MessageOptions", "FieldOptions", "EnumOptions",
                                         "EnumValueOptions", "OneofOptions", "ServiceOptions", "MethodOptions"],
    "google/protobuf/timestamp.proto": ["Timestamp"],
    "google/protobuf/duration.proto": ["Duration"],
    "google/protobuf/empty.proto": ["Empty"],
    "google/protobuf/struct.proto": ["Struct", "Value", "ListValue", "NullValue"],
    "google/protobuf/field_mask.proto": ["FieldMask"],
    "google/protobuf/wrappers.proto": ["DoubleValue", "FloatValue", "Int64Value", "UInt64Value", "Int32Value",
                                       "UInt32Value", "BoolValue", "StringValue", "BytesValue"],
}


def json_name(n):
    out, cap = [], False
    for ch in n:
        if ch == "_":
            cap = True
        elif cap:
            out.append(ch.upper() if "a" <= ch <= "z" else ch)
            cap = False
        else:
            out.append(ch)
    return "".join(out)


def excerpt(lines, nums, ctx=0):
    out = []
    seen = set()
    for n in nums:
        for k in range(n - ctx, n + ctx + 1):
            if 1 <= k <= len(lines) and k not in seen:
                seen.add(k)
                out.append("%d: %s" % (k, lines[k - 1]))
    return out


class Checker:
    """Checks one generated file set. files: {relative path: text}; cfg: base_import, ywrapper_path, yext_path."""

    def __init__(self, files, cfg):
        self.files = files
        self.cfg = cfg
        self.viol = []
        self.stats = dict(files_parsed=0, messages=0, fields=0, enums=0, enum_values=0, oneofs=0, imports=0,
                          type_refs=0)
        self.numbers = {}
        self.enum_numbers = {}
        self.max_fields_in_msg = 0
        self.parsed = {}
        self.lines = {}
        self.symbols = {}      # full name -> (kind, import path of defining file)
        self.enum_kinds = {}   # full enum name -> identity-enum / typedef-enum / message-enum
        self.enum_info = []    # (file, full name, kind, values)
        self.checks = set()
        self.clashed = set()

    def v(self, clause, features, detail, path=None, lines=()):
        ex = excerpt(self.lines.get(path, []), lines) if path else []
        self.viol.append(dict(clause=clause, features=features, detail=detail, file=path, excerpt=ex))

    def import_name(self, rel):
        base = self.cfg.get("base_import", "")
        return os.path.normpath(os.path.join(base, rel)) if base else rel

    def run(self):
        for rel in sorted(self.files):
            text = self.files[rel]
            self.lines[rel] = text.split("\n")
            try:
                self.parsed[rel] = parse_proto(text)
                self.stats["files_parsed"] += 1
            except ParseError as e:
                self.v("parse-error", vreport.norm_err(e.kind),
                       "generated file %s is not valid proto3: %s" % (rel, e), rel, range(max(1, e.line - 2), e.line + 2))
            except RecursionError:
                self.v("parse-error", "parser-recursion-limit", "message nesting too deep in %s" % rel, rel)
        self.checks.add("parse")
        self.build_symbols()
        for rel, f in sorted(self.parsed.items()):
            self.check_file(rel, f)
        self.check_import_cycles()
        return self

    # -- symbol table ---------------------------------------------------------------------------
    def add_symbol(self, full, kind, imp, rel=None, line=None):
        if full in self.symbols:
            okind, oimp, orel, oline = self.symbols[full]
            if kind == "package" and okind == "package":
                return
            kinds = "+".join(sorted([kind, okind]))
            self.clashed.add(full)
            if kinds == "field+field":
                return  # reported as duplicate-field-name
            fam = {"field": "member", "oneof": "member", "message": "type", "enum": "type", "extension": "member",
                   "service": "type"}
            if "package" not in kinds:
                # families instead of exact kinds: protogen keeps no common name space per message scope, which
                # member kind meets which type kind depends on the concrete names only
                kinds = "+".join(sorted([fam.get(kind, kind), fam.get(okind, okind)]))
            if "package" in kinds:
                # -package_hierarchy derives package names from node names: a node called 'Top' gives package
                # '<parent>.Top' next to message '<parent>.Top'; everything below clashes as a consequence
                kinds = "package+non-package"
            if rel is not None:
                self.v("duplicate-symbol", kinds,
                       "symbol %s defined twice (%s and %s); protoc: '... is already defined in ...'" % (full, okind, kind),
                       rel, [l for l in (oline if orel == rel else None, line) if l])
            return
        self.symbols[full] = (kind, imp, rel, line)

    def add_package(self, pkg, imp):
        parts = pkg.split(".")
        for i in range(1, len(parts) + 1):
            self.add_symbol(".".join(parts[:i]), "package", imp)

    def sym_msg(self, scope, m, imp, rel):
        full = scope + "." + m["name"] if scope else m["name"]
        if full in self.symbols and self.symbols[full][0] in ("message", "enum"):
            # second definition of the same type name: report it, but do not register what is below it (every
            # member would clash with the first definition's members as a mere consequence)
            self.add_symbol(full, "message", imp, rel, m["line"])
            return
        self.add_symbol(full, "message", imp, rel, m["line"])
        for f in m["fields"]:
            self.add_symbol(full + "." + f["name"], "field", imp, rel, f["line"])
        for o in m["oneofs"]:
            self.add_symbol(full + "." + o["name"], "oneof", imp, rel, o["line"])
        for e in m["enums"]:
            self.sym_enum(full, e, imp, rel, "message-enum")
        for c in m["messages"]:
            self.sym_msg(full, c, imp, rel)
        for x in m.get("extends", []):
            for f in x["fields"]:
                self.add_symbol(full + "." + f["name"], "extension", imp, rel, f["line"])

    def sym_enum(self, scope, e, imp, rel, kind):
        full = scope + "." + e["name"] if scope else e["name"]
        dup = full in self.symbols and self.symbols[full][0] in ("message", "enum")
        self.add_symbol(full, "enum", imp, rel, e["line"])
        if rel is not None:
            self.enum_kinds.setdefault(full, kind)
        if dup:
            return
        seen = set()
        for val in e["values"]:
            # enum values are siblings of their type (C++ scoping rules); duplicates inside one enum are
            # reported as enum-duplicate-name
            if val["name"] in seen:
                continue
            seen.add(val["name"])
            vfull = scope + "." + val["name"] if scope else val["name"]
            self.add_symbol(vfull, "enum-value", imp, rel, val["line"])

    def sym_file(self, f, imp, rel):
        pkg = f["package"] or ""
        if pkg:
            self.add_package(pkg, imp)
        for m in f["messages"]:
            self.sym_msg(pkg, m, imp, rel)
        for e in f["enums"]:
            kind = "global-enum"
            if rel is not None:
                mm = re.search(r"//\s*%s represents an enumerated type generated for the YANG (identity|enumerated type)"
                               % re.escape(e["name"]), self.files[rel])
                if mm:
                    kind = "identity-enum" if mm.group(1) == "identity" else "typedef-enum"
            self.sym_enum(pkg, e, imp, rel, kind)
        for x in f["extends"]:
            for fl in x["fields"]:
                self.add_symbol((pkg + "." if pkg else "") + fl["name"], "extension", imp, rel, fl["line"])
        for s in f["services"]:
            self.add_symbol((pkg + "." if pkg else "") + s["name"], "service", imp, rel)

    def build_symbols(self):
        b = builtin_files()
        self.known_imports = {}
        yw = os.path.join(self.cfg.get("ywrapper_path", YWRAPPER_DEFAULT), "ywrapper.proto")
        yx = os.path.join(self.cfg.get("yext_path", YEXT_DEFAULT), "yext.proto")
        for key, imp in (("ywrapper", yw), ("yext", yx)):
            self.known_imports[imp] = "builtin"
            if b.get(key):
                self.sym_file(b[key], imp, None)
        for imp, names in WELL_KNOWN.items():
            self.known_imports[imp] = "well-known"
            self.add_package("google.protobuf", imp)
            for n in names:
                self.add_symbol("google.protobuf." + n, "message", imp)
        self.known_imports["github.com/openconfig/gnmi/proto/gnmi/gnmi.proto"] = "well-known"
        for rel, f in sorted(self.parsed.items()):
            imp = self.import_name(rel)
            self.known_imports[imp] = rel
            self.sym_file(f, imp, rel)

    # -- per file -------------------------------------------------------------------------------
    def check_file(self, rel, f):
        if f["syntax"] != "proto3":
            self.v("parse-error", "syntax-not-proto3", "file %s has syntax %r" % (rel, f["syntax"]), rel, [1])
        if not f["package"]:
            self.v("parse-error", "no-package", "file %s has no package statement" % rel, rel, [1])
        seen = {}
        me = self.import_name(rel)
        imported = {me}
        for p, mod, line in f["imports"]:
            self.stats["imports"] += 1
            if p in seen:
                self.v("duplicate-import", "same-path", "import %r listed twice in %s (protoc: 'was listed twice')" % (p, rel),
                       rel, [seen[p], line])
            seen[p] = line
            if p == me:
                self.v("unresolved-import", "self-import", "file %s imports itself" % rel, rel, [line])
            elif p not in self.known_imports:
                kind = "empty-file-name" if os.path.basename(p) == ".proto" else "generated-path" if (not self.cfg.get("base_import") or p.startswith(self.cfg["base_import"])) \
                    and not p.startswith("google/") and not p.startswith("github.com/openconfig/ygot/proto") else "external-path"
                self.v("unresolved-import", kind,
                       "import %r in %s is neither a generated file nor a ywrapper/yext/well-known file" % (p, rel), rel, [line])
            imported.add(p)
        self.checks.add("imports")
        pkg = f["package"] or ""
        for e in f["enums"]:
            self.check_enum(rel, pkg, e)
        for m in f["messages"]:
            self.check_msg(rel, pkg, m, imported)
        for x in f["extends"]:
            self.resolve(rel, pkg, x["extendee"], imported, 0, "extendee")

    def check_import_cycles(self):
        graph = {}
        for rel, f in self.parsed.items():
            graph[self.import_name(rel)] = [p for p, _, _ in f["imports"] if self.known_imports.get(p) in self.parsed]
        state = {}
        cyc = []

        def dfs(n, stack):
            state[n] = 1
            for mth in graph.get(n, []):
                if state.get(mth) == 1:
                    cyc.append(stack[stack.index(mth):] + [mth] if mth in stack else [n, mth])
                elif mth not in state:
                    dfs(mth, stack + [mth])
            state[n] = 2
        for n in sorted(graph):
            if n not in state:
                dfs(n, [n])
        for c in cyc:
            if len(c) == 2 and c[0] == c[1]:
                continue  # self import reported above
            rel = self.known_imports.get(c[0])
            self.v("unresolved-import", "import-cycle", "generated files import each other in a cycle: %s" % " -> ".join(c), rel)
        self.checks.add("import-cycles")

    # -- enums ----------------------------------------------------------------------------------
    def check_enum(self, rel, scope, e):
        full = scope + "." + e["name"] if scope else e["name"]
        kind = self.enum_kinds.get(full, "enum")
        self.stats["enums"] += 1
        self.stats["enum_values"] += len(e["values"])
        self.enum_info.append((rel, full, kind, e["values"]))
        by_name, by_num = {}, {}
        allow_alias = any(n == "allow_alias" and val == ("ident", "true") for n, val in e["options"])
        for val in e["values"]:
            self.enum_numbers[full + "|" + val["name"]] = val["number"]
            yn = dict(val["options"]).get("(yext.yang_name)")
            if val["name"] in by_name:
                o = by_name[val["name"]]
                oyn = dict(o["options"]).get("(yext.yang_name)")
                self.v("enum-duplicate-name", kind,
                       "enum %s has value name %s twice (numbers %d and %d, YANG names %s / %s)"
                       % (full, val["name"], o["number"], val["number"], oyn and oyn[1], yn and yn[1]),
                       rel, [e["line"], o["line"], val["line"]])
            else:
                by_name[val["name"]] = val
            if val["number"] in by_num and not allow_alias:
                o = by_num[val["number"]]
                self.v("enum-duplicate-number", kind,
                       "enum %s uses number %d for %s and %s" % (full, val["number"], o["name"], val["name"]),
                       rel, [e["line"], o["line"], val["line"]])
            else:
                by_num.setdefault(val["number"], val)
            if not -(1 << 31) <= val["number"] <= (1 << 31) - 1:
                self.v("enum-value-out-of-range", "%s:%s" % (kind, ">int32" if val["number"] > 0 else "<int32"),
                       "enum %s value %s = %d does not fit int32" % (full, val["name"], val["number"]), rel,
                       [e["line"], val["line"]])
        first = e["values"][0]
        if first["number"] != 0:
            self.v("enum-first-not-zero", "%s:%s" % (kind, "negative-first" if first["number"] < 0 else "positive-first"),
                   "proto3 requires the first enum value to be zero: enum %s starts with %s = %d"
                   % (full, first["name"], first["number"]), rel, [e["line"], first["line"]])
        self.checks.add("enum")

    # -- messages -------------------------------------------------------------------------------
    @staticmethod
    def fkind(f):
        return "oneof-member" if f["oneof"] else "field"

    @staticmethod
    def pair(a, b):
        ks = sorted([a, b])
        return {"field+field": "sibling-fields", "field+oneof-member": "oneof-member+sibling-field",
                "oneof-member+oneof-member": "oneof-members"}["+".join(ks)]

    def check_msg(self, rel, scope, m, imported):
        full = scope + "." + m["name"] if scope else m["name"]
        self.stats["messages"] += 1
        self.stats["fields"] += len(m["fields"])
        self.stats["oneofs"] += len(m["oneofs"])
        self.max_fields_in_msg = max(self.max_fields_in_msg, len(m["fields"]))
        by_name, by_num, by_json = {}, {}, {}
        for f in m["fields"]:
            k = self.fkind(f)
            key = full + "|" + f["name"]
            if key not in self.numbers:
                self.numbers[key] = f["number"]
            n = f["number"]
            if f["name"] in by_name:
                o = by_name[f["name"]]
                feat = self.pair(k, self.fkind(o))
                if feat == "sibling-fields" and m["name"].endswith("Key"):
                    # the <List>Key message of a keyed list: key fields 1..n and one field holding the entry
                    ent = m["name"][:-3]
                    is_ent = lambda x: str(x.get("type", "")).split(".")[-1] == ent
                    if any(is_ent(x) for x in m["fields"]):
                        feat = "list-key-message:key-field+entry-field" if (is_ent(f) or is_ent(o)) else "list-key-message:two-key-fields"
                self.v("duplicate-field-name", feat,
                       "message %s has two fields named %s (numbers %d, %d)" % (full, f["name"], o["number"], n),
                       rel, [m["line"], o["line"], f["line"]])
            else:
                by_name[f["name"]] = f
            if n in by_num:
                o = by_num[n]
                cause = "same-hash-input" if o["name"] == f["name"] else "hash-collision"
                if n < 1000:
                    cause = "sequential-key-tags"
                self.v("duplicate-field-number", "%s:%s" % (self.pair(k, self.fkind(o)), cause),
                       "message %s uses field number %d for both %s and %s" % (full, n, o["name"], f["name"]),
                       rel, [m["line"], o["line"], f["line"]])
            else:
                by_num[n] = f
            if n < 1 or n > MAX_FIELD:
                self.v("field-number-out-of-range", "%s:%s" % ("tag=0" if n == 0 else ("tag<0" if n < 0 else "tag>2^29-1"), k),
                       "message %s field %s has number %d (allowed 1..%d)" % (full, f["name"], n, MAX_FIELD),
                       rel, [m["line"], f["line"]])
            elif 19000 <= n <= 19999:
                self.v("field-number-reserved-range", k,
                       "message %s field %s has number %d inside the protobuf-reserved range 19000-19999" % (full, f["name"], n),
                       rel, [m["line"], f["line"]])
            for lo, hi in m["reserved"]:
                if n >= lo and (hi is None or n <= hi):
                    self.v("field-number-reserved-range", "declared-reserved:" + k,
                           "message %s field %s uses reserved number %d" % (full, f["name"], n), rel, [f["line"]])
            jn = json_name(f["name"])
            if jn in by_json and by_json[jn]["name"] != f["name"]:
                o = by_json[jn]
                a, b = sorted([o["name"], f["name"]], key=len)
                cause = "makenameunique-suffix" if b.startswith(a) and set(b[len(a):]) == {"_"} else "camelcase-fold"
                self.v("json-name-conflict", cause,
                       "message %s: fields %s and %s have the same default JSON name %r; protoc rejects this in proto3 "
                       "('The default JSON name of field ... conflicts with field ...')" % (full, o["name"], f["name"], jn),
                       rel, [m["line"], o["line"], f["line"]])
            else:
                by_json.setdefault(jn, f)
            # type resolution
            self.resolve(rel, full, f["type"], imported, f["line"], k)
            for oname, _ in f["options"]:
                for ext in re.findall(r"\(([^)]+)\)", oname):
                    self.resolve(rel, full, ext, imported, f["line"], "field-option", want=("extension",))
            if f["label"] == "map" and f["oneof"]:
                self.v("parse-error", "map-in-oneof", "map field in oneof", rel, [f["line"]])
        self.checks.add("message")
        for e in m["enums"]:
            self.check_enum(rel, full, e)
            for val in e["values"]:
                for oname, _ in val["options"]:
                    for ext in re.findall(r"\(([^)]+)\)", oname):
                        self.resolve(rel, full, ext, imported, val["line"], "enum-value-option", want=("extension",))
        for c in m["messages"]:
            self.check_msg(rel, full, c, imported)

    def resolve(self, rel, scope, tname, imported, line, what, want=("message", "enum")):
        what = "type-reference" if what in ("field", "oneof-member") else what
        """protoc name resolution: the first component is looked up innermost scope first; the rest must then
        resolve from there."""
        if tname in SCALARS and want != ("extension",):
            return
        self.stats["type_refs"] += 1
        self.checks.add("types")
        if tname.startswith("."):
            cand = tname[1:]
            hit = self.symbols.get(cand)
            if not hit:
                self.v("unresolved-type", "%s:undefined" % what, "type %s used in %s is not defined" % (tname, scope), rel, [line])
            return
        first = tname.split(".")[0]
        compound = "." in tname
        parts = scope.split(".") if scope else []
        for i in range(len(parts), -1, -1):
            pre = ".".join(parts[:i])
            cand_first = (pre + "." if pre else "") + first
            if cand_first not in self.symbols:
                continue
            fk = self.symbols[cand_first][0]
            if compound:
                if fk not in ("message", "enum", "package", "service"):
                    continue  # protoc: found a symbol but it is not an aggregate, continue outwards
                cand = (pre + "." if pre else "") + tname
                hit = self.symbols.get(cand)
                if not hit:
                    self.v("unresolved-type", "%s:shadowed-by-inner-scope" % what,
                           "type %s used in %s resolves its first component to %s, below which %s is not defined "
                           "(protoc: 'is resolved to ..., which is not defined')" % (tname, scope, cand_first, cand), rel, [line])
                    return
            else:
                cand = cand_first
                hit = self.symbols[cand]
                if want == ("message", "enum") and fk not in want:
                    continue  # protoc: found a symbol but it is not a type, continue outwards
            if hit[0] not in want and cand in self.clashed:
                return  # consequence of a symbol clash that is reported as duplicate-symbol
            if hit[0] not in want:
                self.v("unresolved-type", "%s:not-a-%s" % (what, "type" if "message" in want else want[0]),
                       "name %s used in %s resolves to %s which is a %s" % (tname, scope, cand, hit[0]), rel, [line])
                return
            if hit[1] not in imported:
                self.v("unresolved-type", "%s:defining-file-not-imported" % what,
                       "name %s (-> %s) used in %s is defined in %s which %s does not import"
                       % (tname, cand, scope, hit[1], rel), rel, [line])
            return
        self.v("unresolved-type", "%s:undefined" % what, "name %s used in %s is not defined in the generated file set, "
               "ywrapper/yext or the well-known types" % (tname, scope), rel, [line])


def read_proto_tree(outdir):
    files = {}
    for d, _, fs in os.walk(outdir):
        for fn in fs:
            if fn.endswith(".proto"):
                p = os.path.join(d, fn)
                files[os.path.relpath(p, outdir)] = open(p, encoding="utf-8", errors="surrogateescape").read()
    return files


# ----------------------------------------------------------------------------------------------
# adversarial name search (bounded by candidate counts, never by wall-clock)
# ----------------------------------------------------------------------------------------------

ALNUM = "abcdefghijklmnopqrstuvwxyz0123456789"
ALNUM_CODES = [ord(c) for c in ALNUM]
FIRST = "abcdefghijklmnopqrstuvw"  # never 'x' (YANG forbids identifiers starting with xml)
BORDER_TARGETS = [0, 1, 1000, 1001, 18999, 19000, 19999, 20000, M29]


def build_back_table(targets29):
    """state -> (target, 2-char suffix): appending the suffix to a string whose FNV-1 state is `state`
    yields a hash whose low 29 bits equal target (FNV-1's steps are invertible)."""
    table = {}
    inv = FNV_PRIME_INV
    for t in targets29:
        for hi in range(8):
            big = (hi << 29) | t
            for c2 in ALNUM_CODES:
                h1 = ((big ^ c2) * inv) & M32
                for c1 in ALNUM_CODES:
                    k = ((h1 ^ c1) * inv) & M32
                    prev = table.get(k)
                    # targets that differ only in their low bits share pre-states: keep all of them
                    table[k] = (t, chr(c1) + chr(c2)) if prev is None else prev + (t, chr(c1) + chr(c2))
    return table


def scan_names(prefix, table, rng, max_stems, wanted):
    """Enumerates up to max_stems*36 candidate names below prefix (hash input prefix+name) and returns
    {target: [names]} for the targets of `table`; stops early once every target in `wanted` has a hit."""
    h0 = fnv1_32(prefix.encode())
    hits = {}
    prime = FNV_PRIME
    used = set()
    cands = 0
    for si in range(max_stems):
        stem = rng.choice(FIRST) + "".join(rng.choice(ALNUM) for _ in range(5))
        if stem in used:
            continue
        used.add(stem)
        h = h0
        for ch in stem:
            h = ((h * prime) & M32) ^ ord(ch)
        hp = (h * prime) & M32
        cands += 36
        for c in ALNUM_CODES:
            x = hp ^ c
            if x in table:
                e = table[x]
                for k in range(0, len(e), 2):
                    name = stem + chr(c) + e[k + 1]
                    if raw_tag(prefix + name) == e[k]:
                        hits.setdefault(e[k], []).append(name)
        if (si & 511) == 0 and all(t in hits for t in wanted):
            break
    return hits, cands


def find_adversarial_names(seed):
    """Seeded search for the names used by the hash-directed adversarial schemas."""
    rng = random.Random("%d:c28-adv" % seed)
    cpre, lpre, ipre = "/advt/c/", "/advt/l/config/", "ADVBASE"
    out = dict(cpre=cpre, lpre=lpre, ipre=ipre, candidates=0)
    anchor_c = "anchor" + "".join(rng.choice(ALNUM) for _ in range(4))
    anchor_l = "anchor" + "".join(rng.choice(ALNUM) for _ in range(4))
    anchor_i = "ANCHOR" + "".join(rng.choice(ALNUM) for _ in range(4)).upper()
    low_t, res_t = rng.randrange(2, 1000), rng.randrange(19001, 19999)
    oneof_t = field_tag(cpre + "u_string")
    c_targets = BORDER_TARGETS + [low_t, res_t, oneof_t, raw_tag(cpre + anchor_c)]
    l_targets = [raw_tag(lpre + anchor_l)]
    i_targets = [0, raw_tag(ipre + anchor_i)]
    table = build_back_table(sorted(set(c_targets + l_targets + i_targets)))
    hc, n = scan_names(cpre, table, rng, 150000, c_targets)
    out["candidates"] += n
    hl, n = scan_names(lpre, table, rng, 150000, l_targets)
    out["candidates"] += n
    hi, n = scan_names(ipre, table, rng, 150000, i_targets)
    out["candidates"] += n

    def first(h, t, avoid=()):
        for nm in h.get(t, []):
            if nm not in avoid:
                return nm
        return None
    out["border"] = {t: first(hc, t) for t in BORDER_TARGETS}
    out["low"] = (low_t, first(hc, low_t))
    out["reserved"] = (res_t, first(hc, res_t))
    out["oneof_coll"] = first(hc, oneof_t, avoid=("u_string",))
    out["pair_c"] = (anchor_c, first(hc, raw_tag(cpre + anchor_c), avoid=(anchor_c,)))
    out["pair_l"] = (anchor_l, first(hl, raw_tag(lpre + anchor_l), avoid=(anchor_l,)))
    out["id_zero"] = first(hi, 0)
    out["pair_i"] = (anchor_i, first(hi, raw_tag(ipre + anchor_i), avoid=(anchor_i,)))
    return out


# names found once with find_adversarial_names(0); re-verified at run time against the Python
# re-implementation and (through the cross-check of schema adv-normal) against the generator
PRECOMPUTED = dict(
    cpre="/advt/c/", lpre="/advt/l/config/", ipre="ADVBASE", candidates=0,
    border={0: "jjj4n2pr6", 1: "jjj4n2pr7", 1000: "k5jqsdv5a", 1001: "hdqc5eiyo", 18999: "hsm0f0o8l",
            19000: "hsm0f0o8c", 19999: "extwi7xda", 20000: "n191oiiwu", 536870911: "lv283f5t5"},
    low=(114, "fxjkur04n"), reserved=(19570, "aja1my5os"), oneof_coll="ip1yr959c",
    pair_c=("anchorkl1b", "p6ye5tq3b"), pair_l=("anchorryur", "syzba0vfx"),
    id_zero="dtwklnqld", pair_i=("ANCHORN5TP", "harl1x103"))


def verify_names(names):
    """Re-checks a name set against the Python re-implementation; returns the list of stale entries."""
    bad = []
    cpre, lpre, ipre = names["cpre"], names["lpre"], names["ipre"]
    for t, nm in names["border"].items():
        if nm and raw_tag(cpre + nm) != t:
            bad.append("border:%d" % t)
    for key in ("low", "reserved"):
        t, nm = names[key]
        if nm and raw_tag(cpre + nm) != t:
            bad.append(key)
    if names["oneof_coll"] and raw_tag(cpre + names["oneof_coll"]) != field_tag(cpre + "u_string"):
        bad.append("oneof_coll")
    for key, pre in (("pair_c", cpre), ("pair_l", lpre), ("pair_i", ipre)):
        a, b = names[key]
        if b and (raw_tag(pre + a) != raw_tag(pre + b) or a == b):
            bad.append(key)
    if names["id_zero"] and raw_tag(ipre + names["id_zero"]) != 0:
        bad.append("id_zero")
    return bad


def yang_module(name, body, prefix=None):
    return "module %s {\n  yang-version 1.1;\n  namespace \"urn:%s\";\n  prefix %s;\n%s}\n" % (
        name, name, prefix or name.replace("-", ""), body)


def tstmt(t):
    """'type T;' or 'type T { ... }' (no ';' after a block)."""
    return "type %s" % t if t.rstrip().endswith("}") else "type %s;" % t


def leaf(name, typ="string", indent="    "):
    return "%sleaf %s { %s }\n" % (indent, name, tstmt(typ))


def adv_hash_schemas(names, tag):
    """Schemas built from hash-directed names. Module advt, container c / list l (the prefixes searched)."""
    cpre = names["cpre"]
    out = []

    def mod(body):
        return {"advt.yang": yang_module("advt", body)}

    def add(sid, cls, body, expect=None):
        out.append(dict(id="%s-%s" % (sid, tag), cls=cls, files=mod(body), top=["advt.yang"], expect=expect or {}))

    a, b = names["pair_c"]
    if b:
        add("adv-collide-container", "sibling-leaves-in-container:hash-collision",
            "  container c {\n" + leaf(a) + leaf(b, "uint32") + leaf("other") + "  }\n",
            dict(colliding=[a, b], raw=raw_tag(cpre + a)))
    a, b = names["pair_l"]
    if b:
        add("adv-collide-list", "sibling-leaves-in-list:hash-collision",
            "  list l {\n    key \"k\";\n" + leaf("k", "leafref { path \"../config/k\"; }") +
            "    container config {\n  " + leaf("k") + "  " + leaf(a) + "  " + leaf(b, "boolean") + "    }\n  }\n",
            dict(colliding=[a, b]))
    z = names["border"].get(0)
    if z:
        add("adv-tag0", "leaf:tag=0", "  container c {\n" + leaf(z) + leaf("other") + "  }\n", dict(zero=z))
    body, exp = "", {}
    for t in BORDER_TARGETS[1:]:
        nm = names["border"].get(t)
        if nm:
            body += leaf(nm)
            exp[nm] = field_tag(cpre + nm)
    for t, nm in (names["low"], names["reserved"]):
        if nm:
            body += leaf(nm, "uint8")
            exp[nm] = field_tag(cpre + nm)
    if body:
        add("adv-borders", "leaf:hash-on-range-border-or-inside-retry-range", "  container c {\n" + body + "  }\n",
            dict(fields=exp, raw={nm: raw_tag(cpre + nm) for nm in exp}))
    oc = names["oneof_coll"]
    if oc:
        add("adv-oneof-collide", "oneof-member+sibling-leaf:hash-collision",
            "  container c {\n    leaf u { type union { type string; type uint32; } }\n" + leaf(oc) + "  }\n",
            dict(colliding=["u_string", oc]))
    return out


def adv_identity_schemas(names, tag):
    out = []
    a, b = names["pair_i"]
    ids = ""
    if b:
        ids = "  identity %s { base ADVBASE; }\n  identity %s { base ADVBASE; }\n  identity PLAIN { base ADVBASE; }\n" % (a, b)
        out.append(dict(id="adv-identity-collide-" + tag, cls="identities:hash-collision", top=["advi.yang"],
                        files={"advi.yang": yang_module("advi", "  identity ADVBASE;\n" + ids +
                                                        "  container c { leaf r { type identityref { base ADVBASE; } } }\n")},
                        expect=dict(identity_values=4)))
    z = names["id_zero"]
    if z:
        ids = "  identity %s { base ADVBASE; }\n  identity PLAIN { base ADVBASE; }\n" % z
        out.append(dict(id="adv-identity-zero-" + tag, cls="identity:tag=0", top=["advi.yang"],
                        files={"advi.yang": yang_module("advi", "  identity ADVBASE;\n" + ids +
                                                        "  container c { leaf r { type identityref { base ADVBASE; } } }\n")},
                        expect=dict(identity_values=3, unset_required=True)))
    return out


PROTO_KEYWORDS = ["message", "repeated", "oneof", "option", "enum", "import", "package", "syntax", "map", "reserved",
                  "string", "int32", "bool", "bytes", "group", "optional", "required", "stream", "returns", "rpc",
                  "service", "to", "max", "true", "false", "inf", "nan", "extend", "extensions", "public", "weak",
                  "double", "float"]


def adv_static_schemas():
    """Adversarial identifier / value choices that need no search."""
    out = []
    # identity hierarchies: a leaf identity is a value of the enum of every base above it.  The base schema
    # references only the middle base; the '+leaf' variant adds an unrelated leaf that references the root base
    # (one more enum appears, the middle enum's value numbers have no reason to change); 'rerun' repeats the
    # generation (map iteration order differs between runs).
    for i in range(6):
        sfx = "%d" % i
        ids = ("  identity HROOT%s;\n  identity HMID%s { base HROOT%s; }\n  identity HLEAF-A%s { base HMID%s; }\n"
               "  identity HLEAF-B%s { base HMID%s; }\n  identity HSIDE%s { base HROOT%s; }\n") % ((sfx,) * 9)
        body = ids + "  container c {\n    leaf m { type identityref { base HMID%s; } }\n    leaf w { type string; }\n  }\n" % sfx
        both = ids + ("  container c {\n    leaf m { type identityref { base HMID%s; } }\n"
                      "    leaf r { type identityref { base HROOT%s; } }\n  }\n") % (sfx, sfx)
        out.append(dict(id="adv-identity-hier-%d" % i, cls="identities:hierarchy:one-base-referenced", top=["advh.yang"],
                        files={"advh.yang": yang_module("advh", body)}, expect={}, flags=[],
                        want_stability=True, unrel_leaf_type="identityref { base HROOT%s; }" % sfx))
        if i < 3:
            out.append(dict(id="adv-identity-hier-both-%d" % i, cls="identities:hierarchy:two-bases-referenced", top=["advh.yang"],
                            files={"advh.yang": yang_module("advh", both)}, expect={}, flags=[], want_stability=True))

    def add(sid, cls, modname, body, expect=None, flags=None):
        out.append(dict(id=sid, cls=cls, files={modname + ".yang": yang_module(modname, body)}, top=[modname + ".yang"],
                        expect=expect or {}, flags=flags or []))

    add("adv-normal", "crosscheck", "advt",
        "  container c {\n" + leaf("plain-a") + leaf("plain-b", "uint32") +
        "    leaf-list gamma { type string; }\n    leaf u { type union { type string; type uint32; } }\n"
        "    container inner { leaf x { type boolean; } }\n  }\n"
        "  list l {\n    key \"k\";\n" + leaf("k", "leafref { path \"../config/k\"; }") +
        "    container config {\n  " + leaf("k") + "  " + leaf("v", "uint8") + "    }\n  }\n",
        dict(fields={"plain_a": field_tag("/advt/c/plain-a"), "plain_b": field_tag("/advt/c/plain-b"),
                     "gamma": field_tag("/advt/c/gamma"), "u_string": field_tag("/advt/c/u_string"),
                     "u_uint64": field_tag("/advt/c/u_uint64"), "inner": field_tag("/advt/c/inner"),
                     "x": field_tag("/advt/c/inner/x"), "v": field_tag("/advt/l/config/v")}, crosscheck=True))
    add("adv-oneof-samepath", "union-leaf+sibling-named-like-member", "advo",
        "  container c {\n    leaf u { type union { type string; type uint32; } }\n" + leaf("u_string") + leaf("w") + "  }\n")
    add("adv-oneof-samepath-uint", "union-leaf+sibling-named-like-member", "advo",
        "  container c {\n    leaf u { type union { type int8; type boolean; } }\n" + leaf("u_sint64", "uint8") + "  }\n")
    # sibling union leaves / leaf-lists whose names differ only in '-' vs '_': their oneof member names
    # (<field>_<type>) and the wrapper messages of union leaf-lists (<Field>Union) derive from the field name
    add("adv-sibling-unions", "siblings:names-equal-after-sanitisation:unions", "advu",
        "  container thresholds {\n"
        "    leaf rate-limit { type union { type string; type uint32; } }\n"
        "    leaf rate_limit { type union { type string; type uint32; } }\n"
        "    leaf-list burst-size { type union { type string; type uint32; } }\n"
        "    leaf-list burst_size { type union { type string; type uint32; } }\n"
        "    leaf plain-a { type string; }\n  }\n")
    # a keyed list whose name and key leaf name differ only in '-' / '.' / '_': in the <List>Key message the
    # key field and the entry field must still get different names
    add("adv-list-key-name-equals-list-name", "lists:key-name-equals-list-name-after-sanitisation", "advk",
        "  container c {\n"
        "    list sub-if { key \"sub_if\"; leaf sub_if { type string; } leaf v { type uint8; } }\n"
        "    list peer_group { key \"peer.group\"; leaf peer.group { type string; } leaf v { type uint8; } }\n"
        "    list same { key \"same\"; leaf same { type string; } }\n  }\n")
    add("adv-identity-sanitise", "identities:names-equal-after-sanitisation", "advs",
        "  identity SBASE;\n  identity a-b { base SBASE; }\n  identity a.b { base SBASE; }\n  identity c { base SBASE; }\n"
        "  container c { leaf r { type identityref { base SBASE; } } }\n")
    add("adv-enum-negative", "enumeration:negative-values", "adve",
        "  container c {\n    leaf e { type enumeration { enum a { value -5; } enum b { value 3; } enum c; } }\n"
        "    leaf f { type enumeration { enum m1 { value -1; } enum z { value 0; } } }\n  }\n",
        dict(unset_required_msg_enums=True))
    add("adv-enum-typedef-negative", "enumeration:negative-values", "adve",
        "  typedef td { type enumeration { enum a { value -7; } enum b; } }\n"
        "  container c { leaf e { type td; } }\n")
    add("adv-enum-maxint", "enumeration:value=int32-max", "adve",
        "  typedef td { type enumeration { enum big { value 2147483647; } enum small { value 1; } } }\n"
        "  container c {\n    leaf e { type td; }\n    leaf f { type enumeration { enum top { value 2147483647; } } }\n  }\n")
    add("adv-enum-sanitise", "enumeration:names-equal-after-sanitisation", "adve",
        "  typedef td { type enumeration { enum x-y; enum x.y; enum \"x y\"; } }\n"
        "  container c {\n    leaf e { type td; }\n    leaf f { type enumeration { enum \"+\"; enum \"-\"; enum ok; } }\n  }\n")
    add("adv-enum-quote", "enumeration:name-with-double-quote", "adve",
        "  container c {\n    leaf f { type enumeration { enum 'say \"hi\"'; enum ok; } }\n  }\n")
    add("adv-enum-backslash", "enumeration:name-with-backslash", "adve",
        "  container c {\n    leaf f { type enumeration { enum 'back\\slash'; enum ok; } }\n  }\n")
    add("adv-enum-digit", "enumeration:name-starting-with-digit", "adve",
        "  container c {\n    leaf f { type enumeration { enum 10G; enum 100G; } }\n  }\n")
    add("adv-ident-sanitise", "siblings:names-equal-after-sanitisation", "advn",
        "  container c {\n" + leaf("a-b") + leaf("a_b") + leaf("a.b") +
        "    container x-y { leaf q { type string; } }\n    container x_y { leaf q { type string; } }\n  }\n")
    add("adv-ident-camel", "siblings:camelcase-vs-hyphen", "advn",
        "  container c {\n" + leaf("foo-bar") + leaf("fooBar") + "  }\n")
    body = "  container c {\n" + "".join(leaf(k) for k in PROTO_KEYWORDS)
    body += "".join("    container %s-c { leaf %s { type uint8; } }\n" % (k, k) for k in ("message", "enum", "oneof"))
    body += "  }\n" + "".join("  container %s { leaf v { type string; } }\n" % k for k in ("message", "enum", "string", "option", "map"))
    body += "  list syntax { key \"package\"; leaf package { type string; } leaf import { type string; } }\n"
    add("adv-ident-keywords", "names:proto-keywords", "advk", body)
    add("adv-symbol-leaf-vs-message", "leaf-named-like-sibling-message", "advy",
        "  container c {\n    container inner { leaf x { type string; } }\n" + leaf("Inner") + "  }\n")
    add("adv-symbol-oneof-vs-message", "union-leaf-named-like-sibling-message", "advy",
        "  container c {\n    container ifname { leaf x { type string; } }\n"
        "    leaf Ifname { type union { type string; type uint8; } }\n  }\n")
    add("adv-symbol-oneof-vs-enum", "union-leaf-named-like-sibling-enum", "advy",
        "  container c {\n    leaf ifName { type enumeration { enum a; enum b; } }\n"
        "    leaf IfName { type union { type string; type uint8; } }\n  }\n")
    add("adv-symbol-listkey-vs-container", "container-named-like-list-key-message", "advy",
        "  container c {\n    list cl { key \"k\"; leaf k { type string; } leaf v { type string; } }\n"
        "    container cl-key { leaf x { type string; } }\n  }\n")
    add("adv-symbol-leaf-vs-enumvalue", "leaf-named-like-enum-value", "advy",
        "  container c {\n    leaf e { type enumeration { enum x; enum y; } }\n" + leaf("E_x") + "  }\n")
    add("adv-symbol-enum-vs-message", "enumeration-leaf-named-like-sibling-container", "advy",
        "  container c {\n    container foo-bar { leaf q { type string; } }\n"
        "    leaf foo_bar { type enumeration { enum a; enum b; } }\n  }\n")
    add("adv-union-enum-only", "union-of-enumerations-only", "advu",
        "  container c {\n    leaf u { type union { type enumeration { enum low; } type enumeration { enum down; } } }\n"
        "    leaf v { type union { type enumeration { enum only; } } }\n" + leaf("w") + "  }\n")
    add("adv-hier-uppercase", "node-names-starting-upper-case", "advh",
        "  container Top {\n" + leaf("y") + "    container Inner {\n  " + leaf("x") +
        "      container Deep { leaf z { type string; } }\n    }\n  }\n")
    add("adv-leaflist-noannot", "leaf-list:without-schemapath-annotation", "advf",
        "  container c {\n    leaf-list ll { type string; }\n    leaf-list lu { type union { type string; type uint8; } }\n" +
        leaf("w") + "  }\n", flags=["-add_schemapaths=false", "-add_enumnames=false"])
    add("adv-listkey-names", "list-key-named-like-list", "advl",
        "  container c {\n    list foo { key \"foo foo_key\"; leaf foo { type string; } leaf foo_key { type string; } "
        "leaf v { type string; } }\n"
        "    list a-b { key \"a_b\"; leaf a_b { type string; } leaf w { type string; } }\n  }\n")
    add("adv-listkey-union-enum", "list-key:union+enumeration", "advl",
        "  container c {\n    list l { key \"k e\"; leaf k { type union { type string; type uint8; } } "
        "leaf e { type enumeration { enum one; enum two; } } leaf k_string { type string; } }\n  }\n")
    return out


def adv_wide_schema(seed, n):
    """Black-box collision probe that does not depend on the Python re-implementation of the hash."""
    rng = random.Random("%d:c28-wide" % seed)
    names = set()
    while len(names) < n:
        names.add(rng.choice(FIRST) + "".join(rng.choice(ALNUM) for _ in range(7)))
    body = "  container c {\n" + "".join(leaf(nm) for nm in sorted(names)) + "  }\n"
    return dict(id="adv-wide-%d" % n, cls="wide-container:black-box", files={"advw.yang": yang_module("advw", body)},
                top=["advw.yang"], expect={}, big=True)


# ----------------------------------------------------------------------------------------------
# random schemas (fallback when driver/yanggen.py is not available)
# ----------------------------------------------------------------------------------------------

WORDS = ["alpha", "beta", "gamma", "delta", "eps", "zeta", "eta", "theta", "iota", "kappa", "lam", "mu", "nu", "xi",
         "omi", "pi", "rho", "sigma", "tau", "ups", "phi", "chi", "psi", "omega", "addr", "peer", "rate", "mode",
         "count", "level", "name", "id", "index", "state-of", "cfg", "limit", "hold", "timer", "mtu", "vlan"]
SCALAR_YANG = ["int8", "int16", "int32", "int64", "uint8", "uint16", "uint32", "uint64", "string", "boolean",
               "decimal64 { fraction-digits 2; }", "binary", "empty"]
KEY_YANG = ["string", "uint32", "int16", "uint64", "uint8"]


class LocalGen:
    def __init__(self, seed, index):
        self.rng = random.Random("%d:%d:c28-rand" % (seed, index))
        self.mod = "rnd%dx%d" % (seed, index)
        self.features = set()
        self.n = 0
        self.oc = index % 10 < 7   # 70% of the schemas only have lists that survive -compress_paths

    def name(self, used):
        r = self.rng
        for _ in range(100):
            w = r.choice(WORDS)
            if r.random() < 0.35:
                w += "-" + r.choice(WORDS)
            if r.random() < 0.15:
                w += str(r.randrange(2, 99))
            k = re.sub(r"[^a-z0-9]", "", w.lower())
            if k not in used and not any(k == u + "key" or u == k + "key" for u in used):
                used.add(k)
                return w
        self.n += 1
        w = "n%d" % self.n
        used.add(w)
        return w

    def enum_type(self):
        r = self.rng
        vals = r.sample(["UP", "DOWN", "TESTING", "unknown", "dormant", "not-present", "lower-layer-down", "A1", "B2"],
                        r.randrange(2, 5))
        out, v = [], 0
        for nm in vals:
            if r.random() < 0.3:
                v += r.randrange(1, 5)
                out.append("enum %s { value %d; }" % (nm, v))
            else:
                out.append("enum %s;" % nm)
            v += 1
        self.features.add("enumeration")
        return "enumeration { %s }" % " ".join(out)

    def leaf_type(self, key=False, in_union=False):
        r = self.rng
        x = r.random()
        if key:
            if x < 0.7:
                return r.choice(KEY_YANG)
            if x < 0.8:
                return self.enum_type()
            if x < 0.9:
                self.features.add("identityref-key")
                return "identityref { base RBASE; }"
            self.features.add("union-key")
            return "union { type uint16; type string; }"
        if x < 0.5:
            t = r.choice(SCALAR_YANG[:-1] if in_union else SCALAR_YANG)
            self.features.add("scalar:" + t.split(" ")[0])
            return t
        if x < 0.62:
            return self.enum_type()
        if x < 0.72:
            self.features.add("identityref")
            return "identityref { base RBASE; }"
        if x < 0.80:
            self.features.add("typedef-enum")
            return "td-enum"
        if x < 0.85 and not in_union:
            self.features.add("typedef-union")
            return "td-union"
        if in_union:
            return r.choice(["string", "uint32", "int8", "boolean"])
        self.features.add("union")
        k = r.randrange(2, 4)
        members = []
        seen = set()
        for _ in range(k):
            t = self.leaf_type(in_union=True)
            base = t.split(" ")[0]
            if base in seen:
                continue
            seen.add(base)
            members.append(tstmt(t))
        if len(members) < 2:
            members = ["type string;", "type uint32;"]
        return "union { %s }" % " ".join(members)

    def children(self, depth, ind, used, allow_lists=True):
        r = self.rng
        out = ""
        for _ in range(r.randrange(2, 7 if depth else 5)):
            x = r.random()
            nm = self.name(used)
            if x < 0.5 or depth >= 3:
                out += "%sleaf %s { %s }\n" % (ind, nm, tstmt(self.leaf_type()))
                self.features.add("leaf")
            elif x < 0.62:
                t = self.leaf_type()
                if t.startswith("empty") or t == "boolean":
                    t = "string"
                out += "%sleaf-list %s { %s }\n" % (ind, nm, tstmt(t))
                self.features.add("leaf-list:" + t.split(" ")[0])
            elif x < 0.78:
                out += "%scontainer %s {\n%s%s}\n" % (ind, nm, self.children(depth + 1, ind + "  ", set()), ind)
                self.features.add("container")
            elif x < 0.93 and allow_lists:
                out += self.list_(depth, ind, nm)
            else:
                cu = set()
                out += "%schoice %s {\n" % (ind, nm)
                for _ in range(2):
                    cn = self.name(cu)
                    out += "%s  case %s { leaf %s { %s } }\n" % (ind, cn, self.name(used), tstmt(self.leaf_type()))
                out += "%s}\n" % ind
                self.features.add("choice")
        return out

    def oc_list(self, depth, ind, nm):
        """OpenConfig-style list (surrounding container, leafref keys into config, config/state split): the only
        list shape that -compress_paths accepts."""
        r = self.rng
        used = {"config", "state"}
        nk = 1 if r.random() < 0.7 else 2
        keys = [self.name(used) for _ in range(nk)]
        ktypes = [self.leaf_type(key=True) for _ in keys]
        i2, i3 = ind + "  ", ind + "    "
        body = "%skey \"%s\";\n" % (i2, " ".join(keys))
        for k in keys:
            body += "%sleaf %s { type leafref { path \"../config/%s\"; } }\n" % (i2, k, k)
        kl = "".join("%sleaf %s { %s }\n" % (i3, k, tstmt(t)) for k, t in zip(keys, ktypes))
        cfg = "".join("%sleaf %s { %s }\n" % (i3, self.name(used), tstmt(self.leaf_type())) for _ in range(r.randrange(1, 4)))
        st = "".join("%sleaf %s { %s }\n" % (i3, self.name(used), tstmt(self.leaf_type())) for _ in range(r.randrange(0, 3)))
        body += "%scontainer config {\n%s%s%s}\n" % (i2, kl, cfg, i2)
        body += "%scontainer state {\n%sconfig false;\n%s%s%s%s}\n" % (i2, i3, kl, cfg, st, i2)
        if depth < 2 and r.random() < 0.5:
            cn = self.name(used)
            body += "%scontainer %s {\n%s%s}\n" % (i2, cn, self.children(depth + 2, i3, set()), i2)
        self.features.add("oc-list:%d-key" % nk)
        return "%scontainer %ss {\n%s  list %s {\n%s%s  }\n%s}\n" % (
            ind, nm, ind, nm, "".join("  " + ln + "\n" for ln in body.rstrip("\n").split("\n")), ind, ind)

    def list_(self, depth, ind, nm):
        if self.oc:
            return self.oc_list(depth, ind, nm)
        r = self.rng
        used = set()
        nk = 1 if r.random() < 0.7 else 2
        keys = [self.name(used) for _ in range(nk)]
        body = "%s  key \"%s\";\n" % (ind, " ".join(keys))
        for k in keys:
            body += "%s  leaf %s { %s }\n" % (ind, k, tstmt(self.leaf_type(key=True)))
        if r.random() < 0.4:
            # OpenConfig-like config/state split so that -compress_paths has something to do
            cu = set()
            cfg = "".join("%s    leaf %s { %s }\n" % (ind, self.name(cu), tstmt(self.leaf_type())) for _ in range(r.randrange(1, 4)))
            st = "".join("%s    leaf %s { %s }\n" % (ind, self.name(cu), tstmt(self.leaf_type())) for _ in range(r.randrange(1, 3)))
            body += "%s  container config {\n%s%s  }\n%s  container state {\n%s    config false;\n%s%s  }\n" % (
                ind, cfg, ind, ind, ind, st, ind)
            self.features.add("config-state")
        else:
            body += self.children(depth + 1, ind + "  ", used, allow_lists=depth < 2)
        self.features.add("list:%d-key" % nk)
        if r.random() < 0.15:
            body += "%s  ordered-by user;\n" % ind
        return "%slist %s {\n%s%s}\n" % (ind, nm, body, ind)

    def build(self):
        r = self.rng
        ids = "  identity RBASE;\n" + "".join("  identity %s { base RBASE; }\n" % n for n in
                                              r.sample(["ID-ONE", "ID_TWO", "third", "FOURTH", "fifth-id", "SIXTH"], r.randrange(2, 5)))
        tds = "  typedef td-enum { type %s }\n  typedef td-union { type union { type int32; type %s type identityref { base RBASE; } } }\n" % (
            self.enum_type(), self.enum_type())
        used = set()
        body = ids + tds
        tops = [self.name(used) for _ in range(r.randrange(1, 4))]
        for t in tops:
            body += "  container %s {\n%s  }\n" % (t, self.children(1, "    ", set()))
        if r.random() < 0.3:
            body += self.list_(0, "  ", self.name(used))
        files = {self.mod + ".yang": yang_module(self.mod, body, prefix="r")}
        top = [self.mod + ".yang"]
        if r.random() < 0.35:
            am = self.mod + "-aug"
            abody = "  import %s { prefix r; }\n  identity AUG-ID { base r:RBASE; }\n  augment \"/r:%s\" {\n    leaf aug-leaf { type string; }\n" \
                    "    container aug-box { leaf inner { type uint8; } }\n  }\n" % (self.mod, tops[0])
            files[am + ".yang"] = yang_module(am, abody, prefix="ra")
            top.append(am + ".yang")
            self.features.add("augment-module")
        return dict(files=files, top=top, features=sorted(self.features))


def random_schema(seed, index, r=None):
    """driver/yanggen.py when present and working, else the local generator."""
    try:
        import yanggen  # noqa: written by another party; optional
    except ImportError:
        yanggen = None
    except Exception:  # a broken module must not take the monitor down
        yanggen = None
        if r:
            r.hit("random:yanggen-import-error")
    if yanggen is not None:
        styles = list(getattr(yanggen, "STYLES", None) or ["plain", "oc"])
        style = styles[index % len(styles)]
        try:
            s = yanggen.gen_schema(seed, index, style)
            if isinstance(s, dict) and s.get("files") and s.get("top"):
                s = dict(files=dict(s["files"]), top=list(s["top"]), features=list(s.get("features", [])))
                s["origin"] = "yanggen:" + str(style)
                return s
            if r:
                r.hit("random:yanggen-bad-result")
        except Exception:
            if r:
                r.hit("random:yanggen-error")
    s = LocalGen(seed, index).build()
    s["origin"] = "local"
    return s


# ----------------------------------------------------------------------------------------------
# corpus
# ----------------------------------------------------------------------------------------------

def corpus_items():
    items = []
    d = os.path.join(REPO, "protogen", "testdata", "proto")
    for p in sorted(glob.glob(os.path.join(d, "*.yang"))):
        items.append(dict(id="protogen/" + os.path.basename(p), yang=[p], path=d))
    pair = [os.path.join(d, "fakeroot-multimod-one.yang"), os.path.join(d, "fakeroot-multimod-two.yang")]
    if all(os.path.exists(p) for p in pair):
        items.append(dict(id="protogen/fakeroot-multimod-one+two", yang=pair, path=d, flags=["-generate_fakeroot"]))
    d = os.path.join(REPO, "demo", "protobuf_getting_started", "yang")
    p = os.path.join(d, "rib", "openconfig-rib-bgp.yang")
    if os.path.exists(p):
        items.append(dict(id="demo/openconfig-rib-bgp.yang", yang=[p], path=d, flags=["-exclude_modules=ietf-interfaces"]))
        for q in ("openconfig-rib-bgp-types.yang", "openconfig-rib-bgp-ext.yang"):
            if os.path.exists(os.path.join(d, "rib", q)):
                items.append(dict(id="demo/" + q, yang=[os.path.join(d, "rib", q)], path=d))
    d = os.path.join(REPO, "integration_tests", "schemaops", "yang")
    for p in sorted(glob.glob(os.path.join(d, "*.yang"))):
        items.append(dict(id="schemaops/" + os.path.basename(p), yang=[p], path=d))
    d = os.path.join(REPO, "testdata", "modules")
    for p in sorted(glob.glob(os.path.join(d, "*.yang"))):
        items.append(dict(id="modules/" + os.path.basename(p), yang=[p], path=d))
    return items


# ----------------------------------------------------------------------------------------------
# option sets
# ----------------------------------------------------------------------------------------------

OPTSETS = {
    "default": dict(flags=[]),
    "hier+compress+fakeroot": dict(flags=["-package_hierarchy", "-compress_paths", "-generate_fakeroot", "-fakeroot_name=device"]),
    "hierarchy": dict(flags=["-package_hierarchy"]),
    "compress": dict(flags=["-compress_paths"]),
    "custom-pkgs": dict(flags=["-package_name=vpkg", "-enum_package_name=venums", "-base_import_path=example.com/gen",
                               "-go_package_base=example.com/go", "-ywrapper_path=vendor/yw", "-yext_path=vendor/yx",
                               "-generate_fakeroot", "-package_hierarchy"],
                        cfg=dict(base_import="example.com/gen", ywrapper_path="vendor/yw", yext_path="vendor/yx")),
    "noannot+skipdedup": dict(flags=["-add_schemapaths=false", "-add_enumnames=false", "-skip_enum_deduplication"]),
    "compress+exclstate": dict(flags=["-compress_paths", "-exclude_state"]),
}
QUICK_OPTS = ["default", "hier+compress+fakeroot"]
THOROUGH_OPTS = ["default", "hierarchy", "compress", "hier+compress+fakeroot", "custom-pkgs", "noannot+skipdedup",
                 "compress+exclstate"]

UNREL_MODULE = yang_module("zzunrel", "  container zzunrel-top {\n    leaf zza { type string; }\n    leaf zzb { type uint8; }\n"
                                      "    container zzc { leaf zzd { type boolean; } }\n  }\n"
                                      "  identity ZZBASE;\n  identity ZZONE { base ZZBASE; }\n")
# a container whose first substatement is a leaf: adding one more leaf there does not change how the schema is
# compressed (adding a leaf to a list's surrounding container would, and is therefore not an unrelated change)
CONTAINER_RE = re.compile(r"\bcontainer\s+[A-Za-z_][\w.\-]*\s*\{(?=\s*leaf\s)")


def add_unrelated_leaf(text, leaftype="string"):
    m = CONTAINER_RE.search(text)
    if not m:
        return None
    return text[:m.end()] + "\n    leaf zzunrel-leaf { %s }\n" % tstmt(leaftype) + text[m.end():]


# ----------------------------------------------------------------------------------------------
# one generator run (executed in a worker process)
# ----------------------------------------------------------------------------------------------

GLOG_RE = re.compile(r"^[IWEF]\d{4} [\d:.]+\s+\d+ [^\]]+\]\s*")


def refusal_reason(out):
    lines = [GLOG_RE.sub("", ln).strip() for ln in out.split("\n")]
    lines = [ln for ln in lines if ln and not ln.startswith("goroutine ") and not ln.startswith("\t")]
    if not lines:
        return "no-output"
    ln = lines[0]
    ln = re.sub(r"^\S+\.yang:\d+:\d+: ", "", ln)
    ln = re.sub(r"\b(key|dir|entry|element|field|list|name) [\w.:\-]+", r"\1 _", ln)
    ln = re.sub(r"\(\[.*", "", ln)
    ln = re.sub(r"duplicate entry \S+", "duplicate entry _", ln)
    ln = re.sub(r"/[\w./\-]+", "/_", ln)
    ln = re.sub(r"&\{.*", "&{_}", ln)
    return vreport.norm_err(ln)[:90]


def exec_case(job):
    t0 = time.time()
    res = dict(key=job["key"], status="ok", viol=[], stats={}, numbers={}, enum_numbers={}, nontrivial=False,
               crosscheck=None, reason="", checks=[])
    outdir = job["outdir"]
    shutil.rmtree(outdir, ignore_errors=True)
    os.makedirs(outdir, exist_ok=True)
    cmd = [job["bin"], "-logtostderr", "-output_dir=" + outdir]
    if job.get("path"):
        cmd.append("-path=" + job["path"])
    cmd += job["flags"] + job["yang"]
    res["cmd"] = cmd
    env = vlib.goenv()
    env["GOMAXPROCS"] = "2"  # many generator processes run side by side
    try:
        p = subprocess.run(cmd, cwd=job["cwd"], stdout=subprocess.PIPE, stderr=subprocess.STDOUT, text=True,
                           timeout=job.get("timeout", 300), env=env, errors="replace")
    except subprocess.TimeoutExpired:
        res["status"] = "timeout"
        res["reason"] = "timeout"
        return res
    if p.returncode != 0:
        res["status"] = "refused"
        res["reason"] = refusal_reason(p.stdout)
        res["output"] = p.stdout[-600:]
        if "panic:" in p.stdout or "goroutine " in p.stdout:
            res["status"] = "crashed"
        return res
    files = read_proto_tree(outdir)
    if not files:
        res["status"] = "empty"
        res["reason"] = "exit-0-but-no-proto-file-written"
        return res
    ck = Checker(files, job.get("cfg") or {}).run()
    res["stats"] = ck.stats
    res["viol"] = ck.viol
    res["numbers"] = ck.numbers
    res["enum_numbers"] = ck.enum_numbers
    res["nontrivial"] = ck.max_fields_in_msg >= 2
    res["checks"] = sorted(ck.checks)
    exp = job.get("expect") or {}
    if exp.get("fields"):
        byname = {}
        for k, n in ck.numbers.items():
            byname.setdefault(k.split("|")[1], []).append(n)
        ok, bad = 0, []
        for fn, want in exp["fields"].items():
            got = byname.get(fn)
            if got is None:
                bad.append((fn, want, None))
            elif want not in got:
                bad.append((fn, want, got))
            else:
                ok += 1
        res["crosscheck"] = dict(ok=ok, bad=bad)
    idents = [e for e in ck.enum_info if e[2] == "identity-enum"]
    if exp.get("identity_values") and idents:
        for rel, full, kind, values in idents:
            has_unset = any(v["number"] == 0 and v["name"].endswith("_UNSET") for v in values)
            ex = excerpt(ck.lines[rel], [v["line"] for v in values])
            if exp.get("unset_required") and not has_unset:
                res["viol"].append(dict(clause="enum-value-lost", features="identity-enum:tag=0-replaces-UNSET",
                                        detail="enum %s: an identity hashed to value number 0 and silently replaced the "
                                               "UNSET value (%d values emitted, %d expected)" % (full, len(values), exp["identity_values"]),
                                        file=rel, excerpt=ex))
            elif len(values) < exp["identity_values"]:
                res["viol"].append(dict(clause="enum-value-lost", features="identity-enum:hash-collision",
                                        detail="enum %s: two identities hash to the same value number; one was silently "
                                               "dropped (%d values emitted, %d expected)" % (full, len(values), exp["identity_values"]),
                                        file=rel, excerpt=ex))
    if exp.get("unset_required_msg_enums"):
        for rel, full, kind, values in ck.enum_info:
            if kind == "message-enum" and values and values[0]["number"] == 0 and not any(
                    v["name"].endswith("_UNSET") for v in values):
                res["viol"].append(dict(clause="enum-value-lost", features="message-enum:value=-1-replaces-UNSET",
                                        detail="enum %s: YANG value -1 is mapped to number 0 and silently replaced UNSET" % full,
                                        file=rel, excerpt=excerpt(ck.lines[rel], [v["line"] for v in values])))
    res["secs"] = time.time() - t0
    return res


# ----------------------------------------------------------------------------------------------
# orchestration
# ----------------------------------------------------------------------------------------------

def write_schema(base, sid, variant, files):
    d = os.path.join(base, re.sub(r"[^\w.+\-]", "_", sid), variant, "yang")
    os.makedirs(d, exist_ok=True)
    for name, text in files.items():
        with open(os.path.join(d, name), "w") as fh:
            fh.write(text)
    return d


def make_jobs(schema, optnames, casedir, bindir, stability):
    """schema: dict(id, source, cls, files (text schemas) | yang+path (corpus), top, expect, flags)."""
    jobs = []
    sid = schema["id"]
    variants = [("base", None)]
    if stability:
        if stability != "no-rerun":
            variants.append(("rerun", None))
        variants.append(("+module", "module"))
        if schema.get("files"):
            variants.append(("+leaf", "leaf"))
    for variant, kind in variants:
        if schema.get("files"):
            files = dict(schema["files"])
            top = list(schema["top"])
            if kind == "leaf":
                t0 = top[0]
                mod = add_unrelated_leaf(files[t0], schema.get("unrel_leaf_type", "string"))
                if mod is None:
                    continue
                files[t0] = mod
            if kind == "module":
                files["zzunrel.yang"] = UNREL_MODULE
                top = top + ["zzunrel.yang"]
            d = write_schema(casedir, sid, variant, files)
            yang = [os.path.join(d, t) for t in top]
            path = d
        else:
            yang = list(schema["yang"])
            path = schema["path"]
            if kind == "module":
                d = write_schema(casedir, sid, variant, {"zzunrel.yang": UNREL_MODULE})
                yang = yang + [os.path.join(d, "zzunrel.yang")]
        for on in optnames:
            o = OPTSETS[on]
            outdir = os.path.join(casedir, re.sub(r"[^\w.+\-]", "_", sid), variant, "out-" + re.sub(r"[^\w]", "_", on))
            jobs.append(dict(key="%s|%s|%s" % (sid, on, variant), sid=sid, opt=on, variant=variant, bin=os.path.join(bindir, "proto_generator"),
                             yang=yang, path=path, flags=o["flags"] + schema.get("flags", []), cfg=o.get("cfg"),
                             outdir=outdir, cwd=casedir, expect=schema.get("expect") if variant == "base" else None,
                             timeout=600 if schema.get("big") else 300))
    return jobs


def schema_witness(schema, job, v=None):
    w = dict(schema=schema["id"], source=schema["source"], construct=schema.get("cls"), options=job["opt"],
             flags=job["flags"], cmd=" ".join(job.get("cmd", [])) if job.get("cmd") else None)
    if schema.get("files"):
        total = sum(len(t) for t in schema["files"].values())
        w["yang"] = schema["files"] if total < 20000 else {k: "(%d bytes, see %s)" % (len(t), job["yang"][0]) for k, t in schema["files"].items()}
        w["top"] = schema["top"]
    else:
        w["yang_paths"] = schema["yang"]
        w["include_path"] = schema["path"]
    if v:
        w["proto_file"] = v.get("file")
        w["proto_excerpt"] = v.get("excerpt")
    return w


def run(tier, seed, replay, extra):
    try:
        return _run(tier, seed, replay, extra)
    except vlib.BuildError:
        raise  # reported by vlib.run_property as a build problem
    except Exception:  # the monitor must end with a verdict line, never with a traceback only
        import traceback
        traceback.print_exc(file=sys.stdout)
        print("INCONCLUSIVE property=%s monitor failed with an internal error (see traceback above)" % PROP)
        return 2


def _run(tier, seed, replay, extra):
    r = vreport.Run(PROP, tier, seed, level="exploration")
    r.rule = ("case = (schema, protogen option set); schemas: harness schemas, repository corpus, seeded random schemas, "
              "hash-directed and identifier-directed adversarial schemas; non-trivial = generator emitted >=1 message with >=2 "
              "fields; distinct = distinct (schema id, option set)")
    work = vlib.workdir(PROP)
    bindir = os.environ.get("VERIF_GENERATOR_BIN_DIR")
    if bindir:
        r.assume("generator binaries taken from VERIF_GENERATOR_BIN_DIR=%s" % bindir)
    else:
        bindir = vlib.build_generators(work)
    casedir = os.path.join(work, "cases")
    shutil.rmtree(casedir, ignore_errors=True)
    os.makedirs(casedir, exist_ok=True)
    optnames = QUICK_OPTS if r.quick() else THOROUGH_OPTS
    n_random = r.n(10, 100)

    if replay:
        return run_replay(r, replay, casedir, bindir)

    # ---- schemas ------------------------------------------------------------------------------
    schemas = []
    sdir = os.path.join(vlib.VERIF, "schemas")

    def rd(n):
        return open(os.path.join(sdir, n)).read()
    try:
        vtfiles = {n: rd(n) for n in ("vt.yang", "vt-aug.yang", "vt-types.yang") if os.path.exists(os.path.join(sdir, n))}
        if "vt.yang" in vtfiles:
            schemas.append(dict(id="harness/vt+aug", source="harness", cls="harness", files=dict(vtfiles),
                                top=[n for n in ("vt.yang", "vt-aug.yang") if n in vtfiles], stability=True))
            if os.path.exists(os.path.join(sdir, "vt-undef.yang")):
                f2 = dict(vtfiles)
                f2["vt-undef.yang"] = rd("vt-undef.yang")
                schemas.append(dict(id="harness/vt+aug+undef", source="harness", cls="harness", files=f2,
                                    top=[n for n in ("vt.yang", "vt-aug.yang", "vt-undef.yang") if n in f2], stability=True))
        if os.path.exists(os.path.join(sdir, "openconfig-vtoc.yang")):
            f3 = {n: rd(n) for n in ("openconfig-vtoc.yang", "vt-types.yang") if os.path.exists(os.path.join(sdir, n))}
            schemas.append(dict(id="harness/openconfig-vtoc", source="harness", cls="harness", files=f3,
                                top=["openconfig-vtoc.yang"], stability=True))
    except OSError as e:
        r.assume("harness schemas not readable: %s" % e)
    for ci, it in enumerate(corpus_items()):
        # quick tier: every corpus schema is generated and checked, the stability variants run for every 8th one
        schemas.append(dict(id="corpus/" + it["id"], source="corpus", cls="corpus", yang=it["yang"], path=it["path"],
                            flags=it.get("flags", []), stability=(not r.quick()) or ci % 8 == 0))
    for i in range(n_random):
        s = random_schema(seed, i, r)
        schemas.append(dict(id="random/%d-%d" % (seed, i), source="random", cls="random:" + s["origin"], files=s["files"],
                            top=s["top"], features=s.get("features", []),
                            stability=True if (i < 3 or not r.quick()) else "no-rerun"))
        r.hit("random-origin:" + s["origin"])
        for ft in s.get("features", [])[:60]:
            r.hit("random-feature:" + str(ft))

    # adversarial
    # quick tier: the hard-coded names (re-verified here against the Python re-implementation, and below against
    # the generator through the cross-check); thorough tier, or stale names: additionally a seeded bounded search
    stale = verify_names(PRECOMPUTED)
    adv = adv_static_schemas()
    if stale:
        r.hit("adversarial:precomputed-stale")
        r.assume("hard-coded adversarial names no longer hash as recorded: %s" % stale)
    else:
        adv += adv_hash_schemas(PRECOMPUTED, "pre") + adv_identity_schemas(PRECOMPUTED, "pre")
        r.hit("adversarial:precomputed-names-verified")
    if stale or not r.quick():
        t0 = time.time()
        live = find_adversarial_names(seed)
        bad_live = verify_names(live)
        r.extra["adversarial_search"] = dict(candidates=live["candidates"], secs=round(time.time() - t0, 2),
                                             missing=[str(t) for t, nm in live["border"].items() if not nm] +
                                             [k for k in ("oneof_coll", "id_zero") if not live[k]] +
                                             [k for k in ("pair_c", "pair_l", "pair_i") if not live[k][1]],
                                             inconsistent=bad_live)
        if not bad_live:
            adv += adv_hash_schemas(live, "live") + adv_identity_schemas(live, "live")
            r.hit("adversarial:live-search")
    for s in adv:
        s["source"] = "adversarial"
        s["stability"] = s["id"] == "adv-normal" or bool(s.get("want_stability"))
        schemas.append(s)
    by_id = {s["id"]: s for s in schemas}

    # ---- the cross-check of the hash re-implementation runs first -------------------------------
    normal = by_id["adv-normal"]
    first = make_jobs(normal, ["default"], casedir, bindir, False)[0]
    first["outdir"] += "-crosscheck"
    res0 = exec_case(first)
    hash_ok = bool(res0.get("crosscheck")) and not res0["crosscheck"]["bad"] and res0["crosscheck"]["ok"] > 0
    if hash_ok:
        r.hit("check:hash-crosscheck", res0["crosscheck"]["ok"])
    else:
        r.hit("adversarial:precomputed-stale")
        r.assume("field numbers emitted for ordinary leaves do not match the Python re-implementation of fieldTag "
                 "(%s); hash-directed names are stale, falling back to a black-box wide container"
                 % (res0.get("crosscheck") or res0.get("reason")))
    if not hash_ok or not r.quick():
        w = adv_wide_schema(seed, 30000)
        w["source"] = "adversarial"
        w["stability"] = False
        schemas.append(w)
        by_id[w["id"]] = w

    # ---- run ---------------------------------------------------------------------------------
    jobs = []
    for s in schemas:
        on = optnames
        if s.get("big"):
            on = ["default"]
        jobs += make_jobs(s, on, casedir, bindir, s.get("stability", False))
    results = {}
    t_pool = time.time()
    jobs_by_key = {j["key"]: j for j in jobs}
    workers = max(2, min(12, (os.cpu_count() or 4)))
    with concurrent.futures.ProcessPoolExecutor(max_workers=workers) as ex:
        futs = {ex.submit(exec_case, j): j for j in jobs}
        for fu in concurrent.futures.as_completed(futs):
            j = futs[fu]
            try:
                results[j["key"]] = fu.result()
            except Exception as e:  # a crash of the checker itself must be visible, not fatal
                results[j["key"]] = dict(key=j["key"], status="checker-error", reason=vreport.norm_err(repr(e)), viol=[],
                                         stats={}, numbers={}, enum_numbers={}, nontrivial=False, checks=[])
    r.extra["pool"] = dict(jobs=len(jobs), workers=workers, secs=round(time.time() - t_pool, 1),
                           job_cpu_secs=round(sum(x.get("secs", 0) for x in results.values()), 1),
                           slowest=sorted(((round(x.get("secs", 0), 2), k) for k, x in results.items()), reverse=True)[:5])
    return aggregate(r, schemas, jobs_by_key, results, optnames)


def aggregate(r, schemas, jobs_by_key, results, optnames):
    tot = dict(files_parsed=0, messages=0, fields=0, enums=0, enum_values=0, oneofs=0, imports=0, type_refs=0)
    programs = 0
    stability_pairs = 0
    usable, refused = {}, {}
    crosscheck_rehash = dict(ok=0, bad=[])
    for s in schemas:
        sid, src = s["id"], s["source"]
        for on in optnames:
            key = "%s|%s|base" % (sid, on)
            res = results.get(key)
            if res is None:
                continue
            job = jobs_by_key[key]
            job["cmd"] = res.get("cmd")
            programs += 1
            if res["status"] == "checker-error":
                r.inconclusive("checker failed on %s: %s" % (key, res["reason"]))
                continue
            if res["status"] in ("refused", "timeout", "empty"):
                r.case(key, False)
                r.hit("refused:%s" % res["reason"])
                r.hit("refused-source:%s" % src)
                refused.setdefault(sid, {})[on] = res["reason"]
                if src == "adversarial":
                    r.hit("adversarial-refused:%s" % s.get("cls"))
                continue
            if res["status"] == "crashed":
                r.case(key, False)
                r.hit("generator-crash:%s" % res["reason"])
                refused.setdefault(sid, {})[on] = "crash: " + res["reason"]
                continue
            usable.setdefault(sid, []).append(on)
            r.case(key, res["nontrivial"])
            r.hit("source:%s" % src)
            r.hit("opt:%s" % on)
            r.hit("source+opt:%s/%s" % (src, on))
            if src == "adversarial":
                r.hit("adversarial:%s" % s.get("cls"))
            for c in res["checks"]:
                r.hit("check:%s" % c)
            for k in tot:
                tot[k] += res["stats"].get(k, 0)
            r.sample(dict(schema=sid, options=on, messages=res["stats"].get("messages"), fields=res["stats"].get("fields"),
                          enums=res["stats"].get("enums"), files=res["stats"].get("files_parsed")))
            for v in res["viol"]:
                r.violate(v["clause"], v["features"], "%s [schema %s, options %s]" % (v["detail"], sid, on),
                          schema_witness(s, job, v))
            cc = res.get("crosscheck")
            if cc and not (s.get("expect") or {}).get("crosscheck"):
                crosscheck_rehash["ok"] += cc["ok"]
                crosscheck_rehash["bad"] += [(sid, on) + tuple(b) for b in cc["bad"]]
            elif cc:
                r.hit("check:hash-crosscheck", cc["ok"])
            # stability
            for variant, feat in (("rerun", "across-runs"), ("+leaf", "unrelated-leaf-added"), ("+module", "unrelated-module-added")):
                vres = results.get("%s|%s|%s" % (sid, on, variant))
                if vres is None:
                    continue
                programs += 1
                if vres["status"] != "ok":
                    r.hit("stability-variant-refused:%s" % variant)
                    continue
                stability_pairs += 1
                r.hit("check:stability")
                r.hit("stability:%s" % feat)
                for kind, a, b in (("field", res["numbers"], vres["numbers"]), ("enum-value", res["enum_numbers"], vres["enum_numbers"])):
                    diffs = [(k, a[k], b[k]) for k in a if k in b and a[k] != b[k]]
                    missing = [k for k in a if k not in b]
                    if diffs:
                        r.violate("unstable-number", "%s:%s" % (feat, kind),
                                  "%d %s numbers differ between the base run and the '%s' run, e.g. %s: %d -> %d [schema %s, options %s]"
                                  % (len(diffs), kind, variant, diffs[0][0], diffs[0][1], diffs[0][2], sid, on),
                                  dict(schema_witness(s, job), variant=variant, diffs=diffs[:10]))
                    if missing:
                        r.violate("unstable-number", "%s:%s-disappeared" % (feat, kind),
                                  "%d %ss of the base run are missing in the '%s' run, e.g. %s [schema %s, options %s]"
                                  % (len(missing), kind, variant, missing[0], sid, on),
                                  dict(schema_witness(s, job), variant=variant, missing=missing[:10]))
    if crosscheck_rehash["ok"]:
        r.hit("check:rehash-crosscheck", crosscheck_rehash["ok"])
    if crosscheck_rehash["bad"]:
        r.hit("crosscheck:retry-range-mismatch", len(crosscheck_rehash["bad"]))
        r.extra["rehash_mismatch"] = crosscheck_rehash["bad"][:10]
    r.extra.update(tot)
    r.extra["stability_pairs"] = stability_pairs
    r.extra["programs"] = programs
    r.extra["option_sets"] = list(optnames)
    corpus_ids = [s["id"] for s in schemas if s["source"] == "corpus"]
    r.extra["corpus_usable"] = sorted(i for i in corpus_ids if i in usable)
    r.extra["corpus_refused"] = {i: refused[i] for i in corpus_ids if i not in usable and i in refused}
    r.extra["refused_partially"] = {i: refused[i] for i in refused if i in usable}
    r.require_cov("source:corpus", "source:random", "source:adversarial", "check:stability", "check:hash-crosscheck")
    r.floor = 10
    return r.finish()


def run_replay(r, replay, casedir, bindir):
    try:
        w = json.load(open(replay))["witness"]
    except (OSError, ValueError, KeyError) as e:
        r.inconclusive("cannot read replay file %s: %s" % (replay, e))
        return r.finish()
    on = w.get("options", "default")
    if w.get("yang") and all(not str(t).startswith("(") for t in w["yang"].values()):
        s = dict(id="replay", source=w.get("source", "replay"), cls=w.get("construct"), files=w["yang"], top=w["top"], expect={})
    elif w.get("yang_paths"):
        s = dict(id="replay", source=w.get("source", "replay"), cls=w.get("construct"), yang=w["yang_paths"], path=w["include_path"])
    else:
        r.inconclusive("replay witness carries no schema")
        return r.finish()
    extra_flags = [f for f in w.get("flags", []) if f not in OPTSETS.get(on, {}).get("flags", [])]
    s["flags"] = extra_flags
    jobs = make_jobs(s, [on], casedir, bindir, False)
    res = exec_case(jobs[0])
    return _replay_finish(r, s, jobs[0], res)


def _replay_finish(r, s, job, res):
    job["cmd"] = res.get("cmd")
    r.case(job["key"], res.get("nontrivial", False))
    if res["status"] != "ok":
        print("replay: generator status %s (%s)" % (res["status"], res.get("reason")))
    for v in res.get("viol", []):
        r.violate(v["clause"], v["features"], v["detail"], schema_witness(s, job, v))
    r.floor = 0
    return r.finish()
