import cgcommon


def run(tier, seed, replay, extra):
    return cgcommon.run_reflective("C27", tier, seed, replay, extra)
