"""Python twin of harness/lib/report.go: verdicts, coverage, evidence, known findings."""
import hashlib
import json
import os
import re
import time

VERIF = os.path.dirname(os.path.dirname(os.path.abspath(__file__)))


def norm_err(s):
    s = re.sub(r'"[^"]*"|\'[^\']*\'|0x[0-9a-fA-F]+|[0-9]+', "_", s)
    return s[:120]


class Run:
    def __init__(self, prop, tier, seed, level="exploration"):
        self.prop, self.tier, self.seed, self.level = prop, tier, seed, level
        self.rule = ""
        self.start = time.time()
        self.evals = 0
        self.distinct = set()
        self.samples = []
        self.cov = {}
        self.viol = {}
        self.assumptions = []
        self.extra = {}
        self.inconcl = []
        self.require = []
        self.floor = 2
        self.exhaustive = False
        self.max_samples = 4
        self.known = []
        p = os.path.join(VERIF, "known_findings.jsonl")
        if os.path.exists(p):
            for line in open(p):
                line = line.strip()
                if not line or line.startswith("#"):
                    continue
                try:
                    k = json.loads(line)
                except ValueError:
                    continue
                if k.get("property") == prop:
                    self.known.append(k)

    def quick(self):
        return self.tier != "thorough"

    def n(self, q, t):
        return q if self.quick() else t

    def case(self, key, nontrivial=True):
        self.evals += 1
        if nontrivial:
            self.distinct.add(hashlib.sha256(key.encode()).digest()[:16])

    def sample(self, s):
        if len(self.samples) < self.max_samples:
            self.samples.append(s)

    def hit(self, key, n=1):
        self.cov[key] = self.cov.get(key, 0) + n

    def assume(self, s):
        self.assumptions.append(s)

    def require_cov(self, *keys):
        self.require += list(keys)

    def inconclusive(self, why):
        self.inconcl.append(why)

    def violate(self, clause, features, detail, witness=None):
        sig = "%s/%s/%s" % (self.prop, clause, features)
        if sig in self.viol:
            self.viol[sig]["count"] += 1
            return
        known = any(k.get("kind") == "known" and k.get("signature") == sig for k in self.known)
        self.viol[sig] = dict(signature=sig, clause=clause, detail=detail, witness=witness, count=1, known=known)

    def finish(self):
        os.makedirs(os.path.join(VERIF, "evidence"), exist_ok=True)
        os.makedirs(os.path.join(VERIF, "replay"), exist_ok=True)
        new, known_obs, vout = 0, [], []
        for sig in sorted(self.viol):
            v = self.viol[sig]
            if v["known"]:
                known_obs.append(sig)
                continue
            new += 1
            h = hashlib.sha256(sig.encode()).hexdigest()[:10]
            v["replay"] = os.path.join(VERIF, "replay", "%s-%s.json" % (self.prop, h))
            with open(v["replay"], "w") as fh:
                json.dump(dict(property=self.prop, signature=sig, tier=self.tier, seed=self.seed, detail=v["detail"],
                               witness=v["witness"], count=v["count"]), fh, indent=1, default=str)
            vout.append(dict(signature=sig, detail=v["detail"][:600], count=v["count"], replay=v["replay"]))
        for k in self.known:
            if k.get("kind") != "known":
                continue
            if k["signature"] in self.viol:
                print("KNOWN-FINDING: property=%s %s [%s] (observed %d times this run)"
                      % (self.prop, k.get("what_fails", ""), k["signature"], self.viol[k["signature"]]["count"]))
            else:
                print("KNOWN-FINDING: property=%s %s [%s] (listed; not re-observed by this run's workload)"
                      % (self.prop, k.get("what_fails", ""), k["signature"]))
        for c in self.require:
            if not self.cov.get(c):
                self.inconcl.append("coverage key never hit: " + c)
        if len(self.distinct) < self.floor:
            self.inconcl.append("only %d distinct non-trivial cases (floor %d)" % (len(self.distinct), self.floor))
        cov = dict(self.extra)
        cov.update(evaluations=self.evals, distinct_nontrivial=len(self.distinct), rule=self.rule,
                   samples=self.samples or ["no sample recorded"], matrix=self.cov,
                   known_findings_observed=known_obs)
        if vout:
            cov["violations"] = vout
        if self.inconcl:
            cov["inconclusive"] = self.inconcl
        if self.exhaustive:
            cov["exhaustive"] = True
        if self.level == "translation_validation":
            cov.setdefault("programs", self.evals)
            cov.setdefault("disagreements_checked", len(self.viol))
        tier = "thorough" if self.tier == "thorough" else "quick"
        wall = time.time() - self.start
        ev = dict(property_id=self.prop, tier=tier, seed=self.seed, level=self.level, coverage=cov,
                  assumptions=self.assumptions, wall_s=wall, violations=new)
        if not os.environ.get("VERIF_NO_EVIDENCE"):
            with open(os.path.join(VERIF, "evidence", self.prop + ".json"), "w") as fh:
                json.dump(ev, fh, indent=1, default=str)
        print("SUMMARY property=%s tier=%s seed=%d evaluations=%d distinct_nontrivial=%d violations=%d known_observed=%d wall=%.1fs"
              % (self.prop, tier, self.seed, self.evals, len(self.distinct), new, len(known_obs), wall))
        if new:
            for sig in sorted(self.viol):
                v = self.viol[sig]
                if not v["known"]:
                    print("VIOLATION property=%s replay=%s" % (self.prop, v["replay"]))
                    print("  signature: %s\n  detail: %s" % (sig, v["detail"][:600].replace("\n", " | ")))
            return 1
        if self.inconcl:
            for s in self.inconcl:
                print("INCONCLUSIVE property=%s %s" % (self.prop, s))
            return 2
        return 0
