"""Common orchestration for the reflective code-generation monitors C26, C27, C29:
generate Go packages for the harness schemas and for seeded random schemas,
link them all into one vmon binary and run the Go monitor over every linked
configuration."""
import json
import os
import shutil
import sys

import vlib
import vreport
import yanggen


def random_cfgs(prop, tier, seed):
    work = vlib.workdir(prop)
    ydir = os.path.join(work, "yang")
    shutil.rmtree(ydir, ignore_errors=True)
    nplain, noc = (3, 3) if tier != "thorough" else (20, 20)
    cfgs = {}
    for style, n in (("plain", nplain), ("oc", noc)):
        for i in range(n):
            sch = yanggen.gen_schema(seed, i, style)
            sid = "r%s%d" % (style[0], i)
            d = os.path.join(ydir, sid)
            os.makedirs(d)
            for fn, txt in sch["files"].items():
                with open(os.path.join(d, fn), "w") as fh:
                    fh.write(txt)
            base = dict(files=list(sch["top"]), ydir=d, path=d, features=sorted(sch.get("features", [])))
            if style == "plain":
                cfgs["rnd-%s/U-simple" % sid] = dict(base, pkg=sid + "us", flags=["-generate_simple_unions"],
                                                      attrs=dict(Compressed=False, Wrapper=False))
                if i % 2 == 0:
                    cfgs["rnd-%s/U-wrapper" % sid] = dict(base, pkg=sid + "uw", flags=[],
                                                           attrs=dict(Compressed=False, Wrapper=True))
            else:
                pflags = ["-compress_paths", "-generate_simple_unions", "-ignore_shadow_schema_paths"]
                if prop == "C29" and i % 2 == 1:
                    pflags.append("-list_builder_key_threshold=2")
                cfgs["rnd-%s/C-paths" % sid] = dict(base, pkg=sid + "cp", pathstructs=True, flags=pflags,
                                                     attrs=dict(Compressed=True, Wrapper=False, Shadow=True))
                if i % 2 == 0:
                    cfgs["rnd-%s/C-opstate" % sid] = dict(base, pkg=sid + "co",
                                                           flags=["-compress_paths", "-prefer_operational_state", "-generate_simple_unions"],
                                                           attrs=dict(Compressed=True, Wrapper=False, OpState=True))
    return cfgs


def prepare(prop, tier, seed, r):
    """Returns (work, binary, linked cfg names). Violations of C26's build clause are
    recorded in r when prop == 'C26'."""
    work = vlib.workdir(prop)
    bindir = vlib.build_generators(work)
    cfgs = dict(vlib.CFGS)
    cfgs["vtoc/C-paths"] = dict(pkg="vtocp", files=["openconfig-vtoc.yang"], pathstructs=True,
                                flags=["-compress_paths", "-generate_simple_unions", "-ignore_shadow_schema_paths"],
                                attrs=dict(Compressed=True, Wrapper=False, Shadow=True))
    if prop == "C29":
        # builder-style key API (lists with >= 2 keys get <List>Any() + With<Key>())
        cfgs["vtoc/C-paths-builder"] = dict(pkg="vtocpb", files=["openconfig-vtoc.yang"], pathstructs=True,
                                            flags=["-compress_paths", "-generate_simple_unions", "-ignore_shadow_schema_paths",
                                                   "-list_builder_key_threshold=2"],
                                            attrs=dict(Compressed=True, Wrapper=False, Shadow=True))
        # no wildcard accessors at all, with the simplify option (keys must still be rendered)
        cfgs["vtoc/C-paths-nowild"] = dict(pkg="vtocpn", files=["openconfig-vtoc.yang"], pathstructs=True,
                                           flags=["-compress_paths", "-generate_simple_unions", "-ignore_shadow_schema_paths",
                                                  "-generate_wildcard_paths=false", "-simplify_wildcard_paths=true"],
                                           attrs=dict(Compressed=True, Wrapper=False, Shadow=True, Simplify=True))
        cfgs["vtoc/C-paths-simplify"] = dict(pkg="vtocps", files=["openconfig-vtoc.yang"], pathstructs=True,
                                             flags=["-compress_paths", "-generate_simple_unions", "-ignore_shadow_schema_paths",
                                                    "-simplify_wildcard_paths=true"],
                                             attrs=dict(Compressed=True, Wrapper=False, Shadow=True, Simplify=True))
        # path structs together with wrapper unions (no -generate_simple_unions): union list
        # keys arrive as pointers to wrapper structs (KeyValueAsString's reflect.Ptr branch)
        cfgs["vtocu/C-paths-wrapper"] = dict(pkg="vtocuw", files=["openconfig-vtocu.yang"], pathstructs=True,
                                             flags=["-compress_paths"],
                                             attrs=dict(Compressed=True, Wrapper=True))
    cfgs.update(random_cfgs(prop, tier, seed))
    gen, ok = {}, {}
    for name, spec in cfgs.items():
        try:
            gen[spec["pkg"]] = vlib.generate_cfg(work, bindir, name, spec)
            ok[name] = spec
            r.hit("generated")
        except vlib.BuildError as e:
            # the generator refusing a schema is not a violation (unsupported statements); count it
            r.hit("generator-refused")
            r.hit("generator-refused:" + vreport.norm_err(e.out.strip().splitlines()[-1] if e.out.strip() else "?")[:80])
            if not name.startswith("rnd-"):
                raise
    while True:
        extra = vlib.write_shim(work, ok)
        ov = vlib.overlay_for(work, {s["pkg"]: gen[s["pkg"]] for s in ok.values()}, extra)
        out = os.path.join(work, "bin", "vmon")
        try:
            vlib.build_binary(work, ov, "./zzverif/cmd/vmon", out)
            break
        except vlib.BuildError as e:
            # find the generated package(s) that do not compile
            bad = []
            for name, spec in list(ok.items()):
                rc, o = vlib.sh(["go", "build", "-overlay", ov, "./zzverif/gen/" + spec["pkg"]], cwd=vlib.REPO)
                if rc != 0:
                    bad.append((name, spec, o))
            if not bad:
                raise
            for name, spec, o in bad:
                del ok[name]
                if prop == "C26":
                    first = [l for l in o.splitlines() if ".go:" in l][:1]
                    cls = vreport.norm_err(first[0].split(": ", 1)[-1]) if first else "build-error"
                    r.violate("generated-code-does-not-compile", cls, o[:1500],
                              dict(cfg=name, yang_dir=spec.get("ydir"), flags=spec["flags"], output=o[:4000]))
                else:
                    r.hit("dropped-uncompilable-package")
    return work, out, ok, ov


def merge_go(prop, tier, seed, r, work, binary, timeout=3600):
    """Run the Go monitor of prop in the prepared binary and merge its evidence into r."""
    import subprocess
    evp = os.path.join(work, "ev-go.json")
    if os.path.exists(evp):
        os.remove(evp)
    env = vlib.goenv()
    env.update(VERIF_DIR=vlib.VERIF, VERIF_WORK=work, VERIF_EVIDENCE_PATH=evp)
    p = subprocess.run([binary, "-prop", prop, "-tier", tier, "-seed", str(seed)], cwd=vlib.VERIF, env=env,
                       stdout=subprocess.PIPE, stderr=subprocess.PIPE, text=True, timeout=timeout)
    if "SUMMARY property=" not in p.stdout or not os.path.exists(evp):
        r.violate("fatal", "monitor-process-died", p.stderr[-1500:], dict(stderr_tail=p.stderr[-6000:], stdout_tail=p.stdout[-2000:]))
        return
    ev = json.load(open(evp))
    cov = ev["coverage"]
    r.evals += cov["evaluations"]
    for i in range(cov["distinct_nontrivial"]):
        r.distinct.add(("go/%d" % i).encode())
    for k, v in cov.get("matrix", {}).items():
        r.hit(k, v)
    for s in cov.get("samples", []):
        r.sample(s)
    for k, v in cov.items():
        if k not in ("evaluations", "distinct_nontrivial", "rule", "samples", "matrix", "violations", "known_findings_observed", "inconclusive"):
            r.extra[k] = v
    if not r.rule:
        r.rule = cov.get("rule", "")
    for a in ev.get("assumptions", []):
        r.assume(a)
    for v in cov.get("violations") or []:
        sig = v["signature"].split("/", 2)
        wit = None
        try:
            wit = json.load(open(v["replay"])).get("witness")
        except Exception:
            pass
        r.violate(sig[1], sig[2], v.get("detail", ""), wit)
    for k in cov.get("known_findings_observed") or []:
        sig = k.split("/", 2)
        r.violate(sig[1], sig[2], "(known finding observed by the Go monitor)", None)
    for inc in cov.get("inconclusive") or []:
        r.inconclusive(inc)


def run_reflective(prop, tier, seed, replay, extra, level="exploration", post=None):
    r = vreport.Run(prop, tier, seed, level)
    try:
        work, binary, ok, ov = prepare(prop, tier, seed, r)
    except vlib.BuildError as e:
        return vlib.fail_build(prop, e, vlib.workdir(prop))
    r.extra["configurations"] = sorted(ok)
    r.extra["programs"] = len(ok)
    merge_go(prop, tier, seed, r, work, binary)
    if post:
        post(r, work, ok, ov)
    return r.finish()
