#!/usr/bin/env python3
"""yanggen: seeded random YANG schema generator for the code-generation properties C25-C29.

    gen_schema(seed, index, style="plain"|"oc") -> {"files": {filename: text}, "top": [filenames],
                                                     "features": [sorted feature tags]}

Deterministic in (seed, index, style): every random decision comes from one random.Random seeded
with an integer derived from the three, no set/dict-hash iteration is involved.

Two styles:
  plain  1-3 modules (+ optional types module): main module, augmenting module(s); free-form trees
         (top-level containers/lists/leaves, choice/case, groupings, all scalar types, unions,
         leafrefs, identities derived in several modules, lists with mixed keys, colliding names).
  oc     OpenConfig conventions (openconfig-<x> module names, list inside surrounding container,
         config/state containers built from groupings, list keys = leafref to ../config/<key>,
         state = config false mirror + operational leaves) so that -compress_paths and path-struct
         generation work.

What is deliberately NOT generated (verified against /repo's generator; each would make the generator
reject the schema or is outside what ygot claims to support):
  * `bits`, `instance-identifier`, `anyxml`, rpc/notification/action input: unsupported by ygen.
  * list keys of type `empty` or `binary`, or unions containing them as keys: map key types unsupported.
  * keyless lists that are config true ("list does not contain any keys").
  * plain style: leafref paths use XPath data-tree paths (choice/case are not path elements).
  * oc style (compressed): a child of a list entry / container that has the same name as one of the
    leaves of its config/state containers ("duplicate name" after compression); top-level data nodes
    with the same name in two modules (duplicate fakeroot children); leaves directly in a container
    that also has config/state children are kept out (they would be neither config nor state).
  * enumeration typedefs that are *only* reachable through an unused grouping: harmless, but not produced.
  * default values on leaves of type leafref/binary/empty, and defaults inside unions with wrapper
    unions (the wrapper flag set drops -generate_populate_defaults anyway).
See the comments tagged AVOID below for rejections found while developing this generator.

    gen_schema(..., union_defaults=False)  same schema without `default` on union-typed leaves (wrapper unions)
    gen_schema(..., hazards=True)          additionally constructs that are accepted by the generator but yield Go
                                           code that does not compile / is nondeterministic (tags "hazard:*")
The result also carries "feature_counts" (tag -> number of uses), "style", "seed", "index".

Self test:  python3 driver/yanggen.py --selftest N  [--seed S] [--compile K] [--hazards]
  generates N schemas per style, runs generator / proto_generator with typical flag sets, prints the acceptance
  rate per (style, flag set) (>= 95 % required for plain/U-simple and oc/C-simple+paths) and compiles the Go
  output of the first K accepted schemas per flag set (with --hazards compile failures are only reported).
  Scratch files: <verif>/.work/yanggen.
"""
import os
import random
import sys

STYLES = ("plain", "oc")

INT_RANGES = {
    "int8": (-128, 127), "int16": (-32768, 32767), "int32": (-2 ** 31, 2 ** 31 - 1), "int64": (-2 ** 63, 2 ** 63 - 1),
    "uint8": (0, 255), "uint16": (0, 65535), "uint32": (0, 2 ** 32 - 1), "uint64": (0, 2 ** 64 - 1),
}
INT_TYPES = list(INT_RANGES)

# (pattern, example that matches, with a length that fits "1..16")
PATTERNS = [
    ("[a-z]+", "abc"), ("[a-zA-Z0-9_-]*", "ab_1"), ("[0-9]{1,3}(\\.[0-9]{1,3}){3}", "10.0.0.1"),
    ("(up|down)", "up"), ("[A-F0-9]{2}(:[A-F0-9]{2})*", "0A:1B"), ("\\d+", "42"), ("[^ ]+", "x-y"),
]

WORDS = ["alpha", "beta", "gamma", "delta", "omega", "node", "item", "entry", "peer", "link", "port", "unit",
         "zone", "rule", "flow", "path", "hop", "area", "tag", "label", "group", "member", "route", "table",
         "index", "name", "id", "value", "mode", "kind", "level", "counter", "status", "info", "data"]
# names chosen to collide after CamelCase mangling (foo-bar, foo_bar, FooBar, fooBar -> FooBar) or to
# differ only in case, or to end in the '_' used by ygot's uniquifier
COLLIDERS = [
    ["foo-bar", "foo_bar", "FooBar", "fooBar", "FooBar_", "foo-Bar", "Foo_Bar", "foo.bar"],
    ["a-b", "a_b", "AB", "aB", "a.b", "A-b"],
    ["if-name", "if_name", "IfName", "ifName", "ifname", "IFNAME", "Ifname"],
    ["x1", "x-1", "x_1", "X1", "X_1", "x.1"],
    ["up-time", "up_time", "UpTime", "uptime", "Uptime", "UPTIME"],
]
GO_KEYWORDS = ["type", "func", "range", "map", "interface", "default", "string", "select", "go", "chan", "var",
               "struct", "package", "import", "return", "switch", "case", "const", "for", "if", "else", "error",
               "nil", "true", "false", "int", "bool", "len", "new", "make", "init", "main"]
# names that collide with helpers/types emitted by gogen (tagged "name:helper" so that consumers which
# compile the output can tell them apart)
HELPER_NAMES = ["binary", "yang-empty", "schema", "device", "enum-types", "union-string",
                "union-int64", "union-bool", "union-unsupported", "e-base", "validate-x", "string-x", "parent",
                "config", "state", "key", "keys", "path", "root", "any"]
# HAZARDS: valid YANG that the generator accepts but for which (on the pinned tree) the generated Go does not
# compile. Only produced with gen_schema(..., hazards=True) and tagged "hazard:<kind>":
#   hazard:helper-name     leaf `validate` (field vs. method Validate), `get-<sibling>`/`set-<sibling>`/`new-<list>`/
#                          `append-<list>`/`delete-<list>` (field and method with the same name), top-level
#                          `unmarshal` under -compress_paths (struct Unmarshal vs. func Unmarshal),
#                          `<x>-any` / `<x>-path` next to `<x>` (path struct XAny / XPath declared twice)
#   hazard:enum-unset      enumeration value named UNSET (collides with the generated zero value <Enum>_UNSET)
#   hazard:enum-value-collision  enum values equal after sanitisation (foo-bar, foo_bar, foo.bar)
#   hazard:identity-same-name    same-named identities of two modules under one base (constant declared twice)
#   hazard:key-collision   a list key whose CamelCase name collides with a sibling leaf (New<List>/key struct use
#                          the un-uniquified field name)
HELPER_NAMES_OC = ["device", "e-base", "validate-x", "string-x", "parent", "key", "keys", "path", "root", "any"]
ENUM_NAME_SETS = [
    ["UP", "DOWN", "TESTING"], ["up", "down"], ["RED", "GREEN", "BLUE"], ["ONE", "TWO", "THREE", "FOUR"],
    ["ipv4", "ipv6", "l2-vpn"], ["A", "B"], ["low", "Medium", "HIGH"], ["foo-bar", "fooBar", "foo.bar2"],
    ["NOT-SET", "SET"], ["none", "some", "all", "x-1", "x2"], ["v1.0", "v2.0"], ["Up", "Down", "Unknown"],
]
IDENT_WORDS = ["ALPHA", "BETA", "GAMMA", "DELTA", "foo-bar", "FOO_BAR", "Kind-A", "kind-b", "IPV4", "IPV6", "L2",
               "other", "OTHER", "x.1", "X-1"]


def camel(s):
    """goyang's yang.CamelCase (used to engineer collisions, not as an oracle)."""
    if not s:
        return ""
    fix = lambda c: "_" if c in "-." else c
    t = []
    i = 0
    if fix(s[0]) == "_":
        t.append("X")
        i = 1
    n = len(s)
    while i < n:
        c = fix(s[i])
        if c == "_" and i + 1 < n and s[i + 1].islower() and s[i + 1].isascii():
            i += 1
            continue
        if c.isdigit():
            t.append(c)
            i += 1
            continue
        if c.islower():
            c = c.upper()
        t.append(c)
        while i + 1 < n and s[i + 1].islower() and s[i + 1].isascii():
            i += 1
            t.append(s[i])
        i += 1
    return "".join(t)


# --------------------------------------------------------------------------------------------
# model
# --------------------------------------------------------------------------------------------

class Names(list):
    """sibling name scope; `protected` holds CamelCase names that new siblings must not collide with."""

    def __init__(self, it=()):
        super().__init__(it)
        self.protected = []


class Mod:
    def __init__(self, name, prefix, ns, ver="1"):
        self.name, self.prefix, self.ns, self.ver = name, prefix, ns, ver
        self.imports = []      # Mod
        self.identities = []   # (name, [(Mod, basename)])
        self.typedefs = []     # TD
        self.groupings = []    # G
        self.body = []         # nodes
        self.augments = []     # (path, [nodes], comment)
        self.extra = []        # raw statements

    def imp(self, other):
        if other is not self and other not in self.imports:
            self.imports.append(other)

    def ref(self, other, name):
        """name of something defined in module `other`, as written inside this module."""
        if other is self:
            return name
        self.imp(other)
        return other.prefix + ":" + name


class TD:
    def __init__(self, mod, name, typ, default=None):
        self.mod, self.name, self.typ, self.default = mod, name, typ, default


class G:
    def __init__(self, mod, name, nodes, ro_only=False):
        self.mod, self.name, self.nodes, self.ro_only = mod, name, nodes, ro_only


class N:
    """data-definition node. kind: container|leaf|leaf-list|list|choice|case|uses"""

    def __init__(self, kind, name, **kw):
        self.kind, self.name = kind, name
        self.ch = []
        self.aug = []            # nodes added by augments of other modules (rendered there)
        self.parent = None
        self.typ = None
        self.config = None       # None: inherit; False: 'config false'
        self.keys = []
        self.default = None
        self.presence = False
        self.ordered = False
        self.ordered_sys = False  # explicit 'ordered-by system' (the default, stated)
        self.minel = self.maxel = None
        self.mandatory = False
        self.grouping = None     # for uses
        self.descr = None
        self.mod = None          # defining module (namespace of the node)
        for k, v in kw.items():
            setattr(self, k, v)

    def add(self, c):
        c.parent = self
        self.ch.append(c)
        return c


# types are dicts: {"t": kind, ...}
def T(t, **kw):
    d = {"t": t}
    d.update(kw)
    return d


def base_kind(typ):
    while typ["t"] == "typedef":
        typ = typ["td"].typ
    return typ["t"]


def resolve(typ):
    while typ["t"] == "typedef":
        typ = typ["td"].typ
    return typ


def type_has(typ, kinds):
    typ = resolve(typ)
    if typ["t"] in kinds:
        return True
    if typ["t"] == "union":
        return any(type_has(m, kinds) for m in typ["members"])
    return False


def keyable(typ):
    # AVOID: empty/binary (also inside unions) as list keys: gogen cannot build a map key from them.
    # AVOID: leafref inside a union used as a key (ygot resolves it, but keep keys simple).
    return not type_has(typ, ("empty", "binary", "leafref"))


# --------------------------------------------------------------------------------------------
# rendering
# --------------------------------------------------------------------------------------------

def q(s):
    return '"' + s.replace("\\", "\\\\").replace('"', '\\"') + '"'


def render_type(m, typ, ind):
    t = typ["t"]
    p = "  " * ind
    if t == "typedef":
        return "%stype %s;\n" % (p, m.ref(typ["td"].mod, typ["td"].name))
    if t in INT_RANGES:
        if typ.get("range"):
            return "%stype %s { range %s; }\n" % (p, t, q(typ["range"]))
        return "%stype %s;\n" % (p, t)
    if t == "string":
        subs = []
        if typ.get("length"):
            subs.append("length %s;" % q(typ["length"]))
        for pat in typ.get("patterns", []):
            subs.append("pattern '%s';" % pat)
        if subs:
            return "%stype string { %s }\n" % (p, " ".join(subs))
        return "%stype string;\n" % p
    if t == "decimal64":
        s = "fraction-digits %d;" % typ["fd"]
        if typ.get("range"):
            s += " range %s;" % q(typ["range"])
        return "%stype decimal64 { %s }\n" % (p, s)
    if t == "binary":
        if typ.get("length"):
            return "%stype binary { length %s; }\n" % (p, q(typ["length"]))
        return "%stype binary;\n" % p
    if t in ("boolean", "empty"):
        return "%stype %s;\n" % (p, t)
    if t == "enumeration":
        out = "%stype enumeration {\n" % p
        for name, val in typ["enums"]:
            if val is None:
                out += "%s  enum %s;\n" % (p, q(name) if not name.replace("-", "").replace("_", "").replace(".", "").isalnum() else name)
            else:
                out += "%s  enum %s { value %d; }\n" % (p, name, val)
        return out + "%s}\n" % p
    if t == "identityref":
        bm, bn = typ["base"]
        return "%stype identityref { base %s; }\n" % (p, m.ref(bm, bn))
    if t == "leafref":
        s = "path %s;" % q(typ["path"])
        if typ.get("require_instance") is False:
            s += " require-instance false;"
        return "%stype leafref { %s }\n" % (p, s)
    if t == "union":
        out = "%stype union {\n" % p
        for mem in typ["members"]:
            out += render_type(m, mem, ind + 1)
        return out + "%s}\n" % p
    raise ValueError("unknown type " + t)


def render_node(m, n, ind):
    p = "  " * ind
    out = ""
    if n.kind == "uses":
        return "%suses %s;\n" % (p, m.ref(n.grouping.mod, n.grouping.name))
    out += "%s%s %s {\n" % (p, n.kind, n.name)
    if n.kind == "list":
        if n.keys:
            out += "%s  key %s;\n" % (p, q(" ".join(n.keys)))
        if n.ordered:
            out += "%s  ordered-by user;\n" % p
    if n.kind in ("list", "leaf-list") and n.ordered_sys and not n.ordered:
        out += "%s  ordered-by system;\n" % p
    if n.descr:
        out += "%s  description %s;\n" % (p, q(n.descr))
    if n.kind == "container" and n.presence:
        out += "%s  presence \"presence of %s\";\n" % (p, n.name)
    if n.config is False:
        out += "%s  config false;\n" % p
    if n.kind in ("leaf", "leaf-list"):
        out += render_type(m, n.typ, ind + 1)
        if n.default is not None:
            for d in (n.default if isinstance(n.default, list) else [n.default]):
                out += "%s  default %s;\n" % (p, q(d))
    if n.kind == "choice" and n.default is not None:
        out += "%s  default %s;\n" % (p, n.default)
    if n.mandatory:
        out += "%s  mandatory true;\n" % p
    if n.kind in ("list", "leaf-list"):
        if n.minel is not None:
            out += "%s  min-elements %d;\n" % (p, n.minel)
        if n.maxel is not None:
            out += "%s  max-elements %d;\n" % (p, n.maxel)
    for c in n.ch:
        out += render_node(m, c, ind + 1)
    return out + "%s}\n" % p


def render_module(m):
    body = ""
    # render body first: it may add imports through m.ref
    for name, bases in m.identities:
        if bases:
            body += "  identity %s {%s }\n" % (name, "".join(" base %s;" % m.ref(bm, bn) for bm, bn in bases))
        else:
            body += "  identity %s;\n" % name
    if m.identities:
        body += "\n"
    for td in m.typedefs:
        body += "  typedef %s {\n%s" % (td.name, render_type(m, td.typ, 2))
        if td.default is not None:
            body += "    default %s;\n" % q(td.default)
        body += "  }\n"
    if m.typedefs:
        body += "\n"
    for g in m.groupings:
        body += "  grouping %s {\n" % g.name
        for n in g.nodes:
            body += render_node(m, n, 2)
        body += "  }\n\n"
    for n in m.body:
        body += render_node(m, n, 1)
    for path, nodes, comment in m.augments:
        body += "\n  augment %s {\n" % q(path)
        if comment:
            body += "    description %s;\n" % q(comment)
        for n in nodes:
            body += render_node(m, n, 2)
        body += "  }\n"
    for raw in m.extra:
        body += raw
    head = "module %s {\n  yang-version %s;\n  namespace %s;\n  prefix %s;\n\n" % (m.name, m.ver, q(m.ns), m.prefix)
    for i in m.imports:
        head += "  import %s { prefix %s; }\n" % (i.name, i.prefix)
    if m.imports:
        head += "\n"
    head += "  description \"generated by yanggen\";\n  revision 2024-01-01 { description \"r\"; }\n\n"
    return head + body + "}\n"


# --------------------------------------------------------------------------------------------
# generator core shared by both styles
# --------------------------------------------------------------------------------------------

class Gen:
    def __init__(self, seed, index, style, union_defaults=True, hazards=False):
        self.union_defaults = union_defaults
        self.hazards = hazards
        self.idnames = []      # identity names used in any module (kept distinct unless hazards)
        self.enum_td_names = []  # names of typedefs with an enumerated type, over all modules
        sid = STYLES.index(style)
        self.r = random.Random((seed * 1000003 + index) * 7 + sid)
        self.seed, self.index, self.style = seed, index, style
        self.feat = {}
        self.mods = []
        self.idbases = []      # (Mod, basename, [(Mod, derivedname)])
        self.typedefs = []     # TD usable from anywhere
        self.p_collide = self.r.choice([0.0, 0.1, 0.25, 0.5])
        self.p_keyword = self.r.choice([0.0, 0.05, 0.15])
        self.p_helper = self.r.choice([0.0, 0.0, 0.05])
        self.colliders = self.r.choice(COLLIDERS)
        self.choice_depth = 0

    def f(self, tag):
        self.feat[tag] = self.feat.get(tag, 0) + 1

    def strip_union_defaults(self):
        """AVOID (wrapper unions only): "default value not supported for wrapper union values". Callers that
        generate wrapper unions ask for union_defaults=False; done as a post-pass so that the rest of the
        schema is identical to the union_defaults=True one."""
        if self.union_defaults:
            return

        def walk(nodes):
            for n in nodes:
                if n.kind in ("leaf", "leaf-list") and n.default is not None and type_has(n.typ, ("union",)):
                    n.default = None
                walk(n.ch)
        for m in self.mods:
            walk(m.body)
            for g in m.groupings:
                walk(g.nodes)
            for _, nodes, _ in m.augments:
                walk(nodes)
            for td in m.typedefs:
                if td.default is not None and type_has(td.typ, ("union",)):
                    td.default = None

    def strip_collision_defaults(self, nodes):
        """AVOID (unless hazards): a default value on a leaf whose CamelCase name collides with a sibling.
        gogen looks the default up by the un-uniquified field name, so the getter / PopulateDefaults of
        `FooBar_` returns the default of `FooBar` (type mismatch -> does not compile)."""
        if self.hazards:
            return
        groups = {}
        for n in nodes:
            if n.name:
                groups.setdefault(camel(n.name), []).append(n)
        for k, g in groups.items():
            if len(g) < 2:
                continue
            for n in g:
                if n.kind not in ("leaf", "leaf-list"):
                    continue
                if n.default is not None:
                    n.default = None
                    self.f("avoided:default-on-colliding-leaf")
                t = n.typ
                while t["t"] == "typedef":
                    if t["td"].default is not None:
                        n.typ = T("string", ex="abc")
                        self.f("avoided:default-on-colliding-leaf")
                        break
                    t = t["td"].typ
                # AVOID (unless hazards): union-typed leaves in a CamelCase collision group: the generated union
                # interface <Struct>_<Leaf>_Union and its To_..._Union helper are named after the un-uniquified
                # leaf name and get mixed up
                if type_has(n.typ, ("union",)):
                    iskey = n.parent is not None and n.parent.kind == "list" and n.name in n.parent.keys
                    n.typ = T("string", ex="abc")
                    self.f("avoided:union-on-colliding-leaf")

    def flat_children(self, nodes):
        """data nodes of one sibling scope: uses and choice/case flattened."""
        out = []
        for c in nodes:
            if c.kind == "uses":
                out += self.flat_children(c.grouping.nodes)
            elif c.kind in ("choice", "case"):
                out += self.flat_children(c.ch + c.aug)
            else:
                out.append(c)
        return out

    def strip_all_collision_defaults(self):
        def scope(nodes):
            fl = self.flat_children(nodes)
            self.strip_collision_defaults(fl)
            for c in fl:
                if c.kind in ("container", "list"):
                    scope(c.ch + c.aug)
        top = []
        for m in self.mods:
            top += m.body
        scope(top)

    # ---- enum / union name clashes -------------------------------------------------------------
    def walk_instances(self, nodes, path, cb):
        for n in nodes:
            if n.kind == "uses":
                self.walk_instances(n.grouping.nodes, path, cb)
                continue
            # ygen names enums after util.SchemaPathNoChoiceCase: choice/case names are not path elements
            p = path if n.kind in ("choice", "case") else path + [n.name]
            if n.kind in ("leaf", "leaf-list"):
                cb(n, p)
            else:
                self.walk_instances(n.ch + n.aug, p, cb)

    @staticmethod
    def inline_enum(typ):
        return typ["t"] == "enumeration" or (typ["t"] == "union" and any(x["t"] == "enumeration" for x in typ["members"]))

    def fix_enum_name_clashes(self):
        """AVOID: two *different* inline enumerations (or unions with an inline enumeration) on leaves whose
        schema paths (choice/case excluded) are equal after CamelCase mangling. ygen names the generated enum
        <Module>_<CamelCase path> and refuses: "clash in enumerated name occurred despite paths being
        uncompressed". The later leaf is retyped to string.
        AVOID (unless hazards): the same for two union-typed leaves: the generator accepts them, but the union
        interface <CamelCase path>_Union is emitted for both (a_b/x and a-b/x -> AB_X_Union): no compile."""
        for _ in range(20):
            seen = {}
            clash = []

            def cb(n, p):
                kinds = []
                if self.inline_enum(n.typ):
                    kinds.append("e")
                if not self.hazards and type_has(n.typ, ("union",)):
                    kinds.append("u")
                for k in kinds:
                    key = (k,) + tuple(camel(x) for x in p)
                    if key in seen and seen[key] is not n:
                        if n not in clash:
                            clash.append(n)
                    else:
                        seen.setdefault(key, n)
            for m in self.mods:
                self.walk_instances(m.body, [], cb)
            if not clash:
                return
            for n in clash:
                n.typ = T("string", ex="abc")
                n.default = None
                self.f("avoided:enum-or-union-name-clash")

    def link_parents(self, nodes, parent=None):
        for n in nodes:
            n.parent = parent
            self.link_parents(n.ch, n)

    # ---- names ---------------------------------------------------------------------------
    def fresh(self, used, nocollide=False):
        """a sibling name not in `used` (exact match; YANG identifiers are case sensitive)."""
        r = self.r
        for _ in range(50):
            x = r.random()
            if x < self.p_collide:
                # collide with an existing sibling after CamelCase mangling if possible
                cands = []
                if used and r.random() < 0.5:
                    base = r.choice(list(used))
                    cands = [base.replace("-", "_"), base.replace("_", "-"), camel(base), base + "_", base.upper(),
                             base.lower(), base.capitalize(), base.replace("-", ".")]
                if not cands:
                    cands = self.colliders
                name = r.choice(cands)
                tag = "name:collide"
            elif x < self.p_collide + self.p_keyword:
                name = r.choice(GO_KEYWORDS)
                tag = "name:go-keyword"
            elif x < self.p_collide + self.p_keyword + self.p_helper:
                # AVOID (unless hazards), compressed: top-level binary / yang-empty / union-int64 ... become structs
                # named like the helper types (Binary, YANGEmpty, UnionInt64): "redeclared"
                name = r.choice(HELPER_NAMES if (self.style == "plain" or self.hazards) else HELPER_NAMES_OC)
                tag = "name:helper"
            else:
                name = r.choice(WORDS)
                if r.random() < 0.4:
                    name += r.choice(["-", "_", ""]) + r.choice(WORDS + ["1", "2", "v4", "v6"])
                tag = None
            if self.hazards and r.random() < 0.04:
                if used and r.random() < 0.7:
                    name = r.choice(["get-%s", "set-%s", "new-%s", "append-%s", "delete-%s", "%s-any", "%s-path",
                                     "get-or-create-%s"]) % r.choice(list(used))
                else:
                    name = r.choice(["validate", "unmarshal"])
                tag = "hazard:helper-name"
            if not name or not (name[0].isalpha() or name[0] == "_") or name.lower().startswith("xml"):
                continue
            if name in used or (self.style == "oc" and name in ("config", "state")):
                continue
            if not self.hazards and camel(name) in getattr(used, "protected", ()):
                # AVOID (unless hazards): CamelCase collision with a list key, see hazard:key-collision
                continue
            if nocollide and not self.hazards and any(camel(u) == camel(name) for u in used):
                continue
            if self.style == "oc" and not self.hazards and len(name) > 4 and \
                    (camel(name).endswith("Path") or camel(name).endswith("Any")):
                # AVOID (unless hazards): ypathgen appends Path / PathAny to struct names and embeds
                # ygot.NodePath: siblings x + x-path, x + x-any, or a leaf node-path do not compile
                continue
            if tag:
                if tag == "name:collide" and any(camel(u) == camel(name) for u in used):
                    self.f("name:camel-collision")
                self.f(tag)
            used.append(name)
            return name
        n = 0
        while "n%d" % n in used:
            n += 1
        used.append("n%d" % n)
        return "n%d" % n

    # ---- types ---------------------------------------------------------------------------
    def int_type(self, t=None):
        r = self.r
        t = t or r.choice(INT_TYPES)
        lo, hi = INT_RANGES[t]
        typ = T(t)
        x = r.random()
        if x < 0.25:
            a = r.randint(lo, hi)
            b = r.randint(a, hi)
            typ["range"] = "%d..%d" % (a, b)
            typ["ex"] = a
        elif x < 0.35:
            # several parts, min/max keywords
            a = r.randint(lo, lo + (hi - lo) // 4)
            b = r.randint(a, a + (hi - lo) // 4)
            c = r.randint(b + 2, hi - 1)
            typ["range"] = "%d..%d | %d..max" % (a, b, c)
            typ["ex"] = c
        else:
            typ["ex"] = r.choice([lo, hi, 0 if lo <= 0 else lo, 1, 42])
        self.f("type:" + t)
        if typ.get("range"):
            self.f("restr:range")
        return typ

    def string_type(self):
        r = self.r
        typ = T("string", ex="abc")
        x = r.random()
        if x < 0.3:
            pat, ex = r.choice(PATTERNS)
            typ["patterns"] = [pat]
            typ["ex"] = ex
            self.f("restr:pattern")
            if r.random() < 0.3:
                typ["length"] = "1..16"
                self.f("restr:length")
            elif r.random() < 0.2:
                typ["patterns"].append(".*")
        elif x < 0.5:
            typ["length"] = r.choice(["1..16", "0..255", "3", "1..4 | 8..max", "min..32"])
            typ["ex"] = "abc"
            self.f("restr:length")
        self.f("type:string")
        return typ

    def dec_type(self):
        r = self.r
        fd = r.choice([1, 2, 3, 6, 9, 12, 18])
        typ = T("decimal64", fd=fd, ex="1." + "5".ljust(min(fd, 3), "0")[:fd])
        if r.random() < 0.3 and fd <= 9:
            typ["range"] = r.choice(["0..100", "-10.5..10.5" if fd >= 1 else "-10..10", "min..0 | 1..max", "0.1..99.9"])
            typ["ex"] = "1.5" if "min" not in typ["range"] else "2.5"
            self.f("restr:range")
        self.f("type:decimal64")
        return typ

    def enum_type(self):
        r = self.r
        names = list(r.choice(ENUM_NAME_SETS))
        r.shuffle(names)
        names = names[:r.randint(1, len(names))]
        if self.hazards and r.random() < 0.08:
            names.append("UNSET")
            self.f("hazard:enum-unset")
        elif self.hazards and r.random() < 0.05:
            names = ["foo-bar", "foo_bar", "foo.bar"]
            self.f("hazard:enum-value-collision")
        enums = []
        explicit = r.random() < 0.4
        # goyang assigns implicit values as max(-1, highest so far) + 1
        cur = -1
        first = True
        for nm in names:
            if explicit and r.random() < 0.7:
                if first and r.random() < 0.3:
                    enums.append((nm, r.choice([-5, -1, -128])))
                else:
                    cur = cur + r.randint(1, 20)
                    enums.append((nm, cur))
            else:
                enums.append((nm, None))
                cur = cur + 1
            first = False
        if explicit:
            self.f("enum:explicit-values")
        self.f("type:enumeration")
        return T("enumeration", enums=enums, ex=enums[0][0])

    def idref_type(self, m):
        cands = [b for b in self.idbases if b[0] is m or self.can_import(m, b[0])]
        if not cands:
            return self.enum_type()
        bm, bn, derived = self.r.choice(cands)
        self.f("type:identityref")
        if len({d[0].name for d in derived}) > 1:
            self.f("identity:derived-in-two-modules")
        ex = None
        if derived:
            ex = derived[0]
        return T("identityref", base=(bm, bn), exid=ex)

    def scalar_type(self, m, allow_empty=True):
        r = self.r
        k = r.choice(["int", "int", "string", "string", "boolean", "decimal64", "binary", "empty", "enumeration",
                      "identityref", "typedef", "typedef"])
        if k == "int":
            return self.int_type()
        if k == "string":
            return self.string_type()
        if k == "boolean":
            self.f("type:boolean")
            return T("boolean", ex="true")
        if k == "decimal64":
            return self.dec_type()
        if k == "binary":
            self.f("type:binary")
            typ = T("binary")
            if r.random() < 0.4:
                typ["length"] = r.choice(["1..8", "4", "0..64"])
            return typ
        if k == "empty":
            if not allow_empty:
                return self.int_type()
            self.f("type:empty")
            return T("empty")
        if k == "enumeration":
            return self.enum_type()
        if k == "identityref":
            return self.idref_type(m)
        return self.typedef_ref(m)

    def typedef_ref(self, m, want=None):
        cands = [td for td in self.typedefs if (want is None or base_kind(td.typ) in want)]
        # a module can only use typedefs of modules that do not import it (no import cycles)
        cands = [td for td in cands if td.mod is m or self.can_import(m, td.mod)]
        if not cands:
            return self.int_type()
        td = self.r.choice(cands)
        bk = base_kind(td.typ)
        self.f("typedef:" + bk)
        if td.mod is not m:
            self.f("typedef:from-other-module")
        return T("typedef", td=td)

    def can_import(self, m, other):
        """m may import other iff other does not (transitively) import m; import order = creation order."""
        return self.mods.index(other) < self.mods.index(m) if other in self.mods and m in self.mods else True

    def union_type(self, m, allow_empty=True, forkey=False):
        r = self.r
        members = []
        kinds = []
        n = r.randint(2, 4)
        tries = 0
        while len(members) < n and tries < 20:
            tries += 1
            k = r.choice(["int", "string", "enumeration", "identityref", "td-enum", "td-enum", "td-any", "boolean",
                          "decimal64", "binary"])
            if k == "int":
                # AVOID nothing: several integer members of different width are fine
                mt = self.int_type()
            elif k == "string":
                if "string" in kinds:
                    continue
                mt = self.string_type()
            elif k == "enumeration":
                if "enumeration" in kinds:
                    # AVOID: two anonymous enumerations in one union are legal YANG; ygot names the generated
                    # enum after the leaf, so keep one inline enumeration per union (td enums are unlimited)
                    continue
                mt = self.enum_type()
            elif k == "identityref":
                mt = self.idref_type(m)
            elif k == "td-enum":
                mt = self.typedef_ref(m, want=("enumeration",))
                if base_kind(mt) == "enumeration":
                    self.f("union:typedef-enum-member")
            elif k == "td-any":
                mt = self.typedef_ref(m)
                if base_kind(mt) == "union":
                    self.f("union:nested-union-typedef")
            elif k == "boolean":
                if "boolean" in kinds:
                    continue
                mt = T("boolean", ex="true")
            elif k == "decimal64":
                if "decimal64" in kinds:
                    continue
                mt = self.dec_type()
            else:
                if forkey or "binary" in kinds:
                    continue
                mt = T("binary")
            if forkey and not keyable(mt):
                continue
            bk = base_kind(mt)
            # a typedef may be referenced twice in a union only once
            if mt["t"] == "typedef" and any(x["t"] == "typedef" and x["td"] is mt["td"] for x in members):
                continue
            kinds.append(bk)
            members.append(mt)
        if len(members) < 2:
            members = [self.int_type("int32"), self.string_type()]
        self.f("type:union")
        return T("union", members=members)

    def leaf_type(self, m, allow_empty=True, forkey=False):
        r = self.r
        for _ in range(10):
            x = r.random()
            if x < 0.18:
                typ = self.union_type(m, forkey=forkey)
            else:
                typ = self.scalar_type(m, allow_empty=allow_empty)
            if forkey and not keyable(typ):
                continue
            if not allow_empty and type_has(typ, ("empty",)):
                continue
            return typ
        return self.string_type()

    def default_for(self, m, typ):
        """a valid default value (string) for typ as written in module m, or None."""
        r = self.r
        if typ["t"] == "typedef":
            return self.default_for(typ["td"].mod, typ["td"].typ) if typ["td"].mod is m else self._td_default(m, typ)
        t = typ["t"]
        if t in INT_RANGES or t in ("string", "decimal64", "boolean"):
            return str(typ.get("ex")) if typ.get("ex") is not None else None
        if t == "enumeration":
            return r.choice(typ["enums"])[0]
        if t == "identityref":
            if not typ.get("exid"):
                return None
            dm, dn = typ["exid"]
            # AVOID: default naming an identity of a module that m cannot import
            if dm is not m and not self.can_import(m, dm):
                return None
            return m.ref(dm, dn)
        if t == "union":
            # (wrapper unions: see strip_union_defaults)
            res = None
            for mem in typ["members"]:
                d = self.default_for(m, mem)
                if d is not None and base_kind(mem) not in ("identityref",):
                    res = d
                    break
            return res
        return None

    def _td_default(self, m, typ):
        rt = resolve(typ)
        if type_has(rt, ("union",)):
            return None
        if rt["t"] in ("identityref", "union"):
            return None
        return self.default_for(typ["td"].mod, rt)

    # ---- identities / typedefs -----------------------------------------------------------
    def make_identities(self, m, nbases):
        r = self.r
        used = self.idnames if not self.hazards else [n for n, _ in m.identities]
        for _ in range(nbases):
            bn = self.uniq(r.choice(["BASE", "KIND", "PROTO", "AF-TYPE", "base-id", "Tunnel_Type"]), used)
            m.identities.append((bn, []))
            derived = []
            for _ in range(r.randint(1, 4)):
                dn = self.uniq(r.choice(IDENT_WORDS), used)
                m.identities.append((dn, [(m, bn)]))
                derived.append((m, dn))
            if r.random() < 0.4 and derived:
                # second-level derivation
                dn = self.uniq(r.choice(IDENT_WORDS) + "-SUB", used)
                m.identities.append((dn, [derived[0]]))
                derived.append((m, dn))
                self.f("identity:two-level")
            self.idbases.append((m, bn, derived))
            self.f("identity:base")

    def derive_identities(self, m):
        """derive identities in module m from bases of other (importable) modules."""
        r = self.r
        used = self.idnames if not self.hazards else [n for n, _ in m.identities]
        for i, (bm, bn, derived) in enumerate(self.idbases):
            if bm is m or not self.can_import(m, bm) or r.random() < 0.3:
                continue
            for _ in range(r.randint(1, 2)):
                # sometimes reuse a name that already exists in the base's module (same-named identity in
                # two modules under one base)
                if derived and r.random() < 0.3 and self.hazards:
                    dn = r.choice(derived)[1]
                    if dn in used:
                        continue
                    used.append(dn)
                    self.f("hazard:identity-same-name")
                else:
                    dn = self.uniq(r.choice(IDENT_WORDS), used)
                m.identities.append((dn, [(bm, bn)]))
                derived.append((m, dn))
                self.f("identity:derived-other-module")

    def uniq(self, name, used):
        n = name
        i = 2
        while n in used:
            n = "%s%d" % (name, i)
            i += 1
        used.append(n)
        return n

    def make_typedefs(self, m, count, samenames=None):
        r = self.r
        used = [td.name for td in m.typedefs]
        for _ in range(count):
            k = r.choice(["enumeration", "enumeration", "union", "int", "string", "decimal64", "identityref", "td"])
            if k == "enumeration":
                typ = self.enum_type()
            elif k == "union":
                typ = self.union_type(m)
                self.f("typedef-of:union")
            elif k == "int":
                typ = self.int_type()
            elif k == "string":
                typ = self.string_type()
            elif k == "decimal64":
                typ = self.dec_type()
            elif k == "identityref":
                typ = self.idref_type(m)
            else:
                typ = self.typedef_ref(m)
                if typ["t"] == "typedef":
                    self.f("typedef-of:typedef")
            base = {"enumeration": ["colour", "oper-status", "mode", "level", "af"], "union": ["mixed", "id-or-name"],
                    "int": ["percent", "counter", "small"], "string": ["name-str", "addr"],
                    "decimal64": ["ratio"], "identityref": ["kind-ref"], "td": ["alias"]}[k]
            name = r.choice(base)
            if samenames and r.random() < 0.5:
                # same-named typedef in several modules
                cand = [n for n in samenames if n not in used]
                if cand:
                    name = r.choice(cand)
                    self.f("typedef:same-name-two-modules")
            enumish = type_has(typ, ("enumeration", "identityref"))
            if enumish and not self.hazards:
                # AVOID (unless hazards): same-named typedefs with an enumerated type in two modules. Without
                # -typedef_enum_with_defmod both are named <ResidingModule>_<Typedef>; one definition wins and
                # the code using the other's values does not compile (hazard:typedef-enum-same-name).
                while name in used or name in self.enum_td_names:
                    name = self.uniq(name, list(used) + self.enum_td_names)
                used.append(name)
                self.enum_td_names.append(name)
            else:
                name = self.uniq(name, used)
                if enumish:
                    if name in self.enum_td_names:
                        self.f("hazard:typedef-enum-same-name")
                    self.enum_td_names.append(name)
            td = TD(m, name, typ)
            if r.random() < 0.2 and base_kind(typ) in INT_TYPES + ["string", "enumeration", "decimal64", "boolean"]:
                # (never a union: see default_for)
                td.default = self.default_for(m, typ)
                if td.default is not None:
                    self.f("typedef:default")
            m.typedefs.append(td)
            self.typedefs.append(td)
            if k not in ("union", "td"):
                self.f("typedef-of:" + base_kind(typ))

    # ---- leaves --------------------------------------------------------------------------
    def make_leaf(self, m, used, ro=False, allow_default=True, typ=None, name=None):
        r = self.r
        n = N("leaf", name or self.fresh(used), mod=m)
        n.typ = typ or self.leaf_type(m)
        if allow_default and r.random() < 0.3:
            n.default = self.default_for(m, n.typ)
            if n.default is not None:
                self.f("default:leaf")
                self.f("default:" + base_kind(n.typ))
        if n.default is None and r.random() < 0.05 and base_kind(n.typ) != "empty":
            n.mandatory = True
            self.f("mandatory")
        if r.random() < 0.1:
            n.descr = "leaf %s with \"quotes\" and a \\ backslash" % n.name
        return n

    def make_leaflist(self, m, used):
        r = self.r
        n = N("leaf-list", self.fresh(used), mod=m)
        n.typ = self.leaf_type(m, allow_empty=False)
        # AVOID: leaf-list of empty is invalid YANG
        if r.random() < 0.25:
            n.minel = r.choice([0, 1, 2])
            self.f("min-elements")
        if r.random() < 0.25:
            n.maxel = (n.minel or 0) + r.randint(1, 5)
            self.f("max-elements")
        if r.random() < 0.2:
            n.ordered_sys = True
            self.f("leaf-list:ordered-by-system")
        self.f("leaf-list")
        self.f("leaf-list:" + base_kind(n.typ))
        return n


# --------------------------------------------------------------------------------------------
# plain style
# --------------------------------------------------------------------------------------------

class PlainGen(Gen):
    def build(self):
        r = self.r
        tag = "ys%d" % self.index
        ver = r.choice(["1", "1.1", "1.1"])
        nmods = r.choice([1, 2, 2, 3, 3])
        with_types = r.random() < 0.7
        types = None
        if with_types:
            types = Mod(tag + "-types", "yt", "urn:yanggen:%s:types" % tag, ver)
            self.mods.append(types)
            self.make_identities(types, r.randint(1, 2))
            self.make_typedefs(types, r.randint(2, 5))
            self.f("module:types")
        main = Mod(tag + "-main", "ym", "urn:yanggen:%s:main" % tag, ver)
        self.mods.append(main)
        self.main = main
        self.make_identities(main, r.randint(1, 2))
        if types:
            self.derive_identities(main)
        samenames = [td.name for td in types.typedefs] if types else None
        self.make_typedefs(main, r.randint(1, 4), samenames)
        self.make_groupings(main, r.randint(1, 3))
        if types and r.random() < 0.5:
            self.make_groupings(types, 1)
        # data tree
        used = []
        self.budget = r.randint(25, 70)
        ntop = r.randint(2, 5)
        for _ in range(ntop):
            c = N("container", self.fresh(used), mod=main)
            self.fill(main, c, depth=1, ro=False)
            main.body.append(c)
        if r.random() < 0.4:
            l = self.make_list(main, used, depth=1, ro=False)
            main.body.append(l)
            self.f("top-level:list")
        if r.random() < 0.4:
            main.body.append(self.make_leaf(main, used))
            self.f("top-level:leaf")
        if r.random() < 0.25:
            main.body.append(self.make_leaflist(main, used))
            self.f("top-level:leaf-list")
        if r.random() < 0.3:
            ch = self.make_choice(main, used, depth=1, ro=False)
            main.body.append(ch)
            self.f("top-level:choice")
        if r.random() < 0.4 and main.groupings:
            g = r.choice([g for g in self.groupings_for(main)] or [None])
            if g and not g.ro_only and not self.names_clash(g, used):
                main.body.append(N("uses", None, grouping=g, mod=main))
                used.extend(self.gnames(g))
                self.f("top-level:uses")
        self.topused = used
        self.link_parents(main.body)
        self.add_leafrefs(main, main.body)
        # augmenting modules
        augs = []
        for i in range(nmods - 1):
            am = Mod(tag + "-" + ["aug", "ext"][i], ["ya", "ye"][i], "urn:yanggen:%s:%s" % (tag, ["aug", "ext"][i]), ver)
            self.mods.append(am)
            augs.append(am)
            self.derive_identities(am)
            if r.random() < 0.6:
                self.make_identities(am, 1)
            self.make_typedefs(am, r.randint(0, 2), [td.name for td in main.typedefs] + (samenames or []))
            self.make_augments(am, main, augs[:-1])
            self.f("module:augment-%d" % (i + 1))
            if r.random() < 0.3:
                # a top-level container of its own, possibly with the name of one in main: AVOID exact same
                # name (duplicate fakeroot child) -- only CamelCase-colliding or fresh names
                c = N("container", self.fresh(self.topused), mod=am)
                self.budget += 6
                self.fill(am, c, depth=2, ro=False)
                am.body.append(c)
                self.link_parents(am.body)
                self.f("augmod:own-top-container")
        self.fix_enum_name_clashes()
        self.strip_all_collision_defaults()
        self.strip_union_defaults()
        mods = self.mods
        files = {}
        for m in mods:
            files[m.name + ".yang"] = render_module(m)
        top = [main.name + ".yang"] + [a.name + ".yang" for a in augs]
        return {"files": files, "top": top, "features": sorted(self.feat), "feature_counts": dict(sorted(self.feat.items())),
                "style": "plain", "seed": self.seed, "index": self.index}

    # ---- groupings -----------------------------------------------------------------------
    def groupings_for(self, m):
        return [g for mm in self.mods for g in mm.groupings if mm is m or self.can_import(m, mm)]

    def gnames(self, g):
        out = []
        for n in g.nodes:
            if n.kind == "uses":
                out += self.gnames(n.grouping)
            elif n.kind == "choice":
                out += self.choice_names(n)
            else:
                out.append(n.name)
        return out

    def choice_names(self, ch):
        # the choice's own name shares the namespace of its sibling schema nodes (goyang keys Dir by name)
        out = [ch.name]
        for c in ch.ch + ch.aug:
            if c.kind == "case":
                for x in c.ch + c.aug:
                    if x.kind == "choice":
                        out += self.choice_names(x)
                    elif x.kind == "uses":
                        out += self.gnames(x.grouping)
                    else:
                        out.append(x.name)
            elif c.kind == "choice":
                out += self.choice_names(c)
            else:
                out.append(c.name)
        return out

    def names_clash(self, g, used):
        prot = () if self.hazards else getattr(used, "protected", ())
        return any(n in used or camel(n) in prot for n in self.gnames(g))

    def make_groupings(self, m, count):
        r = self.r
        gused = [g.name for g in m.groupings]
        for _ in range(count):
            name = self.uniq(r.choice(["common", "base-grp", "counters", "endpoint", "common_top", "CommonTop"]), gused)
            used = []
            nodes = []
            save = self.budget if hasattr(self, "budget") else 0
            self.budget = r.randint(3, 8)
            holder = N("container", "<grouping>", mod=m)
            self.fill(m, holder, depth=3, ro=False, used=used, in_grouping=True)
            nodes = holder.ch
            for n in nodes:
                n.parent = None
            self.budget = save
            g = G(m, name, nodes, ro_only=self.has_keyless(nodes))
            # leafrefs inside the grouping (relative only)
            holder.ch = nodes
            self.link_parents(nodes, holder)
            self.add_leafrefs(m, nodes, root=holder, relative_only=True)
            for n in nodes:
                n.parent = None
            g.has_leafref = any(base_kind(l.typ) == "leafref" for l in self.all_leaves(nodes)) or \
                any(getattr(u.grouping, "has_leafref", False) for u in self.all_uses(nodes))
            m.groupings.append(g)
            self.f("grouping")

    def has_keyless(self, nodes):
        for n in nodes:
            if n.kind == "list" and not n.keys:
                return False  # explicitly config false, usable anywhere
            if n.kind == "uses" and n.grouping.ro_only:
                return True
        return False

    # ---- tree ----------------------------------------------------------------------------
    def fill(self, m, parent, depth, ro, used=None, in_grouping=False):
        """populate a container/list/case with children."""
        r = self.r
        used = used if used is not None else [c.name for c in parent.ch if c.name]
        nkids = r.randint(1, 6) if depth > 1 else r.randint(2, 7)
        for _ in range(nkids):
            if self.budget <= 0:
                break
            self.budget -= 1
            x = r.random()
            if x < 0.42:
                parent.add(self.make_leaf(m, used, ro=ro))
            elif x < 0.52:
                parent.add(self.make_leaflist(m, used))
            elif x < 0.66 and depth < 5:
                c = N("container", self.fresh(used), mod=m)
                if r.random() < 0.2:
                    c.presence = True
                    self.f("presence-container")
                cro = ro
                if not ro and r.random() < 0.2:
                    c.config = False
                    cro = True
                    self.f("config-false:container")
                self.fill(m, c, depth + 1, cro)
                if not c.ch:
                    c.add(self.make_leaf(m, [], ro=cro))
                parent.add(c)
                self.f("container:nested")
            elif x < 0.80 and depth < 5:
                parent.add(self.make_list(m, used, depth, ro))
            elif x < 0.87 and depth < 5:
                parent.add(self.make_choice(m, used, depth, ro))
            elif x < 0.95:
                # AVOID: a grouping containing leafrefs instantiated below a choice (see add_leafrefs)
                gs = [g for g in self.groupings_for(m) if not self.names_clash(g, used)
                      and not (in_grouping and g.mod is m)
                      and not (self.choice_depth > 0 and getattr(g, "has_leafref", False))]
                # AVOID: a grouping using a grouping of the same module defined later/itself (cycles): inside a
                # grouping only groupings of other, earlier modules are used
                if gs:
                    g = r.choice(gs)
                    parent.add(N("uses", None, grouping=g, mod=m))
                    used.extend(self.gnames(g))
                    g.uses = getattr(g, "uses", 0) + 1
                    self.f("uses")
                    if g.uses > 1:
                        self.f("uses:same-grouping-several-places")
                    if g.mod is not m:
                        self.f("uses:grouping-from-other-module")
                else:
                    parent.add(self.make_leaf(m, used, ro=ro))
            else:
                l = self.make_leaf(m, used, ro=ro)
                if not ro:
                    l.config = False
                    l.mandatory = False
                    self.f("config-false:leaf")
                parent.add(l)

    def make_list(self, m, used, depth, ro):
        r = self.r
        l = N("list", self.fresh(used), mod=m)
        lused = Names()
        x = r.random()
        lro = ro
        if x < 0.12:
            # keyless list: must be config false
            l.config = False
            lro = True
            self.f("list:unkeyed-config-false")
        else:
            nk = r.choice([1, 1, 1, 2, 2, 3])
            twinpair = None
            if nk >= 2 and r.random() < 0.3:
                fam = r.choice(COLLIDERS)
                pairs = [(a, b) for a in fam for b in fam if a < b and camel(a) == camel(b)]
                if pairs:
                    twinpair = r.choice(pairs)
            for i in range(nk):
                kt = self.key_type(m)
                kname = None
                if twinpair and i < 2 and twinpair[i] not in lused:
                    kname = twinpair[i]
                    lused.append(kname)
                    if i == 1:
                        self.f("key:camelcase-twin")
                elif i >= 1 and r.random() < 0.3:
                    # a second key that differs from the previous one only by '-', '_' or '.': both keys get the
                    # same CamelCase name, which the generator has to make unique ("AB", "AB_")
                    prev = l.keys[-1]
                    twins = [t for t in (prev.replace("-", "_"), prev.replace("_", "-"), prev.replace("-", "."),
                                         prev + "_" if not prev.endswith("_") else None)
                             if t and t != prev and t not in lused and camel(t) == camel(prev)]
                    if twins:
                        kname = r.choice(twins)
                        lused.append(kname)
                        self.f("key:camelcase-twin")
                k = N("leaf", kname or self.fresh(lused), mod=m)
                k.typ = kt
                l.add(k)
                l.keys.append(k.name)
                lused.protected.append(camel(k.name))
                self.f("key:" + base_kind(kt))
            if nk > 1:
                self.f("list:multi-key")
            if not ro and r.random() < 0.1:
                l.config = False
                lro = True
                self.f("config-false:list")
            if r.random() < 0.25:
                l.ordered = True
                self.f("list:ordered-by-user")
            elif r.random() < 0.2:
                l.ordered_sys = True
                self.f("list:ordered-by-system")
        if r.random() < 0.15:
            l.minel = r.choice([0, 1])
            self.f("min-elements")
        if r.random() < 0.15:
            l.maxel = (l.minel or 0) + r.randint(1, 8)
            self.f("max-elements")
        self.fill(m, l, depth + 1, lro, used=lused)
        if not l.ch:
            l.add(self.make_leaf(m, lused, ro=lro))
        self.f("list")
        return l

    def key_type(self, m):
        r = self.r
        x = r.random()
        if x < 0.25:
            self.f("type:string")
            return T("string", ex="k")
        if x < 0.45:
            return self.int_type()
        if x < 0.55:
            td = self.typedef_ref(m, want=("enumeration",))
            return td if keyable(td) else self.enum_type()
        if x < 0.62:
            return self.enum_type()
        if x < 0.72:
            return self.idref_type(m)
        if x < 0.82:
            return self.union_type(m, forkey=True)
        if x < 0.87:
            self.f("type:boolean")
            return T("boolean")
        if x < 0.92:
            return self.dec_type()
        return self.leaf_type(m, allow_empty=False, forkey=True)

    def make_choice(self, m, used, depth, ro):
        r = self.r
        ch = N("choice", self.fresh(used), mod=m)
        cused = []
        self.choice_depth += 1
        ncases = r.randint(1, 3)
        for _ in range(ncases):
            x = r.random()
            if x < 0.3:
                # shorthand case
                y = r.random()
                if y < 0.6:
                    n = self.make_leaf(m, used, ro=ro, allow_default=False)
                    n.mandatory = False
                elif y < 0.8:
                    n = N("container", self.fresh(used), mod=m)
                    self.fill(m, n, depth + 2, ro)
                    if not n.ch:
                        n.add(self.make_leaf(m, [], ro=ro))
                else:
                    n = self.make_list(m, used, depth + 1, ro)
                # AVOID: shorthand case and explicit case with the same name in one choice
                if n.name in cused:
                    continue
                cused.append(n.name)
                ch.add(n)
                self.f("choice:shorthand-case")
            else:
                c = N("case", self.fresh(cused), mod=m)
                for _ in range(r.randint(1, 3)):
                    y = r.random()
                    if y < 0.7:
                        lf = self.make_leaf(m, used, ro=ro)
                        lf.mandatory = False
                        c.add(lf)
                    elif y < 0.85 and depth < 4:
                        c.add(self.make_choice(m, used, depth + 1, ro))
                        self.f("choice:nested")
                    else:
                        n = N("container", self.fresh(used), mod=m)
                        self.fill(m, n, depth + 2, ro)
                        if not n.ch:
                            n.add(self.make_leaf(m, [], ro=ro))
                        c.add(n)
                ch.add(c)
                self.f("choice:case")
        if not ch.ch:
            ch.add(self.make_leaf(m, used, ro=ro, allow_default=False))
        self.f("choice")
        self.choice_depth -= 1
        return ch

    # ---- leafrefs ------------------------------------------------------------------------
    def data_parent(self, n, root=None):
        p = n.parent
        while p is not None and p is not root and p.kind in ("choice", "case"):
            p = p.parent
        return p

    def data_path(self, n, root=None):
        """list of data nodes from (below) root to n, skipping choice/case."""
        out = []
        while n is not None and n is not root:
            if n.kind not in ("choice", "case"):
                out.append(n)
            n = n.parent
        out.reverse()
        return out

    def all_leaves(self, nodes, acc=None):
        acc = [] if acc is None else acc
        for n in nodes:
            if n.kind in ("leaf", "leaf-list"):
                acc.append(n)
            self.all_leaves(n.ch, acc)
        return acc

    def all_uses(self, nodes, acc=None):
        acc = [] if acc is None else acc
        for n in nodes:
            if n.kind == "uses":
                acc.append(n)
            self.all_uses(n.ch, acc)
        return acc

    def under_choice(self, n):
        n = n.parent
        while n is not None:
            if n.kind in ("choice", "case"):
                return True
            n = n.parent
        return False

    def is_ro(self, n):
        while n is not None:
            if n.config is False:
                return True
            n = n.parent
        return False

    def add_leafrefs(self, m, nodes, root=None, relative_only=False):
        r = self.r
        leaves = self.all_leaves(nodes)
        # AVOID: leafref targets below a choice. ygot's yangschema.BuildTree registers leaves under their goyang
        # Entry.Path(), which contains the choice and case names, whereas a valid XPath (and the resolved
        # caller path) omits them -> "could not resolve leafref path" for valid YANG.
        targets = [l for l in leaves if l.kind == "leaf" and base_kind(l.typ) not in ("leafref", "empty", "union", "binary")
                   and not self.under_choice(l)]
        if not targets:
            return
        cands = [l for l in leaves if l.kind in ("leaf", "leaf-list")]
        r.shuffle(cands)
        count = max(1, len(cands) // 7)
        done = 0
        for l in cands:
            if done >= count:
                break
            tg = r.choice(targets)
            if tg is l or base_kind(tg.typ) == "leafref":
                continue
            # config true leafref must not point at config false data
            if self.is_ro(tg) and not self.is_ro(l):
                continue
            iskey = l.parent is not None and l.parent.kind == "list" and l.name in l.parent.keys
            if iskey and not keyable(tg.typ):
                continue
            if l.kind == "leaf-list" and base_kind(tg.typ) == "empty":
                continue
            # AVOID: target inside a list entry reached from outside needs no predicate in ygot, fine; but a
            # key leaf pointing into its own list entry (../v) is a self-dependency for map keys: skip
            if iskey and self.data_parent(tg, root) is l.parent:
                continue
            lp = self.data_path(l, root)
            tp = self.data_path(tg, root)
            i = 0
            while i < len(lp) - 1 and i < len(tp) - 1 and lp[i] is tp[i]:
                i += 1
            ups = len(lp) - i
            down = tp[i:]
            use_abs = (not relative_only) and root is None and r.random() < 0.4
            if use_abs:
                path = "".join("/%s:%s" % (x.mod.prefix, x.name) for x in tp)
                for x in tp:
                    m.imp(x.mod)
                self.f("leafref:absolute")
            else:
                path = "../" * ups + "/".join((x.name if x.mod is m else "%s:%s" % (x.mod.prefix, x.name)) for x in down)
                self.f("leafref:relative")
            tgkey = tg.parent is not None and tg.parent.kind == "list" and tg.name in tg.parent.keys
            l.typ = T("leafref", path=path)
            l.default = None
            if iskey:
                self.f("key:leafref")
                if tgkey:
                    self.f("key:leafref-to-key")
            if tgkey:
                self.f("leafref:to-list-key")
            self.f("type:leafref")
            # the leaf must not be a target any more (no chains needed; avoids cycles)
            if l in targets:
                targets.remove(l)
                if not targets:
                    break
            done += 1

    # ---- augments ------------------------------------------------------------------------
    def aug_targets(self, nodes, prefixpath, acc):
        for n in nodes:
            if n.kind == "uses":
                continue
            p = prefixpath + "/%s:%s" % (n.mod.prefix, n.name)
            if n.kind in ("container", "list", "choice", "case"):
                acc.append((p, n))
            if n.kind in ("container", "list", "choice", "case"):
                self.aug_targets(n.ch, p, acc)
        return acc

    def sibling_names(self, n):
        """all data-node names visible as children of n (expanding uses and choices)."""
        out = []
        for c in n.ch + n.aug:
            if c.kind == "uses":
                out += self.gnames(c.grouping)
            elif c.kind == "choice":
                out += self.choice_names(c)
            elif c.kind == "case":
                out.append(c.name)
            else:
                out.append(c.name)
        return out

    def scope_names(self, dp):
        if dp is None:
            return self.topused
        used = Names(self.sibling_names(dp))
        if dp.kind == "list":
            used.protected = [camel(k) for k in dp.keys]
        return used

    def make_augments(self, am, main, earlier):
        r = self.r
        targets = self.aug_targets(main.body, "", [])
        for e in earlier:
            for path, nodes, _ in e.augments:
                self.aug_targets(nodes, path, targets)
        if not targets:
            return
        am.imp(main)
        naug = r.randint(1, 4)
        chosen = []
        for _ in range(naug):
            path, tn = r.choice(targets)
            if path in chosen:
                continue
            chosen.append(path)
            for seg in path.split("/")[1:]:
                pfx = seg.split(":")[0]
                for mm in self.mods:
                    if mm.prefix == pfx:
                        am.imp(mm)
            ro = self.is_ro(tn)
            # names already present in the target: YANG allows the same name from another namespace, but
            # AVOID it: ygot (uncompressed) maps both to the same JSON/struct field name and errors out
            used = Names(self.sibling_names(tn))
            if tn.kind == "list":
                used.protected = [camel(k) for k in tn.keys]
            nodes = []
            self.budget = r.randint(2, 6)
            if tn.kind == "choice":
                c = N("case", self.fresh(used), mod=am)
                # names inside must be unique among the choice's data-parent siblings
                dp = self.data_parent(tn)
                dused = self.scope_names(dp)
                lf = self.make_leaf(am, dused, ro=ro)
                lf.mandatory = False
                c.add(lf)
                nodes.append(c)
                self.f("augment:case-into-choice")
            else:
                holder = N("container", "<aug>", mod=am)
                if tn.kind == "case":
                    dp = self.data_parent(tn)
                    used = self.scope_names(dp)
                inchoice = tn.kind in ("case", "choice") or self.under_choice(tn)
                self.choice_depth = 1 if inchoice else 0
                self.fill(am, holder, depth=4, ro=ro, used=used)
                self.choice_depth = 0
                nodes = holder.ch
                for n in nodes:
                    # AVOID: mandatory nodes in an augment of another module are invalid YANG (RFC 7950 7.17)
                    self.clear_mandatory(n)
                if not nodes:
                    continue
                self.link_parents(nodes, holder)
                if not inchoice:
                    self.add_leafrefs(am, nodes, root=holder, relative_only=True)
                self.f("augment")
                self.f("augment:into-" + tn.kind)
            # record so that later augments/clash checks see the names
            for n in nodes:
                n.parent = tn
                tn.aug.append(n)
            am.augments.append((path, nodes, None))
            if any(path.startswith(p + "/") or path == p for p, _, _ in [(a[0], 0, 0) for e in earlier for a in e.augments]):
                self.f("augment:of-augmented-node")

    def clear_mandatory(self, n):
        n.mandatory = False
        if n.kind in ("leaf-list", "list") and n.minel:
            n.minel = 0
        for c in n.ch:
            if n.kind in ("container",) and not n.presence or n.kind in ("case", "choice"):
                self.clear_mandatory(c)


# --------------------------------------------------------------------------------------------
# OpenConfig style
# --------------------------------------------------------------------------------------------

class OCGen(Gen):
    def build(self):
        r = self.r
        tag = "ys%d" % self.index
        base = "openconfig-" + tag
        with_types = r.random() < 0.75
        with_aug = r.random() < 0.6
        types = None
        if with_types:
            types = Mod(base + "-types", "oc-" + tag + "-types", "http://openconfig.net/yang/%s-types" % tag)
            self.mods.append(types)
            self.make_identities(types, r.randint(1, 2))
            self.make_typedefs(types, r.randint(2, 5))
            self.f("module:types")
        main = Mod(base, "oc-" + tag, "http://openconfig.net/yang/" + tag)
        self.mods.append(main)
        self.main = main
        self.make_identities(main, r.randint(0, 2))
        if types:
            self.derive_identities(main)
        self.make_typedefs(main, r.randint(0, 3), [td.name for td in types.typedefs] if types else None)
        self.gused = []
        self.topnames = []
        self.entities = []   # (path to list entry or container holding config/state, node, cfg grouping, state grouping)
        ntop = r.randint(1, 4)
        topnodes = []
        for _ in range(ntop):
            x = r.random()
            if x < 0.7:
                topnodes.append(self.oc_list_container(main, self.topnames, depth=1, ro=False))
            elif x < 0.9:
                topnodes.append(self.oc_plain_container(main, self.topnames, depth=1, ro=False))
            else:
                topnodes.append(self.oc_list_container(main, self.topnames, depth=1, ro=True))
        gtop = G(main, self.uniq(tag + "-top", self.gused), topnodes)
        main.groupings.append(gtop)
        main.body.append(N("uses", None, grouping=gtop, mod=main))
        self.f("grouping")
        self.f("uses")
        augs = []
        if with_aug:
            am = Mod(base + "-aug", "oc-" + tag + "-aug", "http://openconfig.net/yang/%s-aug" % tag)
            self.mods.append(am)
            augs.append(am)
            self.derive_identities(am)
            self.make_typedefs(am, r.randint(0, 2), [td.name for td in main.typedefs])
            self.oc_augments(am, main)
            self.f("module:augment-1")
        self.fix_enum_name_clashes()
        self.strip_union_defaults()
        files = {}
        for m in self.mods:
            files[m.name + ".yang"] = render_module(m)
        top = [main.name + ".yang"] + [a.name + ".yang" for a in augs]
        return {"files": files, "top": top, "features": sorted(self.feat), "feature_counts": dict(sorted(self.feat.items())),
                "style": "oc", "seed": self.seed, "index": self.index}

    def oc_leaves(self, m, used, n, forbid=()):
        out = []
        for _ in range(n):
            x = self.r.random()
            if x < 0.8:
                lf = self.make_leaf(m, used)
                lf.mandatory = False
            else:
                lf = self.make_leaflist(m, used)
            out.append(lf)
        return out

    def oc_fix_enum(self, leaves):
        self.strip_collision_defaults(leaves)
        self._oc_fix_enum(leaves)

    def _oc_fix_enum(self, leaves):
        """AVOID: two inline enumerations on config/state leaves of one entity whose names are equal after
        CamelCase mangling (omega / Omega): "cannot resolve enumeration name clash" under -compress_paths."""
        seen = {}
        for n in leaves:
            if self.inline_enum(n.typ):
                k = camel(n.name)
                if k in seen and seen[k] is not n:
                    n.typ = T("string", ex="abc")
                    n.default = None
                    self.f("avoided:enum-name-clash")
                else:
                    seen[k] = n

    def oc_cfgstate(self, m, holder, name, keyleaves, ro, childnames):
        """add config/state containers built from groupings to holder; returns (cfg grouping, state grouping)."""
        r = self.r
        used = Names([k.name for k in keyleaves] + list(childnames))
        used.protected = [camel(k.name) for k in keyleaves] + [camel(c) for c in childnames]
        # AVOID (compressed): a config/state leaf with the same name as a sibling of config/state
        cfg_nodes = list(keyleaves) + self.oc_leaves(m, used, r.randint(1, 5))
        st_nodes = self.oc_leaves(m, used, r.randint(0, 3))
        self.oc_fix_enum(cfg_nodes + st_nodes)
        gc = G(m, self.uniq(name + "-config", self.gused), cfg_nodes)
        gs = G(m, self.uniq(name + "-state", self.gused), st_nodes)
        m.groupings.append(gc)
        self.f("grouping")
        if st_nodes:
            m.groupings.append(gs)
        if not ro:
            c = N("container", "config", mod=m)
            c.add(N("uses", None, grouping=gc, mod=m))
            holder.add(c)
        s = N("container", "state", mod=m)
        if not ro:
            s.config = False
        s.add(N("uses", None, grouping=gc, mod=m))
        if not ro:
            self.f("uses:same-grouping-several-places")
        if st_nodes:
            s.add(N("uses", None, grouping=gs, mod=m))
            self.f("oc:state-extra-leaves")
        holder.add(s)
        # relative leafrefs among config leaves (resolve identically under config and state)
        tg = [l for l in cfg_nodes if l.kind == "leaf" and base_kind(l.typ) not in ("leafref", "empty", "union", "binary")
              and l not in keyleaves]
        src = [l for l in cfg_nodes if l not in keyleaves and l not in tg[:1]]
        if tg and src and r.random() < 0.3:
            l = r.choice(src)
            if l is not tg[0]:
                l.typ = T("leafref", path="../" + tg[0].name)
                l.default = None
                self.f("type:leafref")
                self.f("leafref:relative")
        return gc, gs, used

    def oc_list_container(self, m, used, depth, ro):
        r = self.r
        # AVOID (unless hazards): containers/lists colliding (CamelCase) with a sibling under -compress_paths:
        # ypathgen names path structs after the un-uniquified struct name (X_1_X_1Path declared twice)
        lname = self.fresh(used, nocollide=True)
        # surrounding container: plural-ish name, AVOID equal to the list name
        cname = lname + "s"
        while cname in used:
            cname += "s"
        used.append(cname)
        outer = N("container", cname, mod=m)
        if ro:
            outer.config = False
            self.f("oc:config-false-list")
        l = N("list", lname, mod=m)
        outer.add(l)
        nk = r.choice([1, 1, 1, 2, 2, 3])
        kused = Names()
        # AVOID (unless hazards): key named like its list (compressed + ordered-by user: the generated
        # AppendNew has a parameter that shadows the struct type: "Hop is not a type") and keys colliding
        # with each other after CamelCase mangling
        # ... or like <List>Path (ypathgen: the key parameter shadows the path struct type)
        kused.protected = [camel(lname), camel(lname) + "Path"]
        keyleaves = []
        for _ in range(nk):
            k = N("leaf", self.fresh(kused), mod=m)
            kused.protected.append(camel(k.name))
            k.typ = self.oc_key_type(m)
            keyleaves.append(k)
            self.f("key:" + base_kind(k.typ))
        if nk > 1:
            self.f("list:multi-key")
        for k in keyleaves:
            ref = N("leaf", k.name, mod=m)
            ref.typ = T("leafref", path="../%s/%s" % ("state" if ro else "config", k.name))
            l.add(ref)
            l.keys.append(k.name)
            self.f("key:leafref")
            self.f("type:leafref")
        if not ro and r.random() < 0.25:
            l.ordered = True
            self.f("list:ordered-by-user")
        elif r.random() < 0.2:
            l.ordered_sys = True
            self.f("list:ordered-by-system")
        if r.random() < 0.1:
            l.maxel = r.randint(1, 8)
            self.f("max-elements")
        # children of the list entry besides config/state
        childnames = Names(kused)
        childnames.protected = [camel(k) for k in kused]
        # AVOID (unless hazards): config/state leaves colliding (CamelCase) with a sibling container of
        # config/state: ypathgen declares <Struct>_<Name>Path twice
        kids = []
        if depth < 3:
            for _ in range(r.choice([0, 0, 1, 1, 2])):
                x = r.random()
                if x < 0.55:
                    kids.append(self.oc_list_container(m, childnames, depth + 1, ro))
                    self.f("oc:nested-list")
                else:
                    kids.append(self.oc_plain_container(m, childnames, depth + 1, ro))
        gc, gs, _ = self.oc_cfgstate(m, l, lname, keyleaves, ro, childnames)
        for k in kids:
            l.add(k)
        self.entities.append((l, gc, gs, ro))
        self.f("list")
        self.f("oc:list")
        return outer

    def oc_plain_container(self, m, used, depth, ro):
        r = self.r
        name = self.fresh(used, nocollide=True)
        c = N("container", name, mod=m)
        if r.random() < 0.15:
            c.presence = True
            self.f("presence-container")
        childnames = []
        kids = []
        if depth < 3:
            for _ in range(r.choice([0, 0, 1])):
                if r.random() < 0.5:
                    kids.append(self.oc_list_container(m, childnames, depth + 1, ro))
                else:
                    kids.append(self.oc_plain_container(m, childnames, depth + 1, ro))
        gc, gs, _ = self.oc_cfgstate(m, c, name, [], ro, childnames)
        for k in kids:
            c.add(k)
        self.entities.append((c, gc, gs, ro))
        self.f("container:nested")
        self.f("oc:container-config-state")
        return c

    def oc_key_type(self, m):
        r = self.r
        x = r.random()
        if x < 0.3:
            self.f("type:string")
            return T("string", ex="k")
        if x < 0.5:
            return self.int_type()
        if x < 0.62:
            td = self.typedef_ref(m, want=("enumeration",))
            return td if keyable(td) else self.enum_type()
        if x < 0.7:
            return self.enum_type()
        if x < 0.82:
            return self.idref_type(m)
        if x < 0.92:
            return self.union_type(m, forkey=True)
        return self.leaf_type(m, allow_empty=False, forkey=True)

    def oc_augments(self, am, main):
        r = self.r
        am.imp(main)
        if not self.entities:
            return
        # compute absolute paths of the entities
        def path_of(n):
            out = []
            while n is not None:
                out.append(n)
                n = n.parent
            out.reverse()
            return "".join("/%s:%s" % (main.prefix, x.name) for x in out)
        top = [g for g in main.groupings if g.name.endswith("-top")][0]
        self.link_parents(top.nodes)
        ents = list(self.entities)
        r.shuffle(ents)
        for ent, gc, gs, ro in ents[:r.randint(1, 3)]:
            p = path_of(ent)
            # AVOID: a config/state leaf named like a list that is a grandchild through its surrounding container
            # ("was duplicate with" after compression)
            used = Names([n.name for n in gc.nodes] + [n.name for n in gs.nodes] + [c.name for c in ent.ch if c.name] +
                         [x.name for c in ent.ch + ent.aug for x in c.ch if x.kind == "list"])
            # (the list inside a surrounding container becomes a direct child after compression)
            used.protected = [camel(k) for k in ent.keys] + [camel(c.name) for c in ent.ch + ent.aug if c.name] + \
                [camel(x.name) for c in ent.ch + ent.aug for x in c.ch if x.kind == "list"]
            leaves = self.oc_leaves(am, used, r.randint(1, 3))
            self.oc_fix_enum(gc.nodes + gs.nodes + leaves)
            g = G(am, self.uniq(ent.name + "-aug-config", self.gused), leaves)
            am.groupings.append(g)
            for cn in (["state"] if ro else ["config", "state"]):
                u = N("uses", None, grouping=g, mod=am)
                am.augments.append((p + "/%s:%s" % (main.prefix, cn), [u], None))
                for c in ent.ch:
                    if c.kind == "container" and c.name == cn:
                        c.aug.append(u)
            self.f("augment")
            self.f("augment:into-container")
            if r.random() < 0.4:
                # a whole new config/state container below the entity
                used.protected = used.protected + [camel(n.name) for n in gc.nodes + gs.nodes + leaves]
                c = self.oc_plain_container(am, used, depth=3, ro=ro)
                am.augments.append((p, [c], None))
                ent.aug.append(c)
                self.f("augment:new-subtree")


# --------------------------------------------------------------------------------------------

def gen_schema(seed, index, style="plain", union_defaults=True, hazards=False):
    """union_defaults=False suppresses `default` on union-typed leaves/typedefs (needed by generator
    configurations with wrapper unions); everything else of the schema is unchanged.
    hazards=True additionally produces constructs (tagged "hazard:*", see HAZARDS above) that are valid YANG
    and accepted by the generator but known to yield Go code that does not compile."""
    if style not in STYLES:
        raise ValueError("style must be one of %s" % (STYLES,))
    cls = PlainGen if style == "plain" else OCGen
    return cls(seed, index, style, union_defaults=union_defaults, hazards=hazards).build()


def write_schema(sch, d):
    os.makedirs(d, exist_ok=True)
    for fn, text in sch["files"].items():
        with open(os.path.join(d, fn), "w") as fh:
            fh.write(text)
    return [os.path.join(d, f) for f in sch["top"]]


# --------------------------------------------------------------------------------------------
# self test
# --------------------------------------------------------------------------------------------

def selftest_cfgs(vlib):
    nodef = [f for f in vlib.COMMON_FLAGS if f != "-generate_populate_defaults"]
    return {
        "plain": [
            ("U-simple", "generator", vlib.COMMON_FLAGS + ["-generate_simple_unions"], True),
            ("U-wrapper", "generator", nodef, False, dict(union_defaults=False)),
            ("proto", "proto_generator", ["-generate_fakeroot"], False),
        ],
        "oc": [
            ("C-simple+paths", "generator", vlib.COMMON_FLAGS + ["-compress_paths", "-generate_simple_unions",
                                                                 "-ignore_shadow_schema_paths", "-generate_path_structs"], True),
            ("C-opstate+enumflags", "generator", vlib.COMMON_FLAGS + [
                "-compress_paths", "-prefer_operational_state", "-generate_simple_unions", "-ignore_shadow_schema_paths",
                "-shorten_enum_leaf_names", "-typedef_enum_with_defmod", "-enum_suffix_for_simple_union_enums",
                "-trim_enum_openconfig_prefix", "-generate_path_structs"], False),
            ("C-wrapper", "generator", nodef + ["-compress_paths"], False, dict(union_defaults=False)),
            ("U-simple", "generator", vlib.COMMON_FLAGS + ["-generate_simple_unions"], False),
            ("proto-compressed", "proto_generator", ["-generate_fakeroot", "-compress_paths"], False),
        ],
    }


def _selftest(argv):
    import concurrent.futures
    import re
    import shutil
    sys.path.insert(0, os.path.dirname(os.path.abspath(__file__)))
    import vlib
    n = 20
    seed = 1
    ncompile = 6
    hazards = False
    i = 0
    while i < len(argv):
        if argv[i] == "--selftest":
            n = int(argv[i + 1]); i += 2
        elif argv[i] == "--seed":
            seed = int(argv[i + 1]); i += 2
        elif argv[i] == "--compile":
            ncompile = int(argv[i + 1]); i += 2
        elif argv[i] == "--hazards":
            hazards = True; i += 1
        else:
            i += 1
    work = vlib.workdir("yanggen")
    shutil.rmtree(os.path.join(work, "s"), ignore_errors=True)
    bindir = vlib.build_generators(work)
    cfgs = selftest_cfgs(vlib)
    jobs = []
    feats = {}
    for style in STYLES:
        for idx in range(n):
            sch = gen_schema(seed, idx, style, hazards=hazards)
            again = gen_schema(seed, idx, style, hazards=hazards)
            if sch["files"] != again["files"]:
                print("NOT DETERMINISTIC: %s %d" % (style, idx))
                return 1
            d = os.path.join(work, "s", "%s-%d" % (style, idx))
            tops = write_schema(sch, d)
            for ft in sch["features"]:
                feats.setdefault(style, {}).setdefault(ft, 0)
                feats[style][ft] += 1
            for cname, binary, flags, primary, *opts in cfgs[style]:
                pkg = "yg%s%d%s" % (style, idx, re.sub("[^a-z]", "", cname.lower()))
                out = os.path.join(d, "out-" + cname)
                os.makedirs(out, exist_ok=True)
                d0, tops0 = d, tops
                if opts:
                    d = d + "-nud"
                    tops = write_schema(gen_schema(seed, idx, style, hazards=hazards, **opts[0]), d)
                if binary == "generator":
                    cmd = [os.path.join(bindir, binary), "-logtostderr", "-path=" + d, "-package_name=" + pkg,
                           "-output_file=" + os.path.join(out, pkg + ".go")] + flags
                    if "-generate_path_structs" in flags:
                        cmd.append("-path_structs_output_file=" + os.path.join(out, pkg + "_path.go"))
                else:
                    cmd = [os.path.join(bindir, binary), "-logtostderr", "-path=" + d, "-output_dir=" + out] + flags
                jobs.append((style, idx, cname, primary, pkg, out, cmd + tops))
                d, tops = d0, tops0

    def runjob(j):
        rc, o = vlib.sh(j[6], cwd=work, timeout=120)
        return j, rc, o

    res = {}
    with concurrent.futures.ThreadPoolExecutor(max_workers=12) as ex:
        for j, rc, o in ex.map(runjob, jobs):
            res.setdefault((j[0], j[2]), []).append((j, rc, o))
    ok_all = True
    compile_pkgs = {}
    for (style, cname), lst in sorted(res.items()):
        acc = [x for x in lst if x[1] == 0]
        primary = lst[0][0][3]
        rate = 100.0 * len(acc) / len(lst)
        print("%-6s %-22s accepted %d/%d (%.0f%%)%s" % (style, cname, len(acc), len(lst), rate, "  [primary]" if primary else ""))
        if primary and rate < 95:
            ok_all = False
        reasons = {}
        for j, rc, o in lst:
            if rc != 0:
                msg = [l for l in o.splitlines() if l.strip()][:1] or ["?"]
                key = re.sub(r"[0-9]+", "N", re.sub(r"^[A-Z][0-9]+ [0-9:.]+ +[0-9]+ [^ ]+\] ", "", msg[0]))[:230]
                reasons.setdefault(key, []).append(j[1])
        for k, v in sorted(reasons.items(), key=lambda kv: -len(kv[1]))[:12]:
            print("      %3dx idx=%s  %s" % (len(v), v[:6], k))
        if lst[0][0][6][0].endswith("/generator"):
            for j, rc, o in acc[:ncompile]:
                compile_pkgs[j[4]] = j[5]
    if compile_pkgs:
        ov = vlib.overlay_for(work, compile_pkgs)
        pk = ["./zzverif/gen/" + p for p in compile_pkgs]
        rc, o = vlib.sh(["go", "build", "-overlay", ov] + pk, cwd=vlib.REPO, timeout=1800)
        bad = sorted(set(re.findall(r"^# \S+/zzverif/gen/(\S+)", o, re.M)))
        print("compile: %d packages, %d failed %s" % (len(pk), len(bad), bad))
        with open(os.path.join(work, "compile.log"), "w") as fh:
            fh.write(o)
        if bad:
            print(o[:3000])
            print("(full compiler output: %s)" % os.path.join(work, "compile.log"))
            if not hazards:
                ok_all = False
    for style in STYLES:
        print("features[%s] (schemas having the feature, of %d): %s" % (style, n, ", ".join(
            "%s=%d" % kv for kv in sorted(feats.get(style, {}).items()))))
    print("SELFTEST %s" % ("OK" if ok_all else "FAILED"))
    return 0 if ok_all else 1


if __name__ == "__main__":
    sys.exit(_selftest(sys.argv[1:]))
