import cgcommon


def run(tier, seed, replay, extra):
    return cgcommon.run_reflective("C29", tier, seed, replay, extra)
