"""C21: concurrent use is race-free and schedule-independent.

Builds vmon with -race, runs N cold processes of the C21 workload (each picks its
own GOMAXPROCS / goroutine count / configuration from its seed), parses the race
detector logs, de-duplicates reports by the pair of innermost ygot frames and
merges everything into evidence/C21.json.
"""
import glob
import json
import os
import re
import shutil
import subprocess
import sys
import time
from concurrent.futures import ThreadPoolExecutor

import vlib
import vreport

FRAME = re.compile(r"^\s+(github\.com/openconfig/ygot/[^\s(]+(?:\([^)]*\))?[^\s(]*)\(")


def innermost_ygot(stack_lines):
    for ln in stack_lines:
        m = FRAME.match(ln)
        if m and "zzverif" not in m.group(1):
            fn = m.group(1).replace("github.com/openconfig/ygot/", "")
            fn = re.sub(r"\.func\d+(\.\d+)*$", "", fn)
            return fn
    return "harness-or-runtime"


def parse_race_log(text):
    """Return list of (signature, block) for every DATA RACE block."""
    out = []
    for block in text.split("=================="):
        if "WARNING: DATA RACE" not in block:
            continue
        # split into access stacks: sections start with Read/Write/Previous ...
        sections, kinds, cur = [], [], None
        for ln in block.splitlines():
            m = re.match(r"^(Read|Write|Previous read|Previous write|Atomic|Previous atomic)", ln.strip())
            if m and " by " in ln:
                cur = []
                sections.append(cur)
                kinds.append("write" if "rite" in m.group(1) else "read")
            elif ln.startswith("Goroutine ") or ln.strip().startswith("Goroutine "):
                cur = None
            elif cur is not None:
                cur.append(ln)
        # the signature names the writing side(s): the reading side varies with the schedule
        writers = sorted(innermost_ygot(s) for s, k in zip(sections[:2], kinds[:2]) if k == "write")
        if not writers:
            writers = sorted(innermost_ygot(s) for s in sections[:2])
        out.append(("write@" + "+".join(sorted(set(writers))), block.strip()))
    return out


def run(tier, seed, replay, extra):
    prop = "C21"
    cfgs = dict(vlib.CFGS)
    # one configuration with path structs: resolving shared path structs concurrently is part of the workload
    cfgs["vtoc/C-paths"] = dict(pkg="vtocp", files=["openconfig-vtoc.yang"], pathstructs=True,
                                flags=["-compress_paths", "-generate_simple_unions", "-ignore_shadow_schema_paths"],
                                attrs=dict(Compressed=True, Wrapper=False, Shadow=True))
    work, binary, _ = vlib.prepare_dataplane(prop, race=True, cfgs=cfgs)
    nproc = 8 if tier != "thorough" else 120
    if replay:
        try:
            seeds = [json.load(open(replay))["witness"]["process_seed"]]
        except Exception:
            seeds = [seed * 1000]
    else:
        seeds = [seed * 1000 + k for k in range(nproc)]
    rdir = os.path.join(work, "race")
    shutil.rmtree(rdir, ignore_errors=True)
    os.makedirs(rdir)
    t0 = time.time()

    def one(s):
        env = vlib.goenv()
        env.update(VERIF_DIR=vlib.VERIF, VERIF_WORK=work,
                   GORACE="halt_on_error=0 log_path=%s/p%d" % (rdir, s),
                   VERIF_EVIDENCE_PATH=os.path.join(rdir, "ev%d.json" % s))
        p = subprocess.run([binary, "-prop", prop, "-tier", tier, "-seed", str(s)], cwd=vlib.VERIF, env=env,
                           stdout=subprocess.PIPE, stderr=subprocess.PIPE, text=True, timeout=1800)
        return s, p.returncode, p.stdout, p.stderr

    with ThreadPoolExecutor(max_workers=4) as ex:
        results = list(ex.map(one, seeds))

    r = vreport.Run(prop, tier, seed)
    r.start = t0
    r.rule = ("N cold processes of the C21 workload (see the Go monitor's rule) under the Go race detector "
              "(GORACE halt_on_error=0 log_path=...); race reports are de-duplicated by the pair of innermost ygot frames; "
              "non-trivial = operation executed concurrently; distinct by process seed+phase+operation+goroutine+round")
    r.assume("the race detector only sees accesses that execute; schedule independence is judged on the schedules that occurred")
    blocks = 0
    overlap = set()
    for s, rc, out, err in results:
        evp = os.path.join(rdir, "ev%d.json" % s)
        if "SUMMARY property=" not in out or not os.path.exists(evp):
            rp = os.path.join(vlib.VERIF, "replay", "C21-crash-%d.json" % s)
            os.makedirs(os.path.dirname(rp), exist_ok=True)
            json.dump({"property": prop, "signature": "C21/fatal/process-died", "witness": {"process_seed": s},
                       "exit": rc, "stderr_tail": err[-6000:]}, open(rp, "w"), indent=1)
            cls = "process-died"
            m = re.search(r"fatal error: ([^\n]+)", err)
            if m:
                cls = "fatal:" + vreport.norm_err(m.group(1))
            r.violate("fatal", cls, "process with seed %d died: %s" % (s, err[-400:]), {"process_seed": s, "stderr_tail": err[-3000:]})
            continue
        ev = json.load(open(evp))
        cov = ev["coverage"]
        r.evals += cov["evaluations"]
        for k, v in cov.get("matrix", {}).items():
            r.hit(k, v)
        # distinct cases: processes use different seeds, so their case keys are disjoint
        for i in range(cov["distinct_nontrivial"]):
            r.distinct.add(("%d/%d" % (s, i)).encode())
        for smp in cov.get("samples", [])[:1]:
            r.sample(smp)
        for pr in cov.get("overlapping_op_pairs", []) or []:
            overlap.add(pr)
        for v in cov.get("violations") or []:
            sig = v["signature"].split("/", 2)
            child = None
            try:
                child = json.load(open(v.get("replay"))).get("witness")
            except Exception:
                pass
            r.violate(sig[1], sig[2], v.get("detail", ""), {"process_seed": s, "child_witness": child})
        for f in glob.glob(os.path.join(rdir, "p%d.*" % s)):
            for sig, block in parse_race_log(open(f, errors="replace").read()):
                blocks += 1
                r.violate("data-race", sig, block[:1500], {"process_seed": s, "report": block[:6000]})
    r.hit("processes", len(results))
    r.extra["race_report_blocks"] = blocks
    r.extra["distinct_race_signatures"] = len([s for s in r.viol if "/data-race/" in s])
    r.extra["overlapping_op_pairs"] = sorted(overlap)
    r.extra["processes"] = len(results)
    r.extra["gomaxprocs_seen"] = sorted(k for k in r.cov if k.startswith("gomaxprocs:"))
    if len(overlap) < 3:
        r.inconclusive("fewer than 3 distinct operation pairs overlapped in time")
    r.require_cov("path-structs-linked", "op:ResolvePath#0", "op:Validate", "op:EmitJSON", "op:TogNMINotifications", "op:Diff", "op:DeepCopy",
                  "op:Unmarshal(shared JSON value)", "op:UnmarshalSetRequest(shared request)",
                  "op:SetNode+TolerateJSONInconsistencies(shared TypedValues)")
    return r.finish()
