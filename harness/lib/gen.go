package lib

import (
	"encoding/json"
	"fmt"
	"math/big"
	"math/rand"
	"reflect"
	"regexp"
	"sort"
	"strings"

	"github.com/openconfig/goyang/pkg/yang"
	"github.com/openconfig/ygot/ygot"
)

// GenOpts tunes the tree generator.
type GenOpts struct {
	Density         float64 // probability that an optional node is populated
	MaxEntries      int     // entries per list
	MaxDepth        int
	EmptyLeafLists  bool   // representation class: non-nil empty leaf-lists
	Unkeyed         bool   // generate keyless lists
	EmptyContainers bool   // representation class: non-nil containers without content
	Hostile         bool   // hostile characters in strings and string keys
	Leafrefs        string // "satisfy" (default), "skip"
	Valid           bool   // honour min/max-elements, unique config leaf-lists, non-empty mandatory lists
	NoOrdered       bool
	OrderedSiblings bool // allow ordered lists that have sibling nodes in their parent container
	ZeroLenBinary   bool // representation class: zero-length (non-nil) binary values
	EmptyLists      bool // representation class: non-nil keyed/ordered lists without entries
	PreciseDecimals bool // decimal64 values whose float64 needs 16-17 significant digits
	EmptyKeyStrings bool // the empty string as a list key value
	GNMIUnions      bool // union values need only be unambiguous as gNMI TypedValues (not as JSON)
}

// DefaultGen is the baseline option set.
func DefaultGen() GenOpts {
	return GenOpts{Density: 0.55, MaxEntries: 3, MaxDepth: 8, Leafrefs: "satisfy", Valid: true, Hostile: true}
}

// Gen generates trees for one configuration.
type Gen struct {
	C    *Cfg
	Rng  *rand.Rand
	Opt  GenOpts
	Tags map[string]int // representation classes / features present in the last tree

	deferred []deferredItem
	root     reflect.Value
	enumMap  map[string][]reflect.Type
	Skipped  map[string]int
	// MutOps restricts Mutate: "" (all), "clear", "regen", "clear+regen".
	MutOps string
}

type deferredItem struct {
	parent reflect.Value // struct value (addressable, non-pointer)
	f      *FieldInfo
	path   []PathElem
	depth  int
}

// NewGen builds a generator with a deterministic PRNG for (seed, index).
func NewGen(c *Cfg, seed int64, index int, opt GenOpts) *Gen {
	return &Gen{C: c, Rng: rand.New(rand.NewSource(seed*1000003 + int64(index)*7919 + 17)), Opt: opt, Tags: map[string]int{}, Skipped: map[string]int{}}
}

func (g *Gen) coin(p float64) bool { return g.Rng.Float64() < p }

// Tree generates a whole tree.
func (g *Gen) Tree() ygot.GoStruct {
	root := g.C.NewRoot()
	g.root = reflect.ValueOf(root)
	g.enumMap = enumTypeMap(root)
	g.deferred = nil
	g.fillStruct(g.root.Elem(), nil, 0, true)
	// second phase: leafref leaves and lists keyed by leafrefs into other lists
	for rounds := 0; rounds < 4 && len(g.deferred) > 0; rounds++ {
		items := g.deferred
		g.deferred = nil
		for _, it := range items {
			g.fillDeferred(it)
		}
	}
	return root
}

func enumTypeMap(root ygot.GoStruct) map[string][]reflect.Type {
	m := reflect.ValueOf(root).MethodByName("ΛEnumTypeMap")
	if !m.IsValid() {
		return nil
	}
	out, _ := m.Call(nil)[0].Interface().(map[string][]reflect.Type)
	return out
}

// choicePick decides, per struct instance, which case of each choice is live.
type choicePick map[*yang.Entry]string

func (g *Gen) caseAllowed(cp choicePick, f *FieldInfo) bool {
	for _, cc := range f.Choices {
		if cur, ok := cp[cc.Choice]; ok {
			if cur != cc.Case {
				return false
			}
		} else {
			cp[cc.Choice] = cc.Case
		}
	}
	return true
}

func (g *Gen) fillStruct(sv reflect.Value, path []PathElem, depth int, isRoot bool) {
	si := g.C.Info(sv.Type())
	cp := choicePick{}
	// visit fields in random order so that the live case of a choice varies
	order := g.Rng.Perm(len(si.Fields))
	keyIdx := map[int]bool{}
	for _, kf := range si.KeyFields() {
		if kf != nil {
			keyIdx[kf.Idx] = true
		}
	}
	nonKey := 0
	for _, i := range order {
		f := si.Fields[i]
		if keyIdx[f.Idx] {
			continue // keys are set by the list code
		}
		if !g.caseAllowedPeek(cp, f) {
			continue
		}
		dens := g.Opt.Density
		if isRoot {
			dens = 0.8
		}
		must := false
		if g.Opt.Valid && f.Entry.ListAttr != nil && f.Entry.ListAttr.MinElements > 0 {
			must = true
		}
		if !must && !g.coin(dens) {
			continue
		}
		if g.setField(sv, f, path, depth) {
			g.caseAllowed(cp, f)
			nonKey++
		}
	}
	_ = nonKey
}

func (g *Gen) caseAllowedPeek(cp choicePick, f *FieldInfo) bool {
	for _, cc := range f.Choices {
		if cur, ok := cp[cc.Choice]; ok && cur != cc.Case {
			return false
		}
	}
	return true
}

// setField populates one field; it reports whether anything was set.
func (g *Gen) setField(sv reflect.Value, f *FieldInfo, path []PathElem, depth int) bool {
	fv := sv.Field(f.Idx)
	switch f.Kind {
	case KLeaf:
		if f.LeafrefPath != "" && !g.leafrefLocal(f) {
			if g.Opt.Leafrefs == "skip" {
				return false
			}
			g.deferred = append(g.deferred, deferredItem{parent: sv, f: f, path: path, depth: depth})
			return true
		}
		v, ok := g.leafValue(sv, f, fv.Type(), false)
		if !ok {
			return false
		}
		fv.Set(v)
		return true
	case KLeafList:
		if f.LeafrefPath != "" {
			g.Skipped["leafref-leaflist"]++
			return false
		}
		return g.setLeafList(sv, f)
	case KContainer:
		if depth >= g.Opt.MaxDepth {
			return false
		}
		nv := reflect.New(fv.Type().Elem())
		p := extend(path, f.Path)
		g.fillStruct(nv.Elem(), p, depth+1, false)
		if !g.Opt.EmptyContainers && !f.Presence && g.structEmpty(nv.Elem()) && !g.hasDeferredUnder(nv.Elem()) {
			return false
		}
		if g.structEmpty(nv.Elem()) {
			if f.Presence {
				g.Tags["presence-empty"]++
			} else {
				g.Tags["empty-container"]++
			}
		}
		fv.Set(nv)
		return true
	case KList:
		if depth >= g.Opt.MaxDepth {
			return false
		}
		if g.emptyList(fv, f) {
			return false
		}
		return g.setList(sv, f, path, depth)
	case KOrdered:
		if depth >= g.Opt.MaxDepth || g.Opt.NoOrdered {
			return false
		}
		if !g.Opt.OrderedSiblings && g.C.Info(sv.Type()).numDataFields() > 1 {
			g.Skipped["ordered-with-siblings"]++
			return false
		}
		if g.emptyList(fv, f) {
			return false
		}
		return g.setList(sv, f, path, depth)
	case KUnkeyed:
		if !g.Opt.Unkeyed || depth >= g.Opt.MaxDepth {
			return false
		}
		n := 1 + g.Rng.Intn(g.Opt.MaxEntries)
		sl := reflect.MakeSlice(fv.Type(), 0, n)
		for i := 0; i < n; i++ {
			ent := reflect.New(f.Elem.Elem())
			p := extend(path, f.Path)
			p[len(p)-1].Pos = sl.Len()
			for tries := 0; tries < 6 && g.structEmpty(ent.Elem()); tries++ {
				g.fillStruct(ent.Elem(), p, depth+1, false)
			}
			if g.structEmpty(ent.Elem()) {
				continue // an entry without any leaf has no observable content
			}
			sl = reflect.Append(sl, ent)
		}
		if sl.Len() == 0 {
			return false
		}
		fv.Set(sl)
		g.Tags["unkeyed"]++
		return true
	}
	return false
}

func (si *StructInfo) numDataFields() int { return len(si.Fields) }

// emptyList sometimes (EmptyLists only) leaves a non-nil list without entries.
func (g *Gen) emptyList(fv reflect.Value, f *FieldInfo) bool {
	if !g.Opt.EmptyLists {
		return false
	}
	if la := f.Entry.ListAttr; g.Opt.Valid && la != nil && la.MinElements > 0 {
		return false
	}
	if !g.coin(0.2) {
		return false
	}
	if f.Kind == KList {
		fv.Set(reflect.MakeMap(fv.Type()))
	} else {
		fv.Set(reflect.New(fv.Type().Elem()))
	}
	g.Tags["empty-list"]++
	return true
}

func (g *Gen) hasDeferredUnder(sv reflect.Value) bool {
	for _, d := range g.deferred {
		if d.parent == sv {
			return true
		}
	}
	// deferred items deeper below are attached to structs that are already
	// reachable only if non-empty, so a direct check is enough.
	return false
}

// structEmpty reports whether no field of the struct is set.
func (g *Gen) structEmpty(sv reflect.Value) bool {
	for i := 0; i < sv.NumField(); i++ {
		fv := sv.Field(i)
		switch fv.Kind() {
		case reflect.Ptr, reflect.Map, reflect.Slice, reflect.Interface:
			if !fv.IsNil() {
				return false
			}
		default:
			if !fv.IsZero() {
				return false
			}
		}
	}
	return true
}

// leafrefLocal: a leafref whose value can be generated freely because the
// harness does not need it to resolve (never, by default).
func (g *Gen) leafrefLocal(f *FieldInfo) bool { return false }

func (g *Gen) setLeafList(sv reflect.Value, f *FieldInfo) bool {
	fv := sv.Field(f.Idx)
	la := f.Entry.ListAttr
	min, max := 0, 4
	if g.Opt.Valid && la != nil {
		min = int(la.MinElements)
		if BoundedMax(la) && int(la.MaxElements) < max {
			max = int(la.MaxElements)
		}
		if max < min {
			max = min
		}
	}
	n := min
	if max > min {
		n += g.Rng.Intn(max - min + 1)
	}
	if n == 0 {
		if g.Opt.EmptyLeafLists && g.coin(0.5) && min == 0 {
			fv.Set(reflect.MakeSlice(fv.Type(), 0, 0))
			g.Tags["empty-leaflist"]++
			return true
		}
		if min == 0 {
			n = 1
			if max < 1 {
				return false
			}
		}
	}
	sl := reflect.MakeSlice(fv.Type(), 0, n)
	seen := map[string]bool{}
	unique := g.Opt.Valid && f.Config
	for tries := 0; sl.Len() < n && tries < n*10+10; tries++ {
		v, ok := g.leafValue(sv, f, fv.Type().Elem(), true)
		if !ok {
			continue
		}
		cv, _ := CanonScalar(v, true)
		if unique && seen[cv] {
			continue
		}
		seen[cv] = true
		sl = reflect.Append(sl, v)
	}
	if sl.Len() < min || sl.Len() == 0 {
		return false
	}
	fv.Set(sl)
	return true
}

// ScalarFor draws one valid value of Go type t (the field type, or the element
// type of a leaf-list) for leaf field f of the struct parent.  The zero Value is
// returned when none could be drawn.
func (g *Gen) ScalarFor(parent reflect.Value, f *FieldInfo, t reflect.Type) reflect.Value {
	if g.enumMap == nil {
		g.enumMap = enumTypeMap(g.C.NewRoot())
	}
	v, ok := g.valueOfType(parent, f, f.YType, t, false)
	if !ok {
		return reflect.Value{}
	}
	return v
}

// KeyFor draws a valid list-key value (Go type t of the key field) for key
// leaf f of the entry struct parent.
func (g *Gen) KeyFor(parent reflect.Value, f *FieldInfo, t reflect.Type) reflect.Value {
	if g.enumMap == nil {
		g.enumMap = enumTypeMap(g.C.NewRoot())
	}
	v, ok := g.valueOfType(parent, f, f.YType, t, true)
	if !ok {
		return reflect.Value{}
	}
	return v
}

// leafValue draws a value of Go type t for leaf field f.
func (g *Gen) leafValue(parent reflect.Value, f *FieldInfo, t reflect.Type, inList bool) (reflect.Value, bool) {
	return g.valueOfType(parent, f, f.YType, t, false)
}

// valueOfType draws a Go value of type t (field or element type) for YANG type yt.
func (g *Gen) valueOfType(parent reflect.Value, f *FieldInfo, yt *yang.YangType, t reflect.Type, isKey bool) (reflect.Value, bool) {
	switch {
	case t.Kind() == reflect.Interface:
		return g.unionValue(parent, f, yt, t, isKey)
	case t.Kind() == reflect.Ptr:
		ev, ok := g.valueOfType(parent, f, yt, t.Elem(), isKey)
		if !ok {
			return reflect.Value{}, false
		}
		p := reflect.New(t.Elem())
		p.Elem().Set(ev)
		return p, true
	case t.Kind() == reflect.Int64 && t.Implements(goEnumT):
		defs := EnumDefs(t)
		if len(defs) == 0 {
			return reflect.Value{}, false
		}
		keys := make([]int64, 0, len(defs))
		for k := range defs {
			keys = append(keys, k)
		}
		sort.Slice(keys, func(i, j int) bool { return keys[i] < keys[j] })
		v := reflect.New(t).Elem()
		v.SetInt(keys[g.Rng.Intn(len(keys))])
		return v, true
	case t.Kind() == reflect.Slice && t.Elem().Kind() == reflect.Uint8:
		n := g.binaryLen(yt)
		b := make([]byte, n)
		for i := range b {
			b[i] = byte(g.Rng.Intn(256))
		}
		if n > 0 && g.coin(0.2) {
			b[0] = 0
		}
		v := reflect.New(t).Elem()
		v.SetBytes(b)
		return v, true
	case t.Kind() == reflect.Bool:
		v := reflect.New(t).Elem()
		if t.Name() == "YANGEmpty" {
			v.SetBool(true)
		} else {
			v.SetBool(g.coin(0.5))
		}
		return v, true
	case t.Kind() == reflect.String:
		base := yt
		if base.Kind != yang.Ystring {
			base = &yang.YangType{Kind: yang.Ystring}
		}
		s, ok := pickString(g.Rng, base, g.Opt.Hostile, !isKey || g.Opt.EmptyKeyStrings)
		if !ok {
			g.Skipped["string-unsatisfiable:"+f.Entry.Name]++
			return reflect.Value{}, false
		}
		v := reflect.New(t).Elem()
		v.SetString(s)
		return v, true
	case t.Kind() == reflect.Float64:
		base := yt
		if base.Kind != yang.Ydecimal64 {
			base = &yang.YangType{Kind: yang.Ydecimal64, FractionDigits: 2}
		}
		v := reflect.New(t).Elem()
		if g.Opt.PreciseDecimals && g.coin(0.4) {
			if f, ok := pickPreciseDecimal(g.Rng, base); ok {
				g.Tags["precise-decimal"]++
				v.SetFloat(f)
				return v, true
			}
		}
		v.SetFloat(pickDecimal(g.Rng, base))
		return v, true
	}
	switch t.Kind() {
	case reflect.Int8, reflect.Int16, reflect.Int32, reflect.Int64, reflect.Uint8, reflect.Uint16, reflect.Uint32, reflect.Uint64:
		base := yt
		if goKindForYang(base.Kind) != t.Kind() {
			base = &yang.YangType{Kind: yangKindForGo(t.Kind())}
		}
		v := reflect.New(t).Elem()
		setNumeric(v, pickInt(g.Rng, base))
		return v, true
	}
	g.Skipped["unsupported-go-type:"+t.String()]++
	return reflect.Value{}, false
}

func yangKindForGo(k reflect.Kind) yang.TypeKind {
	for _, y := range []yang.TypeKind{yang.Yint8, yang.Yint16, yang.Yint32, yang.Yint64, yang.Yuint8, yang.Yuint16, yang.Yuint32, yang.Yuint64} {
		if goKindForYang(y) == k {
			return y
		}
	}
	return yang.Ynone
}

func (g *Gen) binaryLen(yt *yang.YangType) int {
	if yt != nil && yt.Kind == yang.Ybinary && len(yt.Length) > 0 {
		r := yt.Length[g.Rng.Intn(len(yt.Length))]
		lo, hi := int(r.Min.Value), int(r.Max.Value)
		if hi > lo+16 {
			hi = lo + 16
		}
		if lo == 0 && !g.Opt.ZeroLenBinary && hi > 0 {
			lo = 1
		}
		return lo + g.Rng.Intn(hi-lo+1)
	}
	if g.Opt.ZeroLenBinary {
		return g.Rng.Intn(6)
	}
	return 1 + g.Rng.Intn(5)
}

// unionValue builds a union value of interface type t through the generated
// To_<Union> helper, exactly as a user would.
func (g *Gen) unionValue(parent reflect.Value, f *FieldInfo, yt *yang.YangType, t reflect.Type, isKey bool) (reflect.Value, bool) {
	conv := FindUnionConv(parent, t)
	if !conv.IsValid() {
		g.Skipped["union-no-To-method:"+t.Name()]++
		return reflect.Value{}, false
	}
	members := FlattenUnion(yt)
	for tries := 0; tries < 30; tries++ {
		mi := g.Rng.Intn(len(members))
		m := members[mi]
		var prim reflect.Value
		switch {
		case isEnumKind(m.Kind):
			et := g.enumTypeForMember(f, m)
			if et == nil {
				g.Skipped["union-enum-type-unknown"]++
				continue
			}
			ev, ok := g.valueOfType(parent, f, m, et, isKey)
			if !ok {
				continue
			}
			prim = ev
		case m.Kind == yang.Ybinary:
			n := g.binaryLen(m)
			b := make([]byte, n)
			for i := range b {
				b[i] = byte(g.Rng.Intn(256))
			}
			prim = reflect.ValueOf(b)
		case m.Kind == yang.Yempty, m.Kind == yang.Yleafref, m.Kind == yang.Ybits:
			continue
		default:
			k := goKindForYang(m.Kind)
			pt, ok := primTypes[k]
			if !ok {
				continue
			}
			ev, ok := g.valueOfType(parent, f, m, pt, isKey)
			if !ok {
				continue
			}
			prim = ev
		}
		cv, _ := CanonScalar(prim, true)
		if canon := CanonicalInUnion; g.Opt.GNMIUnions && !isKey {
			if !CanonicalInUnionGNMI(members, mi, LexForm(cv)) {
				g.Skipped["noncanonical-union-value"]++
				continue
			}
		} else if !canon(members, mi, LexForm(cv)) {
			g.Skipped["noncanonical-union-value"]++
			continue
		}
		if isKey && LexForm(cv) == "" {
			continue
		}
		out := conv.Call([]reflect.Value{prim})
		if !out[1].IsNil() {
			g.Skipped["union-To-error:"+t.Name()+":"+m.Kind.String()]++
			continue
		}
		g.Tags["union:"+m.Kind.String()]++
		return out[0], true
	}
	return reflect.Value{}, false
}

// unionFromCanon builds the union value (interface type t, field f of parent) that a canonical
// scalar ("enum:RED", "int64:5", "string:x") denotes, through the generated To_<Union> helper.
func (g *Gen) unionFromCanon(parent reflect.Value, f *FieldInfo, t reflect.Type, canon string) (reflect.Value, bool) {
	conv := FindUnionConv(parent, t)
	i := strings.Index(canon, ":")
	if !conv.IsValid() || i < 0 {
		return reflect.Value{}, false
	}
	kind, pl := canon[:i], canon[i+1:]
	var prim reflect.Value
	if kind == "enum" {
		var cands []reflect.Type
		cands = append(cands, g.enumMap["/"+strings.Join(DataPath(f.Entry), "/")]...)
		cands = append(cands, g.enumMap[f.Entry.Path()]...)
		for _, et := range cands {
			if n, ok := EnumValueByName(et, pl); ok {
				prim = reflect.New(et).Elem()
				prim.SetInt(n)
				break
			}
		}
	} else {
		for k, pt := range primTypes {
			if k.String() == kind {
				prim = reflect.New(pt).Elem()
				if !ParseCanonInto(prim, canon) {
					return reflect.Value{}, false
				}
			}
		}
	}
	if !prim.IsValid() {
		return reflect.Value{}, false
	}
	out := conv.Call([]reflect.Value{prim})
	if len(out) != 2 || !out[1].IsNil() {
		return reflect.Value{}, false
	}
	return out[0], true
}

// FindUnionConv finds the generated To_<Union> method for interface type t on
// the parent struct (addressable struct value).
func FindUnionConv(parent reflect.Value, t reflect.Type) reflect.Value {
	if !parent.IsValid() {
		return reflect.Value{}
	}
	p := parent
	if p.Kind() != reflect.Ptr {
		if !p.CanAddr() {
			return reflect.Value{}
		}
		p = p.Addr()
	}
	return p.MethodByName("To_" + t.Name())
}

// enumTypeForMember selects the generated enum type of a union member by
// comparing name sets.
func (g *Gen) enumTypeForMember(f *FieldInfo, m *yang.YangType) reflect.Type {
	return EnumTypeForMember(g.enumMap, f, m)
}

// EnumTypeForMember: see Gen.enumTypeForMember.
func EnumTypeForMember(enumMap map[string][]reflect.Type, f *FieldInfo, m *yang.YangType) reflect.Type {
	want := MemberNames(m)
	var cands []reflect.Type
	cands = append(cands, enumMap["/"+strings.Join(DataPath(f.Entry), "/")]...)
	cands = append(cands, enumMap[f.Entry.Path()]...)
	for _, ct := range cands {
		have := map[string]bool{}
		for _, n := range EnumDefs(ct) {
			have[n] = true
		}
		if len(have) != len(want) {
			continue
		}
		ok := true
		for n := range want {
			if !have[n] {
				ok = false
			}
		}
		if ok {
			return ct
		}
	}
	return nil
}

// MemberNames returns the set of enum / identity names of a type.
func MemberNames(m *yang.YangType) map[string]bool {
	out := map[string]bool{}
	switch m.Kind {
	case yang.Yenum:
		if m.Enum != nil {
			for n := range m.Enum.ToInt {
				out[n] = true
			}
		}
	case yang.Yidentityref:
		if m.IdentityBase != nil {
			for _, v := range m.IdentityBase.Values {
				out[v.Name] = true
			}
		}
	}
	return out
}

// setList populates a keyed or ordered list.
func (g *Gen) setList(sv reflect.Value, f *FieldInfo, path []PathElem, depth int) bool {
	esi := g.C.Info(f.Elem)
	kfs := esi.KeyFields()
	for _, kf := range kfs {
		if kf == nil {
			g.Skipped["list-without-key-field"]++
			return false
		}
		if kf.LeafrefPath != "" && !leafrefInsideEntry(kf.LeafrefPath) {
			// keys come from elsewhere in the tree: second phase
			if g.Opt.Leafrefs == "skip" {
				return false
			}
			g.deferred = append(g.deferred, deferredItem{parent: sv, f: f, path: path, depth: depth})
			return true
		}
	}
	n := g.listCount(f)
	if n == 0 {
		return false
	}
	return g.buildEntries(sv, f, path, depth, n, nil)
}

func (g *Gen) listCount(f *FieldInfo) int {
	min, max := 1, g.Opt.MaxEntries
	if la := f.Entry.ListAttr; g.Opt.Valid && la != nil {
		if int(la.MinElements) > min {
			min = int(la.MinElements)
		}
		if BoundedMax(la) && int(la.MaxElements) < max {
			max = int(la.MaxElements)
		}
	}
	if max < min {
		max = min
	}
	return min + g.Rng.Intn(max-min+1)
}

// leafrefInsideEntry: "../config/name"-style key references.
func leafrefInsideEntry(p string) bool {
	abs, steps, err := ParseLeafref(p)
	if err != nil || abs {
		return false
	}
	ups := 0
	for _, s := range steps {
		if s.Up {
			ups++
		}
	}
	return ups == 1 && !steps[len(steps)-1].Up
}

// buildEntries creates n entries; keyPool (if non-nil) supplies canonical key
// values for single-key leafref lists.
func (g *Gen) buildEntries(sv reflect.Value, f *FieldInfo, path []PathElem, depth, n int, keyPool []string) bool {
	fv := sv.Field(f.Idx)
	esi := g.C.Info(f.Elem)
	kfs := esi.KeyFields()
	var container reflect.Value
	if f.Kind == KList {
		container = reflect.MakeMap(fv.Type())
	} else {
		container = reflect.New(fv.Type().Elem())
	}
	seen := map[string]bool{}
	made := 0
	// Key-text collision family: in lists with two or more unrestricted string
	// keys, sometimes create a pair of entries whose keys differ but whose
	// space-joined renderings coincide, ("x t","s") and ("x","t s").
	var strKeys []*FieldInfo
	if keyPool == nil {
		for _, kf := range kfs {
			if t := f.Elem.Elem().Field(kf.Idx).Type; t.Kind() == reflect.Ptr && t.Elem().Kind() == reflect.String {
				plain := kf.YType != nil && kf.YType.Kind == yang.Ystring && len(kf.YType.Pattern) == 0 && len(kf.YType.POSIXPattern) == 0 && len(kf.YType.Length) == 0
				if plain || (kf.LeafrefPath != "" && leafrefInsideEntry(kf.LeafrefPath)) {
					strKeys = append(strKeys, kf)
				}
			}
		}
	}
	var twin map[int]reflect.Value
	for tries := 0; (made < n || twin != nil) && tries < n*8+8; tries++ {
		ent := reflect.New(f.Elem.Elem())
		okAll := true
		isTwin := twin != nil
		for i, kf := range kfs {
			kfv := ent.Elem().Field(kf.Idx)
			if isTwin {
				kfv.Set(twin[kf.Idx])
				continue
			}
			if keyPool != nil && i == 0 {
				if len(keyPool) == 0 {
					okAll = false
					break
				}
				if !ParseCanonInto(kfv, keyPool[g.Rng.Intn(len(keyPool))]) {
					okAll = false
					break
				}
				continue
			}
			v, ok := g.valueOfType(ent.Elem(), kf, kf.YType, kfv.Type(), true)
			if !ok {
				okAll = false
				break
			}
			kfv.Set(v)
		}
		twin = nil
		if !okAll {
			continue
		}
		// a list nested in an entry of a list of the same name: the first entry sometimes
		// takes the key of that ancestor entry (same element names and key values at two depths)
		if made == 0 && keyPool == nil && len(f.Path) > 0 && g.coin(0.5) {
			for ai := len(path) - 1; ai >= 0; ai-- {
				if path[ai].Name != f.Path[len(f.Path)-1] || len(path[ai].Keys) != len(kfs) {
					continue
				}
				same := true
				for _, kf := range kfs {
					cv, ok := path[ai].Keys[kf.Path[len(kf.Path)-1]]
					if !ok || !ParseCanonInto(ent.Elem().Field(kf.Idx), cv) {
						same = false
					}
				}
				if same {
					g.Tags["nested-same-name-same-key"]++
				}
				break
			}
		}
		if !isTwin && len(strKeys) >= 2 && len(strKeys) == len(kfs) && g.Opt.Hostile && g.coin(0.3) {
			k0, k1 := ent.Elem().Field(strKeys[0].Idx), ent.Elem().Field(strKeys[1].Idx)
			x, s2 := k0.Elem().String(), k1.Elem().String()
			tok := string(rune('a' + g.Rng.Intn(26)))
			twin = map[int]reflect.Value{}
			for _, kf := range kfs {
				c := ent.Elem().Field(kf.Idx).Elem().String()
				twin[kf.Idx] = reflect.ValueOf(&c)
			}
			a, b := x, tok+" "+s2
			twin[strKeys[0].Idx], twin[strKeys[1].Idx] = reflect.ValueOf(&a), reflect.ValueOf(&b)
			x2 := x + " " + tok
			k0.Set(reflect.ValueOf(&x2))
			g.Tags["key-text-collision"]++
		}
		if !isTwin && twin == nil && keyPool == nil && len(strKeys) >= 1 && made+2 <= n && g.Opt.Hostile && g.coin(0.25) {
			// a sibling entry whose (first string) key is this entry's key behind something that looks
			// like a module prefix: "x" and "m:x" are different keys
			allPtr := true
			for _, kf := range kfs {
				if fv := ent.Elem().Field(kf.Idx); fv.Kind() != reflect.Ptr || fv.IsNil() {
					allPtr = false
				}
			}
			if x := ent.Elem().Field(strKeys[0].Idx).Elem().String(); allPtr && x != "" && !strings.Contains(x, ":") {
				twin = map[int]reflect.Value{}
				for _, kf := range kfs {
					c := reflect.New(ent.Elem().Field(kf.Idx).Type().Elem())
					c.Elem().Set(ent.Elem().Field(kf.Idx).Elem())
					twin[kf.Idx] = c
				}
				px := string(rune('a'+g.Rng.Intn(26))) + ":" + x
				twin[strKeys[0].Idx] = reflect.ValueOf(&px)
				g.Tags["key-prefix-twin"]++
			}
		}
		ks := PathElem{Name: "k", Keys: g.C.EntryKeys(ent), Pos: -1}.String()
		if seen[ks] {
			continue
		}
		seen[ks] = true
		p := extend(path, f.Path)
		p[len(p)-1].Keys = g.C.EntryKeys(ent)
		// leafref keys pointing inside the entry: set the target to the same value
		for _, kf := range kfs {
			if kf.LeafrefPath != "" && leafrefInsideEntry(kf.LeafrefPath) {
				g.setInsideTarget(ent.Elem(), kf)
			}
		}
		g.fillStructKeepKeys(ent.Elem(), p, depth+1)
		if f.Kind == KList {
			mk, ok := MapKeyFor(fv.Type().Key(), ent, kfs)
			if !ok {
				continue
			}
			container.SetMapIndex(mk, ent)
		} else {
			res := container.MethodByName("Append").Call([]reflect.Value{ent})
			if !res[0].IsNil() {
				g.Skipped["ordered-append-error"]++
				continue
			}
		}
		made++
	}
	if made == 0 {
		return false
	}
	fv.Set(container)
	if f.Kind == KOrdered {
		g.Tags["ordered-list"]++
	}
	return true
}

// fillStructKeepKeys fills the non-key fields of a list entry.
func (g *Gen) fillStructKeepKeys(sv reflect.Value, path []PathElem, depth int) {
	g.fillStruct(sv, path, depth, false)
}

// setInsideTarget copies a key value to the leaf its "../x/y" leafref names.
func (g *Gen) setInsideTarget(entry reflect.Value, kf *FieldInfo) {
	_, steps, _ := ParseLeafref(kf.LeafrefPath)
	var names []string
	for _, s := range steps {
		if !s.Up {
			names = append(names, s.Name)
		}
	}
	cv, ok := CanonScalar(entry.Field(kf.Idx), true)
	if !ok {
		return
	}
	g.setLeafAt(entry, names, cv)
}

// setLeafAt sets the leaf at a relative data path below struct sv.
func (g *Gen) setLeafAt(sv reflect.Value, names []string, canon string) bool {
	si := g.C.Info(sv.Type())
	for _, f := range si.Fields {
		for _, ap := range f.AltPaths {
			if len(ap) > len(names) {
				continue
			}
			match := true
			for i := range ap {
				if ap[i] != names[i] {
					match = false
				}
			}
			if !match {
				continue
			}
			rest := names[len(ap):]
			fv := sv.Field(f.Idx)
			if len(rest) == 0 {
				if f.Kind != KLeaf {
					return false
				}
				if fv.Kind() == reflect.Interface {
					return false
				}
				return ParseCanonInto(fv, canon)
			}
			if f.Kind == KContainer {
				if fv.IsNil() {
					fv.Set(reflect.New(fv.Type().Elem()))
				}
				return g.setLeafAt(fv.Elem(), rest, canon)
			}
		}
	}
	return false
}

// MapKeyFor builds the Go map key of a list entry from its key fields.
func MapKeyFor(kt reflect.Type, ent reflect.Value, kfs []*FieldInfo) (reflect.Value, bool) {
	deref := func(v reflect.Value) (reflect.Value, bool) {
		if v.Kind() == reflect.Ptr {
			if v.IsNil() {
				return reflect.Value{}, false
			}
			return v.Elem(), true
		}
		if v.Kind() == reflect.Interface && v.IsNil() {
			return reflect.Value{}, false
		}
		return v, true
	}
	if len(kfs) == 1 {
		v, ok := deref(ent.Elem().Field(kfs[0].Idx))
		if !ok {
			return reflect.Value{}, false
		}
		if !v.Type().AssignableTo(kt) {
			if v.Type().ConvertibleTo(kt) {
				return v.Convert(kt), true
			}
			return reflect.Value{}, false
		}
		return v, true
	}
	k := reflect.New(kt).Elem()
	for _, kf := range kfs {
		v, ok := deref(ent.Elem().Field(kf.Idx))
		if !ok {
			return reflect.Value{}, false
		}
		dst := k.FieldByName(kf.GoName)
		if !dst.IsValid() {
			return reflect.Value{}, false
		}
		dst.Set(v)
	}
	return k, true
}

var currentPredRe = regexp.MustCompile(`\[(?:[\w.-]+:)?([\w.-]+)\s*=\s*current\(\)/\.\./(?:[\w.-]+:)?([\w.-]+)\]`)

// fillDeferred handles leafref leaves and leafref-keyed lists once the rest of
// the tree exists.
func (g *Gen) fillDeferred(it deferredItem) {
	obs := g.C.Observe(g.root.Interface().(ygot.GoStruct))
	switch it.f.Kind {
	case KLeaf:
		lp := extend(it.path, it.f.Path)
		cands := EvalLeafref(obs, lp, it.f.LeafrefPath)
		if len(cands) == 0 {
			// [key = current()/../sibling]: point the sibling at an existing entry
			if m := currentPredRe.FindStringSubmatchIndex(it.f.LeafrefPath); m != nil {
				keyName, sib := it.f.LeafrefPath[m[2]:m[3]], it.f.LeafrefPath[m[4]:m[5]]
				keyVals := EvalLeafref(obs, lp, it.f.LeafrefPath[:m[0]]+"/"+keyName)
				for _, sf := range g.C.Info(it.parent.Type()).Fields {
					if sf.Kind == KLeaf && len(sf.Path) == 1 && sf.Path[0] == sib && len(keyVals) > 0 {
						sv := it.parent.Field(sf.Idx)
						if sv.Kind() != reflect.Interface && ParseCanonInto(sv, keyVals[g.Rng.Intn(len(keyVals))]) {
							obs = g.C.Observe(g.root.Interface().(ygot.GoStruct))
							cands = EvalLeafref(obs, lp, it.f.LeafrefPath)
						}
					}
				}
			}
		}
		if len(cands) == 0 {
			g.Skipped["leafref-no-target"]++
			return
		}
		fv := it.parent.Field(it.f.Idx)
		if fv.Kind() == reflect.Interface {
			// a reference to a union-typed target: the same member and value as a target leaf
			if uv, ok := g.unionFromCanon(it.parent, it.f, fv.Type(), cands[g.Rng.Intn(len(cands))]); ok {
				fv.Set(uv)
				g.Tags["leafref-to-union"]++
			} else {
				g.Skipped["leafref-to-union"]++
			}
			return
		}
		if ParseCanonInto(fv, cands[g.Rng.Intn(len(cands))]) {
			g.Tags["leafref"]++
		}
	case KList, KOrdered:
		esi := g.C.Info(it.f.Elem)
		kfs := esi.KeyFields()
		if len(kfs) != 1 {
			g.Skipped["multi-key-leafref-list"]++
			return
		}
		lp := extend(extend(it.path, it.f.Path), kfs[0].Path)
		cands := EvalLeafref(obs, lp, kfs[0].LeafrefPath)
		if len(cands) == 0 {
			g.Skipped["leafref-key-no-target"]++
			return
		}
		n := g.listCount(it.f)
		if n > len(cands) {
			n = len(cands)
		}
		if g.buildEntries(it.parent, it.f, it.path, it.depth, n, cands) {
			g.Tags["leafref-key"]++
		}
	}
}

// EvalLeafref evaluates a leafref path from the leaf at data path leafPath and
// returns the canonical values of the selected leaves (sorted, de-duplicated).
func EvalLeafref(o *Obs, leafPath []PathElem, lpath string) []string {
	abs, steps, err := ParseLeafref(lpath)
	if err != nil {
		return nil
	}
	type pat struct {
		name string
		keys map[string]string // constraints; nil = any
		any  bool              // true: keys unconstrained
	}
	var cur []pat
	if !abs {
		for _, e := range leafPath {
			cur = append(cur, pat{name: e.Name, keys: e.Keys})
		}
	}
	for _, s := range steps {
		if s.Up {
			if len(cur) == 0 {
				return nil
			}
			cur = cur[:len(cur)-1]
			continue
		}
		p := pat{name: s.Name, any: true}
		if len(s.Preds) > 0 {
			p.keys = map[string]string{}
			for _, pr := range s.Preds {
				if pr.Literal != nil {
					p.keys[pr.Key] = "lit:" + *pr.Literal
					continue
				}
				// evaluate current()/... to a single value
				cp := append([]PathElem(nil), leafPath...)
				bad := false
				for _, cs := range pr.CurPath {
					if cs.Up {
						if len(cp) == 0 {
							bad = true
							break
						}
						cp = cp[:len(cp)-1]
					} else {
						cp = append(cp, PathElem{Name: cs.Name, Pos: -1})
					}
				}
				if bad {
					return nil
				}
				l, ok := o.Leaves[PathString(cp)]
				if !ok {
					return nil // predicate operand unset: empty node-set
				}
				p.keys[pr.Key] = l.Val
			}
		}
		cur = append(cur, p)
	}
	payload := func(s string) string {
		if i := strings.Index(s, ":"); i >= 0 {
			return s[i+1:]
		}
		return s
	}
	seen := map[string]bool{}
	var out []string
	for _, l := range o.Leaves {
		if len(l.Elems) != len(cur) {
			continue
		}
		ok := true
		for i, e := range l.Elems {
			p := cur[i]
			if e.Name != p.name {
				ok = false
				break
			}
			if p.any && p.keys == nil {
				continue
			}
			if !p.any {
				// context element: keys must be identical
				if len(e.Keys) != len(p.keys) {
					ok = false
					break
				}
				for k, v := range p.keys {
					if e.Keys[k] != v {
						ok = false
					}
				}
			} else {
				for k, v := range p.keys {
					if payload(e.Keys[k]) != payload(v) {
						ok = false
					}
				}
			}
			if !ok {
				break
			}
		}
		if ok && l.IsList {
			// a leaf-list target contributes each of its entries
			var vs []string
			json.Unmarshal([]byte(l.Val), &vs)
			for _, v := range vs {
				if !seen[v] {
					seen[v] = true
					out = append(out, v)
				}
			}
			continue
		}
		if ok && !seen[l.Val] {
			seen[l.Val] = true
			out = append(out, l.Val)
		}
	}
	sort.Strings(out)
	return out
}

// Ensure big is linked (used by monitors through this package).
var _ = big.NewInt
var _ = fmt.Sprintf
