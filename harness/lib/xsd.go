package lib

import (
	"fmt"
	"math/rand"
	"strconv"
	"strings"
	"sync"
)

// A small independent matcher for the XSD regular-expression subset that YANG
// patterns use: literals, escapes, '.', character classes with ranges and
// negation, \d \w \s (and negations), groups, alternation, * + ? {n,m}.
// It does not use package regexp.  Matching is whole-string.

type reKind int

const (
	reLit reKind = iota
	reAny
	reClass
	reCat
	reAlt
	reRep
	reEmpty
)

type reNode struct {
	kind     reKind
	r        rune
	neg      bool
	ranges   [][2]rune
	subs     []*reNode
	min, max int // max<0: unbounded
}

// XSDOpts controls how ^ and $ are read.
type XSDOpts struct {
	// StripAnchors removes one leading ^ and one trailing unescaped $ (the
	// OpenConfig convention ygot documents); remaining ^ and $ are literals, as
	// in XSD.
	StripAnchors bool
}

type reParser struct {
	s   []rune
	pos int
}

// ParseXSD parses a pattern.
func ParseXSD(p string, opt XSDOpts) (*reNode, error) {
	rs := []rune(p)
	if opt.StripAnchors {
		if len(rs) > 0 && rs[0] == '^' {
			rs = rs[1:]
		}
		if n := len(rs); n > 0 && rs[n-1] == '$' {
			// count preceding backslashes
			bs := 0
			for i := n - 2; i >= 0 && rs[i] == '\\'; i-- {
				bs++
			}
			if bs%2 == 0 {
				rs = rs[:n-1]
			}
		}
	}
	ps := &reParser{s: rs}
	n, err := ps.alt()
	if err != nil {
		return nil, err
	}
	if ps.pos != len(ps.s) {
		return nil, fmt.Errorf("unexpected %q at %d", string(ps.s[ps.pos]), ps.pos)
	}
	return n, nil
}

func (p *reParser) more() bool { return p.pos < len(p.s) }
func (p *reParser) peek() rune { return p.s[p.pos] }

func (p *reParser) alt() (*reNode, error) {
	var alts []*reNode
	for {
		c, err := p.cat()
		if err != nil {
			return nil, err
		}
		alts = append(alts, c)
		if p.more() && p.peek() == '|' {
			p.pos++
			continue
		}
		break
	}
	if len(alts) == 1 {
		return alts[0], nil
	}
	return &reNode{kind: reAlt, subs: alts}, nil
}

func (p *reParser) cat() (*reNode, error) {
	var items []*reNode
	for p.more() && p.peek() != '|' && p.peek() != ')' {
		a, err := p.atom()
		if err != nil {
			return nil, err
		}
		a, err = p.quant(a)
		if err != nil {
			return nil, err
		}
		items = append(items, a)
	}
	if len(items) == 0 {
		return &reNode{kind: reEmpty}, nil
	}
	if len(items) == 1 {
		return items[0], nil
	}
	return &reNode{kind: reCat, subs: items}, nil
}

func (p *reParser) quant(a *reNode) (*reNode, error) {
	for p.more() {
		switch p.peek() {
		case '*':
			p.pos++
			a = &reNode{kind: reRep, subs: []*reNode{a}, min: 0, max: -1}
		case '+':
			p.pos++
			a = &reNode{kind: reRep, subs: []*reNode{a}, min: 1, max: -1}
		case '?':
			p.pos++
			a = &reNode{kind: reRep, subs: []*reNode{a}, min: 0, max: 1}
		case '{':
			end := -1
			for i := p.pos; i < len(p.s); i++ {
				if p.s[i] == '}' {
					end = i
					break
				}
			}
			if end < 0 {
				return nil, fmt.Errorf("unterminated {")
			}
			body := string(p.s[p.pos+1 : end])
			p.pos = end + 1
			mn, mx := 0, 0
			var err error
			if i := strings.Index(body, ","); i >= 0 {
				if mn, err = strconv.Atoi(strings.TrimSpace(body[:i])); err != nil {
					return nil, err
				}
				rest := strings.TrimSpace(body[i+1:])
				if rest == "" {
					mx = -1
				} else if mx, err = strconv.Atoi(rest); err != nil {
					return nil, err
				}
			} else {
				if mn, err = strconv.Atoi(strings.TrimSpace(body)); err != nil {
					return nil, err
				}
				mx = mn
			}
			a = &reNode{kind: reRep, subs: []*reNode{a}, min: mn, max: mx}
		default:
			return a, nil
		}
	}
	return a, nil
}

var (
	digitRanges = [][2]rune{{'0', '9'}}
	wordRanges  = [][2]rune{{'0', '9'}, {'A', 'Z'}, {'a', 'z'}}
	spaceRanges = [][2]rune{{' ', ' '}, {'\t', '\t'}, {'\n', '\n'}, {'\r', '\r'}}
)

func (p *reParser) escape() (*reNode, error) {
	// p.peek() is the char after the backslash
	if !p.more() {
		return nil, fmt.Errorf("trailing backslash")
	}
	c := p.peek()
	p.pos++
	switch c {
	case 'd':
		return &reNode{kind: reClass, ranges: digitRanges}, nil
	case 'D':
		return &reNode{kind: reClass, ranges: digitRanges, neg: true}, nil
	case 'w':
		return &reNode{kind: reClass, ranges: wordRanges}, nil
	case 'W':
		return &reNode{kind: reClass, ranges: wordRanges, neg: true}, nil
	case 's':
		return &reNode{kind: reClass, ranges: spaceRanges}, nil
	case 'S':
		return &reNode{kind: reClass, ranges: spaceRanges, neg: true}, nil
	case 'n':
		return &reNode{kind: reLit, r: '\n'}, nil
	case 't':
		return &reNode{kind: reLit, r: '\t'}, nil
	case 'r':
		return &reNode{kind: reLit, r: '\r'}, nil
	case 'p', 'P', 'i', 'I', 'c', 'C':
		return nil, fmt.Errorf("unsupported escape \\%c", c)
	}
	return &reNode{kind: reLit, r: c}, nil
}

func (p *reParser) atom() (*reNode, error) {
	c := p.peek()
	switch c {
	case '(':
		p.pos++
		n, err := p.alt()
		if err != nil {
			return nil, err
		}
		if !p.more() || p.peek() != ')' {
			return nil, fmt.Errorf("missing )")
		}
		p.pos++
		return n, nil
	case '[':
		p.pos++
		return p.class()
	case '.':
		p.pos++
		return &reNode{kind: reAny}, nil
	case '\\':
		p.pos++
		return p.escape()
	case '*', '+', '?', ')':
		return nil, fmt.Errorf("unexpected %q", string(c))
	}
	p.pos++
	return &reNode{kind: reLit, r: c}, nil
}

func (p *reParser) class() (*reNode, error) {
	n := &reNode{kind: reClass}
	if p.more() && p.peek() == '^' {
		n.neg = true
		p.pos++
	}
	first := true
	for {
		if !p.more() {
			return nil, fmt.Errorf("unterminated [")
		}
		c := p.peek()
		if c == ']' && !first {
			p.pos++
			break
		}
		first = false
		var lo rune
		if c == '\\' {
			p.pos++
			e, err := p.escape()
			if err != nil {
				return nil, err
			}
			if e.kind == reClass {
				if e.neg {
					return nil, fmt.Errorf("negated class escape inside [] unsupported")
				}
				n.ranges = append(n.ranges, e.ranges...)
				continue
			}
			lo = e.r
		} else {
			p.pos++
			lo = c
		}
		hi := lo
		if p.pos+1 < len(p.s) && p.peek() == '-' && p.s[p.pos+1] != ']' {
			p.pos++
			h := p.peek()
			p.pos++
			if h == '\\' {
				e, err := p.escape()
				if err != nil {
					return nil, err
				}
				if e.kind != reLit {
					return nil, fmt.Errorf("bad range end")
				}
				h = e.r
			}
			hi = h
			if hi < lo {
				return nil, fmt.Errorf("reversed range")
			}
		}
		n.ranges = append(n.ranges, [2]rune{lo, hi})
	}
	return n, nil
}

func (n *reNode) classHas(r rune) bool {
	in := false
	for _, rg := range n.ranges {
		if r >= rg[0] && r <= rg[1] {
			in = true
			break
		}
	}
	return in != n.neg
}

// posSet is a set of input positions 0..len(in), as a bitset.
type posSet []uint64

func newPosSet(n int) posSet    { return make(posSet, n/64+1) }
func (b posSet) set(i int)      { b[i>>6] |= 1 << (uint(i) & 63) }
func (b posSet) has(i int) bool { return b[i>>6]&(1<<(uint(i)&63)) != 0 }
func (b posSet) empty() bool {
	for _, w := range b {
		if w != 0 {
			return false
		}
	}
	return true
}
func (b posSet) clone() posSet { return append(posSet(nil), b...) }
func (b posSet) or(c posSet) {
	for i := range b {
		b[i] |= c[i]
	}
}
func (b posSet) andNot(c posSet) {
	for i := range b {
		b[i] &^= c[i]
	}
}

// ends returns the set of positions at which a match of n can end when it
// starts at any position of from.  This is a position-set (NFA style)
// evaluation: its cost is polynomial in the pattern and input sizes, with no
// backtracking (the earlier continuation-passing matcher was exponential on
// patterns such as (a*)*b).
func (n *reNode) ends(in []rune, from posSet) posSet {
	switch n.kind {
	case reEmpty:
		return from
	case reLit, reAny, reClass:
		out := newPosSet(len(in))
		for p := 0; p < len(in); p++ {
			if !from.has(p) {
				continue
			}
			c := in[p]
			ok := false
			switch n.kind {
			case reLit:
				ok = c == n.r
			case reAny:
				ok = c != '\n' && c != '\r'
			default:
				ok = n.classHas(c)
			}
			if ok {
				out.set(p + 1)
			}
		}
		return out
	case reCat:
		cur := from
		for _, s := range n.subs {
			cur = s.ends(in, cur)
			if cur.empty() {
				return cur
			}
		}
		return cur
	case reAlt:
		out := newPosSet(len(in))
		for _, s := range n.subs {
			out.or(s.ends(in, from))
		}
		return out
	case reRep:
		sub := n.subs[0]
		cur := from
		for i := 0; i < n.min; i++ {
			cur = sub.ends(in, cur)
			if cur.empty() {
				return cur
			}
		}
		res := cur.clone()
		if n.max < 0 {
			// closure: everything reachable by further repetitions
			frontier := cur
			for {
				nxt := sub.ends(in, frontier).clone()
				nxt.andNot(res)
				if nxt.empty() {
					break
				}
				res.or(nxt)
				frontier = nxt
			}
			return res
		}
		for i := n.min; i < n.max; i++ {
			cur = sub.ends(in, cur)
			if cur.empty() {
				break
			}
			res.or(cur)
		}
		return res
	}
	return newPosSet(len(in))
}

// Match reports whether the whole of s is in the language.
func (n *reNode) Match(s string) bool {
	in := []rune(s)
	from := newPosSet(len(in))
	from.set(0)
	return n.ends(in, from).has(len(in))
}

// Sample draws a member of the language.
func (n *reNode) Sample(rng *rand.Rand) string {
	var b strings.Builder
	n.sample(rng, &b)
	return b.String()
}

var samplePool = []rune("abcxyzABZ059 _-.~!/[]=\\\"*é日$^+")

func (n *reNode) sample(rng *rand.Rand, b *strings.Builder) {
	switch n.kind {
	case reLit:
		b.WriteRune(n.r)
	case reAny:
		b.WriteRune(samplePool[rng.Intn(len(samplePool))])
	case reClass:
		if !n.neg && len(n.ranges) > 0 {
			rg := n.ranges[rng.Intn(len(n.ranges))]
			b.WriteRune(rg[0] + rune(rng.Intn(int(rg[1]-rg[0])+1)))
			return
		}
		for i := 0; i < 200; i++ {
			r := samplePool[rng.Intn(len(samplePool))]
			if n.classHas(r) {
				b.WriteRune(r)
				return
			}
		}
		for r := rune(33); r < 0x3000; r++ {
			if n.classHas(r) {
				b.WriteRune(r)
				return
			}
		}
	case reCat:
		for _, s := range n.subs {
			s.sample(rng, b)
		}
	case reAlt:
		n.subs[rng.Intn(len(n.subs))].sample(rng, b)
	case reRep:
		c := n.min
		extra := 3
		if n.max >= 0 {
			extra = n.max - n.min
			if extra > 3 {
				extra = 3
			}
		}
		if extra > 0 {
			c += rng.Intn(extra + 1)
		}
		for i := 0; i < c; i++ {
			n.subs[0].sample(rng, b)
		}
	}
}

var (
	xsdMu    sync.Mutex
	xsdCache = map[string]*reNode{}
)

// MatchXSD matches s against pattern p, with a leading ^ / trailing $ read as
// redundant anchors (both readings agree when the pattern has neither).
func MatchXSD(p, s string) (bool, error) {
	xsdMu.Lock()
	n, ok := xsdCache[p]
	if !ok {
		var err error
		n, err = ParseXSD(p, XSDOpts{StripAnchors: true})
		if err != nil {
			xsdMu.Unlock()
			return false, err
		}
		xsdCache[p] = n
	}
	xsdMu.Unlock()
	return n.Match(s), nil
}

// SamplePatterns draws a string from the first pattern's language.
func SamplePatterns(rng *rand.Rand, pats []string) (string, bool) {
	if len(pats) == 0 {
		return "", false
	}
	n, err := ParseXSD(pats[0], XSDOpts{StripAnchors: true})
	if err != nil {
		return "", false
	}
	return n.Sample(rng), true
}
