package lib

import (
	"bufio"
	"crypto/sha256"
	"encoding/hex"
	"encoding/json"
	"fmt"
	"os"
	"path/filepath"
	"regexp"
	"runtime/debug"
	"sort"
	"strings"
	"sync"
	"time"
)

// VerifDir is the root of the verification tree.
var VerifDir = envOr("VERIF_DIR", "/verif")

func envOr(k, d string) string {
	if v := os.Getenv(k); v != "" {
		return v
	}
	return d
}

// Violation is one observed failure of a property clause.
type Violation struct {
	Sig     string      `json:"signature"`
	Clause  string      `json:"clause"`
	Detail  string      `json:"detail"`
	Witness interface{} `json:"witness"`
	Count   int         `json:"count"`
	Known   bool        `json:"known"`
	Replay  string      `json:"replay,omitempty"`
}

// KnownFinding is a record of known_findings.jsonl.
type KnownFinding struct {
	Kind      string `json:"kind"` // "known" or "fixed"
	Property  string `json:"property"`
	Signature string `json:"signature"`
	WhatFails string `json:"what_fails"`
	Commit    string `json:"commit,omitempty"`
}

// Run accumulates the verdicts and coverage of one check execution.
type Run struct {
	Prop  string
	Tier  string
	Seed  int64
	Level string
	Rule  string

	mu          sync.Mutex
	start       time.Time
	evals       int
	distinct    map[[16]byte]struct{}
	samples     []interface{}
	cov         map[string]int
	viol        map[string]*Violation
	violOrder   []string
	assumptions []string
	extra       map[string]interface{}
	inconcl     []string
	known       []KnownFinding
	MaxSamples  int
	replayOnly  string
	floorDist   int
	requireCov  []string
	Exhaustive  bool
}

// NewRun starts a run for a property.
func NewRun(prop, tier string, seed int64) *Run {
	r := &Run{Prop: prop, Tier: tier, Seed: seed, Level: "exploration", start: time.Now(),
		distinct: map[[16]byte]struct{}{}, cov: map[string]int{}, viol: map[string]*Violation{}, extra: map[string]interface{}{}, MaxSamples: 4, floorDist: 2}
	r.known = loadKnown(prop)
	return r
}

func loadKnown(prop string) []KnownFinding {
	f, err := os.Open(filepath.Join(VerifDir, "known_findings.jsonl"))
	if err != nil {
		return nil
	}
	defer f.Close()
	var out []KnownFinding
	sc := bufio.NewScanner(f)
	sc.Buffer(make([]byte, 1<<20), 1<<20)
	for sc.Scan() {
		line := strings.TrimSpace(sc.Text())
		if line == "" || strings.HasPrefix(line, "#") {
			continue
		}
		var k KnownFinding
		if err := json.Unmarshal([]byte(line), &k); err != nil {
			continue
		}
		if k.Property == prop {
			out = append(out, k)
		}
	}
	return out
}

// Quick reports whether this is the quick tier.
func (r *Run) Quick() bool { return r.Tier != "thorough" }

// N picks a case count by tier.
func (r *Run) N(quick, thorough int) int {
	if r.Quick() {
		return quick
	}
	return thorough
}

// SetFloor sets the minimum number of distinct non-trivial cases below which the
// run is inconclusive.
func (r *Run) SetFloor(n int) { r.floorDist = n }

// RequireCov names coverage keys that must be hit at least once.
func (r *Run) RequireCov(keys ...string) { r.requireCov = append(r.requireCov, keys...) }

// Case records one executed case. key identifies the case for distinctness;
// nontrivial says whether it satisfies the monitor's non-triviality rule.
func (r *Run) Case(key string, nontrivial bool) {
	var k [16]byte
	if nontrivial {
		h := sha256.Sum256([]byte(key))
		copy(k[:], h[:16])
	}
	r.mu.Lock()
	defer r.mu.Unlock()
	r.evals++
	if nontrivial {
		r.distinct[k] = struct{}{}
	}
}

// Sample stores one written-out case (bounded).
func (r *Run) Sample(s interface{}) {
	r.mu.Lock()
	defer r.mu.Unlock()
	if len(r.samples) < r.MaxSamples {
		r.samples = append(r.samples, s)
	}
}

// Hit increments a coverage counter.
func (r *Run) Hit(key string) { r.HitN(key, 1) }

// HitN adds n to a coverage counter.
func (r *Run) HitN(key string, n int) {
	r.mu.Lock()
	r.cov[key] += n
	r.mu.Unlock()
}

// Cov reads a coverage counter.
func (r *Run) Cov(key string) int {
	r.mu.Lock()
	defer r.mu.Unlock()
	return r.cov[key]
}

// Assume records an assumption for the evidence file.
func (r *Run) Assume(s string) { r.assumptions = append(r.assumptions, s) }

// Extra stores an extra coverage key.
func (r *Run) Extra(k string, v interface{}) {
	r.mu.Lock()
	r.extra[k] = v
	r.mu.Unlock()
}

// Inconclusive marks the run inconclusive.
func (r *Run) Inconclusive(why string) {
	r.mu.Lock()
	r.inconcl = append(r.inconcl, why)
	r.mu.Unlock()
}

var normRe = regexp.MustCompile(`"[^"]*"|'[^']*'|0x[0-9a-fA-F]+|[0-9]+`)

// NormErr strips quoted strings and numbers from an error text.
func NormErr(s string) string {
	s = normRe.ReplaceAllString(s, "_")
	if len(s) > 120 {
		s = s[:120]
	}
	return s
}

var (
	ecQuoted = regexp.MustCompile("\"[^\"]*\"|'[^']*'|`[^`]*`")
	ecBraces = regexp.MustCompile(`\{[^{}]*\}|\[[^\[\]]*\]`)
	ecNum    = regexp.MustCompile(`(^|[^A-Za-z0-9_])-?[0-9][0-9.eE+-]*`)
	ecSplit  = regexp.MustCompile(`[:;,]\s+`)
	ecTok    = regexp.MustCompile(`[^\s]+`)
	ecUnder  = regexp.MustCompile(`(_\s*)+`)
)

// ErrClass reduces an error text to a root-cause class: quoted strings, numbers,
// braces and identifiers (anything with upper-case letters, '_', '.', '/', '*')
// are dropped, repeated clauses are collapsed and the last three clauses kept.
func ErrClass(s string) string {
	s = ecQuoted.ReplaceAllString(s, "_")
	for i := 0; i < 4; i++ {
		s = ecBraces.ReplaceAllString(s, "_")
	}
	s = ecNum.ReplaceAllString(s, "${1}_")
	var segs []string
	seen := map[string]bool{}
	for _, seg := range ecSplit.Split(s, -1) {
		seg = ecTok.ReplaceAllStringFunc(seg, func(t string) string {
			if strings.ContainsAny(t, "_./*<>=\\") || (strings.Contains(t, "-") && t != "non-empty" && t != "leaf-list") {
				return "_"
			}
			for _, c := range t {
				if (c >= 'A' && c <= 'Z') || (c >= '0' && c <= '9') {
					return "_"
				}
			}
			if t == "true" || t == "false" {
				return "_"
			}
			return t
		})
		seg = strings.TrimSpace(ecUnder.ReplaceAllString(seg, "_ "))
		if seg == "" || seg == "_" || seen[seg] {
			continue
		}
		seen[seg] = true
		segs = append(segs, seg)
	}
	if len(segs) > 3 {
		segs = segs[len(segs)-3:]
	}
	out := strings.Join(segs, "|")
	if len(out) > 160 {
		out = out[len(out)-160:]
	}
	return out
}

var genericClauses = map[string]bool{
	"cannot extract keys": true, "this is not supported": true, "rpc error": true,
}

// ErrClasses splits an error text into root-cause classes, one per distinct
// normalised clause that is not a generic wrapper (wrappers end in a dropped
// identifier or are listed in genericClauses).  Several independent errors
// joined into one message thus give several stable classes instead of one
// combination-dependent class.
func ErrClasses(s string) []string {
	whole := ErrClass(s)
	s = ecQuoted.ReplaceAllString(s, "_")
	for i := 0; i < 4; i++ {
		s = ecBraces.ReplaceAllString(s, "_")
	}
	s = ecNum.ReplaceAllString(s, "${1}_")
	seen := map[string]bool{}
	var out []string
	for _, seg := range ecSplit.Split(s, -1) {
		seg = ecTok.ReplaceAllStringFunc(seg, func(t string) string {
			if strings.ContainsAny(t, "_./*<>=\\") || (strings.Contains(t, "-") && t != "non-empty" && t != "leaf-list") {
				return "_"
			}
			for _, c := range t {
				if (c >= 'A' && c <= 'Z') || (c >= '0' && c <= '9') {
					return "_"
				}
			}
			if t == "true" || t == "false" {
				return "_"
			}
			return t
		})
		seg = strings.TrimSpace(ecUnder.ReplaceAllString(seg, "_ "))
		if seg == "" || seg == "_" || seen[seg] || genericClauses[seg] {
			continue
		}
		seen[seg] = true
		if strings.HasSuffix(seg, "_") || strings.HasPrefix(seg, "code _") || len(strings.Fields(seg)) < 3 {
			continue
		}
		out = append(out, seg)
	}
	if len(out) == 0 {
		return []string{whole}
	}
	return out
}

// ViolateErr records one violation per root-cause class of an error.
func (r *Run) ViolateErr(clause string, err error, witness interface{}) {
	for _, c := range ErrClasses(err.Error()) {
		r.Violate(clause, c, err.Error(), witness)
	}
}

// Violate records a violation.  features names the root-cause locus (types,
// node kinds, entry point); the signature is <prop>/<clause>/<features>.
func (r *Run) Violate(clause, features, detail string, witness interface{}) {
	sig := r.Prop + "/" + clause + "/" + features
	if verbose {
		fmt.Printf("  V: %s :: %s\n", sig, firstLine(detail))
	}
	r.mu.Lock()
	defer r.mu.Unlock()
	if v, ok := r.viol[sig]; ok {
		v.Count++
		return
	}
	v := &Violation{Sig: sig, Clause: clause, Detail: detail, Witness: witness, Count: 1}
	for _, k := range r.known {
		if k.Kind == "known" && k.Signature == sig {
			v.Known = true
		}
	}
	r.viol[sig] = v
	r.violOrder = append(r.violOrder, sig)
}

// Guard runs f and converts a panic into a violation of clause "panic".
func (r *Run) Guard(entry string, witness interface{}, f func()) (panicked bool) {
	defer func() {
		if p := recover(); p != nil {
			panicked = true
			st := string(debug.Stack())
			r.Violate("panic", entry+":"+PanicFrame(st), fmt.Sprintf("panic: %v", p), map[string]interface{}{"input": witness, "panic": fmt.Sprint(p), "frame": PanicFrame(st)})
		}
	}()
	f()
	return false
}

var frameRe = regexp.MustCompile(`github\.com/openconfig/ygot/([a-zA-Z0-9_/]+)\.([A-Za-z0-9_().*]+)`)

// PanicFrame extracts the innermost ygot (non-harness) frame of a stack.
func PanicFrame(stack string) string {
	for _, line := range strings.Split(stack, "\n") {
		if strings.Contains(line, "zzverif") {
			continue
		}
		if m := frameRe.FindStringSubmatch(line); m != nil {
			fn := m[2]
			if i := strings.Index(fn, "(0x"); i > 0 {
				fn = fn[:i]
			}
			if i := strings.LastIndex(fn, "("); i > 0 && !strings.HasPrefix(fn, "(") {
				fn = fn[:i]
			}
			return m[1] + "." + strings.TrimSuffix(fn, "(")
		}
	}
	return "unknown"
}

// Violations returns the number of new (not known) violations so far.
func (r *Run) Violations() int {
	r.mu.Lock()
	defer r.mu.Unlock()
	n := 0
	for _, v := range r.viol {
		if !v.Known {
			n++
		}
	}
	return n
}

// Finish writes the evidence file, prints the verdict lines and returns the
// exit code (0 held, 1 violation, 2 inconclusive).
func (r *Run) Finish() int {
	r.mu.Lock()
	defer r.mu.Unlock()
	os.MkdirAll(filepath.Join(VerifDir, "evidence"), 0o755)
	os.MkdirAll(filepath.Join(VerifDir, "replay"), 0o755)
	sort.Strings(r.violOrder)
	newViol := 0
	var knownObserved []string
	var violOut []interface{}
	for _, sig := range r.violOrder {
		v := r.viol[sig]
		if v.Known {
			knownObserved = append(knownObserved, sig)
			continue
		}
		newViol++
		h := sha256.Sum256([]byte(sig))
		v.Replay = filepath.Join(VerifDir, "replay", fmt.Sprintf("%s-%s.json", r.Prop, hex.EncodeToString(h[:5])))
		b, _ := json.MarshalIndent(map[string]interface{}{"property": r.Prop, "signature": sig, "tier": r.Tier, "seed": r.Seed, "detail": v.Detail, "witness": v.Witness, "count": v.Count}, "", " ")
		os.WriteFile(v.Replay, b, 0o644)
		violOut = append(violOut, map[string]interface{}{"signature": sig, "detail": v.Detail, "count": v.Count, "replay": v.Replay})
	}
	for _, k := range r.known {
		if k.Kind != "known" {
			continue
		}
		if v, ok := r.viol[k.Signature]; ok {
			fmt.Printf("KNOWN-FINDING: property=%s %s [%s] (observed %d times this run)\n", r.Prop, k.WhatFails, k.Signature, v.Count)
		} else {
			fmt.Printf("KNOWN-FINDING: property=%s %s [%s] (listed; not re-observed by this run's workload)\n", r.Prop, k.WhatFails, k.Signature)
		}
	}
	for _, c := range r.requireCov {
		if r.cov[c] == 0 {
			r.inconcl = append(r.inconcl, "coverage key never hit: "+c)
		}
	}
	if len(r.distinct) < r.floorDist {
		r.inconcl = append(r.inconcl, fmt.Sprintf("only %d distinct non-trivial cases (floor %d)", len(r.distinct), r.floorDist))
	}
	cov := map[string]interface{}{}
	for k, v := range r.extra {
		cov[k] = v
	}
	cov["evaluations"] = r.evals
	cov["distinct_nontrivial"] = len(r.distinct)
	cov["rule"] = r.Rule
	if len(r.samples) == 0 {
		r.samples = append(r.samples, "no sample recorded")
	}
	cov["samples"] = r.samples
	cov["matrix"] = r.cov
	cov["known_findings_observed"] = knownObserved
	if len(violOut) > 0 {
		cov["violations"] = violOut
	}
	if len(r.inconcl) > 0 {
		cov["inconclusive"] = r.inconcl
	}
	if r.Exhaustive {
		cov["exhaustive"] = true
	}
	if r.Level == "translation_validation" {
		if _, ok := cov["programs"]; !ok {
			cov["programs"] = r.evals
		}
		if _, ok := cov["disagreements_checked"]; !ok {
			cov["disagreements_checked"] = len(r.viol)
		}
	}
	tier := r.Tier
	if tier != "thorough" {
		tier = "quick"
	}
	ev := map[string]interface{}{
		"property_id": r.Prop, "tier": tier, "seed": r.Seed, "level": r.Level,
		"coverage": cov, "assumptions": r.assumptions, "wall_s": time.Since(r.start).Seconds(), "violations": newViol,
	}
	if r.assumptions == nil {
		ev["assumptions"] = []string{}
	}
	b, err := json.MarshalIndent(ev, "", " ")
	if err != nil {
		fmt.Printf("INCONCLUSIVE property=%s cannot encode evidence: %v\n", r.Prop, err)
		return 2
	}
	if p := os.Getenv("VERIF_EVIDENCE_PATH"); p != "" {
		os.WriteFile(p, b, 0o644)
	} else if os.Getenv("VERIF_NO_EVIDENCE") == "" {
		os.WriteFile(filepath.Join(VerifDir, "evidence", r.Prop+".json"), b, 0o644)
	}
	fmt.Printf("SUMMARY property=%s tier=%s seed=%d evaluations=%d distinct_nontrivial=%d violations=%d known_observed=%d wall=%.1fs\n",
		r.Prop, tier, r.Seed, r.evals, len(r.distinct), newViol, len(knownObserved), time.Since(r.start).Seconds())
	if newViol > 0 {
		for _, sig := range r.violOrder {
			v := r.viol[sig]
			if !v.Known {
				fmt.Printf("VIOLATION property=%s replay=%s\n", r.Prop, v.Replay)
				fmt.Printf("  signature: %s\n  detail: %s\n", sig, firstLine(v.Detail))
			}
		}
		return 1
	}
	if len(r.inconcl) > 0 {
		for _, s := range r.inconcl {
			fmt.Printf("INCONCLUSIVE property=%s %s\n", r.Prop, s)
		}
		return 2
	}
	return 0
}

func firstLine(s string) string {
	if len(s) > 600 {
		s = s[:600] + "..."
	}
	return strings.ReplaceAll(s, "\n", " | ")
}

// Clip shortens a string for witnesses.
func Clip(s string, n int) string {
	if len(s) > n {
		return s[:n] + "..."
	}
	return s
}

var verbose = os.Getenv("VERIF_VERBOSE") != ""
