package lib

import (
	"encoding/base64"
	"fmt"
	"math"
	"math/big"
	"math/rand"
	"reflect"
	"strconv"
	"strings"
	"unicode/utf8"

	"github.com/openconfig/goyang/pkg/yang"
)

// numToBig converts a goyang Number (an integer, or a scaled decimal) to the
// scaled integer it denotes at fd fraction digits.
func numToBig(n yang.Number, fd int) *big.Int {
	v := new(big.Int).SetUint64(n.Value)
	d := fd - int(n.FractionDigits)
	for ; d > 0; d-- {
		v.Mul(v, big.NewInt(10))
	}
	for ; d < 0; d++ {
		v.Quo(v, big.NewInt(10))
	}
	if n.Negative {
		v.Neg(v)
	}
	return v
}

type bigRange struct{ lo, hi *big.Int }

func typeBounds(k yang.TypeKind) (lo, hi *big.Int) {
	switch k {
	case yang.Yint8:
		return big.NewInt(math.MinInt8), big.NewInt(math.MaxInt8)
	case yang.Yint16:
		return big.NewInt(math.MinInt16), big.NewInt(math.MaxInt16)
	case yang.Yint32:
		return big.NewInt(math.MinInt32), big.NewInt(math.MaxInt32)
	case yang.Yint64, yang.Ydecimal64:
		return big.NewInt(math.MinInt64), big.NewInt(math.MaxInt64)
	case yang.Yuint8:
		return big.NewInt(0), big.NewInt(math.MaxUint8)
	case yang.Yuint16:
		return big.NewInt(0), big.NewInt(math.MaxUint16)
	case yang.Yuint32:
		return big.NewInt(0), big.NewInt(math.MaxUint32)
	case yang.Yuint64:
		return big.NewInt(0), new(big.Int).SetUint64(math.MaxUint64)
	}
	return big.NewInt(0), big.NewInt(0)
}

// rangesOf returns the allowed scaled-integer ranges of a numeric type.
func rangesOf(t *yang.YangType) []bigRange {
	lo, hi := typeBounds(t.Kind)
	fd := 0
	if t.Kind == yang.Ydecimal64 {
		fd = t.FractionDigits
	}
	if len(t.Range) == 0 {
		return []bigRange{{lo, hi}}
	}
	var out []bigRange
	for _, r := range t.Range {
		a, b := numToBig(r.Min, fd), numToBig(r.Max, fd)
		if a.Cmp(lo) < 0 {
			a = lo
		}
		if b.Cmp(hi) > 0 {
			b = hi
		}
		if a.Cmp(b) <= 0 {
			out = append(out, bigRange{a, b})
		}
	}
	if len(out) == 0 {
		return []bigRange{{lo, hi}}
	}
	return out
}

// InRanges reports whether scaled integer v lies in the type's value space.
func InRanges(t *yang.YangType, v *big.Int) bool {
	for _, r := range rangesOf(t) {
		if v.Cmp(r.lo) >= 0 && v.Cmp(r.hi) <= 0 {
			return true
		}
	}
	return false
}

// pickInt draws a boundary-biased integer from the type's ranges.
func pickInt(rng *rand.Rand, t *yang.YangType) *big.Int {
	rs := rangesOf(t)
	r := rs[rng.Intn(len(rs))]
	span := new(big.Int).Sub(r.hi, r.lo)
	switch rng.Intn(9) {
	case 8:
		// small magnitudes (tiny decimals, small counters)
		v := big.NewInt(int64(1 + rng.Intn(5000)))
		if rng.Intn(2) == 0 {
			v.Neg(v)
		}
		if v.Cmp(r.lo) >= 0 && v.Cmp(r.hi) <= 0 {
			return v
		}
	case 0:
		return new(big.Int).Set(r.lo)
	case 1:
		return new(big.Int).Set(r.hi)
	case 2:
		if span.Sign() > 0 {
			return new(big.Int).Add(r.lo, big.NewInt(1))
		}
		return new(big.Int).Set(r.lo)
	case 3:
		if span.Sign() > 0 {
			return new(big.Int).Sub(r.hi, big.NewInt(1))
		}
		return new(big.Int).Set(r.hi)
	case 4:
		// 0, 1 or -1 if allowed (starting at a random one of them)
		cs := []int64{0, 1, -1}
		o := rng.Intn(3)
		for k := 0; k < 3; k++ {
			v := big.NewInt(cs[(o+k)%3])
			if v.Cmp(r.lo) >= 0 && v.Cmp(r.hi) <= 0 {
				return v
			}
		}
	}
	// small offset or uniform
	if rng.Intn(2) == 0 {
		off := big.NewInt(int64(rng.Intn(2000)))
		if off.Cmp(span) > 0 {
			off = span
		}
		if rng.Intn(2) == 0 {
			return new(big.Int).Add(r.lo, off)
		}
		return new(big.Int).Sub(r.hi, off)
	}
	off := new(big.Int).Rand(rng, new(big.Int).Add(span, big.NewInt(1)))
	return off.Add(off, r.lo)
}

// ScaledToDecimalString renders scaled integer v at fd fraction digits.
func ScaledToDecimalString(v *big.Int, fd int) string {
	s := new(big.Int).Abs(v).String()
	if fd > 0 {
		for len(s) <= fd {
			s = "0" + s
		}
		s = s[:len(s)-fd] + "." + s[len(s)-fd:]
	}
	if v.Sign() < 0 {
		s = "-" + s
	}
	return s
}

// pickDecimal draws a float64 that denotes a decimal64 value of the type
// exactly enough: the float is ParseFloat of a decimal string with at most fd
// fraction digits and at most 15 significant digits (so the decimal is the
// shortest representation of the float and denotes a unique decimal64).
func pickDecimal(rng *rand.Rand, t *yang.YangType) float64 {
	fd := t.FractionDigits
	if fd == 0 {
		fd = 1
	}
	for tries := 0; tries < 50; tries++ {
		v := pickInt(rng, t)
		if len(new(big.Int).Abs(v).String()) > 15 {
			// reduce magnitude: keep 15 significant digits by zeroing the tail
			s := new(big.Int).Abs(v).String()
			z := strings.Repeat("0", len(s)-15)
			nv, _ := new(big.Int).SetString(s[:15]+z, 10)
			if v.Sign() < 0 {
				nv.Neg(nv)
			}
			if !InRanges(t, nv) {
				continue
			}
			v = nv
		}
		f, err := strconv.ParseFloat(ScaledToDecimalString(v, fd), 64)
		if err != nil {
			continue
		}
		return f
	}
	return 0
}

// pickPreciseDecimal draws a float64 whose shortest decimal form needs 16 or 17
// significant digits and still denotes a value of the type: at most fd fraction
// digits and inside the ranges.  ok=false if none was found.
func pickPreciseDecimal(rng *rand.Rand, t *yang.YangType) (float64, bool) {
	fd := t.FractionDigits
	if fd == 0 {
		fd = 1
	}
	for tries := 0; tries < 60; tries++ {
		v := pickInt(rng, t)
		if tries%2 == 1 {
			// interior values: random 16-17 digit mantissa
			m := new(big.Int).SetInt64(1000000000000000 + rng.Int63n(8000000000000000))
			if rng.Intn(2) == 0 {
				m.Mul(m, big.NewInt(10)).Add(m, big.NewInt(int64(rng.Intn(10))))
			}
			if rng.Intn(2) == 0 {
				m.Neg(m)
			}
			v = m
		}
		f, err := strconv.ParseFloat(ScaledToDecimalString(v, fd), 64)
		if err != nil {
			continue
		}
		sh := strconv.FormatFloat(f, 'f', -1, 64)
		frac := 0
		if i := strings.IndexByte(sh, '.'); i >= 0 {
			frac = len(sh) - i - 1
		}
		digits := len(strings.TrimLeft(strings.NewReplacer("-", "", ".", "").Replace(sh), "0"))
		if frac > fd || digits < 16 {
			continue
		}
		// the denoted decimal, scaled, must be in range
		r, ok := new(big.Rat).SetString(sh)
		if !ok {
			continue
		}
		r.Mul(r, new(big.Rat).SetInt(new(big.Int).Exp(big.NewInt(10), big.NewInt(int64(fd)), nil)))
		if !r.IsInt() || !InRanges(t, r.Num()) {
			continue
		}
		return f, true
	}
	return 0, false
}

var nicePool = []string{"a", "b", "abc", "foo", "bar", "x1", "node", "eth0", "zz", "q", "alpha", "beta", "k9", "hello", "w"}
var hostilePool = []string{
	"a/b", "a[b", "a]b", "a=b", `a\b`, `a"b`, "*", "..", "a b", " lead", "trail ", "é", "日本", "a]/b", "x//y", "[k=v]", "a\tb",
	"5x", "-", "_", "a.b", "a:b", "a'b", "{", "a,b", "#1", "ünï", "a\nb", "%41", " ",
	// strings that END in ":" + the name of an enumeration / identity value of the harness schemas (a string
	// member of a union next to such a member must keep them as strings)
	"a:b:ONE", "x::TWO", "1:2:CYAN", "u:v:ALPHA", "m:n:RED", "::AUTO",
}

// pickString draws a string satisfying the type's length and patterns, using
// match to evaluate patterns (nil patterns => any).  ok=false if none found.
func pickString(rng *rand.Rand, t *yang.YangType, hostile bool, allowEmpty bool) (string, bool) {
	accept := func(s string) bool { return StringInType(t, s) }
	for tries := 0; tries < 40; tries++ {
		var s string
		switch {
		case hostile && rng.Intn(3) == 0:
			s = hostilePool[rng.Intn(len(hostilePool))]
			if rng.Intn(3) == 0 {
				s += nicePool[rng.Intn(len(nicePool))]
			}
		case rng.Intn(12) == 0 && allowEmpty:
			s = ""
		default:
			s = nicePool[rng.Intn(len(nicePool))]
			if rng.Intn(2) == 0 {
				s += strconv.Itoa(rng.Intn(100))
			}
		}
		if !allowEmpty && s == "" {
			continue
		}
		if accept(s) {
			return s, true
		}
		// try to adapt to patterns via the sampler
		if len(t.Pattern) > 0 {
			if m, ok := SamplePatterns(rng, t.Pattern); ok && accept(m) && (allowEmpty || m != "") {
				return m, true
			}
		}
		// adapt to length
		if len(t.Length) > 0 && len(t.Pattern) == 0 {
			r := t.Length[rng.Intn(len(t.Length))]
			n := int(r.Min.Value)
			if mx := int(r.Max.Value); mx > n && mx < 64 {
				n += rng.Intn(mx - n + 1)
			}
			b := make([]byte, n)
			for i := range b {
				b[i] = byte('a' + rng.Intn(26))
			}
			if accept(string(b)) && (allowEmpty || n > 0) {
				return string(b), true
			}
		}
	}
	return "", false
}

// lengthOK checks n against a length restriction.
func lengthOK(r yang.YangRange, n int) bool {
	if len(r) == 0 {
		return true
	}
	for _, p := range r {
		if !p.Min.Negative && uint64(n) >= p.Min.Value && uint64(n) <= p.Max.Value {
			return true
		}
	}
	return false
}

// StringInType: independent membership test of s in the string type's value
// space (length in characters, every pattern under XSD whole-string semantics,
// with a leading ^ / trailing $ accepted as redundant anchors).
func StringInType(t *yang.YangType, s string) bool {
	if !utf8.ValidString(s) {
		return false
	}
	if !lengthOK(t.Length, utf8.RuneCountInString(s)) {
		return false
	}
	for _, p := range t.Pattern {
		m, err := MatchXSD(p, s)
		if err != nil || !m {
			return false
		}
	}
	return true
}

// LexForm renders the RFC 7950 lexical form of a Go scalar described by a
// canonical value (kind:payload).
func LexForm(canon string) string {
	i := strings.Index(canon, ":")
	if i < 0 {
		return canon
	}
	kind, pl := canon[:i], canon[i+1:]
	switch kind {
	case "bin":
		b, _ := hexDecode(pl)
		return base64.StdEncoding.EncodeToString(b)
	case "float64":
		f, _ := strconv.ParseFloat(pl, 64)
		return strconv.FormatFloat(f, 'f', -1, 64)
	case "empty":
		return ""
	}
	return pl
}

func hexDecode(s string) ([]byte, error) {
	out := make([]byte, len(s)/2)
	for i := range out {
		v, err := strconv.ParseUint(s[2*i:2*i+2], 16, 8)
		if err != nil {
			return nil, err
		}
		out[i] = byte(v)
	}
	return out, nil
}

// MemberAccepts reports whether the lexical form lex belongs to member type m
// (used for the canonical-union-value rule).
func MemberAccepts(m *yang.YangType, lex string) bool {
	switch m.Kind {
	case yang.Yint8, yang.Yint16, yang.Yint32, yang.Yint64, yang.Yuint8, yang.Yuint16, yang.Yuint32, yang.Yuint64:
		v, ok := new(big.Int).SetString(lex, 10)
		if !ok {
			// ParseInt-style forms with sign
			return false
		}
		return InRanges(m, v)
	case yang.Ydecimal64:
		_, err := strconv.ParseFloat(lex, 64)
		return err == nil
	case yang.Ystring:
		return StringInType(m, lex)
	case yang.Ybool:
		return lex == "true" || lex == "false"
	case yang.Yenum:
		if m.Enum == nil {
			return false
		}
		_, ok := m.Enum.ToInt[lex]
		return ok
	case yang.Yidentityref:
		name := stripPrefix(lex)
		if m.IdentityBase == nil {
			return false
		}
		for _, v := range m.IdentityBase.Values {
			if v.Name == name {
				return true
			}
		}
		return false
	case yang.Ybinary:
		b, err := base64.StdEncoding.DecodeString(lex)
		return err == nil && lengthOK(m.Length, len(b))
	case yang.Yempty:
		return false
	}
	return false
}

func isEnumKind(k yang.TypeKind) bool { return k == yang.Yenum || k == yang.Yidentityref }

// kindAccepts is MemberAccepts ignoring range/length/pattern restrictions: ygot
// documents that union member selection during decoding looks at the base kind
// only, so a member of the same kind shadows later members whatever its
// restrictions.
func kindAccepts(m *yang.YangType, lex string) bool {
	switch m.Kind {
	case yang.Yint8, yang.Yint16, yang.Yint32, yang.Yint64, yang.Yuint8, yang.Yuint16, yang.Yuint32, yang.Yuint64:
		v, ok := new(big.Int).SetString(lex, 10)
		if !ok {
			return false
		}
		lo, hi := typeBounds(m.Kind)
		return v.Cmp(lo) >= 0 && v.Cmp(hi) <= 0
	case yang.Ystring:
		return true
	case yang.Ybinary:
		_, err := base64.StdEncoding.DecodeString(lex)
		return err == nil
	}
	return MemberAccepts(m, lex)
}

// CanonicalInUnion applies the canonical-union-value rule: member i of members
// holds a value whose lexical form is lex.  The value is canonical when no
// member that takes precedence also accepts lex.  Precedence: enumeration and
// identityref members first (in schema order), then the others in schema order;
// a string member additionally yields to every other member.
func CanonicalInUnion(members []*yang.YangType, i int, lex string) bool {
	return canonicalInUnion(members, i, lex, false)
}

// CanonicalInUnionGNMI is the rule for scalar gNMI TypedValues: two members can
// only be confused when their values travel in the same TypedValue field
// (int_val, uint_val, double_val, string_val, bool_val, bytes_val).
func CanonicalInUnionGNMI(members []*yang.YangType, i int, lex string) bool {
	return canonicalInUnion(members, i, lex, true)
}

func tvField(k yang.TypeKind) string {
	switch k {
	case yang.Yint8, yang.Yint16, yang.Yint32, yang.Yint64:
		return "int"
	case yang.Yuint8, yang.Yuint16, yang.Yuint32, yang.Yuint64:
		return "uint"
	case yang.Ydecimal64:
		return "double"
	case yang.Ybool:
		return "bool"
	case yang.Ybinary:
		return "bytes"
	}
	return "string"
}

func canonicalInUnion(members []*yang.YangType, i int, lex string, gnmi bool) bool {
	mi := members[i]
	for j, mj := range members {
		if j == i {
			continue
		}
		if gnmi && tvField(mj.Kind) != tvField(mi.Kind) {
			continue
		}
		if !isEnumKind(mi.Kind) && mj.Kind == mi.Kind && mi.Kind != yang.Yunion {
			// same base type, hence the same Go representation: whichever of the two
			// members accepts the value, it decodes to the same Go value
			continue
		}
		var shadows bool
		switch {
		case mi.Kind == yang.Ystring:
			shadows = true
		case isEnumKind(mj.Kind):
			shadows = !isEnumKind(mi.Kind) || j < i
		case isEnumKind(mi.Kind):
			shadows = false
		default:
			shadows = j < i
		}
		if shadows && kindAccepts(mj, lex) {
			return false
		}
	}
	return true
}

// goKindForYang is the Go kind ygot uses for a YANG base type.
func goKindForYang(k yang.TypeKind) reflect.Kind {
	switch k {
	case yang.Yint8:
		return reflect.Int8
	case yang.Yint16:
		return reflect.Int16
	case yang.Yint32:
		return reflect.Int32
	case yang.Yint64:
		return reflect.Int64
	case yang.Yuint8:
		return reflect.Uint8
	case yang.Yuint16:
		return reflect.Uint16
	case yang.Yuint32:
		return reflect.Uint32
	case yang.Yuint64:
		return reflect.Uint64
	case yang.Ydecimal64:
		return reflect.Float64
	case yang.Ystring:
		return reflect.String
	case yang.Ybool:
		return reflect.Bool
	}
	return reflect.Invalid
}

var primTypes = map[reflect.Kind]reflect.Type{
	reflect.Int8: reflect.TypeOf(int8(0)), reflect.Int16: reflect.TypeOf(int16(0)), reflect.Int32: reflect.TypeOf(int32(0)), reflect.Int64: reflect.TypeOf(int64(0)),
	reflect.Uint8: reflect.TypeOf(uint8(0)), reflect.Uint16: reflect.TypeOf(uint16(0)), reflect.Uint32: reflect.TypeOf(uint32(0)), reflect.Uint64: reflect.TypeOf(uint64(0)),
	reflect.Float64: reflect.TypeOf(float64(0)), reflect.String: reflect.TypeOf(""), reflect.Bool: reflect.TypeOf(false),
}

// setNumeric stores big integer v in a settable numeric reflect.Value.
func setNumeric(dst reflect.Value, v *big.Int) {
	switch dst.Kind() {
	case reflect.Int8, reflect.Int16, reflect.Int32, reflect.Int64:
		dst.SetInt(v.Int64())
	case reflect.Uint8, reflect.Uint16, reflect.Uint32, reflect.Uint64:
		dst.SetUint(v.Uint64())
	default:
		panic(fmt.Sprintf("setNumeric on %s", dst.Kind()))
	}
}

// ParseCanonInto stores a canonical scalar value into a Go leaf field of type
// t (pointer-to-scalar, enum, Binary, YANGEmpty).  Unions are not supported.
func ParseCanonInto(field reflect.Value, canon string) bool {
	i := strings.Index(canon, ":")
	if i < 0 {
		return false
	}
	pl := canon[i+1:]
	t := field.Type()
	target := field
	if t.Kind() == reflect.Ptr {
		target = reflect.New(t.Elem()).Elem()
	}
	switch target.Kind() {
	case reflect.Int8, reflect.Int16, reflect.Int32:
		n, err := strconv.ParseInt(pl, 10, 64)
		if err != nil {
			return false
		}
		target.SetInt(n)
	case reflect.Int64:
		if target.Type().Implements(goEnumT) {
			n, ok := EnumValueByName(target.Type(), pl)
			if !ok {
				return false
			}
			target.SetInt(n)
		} else {
			n, err := strconv.ParseInt(pl, 10, 64)
			if err != nil {
				return false
			}
			target.SetInt(n)
		}
	case reflect.Uint8, reflect.Uint16, reflect.Uint32, reflect.Uint64:
		n, err := strconv.ParseUint(pl, 10, 64)
		if err != nil {
			return false
		}
		target.SetUint(n)
	case reflect.Float64:
		f, err := strconv.ParseFloat(pl, 64)
		if err != nil {
			return false
		}
		target.SetFloat(f)
	case reflect.String:
		target.SetString(pl)
	case reflect.Bool:
		target.SetBool(pl == "true")
	case reflect.Slice:
		b, err := hexDecode(pl)
		if err != nil {
			return false
		}
		target.SetBytes(b)
	default:
		return false
	}
	if t.Kind() == reflect.Ptr {
		field.Set(target.Addr())
	}
	return true
}

// EnumValueByName finds the Go integer of a YANG enum/identity name in a
// generated enum type (through the generated ΛMap).
func EnumValueByName(t reflect.Type, name string) (int64, bool) {
	for n, d := range EnumDefs(t) {
		if d == name {
			return n, true
		}
	}
	return 0, false
}

// EnumDefs returns value->name for a generated enum type.
func EnumDefs(t reflect.Type) map[int64]string {
	z := reflect.New(t).Elem()
	m := z.MethodByName("ΛMap").Call(nil)[0]
	out := map[int64]string{}
	inner := m.MapIndex(reflect.ValueOf(t.Name()))
	if !inner.IsValid() {
		return out
	}
	it := inner.MapRange()
	for it.Next() {
		out[it.Key().Int()] = it.Value().FieldByName("Name").String()
	}
	return out
}
