package lib

import (
	"fmt"
	"sort"
	"sync"

	"github.com/openconfig/goyang/pkg/yang"
)

// Direct goyang compilation of a configuration's YANG files: the reference the
// code-generation and encoding oracles compare ygot against.  It does not go
// through ygen/ygot at all.

// Goyang holds the compiled modules.
type Goyang struct {
	Modules *yang.Modules
	Tops    map[string]*yang.Entry // module name -> module entry
	Names   []string
}

var (
	gyMu    sync.Mutex
	gyCache = map[string]*Goyang{}
)

// CompileYANG compiles files (with include dir path) directly with goyang.
func CompileYANG(files []string, path string) (*Goyang, error) {
	ms := yang.NewModules()
	if path != "" {
		ms.AddPath(path + "/...")
		ms.AddPath(path)
	}
	for _, f := range files {
		if err := ms.Read(f); err != nil {
			return nil, fmt.Errorf("read %s: %v", f, err)
		}
	}
	if errs := ms.Process(); len(errs) > 0 {
		return nil, fmt.Errorf("process: %v", errs)
	}
	g := &Goyang{Modules: ms, Tops: map[string]*yang.Entry{}}
	seen := map[string]bool{}
	for _, m := range ms.Modules {
		if seen[m.Name] {
			continue
		}
		seen[m.Name] = true
		g.Names = append(g.Names, m.Name)
	}
	sort.Strings(g.Names)
	for _, n := range g.Names {
		e := yang.ToEntry(ms.Modules[n])
		if errs := e.GetErrors(); len(errs) > 0 {
			return nil, fmt.Errorf("module %s: %v", n, errs)
		}
		g.Tops[n] = e
	}
	return g, nil
}

// Goyang returns the direct goyang compilation of the configuration's schema.
func (c *Cfg) Goyang() (*Goyang, error) {
	gyMu.Lock()
	defer gyMu.Unlock()
	if g, ok := gyCache[c.Name]; ok {
		return g, nil
	}
	g, err := CompileYANG(c.YangFiles, c.YangPath)
	if err != nil {
		return nil, err
	}
	gyCache[c.Name] = g
	return g, nil
}

// Find resolves a data-tree path (element names) to the goyang entry, looking
// at the top-level nodes of every compiled module.
func (g *Goyang) Find(names []string) *yang.Entry {
	if len(names) == 0 {
		return nil
	}
	for _, mn := range g.Names {
		top := g.Tops[mn]
		cur, _ := FindChild(top, names[0])
		if cur == nil {
			continue
		}
		ok := true
		for _, n := range names[1:] {
			nxt, _ := FindChild(cur, n)
			if nxt == nil {
				ok = false
				break
			}
			cur = nxt
		}
		if ok {
			return cur
		}
	}
	return nil
}

// InstModule returns the name of the module in whose namespace the node lives
// (the augmenting module for augmented nodes).
func InstModule(e *yang.Entry) string {
	m, err := e.InstantiatingModule()
	if err != nil {
		return ""
	}
	return m
}

// IdentityModule returns the module that defines an identity.
func IdentityModule(id *yang.Identity) string {
	root := yang.RootNode(id)
	if root == nil {
		return ""
	}
	if root.Kind() == "submodule" && root.BelongsTo != nil {
		return root.BelongsTo.Name
	}
	return root.Name
}

// IdentityModuleByName finds the defining module of identity name under the
// base of an identityref type.
func IdentityModuleByName(t *yang.YangType, name string) string {
	if t == nil || t.IdentityBase == nil {
		return ""
	}
	for _, v := range t.IdentityBase.Values {
		if v.Name == name {
			return IdentityModule(v)
		}
	}
	return ""
}
