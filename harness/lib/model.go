package lib

import (
	"reflect"
	"sort"
	"strings"
)

// Model is the path-to-value reference model of a data tree used by the gNMI
// Set / JSON merge oracles.  It only knows leaves (and the order of ordered-list
// entries); containers and list entries exist through their leaves.
type Model struct {
	C      *Cfg
	Leaves map[string]*Leaf
	Order  map[string][]string
}

// NewModel starts a model from an observation.
func NewModel(c *Cfg, o *Obs) *Model {
	m := &Model{C: c, Leaves: map[string]*Leaf{}, Order: map[string][]string{}}
	for p, l := range o.Leaves {
		m.Leaves[p] = l
	}
	for p, v := range o.Order {
		m.Order[p] = append([]string(nil), v...)
	}
	return m
}

// ElemsUnder: is path p at or below target tgt, where a target element without
// keys matches any keys.
func ElemsUnder(p, tgt []PathElem) bool {
	if len(p) < len(tgt) {
		return false
	}
	for i, e := range tgt {
		if p[i].Name != e.Name {
			return false
		}
		if len(e.Keys) > 0 {
			if len(p[i].Keys) != len(e.Keys) {
				return false
			}
			for k, v := range e.Keys {
				if p[i].Keys[k] != v {
					return false
				}
			}
		}
		if e.Pos >= 0 && p[i].Pos != e.Pos {
			return false
		}
	}
	return true
}

// Delete removes everything at or below tgt.
func (m *Model) Delete(tgt []PathElem) int {
	n := 0
	for p, l := range m.Leaves {
		if ElemsUnder(l.Elems, tgt) {
			delete(m.Leaves, p)
			n++
		}
	}
	m.fixOrder()
	return n
}

// fixOrder drops ordered-list entries that no longer have any leaf.
func (m *Model) fixOrder() {
	for lp, ord := range m.Order {
		parent := lp[:strings.LastIndex(lp, "/")+1]
		var keep []string
		for _, es := range ord {
			ep := parent + es
			alive := false
			for p := range m.Leaves {
				if strings.HasPrefix(p, ep+"/") {
					alive = true
					break
				}
			}
			if alive {
				keep = append(keep, es)
			}
		}
		if len(keep) == 0 {
			delete(m.Order, lp)
		} else {
			m.Order[lp] = keep
		}
	}
}

// TypeChain walks the generated struct types along a data path and calls f for
// every list element (keyed) with the entry's StructInfo and the element index.
func (c *Cfg) TypeChain(elems []PathElem, f func(i int, field *FieldInfo, entry *StructInfo)) {
	c.init()
	si := c.Info(c.rootType)
	idx := 0
	for idx < len(elems) {
		var best *FieldInfo
		bestLen := 0
		for _, fl := range si.Fields {
			for _, ap := range fl.AltPaths {
				if len(ap) <= len(elems)-idx && len(ap) > bestLen {
					ok := true
					for j := range ap {
						if elems[idx+j].Name != ap[j] {
							ok = false
						}
					}
					if ok {
						best, bestLen = fl, len(ap)
					}
				}
			}
		}
		if best == nil {
			return
		}
		idx += bestLen
		switch best.Kind {
		case KContainer:
			si = c.Info(best.Elem)
		case KList, KOrdered, KUnkeyed:
			si = c.Info(best.Elem)
			f(idx-1, best, si)
		default:
			return
		}
	}
}

// KeyLeaves returns the key leaves implied by the keyed list elements of a path.
func (c *Cfg) KeyLeaves(elems []PathElem) []*Leaf {
	var out []*Leaf
	c.TypeChain(elems, func(i int, field *FieldInfo, entry *StructInfo) {
		if len(elems[i].Keys) == 0 {
			return
		}
		kfs := entry.KeyFields()
		for j, kn := range entry.KeyNames {
			if kfs[j] == nil {
				continue
			}
			v, ok := elems[i].Keys[kn]
			if !ok {
				continue
			}
			p := extend(elems[:i+1], kfs[j].Path)
			out = append(out, &Leaf{Path: PathString(p), Elems: p, Val: v, Field: kfs[j]})
		}
	})
	return out
}

// WriteLeaf sets one leaf (leaf-lists wholesale), creating the entries on its
// path (key leaves, ordered-list positions).
func (m *Model) WriteLeaf(l *Leaf) {
	m.Leaves[l.Path] = l
	for _, kl := range m.C.KeyLeaves(l.Elems) {
		if _, ok := m.Leaves[kl.Path]; !ok {
			m.Leaves[kl.Path] = kl
		}
	}
	m.C.TypeChain(l.Elems, func(i int, field *FieldInfo, entry *StructInfo) {
		if field.Kind != KOrdered || len(l.Elems[i].Keys) == 0 {
			return
		}
		lp := append([]PathElem(nil), l.Elems[:i+1]...)
		lp[i] = PathElem{Name: lp[i].Name, Pos: -1}
		lps := PathString(lp)
		es := l.Elems[i].String()
		for _, x := range m.Order[lps] {
			if x == es {
				return
			}
		}
		m.Order[lps] = append(m.Order[lps], es)
	})
}

// WriteSubtree writes every leaf of src at or below at (in src's own order for
// ordered lists).
func (m *Model) WriteSubtree(src *Obs, at []PathElem) int {
	n := 0
	// ordered lists first, entry by entry, so that positions follow src
	var ordered []string
	for lp := range src.Order {
		ordered = append(ordered, lp)
	}
	sort.Strings(ordered)
	done := map[string]bool{}
	for _, lp := range ordered {
		parent := lp[:strings.LastIndex(lp, "/")+1]
		for _, es := range src.Order[lp] {
			ep := parent + es
			for _, p := range src.SortedLeafPaths() {
				l := src.Leaves[p]
				if strings.HasPrefix(p, ep+"/") && ElemsUnder(l.Elems, at) && !done[p] {
					m.WriteLeaf(l)
					done[p] = true
					n++
				}
			}
		}
	}
	for _, p := range src.SortedLeafPaths() {
		l := src.Leaves[p]
		if done[p] || !ElemsUnder(l.Elems, at) {
			continue
		}
		m.WriteLeaf(l)
		n++
	}
	return n
}

// Obs converts the model back to an observation (leaves and order only).
func (m *Model) Obs() *Obs {
	o := NewObs()
	for p, l := range m.Leaves {
		o.Leaves[p] = l
	}
	for p, v := range m.Order {
		o.Order[p] = append([]string(nil), v...)
	}
	return o
}

// KeyNote names list-key representations that are known root-cause loci:
// wrapper-union keys are pointers, so two equal keys are different map keys.
func (c *Cfg) KeyNote(elems []PathElem) string {
	note := ""
	c.TypeChain(elems, func(i int, field *FieldInfo, entry *StructInfo) {
		for _, kf := range entry.KeyFields() {
			if kf != nil && kf.Type.Kind() == reflect.Interface && c.Wrapper {
				note = "@wrapper-union-key"
			}
		}
	})
	return note
}
