package lib

import (
	"fmt"
	"reflect"
	"strings"

	"github.com/openconfig/goyang/pkg/yang"
	"github.com/openconfig/ygot/ygot"
)

// Kind classifies a generated struct field.
type Kind int

const (
	KLeaf Kind = iota
	KLeafList
	KContainer
	KList    // keyed list held in a Go map
	KOrdered // ordered-by user list held in a generated ordered map
	KUnkeyed // keyless list held in a slice
)

func (k Kind) String() string {
	return [...]string{"leaf", "leaf-list", "container", "list", "ordered-list", "unkeyed-list"}[k]
}

// ChoiceCase records that a field lives below case Case of choice Choice.
type ChoiceCase struct {
	Choice *yang.Entry
	Case   string
}

// FieldInfo describes one field of a generated struct, resolved independently
// against the embedded schema.
type FieldInfo struct {
	Idx      int
	GoName   string
	Kind     Kind
	Entry    *yang.Entry // schema node of the primary path
	Path     []string    // primary data-tree path relative to the parent struct
	AltPaths [][]string  // every alternative in the path tag
	Shadow   [][]string  // shadow-path alternatives
	Module   string      // module tag, first alternative
	Choices  []ChoiceCase
	Presence bool
	Elem     reflect.Type // pointer-to-struct type of container / list entries
	Type     reflect.Type // Go type of the field
	// For leaves: the resolved (leafref-followed) YANG type.
	YType *yang.YangType
	// LeafrefPath is non-empty when the leaf (or leaf-list) is a leafref.
	LeafrefPath string
	Config      bool
}

// StructInfo describes a generated struct type.
type StructInfo struct {
	Type     reflect.Type // struct type (not pointer)
	Entry    *yang.Entry
	Fields   []*FieldInfo
	KeyNames []string // key leaf names when the struct is a list entry
	IsRoot   bool
}

// Field returns the FieldInfo with the given Go name.
func (s *StructInfo) Field(goName string) *FieldInfo {
	for _, f := range s.Fields {
		if f.GoName == goName {
			return f
		}
	}
	return nil
}

// KeyFields returns the key leaf fields in key order.
func (s *StructInfo) KeyFields() []*FieldInfo {
	var out []*FieldInfo
	for _, k := range s.KeyNames {
		var hit *FieldInfo
		for _, f := range s.Fields {
			for _, p := range f.AltPaths {
				if len(p) == 1 && p[0] == k {
					hit = f
				}
			}
		}
		out = append(out, hit)
	}
	return out
}

var (
	goStructT   = reflect.TypeOf((*ygot.GoStruct)(nil)).Elem()
	goEnumT     = reflect.TypeOf((*ygot.GoEnum)(nil)).Elem()
	orderedMapT = reflect.TypeOf((*ygot.GoOrderedMap)(nil)).Elem()
)

// IsOrderedMapType reports whether t (a pointer type) is a generated ordered map.
func IsOrderedMapType(t reflect.Type) bool {
	return t.Kind() == reflect.Ptr && t.Implements(orderedMapT)
}

// Info returns the StructInfo for a struct type (pointer or not).
func (c *Cfg) Info(t reflect.Type) *StructInfo {
	c.init()
	for t.Kind() == reflect.Ptr {
		t = t.Elem()
	}
	c.infoMu.Lock()
	defer c.infoMu.Unlock()
	if si, ok := c.infos[t]; ok {
		return si
	}
	e := c.base.SchemaTree[t.Name()]
	if e == nil {
		panic(fmt.Sprintf("cfg %s: no schema entry for struct %s", c.Name, t.Name()))
	}
	si := &StructInfo{Type: t, Entry: e, IsRoot: t == c.rootType.Elem()}
	if e.Key != "" {
		si.KeyNames = strings.Fields(e.Key)
	}
	c.infos[t] = si
	for i := 0; i < t.NumField(); i++ {
		sf := t.Field(i)
		tag, ok := sf.Tag.Lookup("path")
		if !ok {
			continue // annotation fields
		}
		fi := &FieldInfo{Idx: i, GoName: sf.Name, Type: sf.Type}
		for _, alt := range strings.Split(tag, "|") {
			fi.AltPaths = append(fi.AltPaths, splitTagPath(alt))
		}
		if sh, ok := sf.Tag.Lookup("shadow-path"); ok {
			for _, alt := range strings.Split(sh, "|") {
				fi.Shadow = append(fi.Shadow, splitTagPath(alt))
			}
		}
		if m, ok := sf.Tag.Lookup("module"); ok {
			fi.Module = strings.Split(m, "|")[0]
		}
		if sf.Tag.Get("yangPresence") == "true" {
			fi.Presence = true
		}
		fi.Path = fi.AltPaths[0]
		fe, cc, err := ResolveRel(e, fi.Path)
		if err != nil {
			panic(fmt.Sprintf("cfg %s: %s.%s: %v", c.Name, t.Name(), sf.Name, err))
		}
		fi.Entry, fi.Choices = fe, cc
		fi.Config = IsConfig(fe)
		ft := sf.Type
		switch {
		case ft.Kind() == reflect.Ptr && ft.Implements(orderedMapT):
			fi.Kind = KOrdered
			// element type via Values() method
			m, _ := ft.MethodByName("Values")
			fi.Elem = m.Type.Out(0).Elem()
		case ft.Kind() == reflect.Ptr && ft.Elem().Kind() == reflect.Struct:
			fi.Kind = KContainer
			fi.Elem = ft
		case ft.Kind() == reflect.Map:
			fi.Kind = KList
			fi.Elem = ft.Elem()
		case ft.Kind() == reflect.Slice && ft.Elem().Kind() == reflect.Ptr && ft.Elem().Elem().Kind() == reflect.Struct && ft.Elem().Implements(goStructT):
			fi.Kind = KUnkeyed
			fi.Elem = ft.Elem()
		case ft.Kind() == reflect.Slice && ft.Name() != "Binary":
			fi.Kind = KLeafList
		default:
			fi.Kind = KLeaf
		}
		if fi.Kind == KLeaf || fi.Kind == KLeafList {
			if fe.Type == nil {
				panic(fmt.Sprintf("cfg %s: %s.%s: leaf without type", c.Name, t.Name(), sf.Name))
			}
			yt, lp, err := ResolveType(fe)
			if err != nil {
				panic(fmt.Sprintf("cfg %s: %s.%s: %v", c.Name, t.Name(), sf.Name, err))
			}
			fi.YType, fi.LeafrefPath = yt, lp
		}
		si.Fields = append(si.Fields, fi)
	}
	return si
}

func splitTagPath(s string) []string {
	s = strings.TrimPrefix(s, "/")
	return strings.Split(s, "/")
}

// FindChild looks up a data node called name under e, looking through choice
// and case nodes.  It returns the crossed (choice, case) pairs.
func FindChild(e *yang.Entry, name string) (*yang.Entry, []ChoiceCase) {
	if ch, ok := e.Dir[name]; ok && !ch.IsChoice() && !ch.IsCase() {
		return ch, nil
	}
	for _, ch := range e.Dir {
		if ch.IsChoice() {
			for cname, cs := range ch.Dir {
				// goyang inserts implicit cases for shorthand choices.
				if cs.IsCase() {
					if r, cc := FindChild(cs, name); r != nil {
						return r, append([]ChoiceCase{{Choice: ch, Case: cname}}, cc...)
					}
				} else if cs.Name == name {
					return cs, []ChoiceCase{{Choice: ch, Case: cname}}
				} else if cs.IsChoice() {
					// nested choice directly under choice (not legal YANG, skip)
				}
			}
		} else if ch.IsCase() {
			if r, cc := FindChild(ch, name); r != nil {
				return r, cc
			}
		}
	}
	return nil, nil
}

// ResolveRel walks a relative data-tree path below e.
func ResolveRel(e *yang.Entry, path []string) (*yang.Entry, []ChoiceCase, error) {
	cur := e
	var ccs []ChoiceCase
	for _, p := range path {
		nxt, cc := FindChild(cur, p)
		if nxt == nil {
			return nil, nil, fmt.Errorf("no child %q under %s", p, cur.Path())
		}
		ccs = append(ccs, cc...)
		cur = nxt
	}
	return cur, ccs, nil
}

// IsConfig computes the effective config flag of a schema node by walking up.
func IsConfig(e *yang.Entry) bool {
	for ; e != nil; e = e.Parent {
		switch e.Config {
		case yang.TSTrue:
			return true
		case yang.TSFalse:
			return false
		}
	}
	return true
}

// DataParent returns the nearest ancestor that is a data node (skipping
// choice/case).
func DataParent(e *yang.Entry) *yang.Entry {
	p := e.Parent
	for p != nil && (p.IsChoice() || p.IsCase()) {
		p = p.Parent
	}
	return p
}

// SchemaRoot returns the top of the schema tree e belongs to.
func SchemaRoot(e *yang.Entry) *yang.Entry {
	for e.Parent != nil {
		e = e.Parent
	}
	return e
}

// stripPrefix removes a module prefix from a path step.
func stripPrefix(s string) string {
	if i := strings.Index(s, ":"); i >= 0 {
		return s[i+1:]
	}
	return s
}

// LeafrefStep is one step of a parsed leafref path.
type LeafrefStep struct {
	Up    bool
	Name  string
	Preds []LeafrefPred
}

// LeafrefPred is a key predicate [Key = current()/../x/y] or [Key = "lit"].
type LeafrefPred struct {
	Key     string
	Literal *string
	CurPath []LeafrefStep // relative to current()
}

// ParseLeafref parses the leafref XPath subset used by YANG.
func ParseLeafref(p string) (abs bool, steps []LeafrefStep, err error) {
	p = strings.TrimSpace(p)
	if strings.HasPrefix(p, "/") {
		abs = true
		p = p[1:]
	}
	// split on '/' outside brackets
	var parts []string
	depth, start := 0, 0
	for i := 0; i < len(p); i++ {
		switch p[i] {
		case '[':
			depth++
		case ']':
			depth--
		case '/':
			if depth == 0 {
				parts = append(parts, p[start:i])
				start = i + 1
			}
		}
	}
	parts = append(parts, p[start:])
	for _, part := range parts {
		part = strings.TrimSpace(part)
		if part == ".." {
			steps = append(steps, LeafrefStep{Up: true})
			continue
		}
		if part == "" || part == "." {
			continue
		}
		st := LeafrefStep{}
		name := part
		if i := strings.Index(part, "["); i >= 0 {
			name = part[:i]
			rest := part[i:]
			for len(rest) > 0 {
				j := strings.Index(rest, "]")
				if rest[0] != '[' || j < 0 {
					return false, nil, fmt.Errorf("bad predicate in %q", part)
				}
				body := rest[1:j]
				rest = strings.TrimSpace(rest[j+1:])
				eq := strings.Index(body, "=")
				if eq < 0 {
					return false, nil, fmt.Errorf("bad predicate %q", body)
				}
				k := stripPrefix(strings.TrimSpace(body[:eq]))
				v := strings.TrimSpace(body[eq+1:])
				pr := LeafrefPred{Key: k}
				if strings.HasPrefix(v, "current()") {
					_, cs, err := ParseLeafref(strings.TrimPrefix(strings.TrimPrefix(v, "current()"), "/"))
					if err != nil {
						return false, nil, err
					}
					pr.CurPath = cs
				} else {
					lit := strings.Trim(v, `"'`)
					pr.Literal = &lit
				}
				st.Preds = append(st.Preds, pr)
			}
		}
		st.Name = stripPrefix(strings.TrimSpace(name))
		steps = append(steps, st)
	}
	return abs, steps, nil
}

// ResolveLeafrefTarget returns the schema entry a leafref leaf points at.
func ResolveLeafrefTarget(leaf *yang.Entry, path string) (*yang.Entry, error) {
	abs, steps, err := ParseLeafref(path)
	if err != nil {
		return nil, err
	}
	cur := leaf
	if abs {
		cur = SchemaRoot(leaf)
	}
	for _, s := range steps {
		if s.Up {
			cur = DataParent(cur)
			if cur == nil {
				return nil, fmt.Errorf("leafref %q climbs above root", path)
			}
			continue
		}
		nxt, _ := FindChild(cur, s.Name)
		if nxt == nil {
			return nil, fmt.Errorf("leafref %q: no %q under %s", path, s.Name, cur.Path())
		}
		cur = nxt
	}
	return cur, nil
}

// ResolveType returns the effective YANG type of a leaf, following leafrefs.
// The second result is the leafref path of the leaf itself ("" if none).
func ResolveType(leaf *yang.Entry) (*yang.YangType, string, error) {
	t := leaf.Type
	lp := ""
	cur := leaf
	for i := 0; t != nil && t.Kind == yang.Yleafref; i++ {
		if i == 0 {
			lp = t.Path
		}
		if i > 16 {
			return nil, "", fmt.Errorf("leafref loop at %s", leaf.Path())
		}
		tgt, err := ResolveLeafrefTarget(cur, t.Path)
		if err != nil {
			return nil, "", err
		}
		cur, t = tgt, tgt.Type
	}
	if t == nil {
		return nil, "", fmt.Errorf("no type for %s", leaf.Path())
	}
	return t, lp, nil
}

// FlattenUnion lists the non-union member types of a type in order; leafref
// members are not resolved (ygot does not support them inside unions here).
func FlattenUnion(t *yang.YangType) []*yang.YangType {
	if t.Kind != yang.Yunion {
		return []*yang.YangType{t}
	}
	var out []*yang.YangType
	for _, m := range t.Type {
		out = append(out, FlattenUnion(m)...)
	}
	return out
}

// DataPath returns the data-tree path elements of a schema node from the root
// (choice/case and the fake root itself omitted).
func DataPath(e *yang.Entry) []string {
	var rev []string
	for ; e != nil && e.Parent != nil; e = e.Parent {
		if e.IsChoice() || e.IsCase() {
			continue
		}
		rev = append(rev, e.Name)
	}
	out := make([]string, len(rev))
	for i := range rev {
		out[i] = rev[len(rev)-1-i]
	}
	return out
}

// BoundedMax reports whether a list/leaf-list has a real max-elements bound
// (goyang stores "unbounded" as the largest uint64).
func BoundedMax(la *yang.ListAttr) bool {
	return la != nil && la.MaxElements > 0 && la.MaxElements < 1<<31
}
