package lib

import (
	"encoding/base64"
	"encoding/json"
	"fmt"
	"sort"
	"strconv"
	"strings"

	gpb "github.com/openconfig/gnmi/proto/gnmi"
)

// The harness' own encoders from canonical values to gNMI TypedValue and RFC7951
// JSON.  They are independent of ygot.EncodeTypedValue / ygot's JSON renderer.

func splitCanon(c string) (kind, payload string) {
	i := strings.Index(c, ":")
	if i < 0 {
		return "", c
	}
	return c[:i], c[i+1:]
}

// ScalarTV encodes one canonical scalar as a scalar TypedValue.
func ScalarTV(c string) (*gpb.TypedValue, error) {
	kind, pl := splitCanon(c)
	switch kind {
	case "int8", "int16", "int32", "int64", "int":
		n, err := strconv.ParseInt(pl, 10, 64)
		if err != nil {
			return nil, err
		}
		return &gpb.TypedValue{Value: &gpb.TypedValue_IntVal{IntVal: n}}, nil
	case "uint8", "uint16", "uint32", "uint64", "uint":
		n, err := strconv.ParseUint(pl, 10, 64)
		if err != nil {
			return nil, err
		}
		return &gpb.TypedValue{Value: &gpb.TypedValue_UintVal{UintVal: n}}, nil
	case "float64":
		f, err := strconv.ParseFloat(pl, 64)
		if err != nil {
			return nil, err
		}
		return &gpb.TypedValue{Value: &gpb.TypedValue_DoubleVal{DoubleVal: f}}, nil
	case "string":
		return &gpb.TypedValue{Value: &gpb.TypedValue_StringVal{StringVal: pl}}, nil
	case "enum":
		if strings.HasPrefix(pl, "#") {
			return nil, fmt.Errorf("undefined enum value %s", pl)
		}
		return &gpb.TypedValue{Value: &gpb.TypedValue_StringVal{StringVal: pl}}, nil
	case "bool":
		return &gpb.TypedValue{Value: &gpb.TypedValue_BoolVal{BoolVal: pl == "true"}}, nil
	case "empty":
		return &gpb.TypedValue{Value: &gpb.TypedValue_BoolVal{BoolVal: pl == "true"}}, nil
	case "bin":
		b, err := hexDecode(pl)
		if err != nil {
			return nil, err
		}
		return &gpb.TypedValue{Value: &gpb.TypedValue_BytesVal{BytesVal: b}}, nil
	}
	return nil, fmt.Errorf("cannot encode %q", c)
}

// LeafListElems splits the canonical value of a leaf-list into element values.
func LeafListElems(val string) []string {
	var out []string
	json.Unmarshal([]byte(val), &out)
	return out
}

// LeafTV encodes an observed leaf or leaf-list as a scalar / leaflist_val
// TypedValue.
func LeafTV(l *Leaf) (*gpb.TypedValue, error) {
	if !l.IsList {
		return ScalarTV(l.Val)
	}
	arr := &gpb.ScalarArray{}
	for _, e := range LeafListElems(l.Val) {
		tv, err := ScalarTV(e)
		if err != nil {
			return nil, err
		}
		arr.Element = append(arr.Element, tv)
	}
	return &gpb.TypedValue{Value: &gpb.TypedValue_LeaflistVal{LeaflistVal: arr}}, nil
}

// ScalarJSON renders one canonical scalar the RFC 7951 way (a Go value ready
// for json.Marshal).
func ScalarJSON(c string) (interface{}, error) {
	kind, pl := splitCanon(c)
	switch kind {
	case "int8", "int16", "int32", "uint8", "uint16", "uint32":
		return json.Number(pl), nil
	case "int64", "uint64":
		return pl, nil
	case "float64":
		f, err := strconv.ParseFloat(pl, 64)
		if err != nil {
			return nil, err
		}
		return strconv.FormatFloat(f, 'f', -1, 64), nil
	case "string":
		return pl, nil
	case "enum":
		if strings.HasPrefix(pl, "#") {
			return nil, fmt.Errorf("undefined enum value %s", pl)
		}
		return pl, nil
	case "bool":
		return pl == "true", nil
	case "empty":
		return []interface{}{nil}, nil
	case "bin":
		b, err := hexDecode(pl)
		if err != nil {
			return nil, err
		}
		return base64.StdEncoding.EncodeToString(b), nil
	}
	return nil, fmt.Errorf("cannot encode %q", c)
}

// LeafJSON renders an observed leaf / leaf-list as an RFC7951 JSON value.
func LeafJSON(l *Leaf) (interface{}, error) {
	if !l.IsList {
		return ScalarJSON(l.Val)
	}
	out := []interface{}{}
	for _, e := range LeafListElems(l.Val) {
		v, err := ScalarJSON(e)
		if err != nil {
			return nil, err
		}
		out = append(out, v)
	}
	return out, nil
}

// JSONIETF wraps a JSON value into a json_ietf_val TypedValue.
func JSONIETF(v interface{}) (*gpb.TypedValue, error) {
	b, err := json.Marshal(v)
	if err != nil {
		return nil, err
	}
	return &gpb.TypedValue{Value: &gpb.TypedValue_JsonIetfVal{JsonIetfVal: b}}, nil
}

// SubtreeJSON renders the observed leaves at or below prefix (canonical
// elements) as an RFC7951 JSON object relative to prefix, built only from the
// observation (list entries become arrays of objects carrying their key
// leaves).  keyLeafName maps are taken from the leaves' own paths.
func (o *Obs) SubtreeJSON(prefix []PathElem) (map[string]interface{}, error) {
	root := map[string]interface{}{}
	pre := PathString(prefix)
	for _, p := range o.SortedLeafPaths() {
		l := o.Leaves[p]
		if !HasPrefixPath(p, pre) || p == pre {
			continue
		}
		rel := l.Elems[len(prefix):]
		cur := root
		for i, e := range rel {
			last := i == len(rel)-1
			if last {
				v, err := LeafJSON(l)
				if err != nil {
					return nil, err
				}
				cur[e.Name] = v
				break
			}
			if len(e.Keys) > 0 || e.Pos >= 0 {
				arr, _ := cur[e.Name].([]interface{})
				id := e.String()
				var ent map[string]interface{}
				for _, x := range arr {
					m := x.(map[string]interface{})
					if m["\x00id"] == id {
						ent = m
					}
				}
				if ent == nil {
					lp := append(append([]PathElem(nil), prefix...), rel[:i+1]...)
					lp[len(lp)-1] = PathElem{Name: e.Name, Pos: -1}
					ent = map[string]interface{}{"\x00id": id, "\x00lp": PathString(lp)}
					// the key leaves are members of the entry itself (also for OpenConfig-style
					// lists, whose keys are leafrefs to config/<key>)
					for kn, kv := range e.Keys {
						if jv, err := ScalarJSON(kv); err == nil {
							ent[kn] = jv
						}
					}
					cur[e.Name] = append(arr, ent)
				}
				cur = ent
				continue
			}
			nxt, _ := cur[e.Name].(map[string]interface{})
			if nxt == nil {
				nxt = map[string]interface{}{}
				cur[e.Name] = nxt
			}
			cur = nxt
		}
	}
	o.stripIDs(root)
	return root, nil
}

func (o *Obs) stripIDs(v interface{}) {
	switch x := v.(type) {
	case map[string]interface{}:
		delete(x, "\x00id")
		delete(x, "\x00lp")
		for _, c := range x {
			o.stripIDs(c)
		}
	case []interface{}:
		// user-ordered lists keep their order
		if len(x) > 0 {
			if m, ok := x[0].(map[string]interface{}); ok {
				if lp, ok := m["\x00lp"].(string); ok {
					if ord, ok := o.Order[lp]; ok {
						pos := map[string]int{}
						for i, id := range ord {
							pos[id] = i
						}
						sort.SliceStable(x, func(i, j int) bool {
							a, _ := x[i].(map[string]interface{})["\x00id"].(string)
							b, _ := x[j].(map[string]interface{})["\x00id"].(string)
							return pos[a] < pos[b]
						})
					}
				}
			}
		}
		for _, c := range x {
			o.stripIDs(c)
		}
	}
}
