package lib

import (
	"fmt"
	"reflect"

	"github.com/openconfig/ygot/ygot"
)

// Mem collects the addresses of all mutable memory reachable from a tree:
// struct pointers, pointee cells of leaf pointers, backing arrays of non-empty
// slices, maps, wrapper-union structs and ordered-map internals.  The value of
// each entry describes the location for witnesses.
func Mem(root ygot.GoStruct) map[uintptr]string {
	out := map[uintptr]string{}
	memWalk(reflect.ValueOf(root), "", out)
	return out
}

func memWalk(v reflect.Value, where string, out map[uintptr]string) {
	switch v.Kind() {
	case reflect.Ptr:
		if v.IsNil() {
			return
		}
		p := v.Pointer()
		if _, dup := out[p]; dup {
			return
		}
		kind := "ptr"
		if v.Elem().Kind() == reflect.Struct {
			kind = "struct"
		}
		out[p] = kind + " " + where + " (" + v.Type().String() + ")"
		memWalk(v.Elem(), where, out)
	case reflect.Interface:
		if !v.IsNil() {
			memWalk(v.Elem(), where, out)
		}
	case reflect.Struct:
		for i := 0; i < v.NumField(); i++ {
			memWalk(v.Field(i), where+"."+v.Type().Field(i).Name, out)
		}
	case reflect.Slice:
		if v.IsNil() {
			return
		}
		if v.Cap() > 0 {
			out[v.Pointer()] = "slice " + where + " (" + v.Type().String() + ")"
		}
		for i := 0; i < v.Len(); i++ {
			e := v.Index(i)
			switch e.Kind() {
			case reflect.Ptr, reflect.Interface, reflect.Slice, reflect.Struct, reflect.Map:
				memWalk(e, fmt.Sprintf("%s[%d]", where, i), out)
			}
		}
	case reflect.Map:
		if v.IsNil() {
			return
		}
		out[v.Pointer()] = "map " + where + " (" + v.Type().String() + ")"
		it := v.MapRange()
		for it.Next() {
			memWalk(it.Value(), fmt.Sprintf("%s{%v}", where, safeKey(it.Key())), out)
			if k := it.Key(); k.Kind() == reflect.Interface || k.Kind() == reflect.Struct {
				memWalk(k, where+"{key}", out)
			}
		}
	}
}

func safeKey(k reflect.Value) string {
	if k.CanInterface() {
		return fmt.Sprint(k.Interface())
	}
	switch k.Kind() {
	case reflect.String:
		return k.String()
	case reflect.Int, reflect.Int8, reflect.Int16, reflect.Int32, reflect.Int64:
		return fmt.Sprint(k.Int())
	case reflect.Uint, reflect.Uint8, reflect.Uint16, reflect.Uint32, reflect.Uint64:
		return fmt.Sprint(k.Uint())
	}
	return "?"
}

// SharedMem lists the locations two trees have in common.
func SharedMem(a, b ygot.GoStruct) []string {
	ma, mb := Mem(a), Mem(b)
	var out []string
	for p, wa := range ma {
		if wb, ok := mb[p]; ok {
			out = append(out, wa+" == "+wb)
		}
	}
	return out
}

// Scribble mutates every piece of mutable memory of a tree in place (without
// replacing any pointer, slice header or map that the parent holds): leaf cells
// are overwritten, bytes flipped, slice elements overwritten, map entries and
// ordered-map entries deleted.  It returns the number of writes.
func Scribble(root ygot.GoStruct) int {
	n := 0
	scribble(reflect.ValueOf(root), &n, map[uintptr]bool{})
	return n
}

func scribble(v reflect.Value, n *int, seen map[uintptr]bool) {
	switch v.Kind() {
	case reflect.Ptr:
		if v.IsNil() || seen[v.Pointer()] {
			return
		}
		seen[v.Pointer()] = true
		if v.Type().Implements(orderedMapT) {
			// public mutation API of ordered maps
			keys := OrderedKeys(v)
			vals := OrderedValues(v)
			for _, e := range vals {
				scribble(e, n, seen)
			}
			if len(keys) > 0 {
				v.MethodByName("Delete").Call([]reflect.Value{keys[0]})
				*n++
			}
			return
		}
		e := v.Elem()
		if e.Kind() == reflect.Struct {
			scribble(e, n, seen)
			return
		}
		if !e.CanSet() {
			return
		}
		scribbleScalar(e)
		*n++
	case reflect.Interface:
		if !v.IsNil() {
			scribble(v.Elem(), n, seen)
		}
	case reflect.Struct:
		for i := 0; i < v.NumField(); i++ {
			f := v.Field(i)
			if !f.CanSet() {
				continue
			}
			switch f.Kind() {
			case reflect.Ptr, reflect.Interface, reflect.Slice, reflect.Map, reflect.Struct:
				scribble(f, n, seen)
			}
		}
	case reflect.Slice:
		if v.IsNil() {
			return
		}
		for i := 0; i < v.Len(); i++ {
			e := v.Index(i)
			switch e.Kind() {
			case reflect.Ptr, reflect.Interface, reflect.Slice, reflect.Map:
				scribble(e, n, seen)
			}
		}
		if v.Len() > 0 {
			e := v.Index(0)
			switch e.Kind() {
			case reflect.Ptr, reflect.Interface, reflect.Slice, reflect.Map, reflect.Struct:
				// element identity is part of the data: swap in a zero element
				if e.CanSet() {
					e.Set(reflect.Zero(e.Type()))
					*n++
				}
			default:
				if e.CanSet() {
					scribbleScalar(e)
					*n++
				}
			}
		}
	case reflect.Map:
		if v.IsNil() {
			return
		}
		keys := SortedMapKeys(v)
		for _, k := range keys {
			scribble(v.MapIndex(k), n, seen)
		}
		if len(keys) > 0 {
			v.SetMapIndex(keys[0], reflect.Value{})
			*n++
		}
	}
}

func scribbleScalar(e reflect.Value) {
	switch e.Kind() {
	case reflect.Int8, reflect.Int16, reflect.Int32, reflect.Int64, reflect.Int:
		e.SetInt(e.Int() ^ 1)
	case reflect.Uint8, reflect.Uint16, reflect.Uint32, reflect.Uint64, reflect.Uint:
		e.SetUint(e.Uint() ^ 1)
	case reflect.Float64, reflect.Float32:
		e.SetFloat(e.Float() + 1)
	case reflect.String:
		e.SetString(e.String() + "~scribbled")
	case reflect.Bool:
		e.SetBool(!e.Bool())
	}
}
