package lib

import (
	"encoding/hex"
	"fmt"
	"reflect"
	"sort"
	"strconv"
	"strings"

	"github.com/openconfig/ygot/ygot"
)

// CanonScalar renders a Go leaf value (not a slice of leaves) in kind-tagged
// canonical form.  ok=false means "unset" (nil pointer, zero enum, false empty,
// nil interface).  inUnion makes zero enums/false empties count as values.
func CanonScalar(v reflect.Value, inUnion bool) (string, bool) {
	if !v.IsValid() {
		return "", false
	}
	t := v.Type()
	switch v.Kind() {
	case reflect.Ptr:
		if v.IsNil() {
			return "", false
		}
		if v.Elem().Kind() == reflect.Struct {
			// wrapper union: struct with exactly one field
			if v.Elem().NumField() == 1 {
				return CanonScalar(v.Elem().Field(0), true)
			}
			return "?struct:" + t.String(), true
		}
		return CanonScalar(v.Elem(), inUnion)
	case reflect.Interface:
		if v.IsNil() {
			return "", false
		}
		return CanonScalar(v.Elem(), true)
	case reflect.Slice:
		if t.Elem().Kind() == reflect.Uint8 {
			if v.IsNil() {
				if inUnion {
					return "bin:", true
				}
				return "", false
			}
			return "bin:" + hex.EncodeToString(v.Bytes()), true
		}
		return "?slice:" + t.String(), true
	case reflect.Int64:
		if t.Implements(goEnumT) {
			n := v.Int()
			if n == 0 && !inUnion {
				return "", false
			}
			return "enum:" + EnumName(v), true
		}
		return "int64:" + strconv.FormatInt(v.Int(), 10), true
	case reflect.Int8, reflect.Int16, reflect.Int32, reflect.Int:
		return v.Kind().String() + ":" + strconv.FormatInt(v.Int(), 10), true
	case reflect.Uint8, reflect.Uint16, reflect.Uint32, reflect.Uint64, reflect.Uint:
		return v.Kind().String() + ":" + strconv.FormatUint(v.Uint(), 10), true
	case reflect.Float64, reflect.Float32:
		return "float64:" + strconv.FormatFloat(v.Float(), 'g', -1, 64), true
	case reflect.String:
		return "string:" + v.String(), true
	case reflect.Bool:
		if t.Name() == "YANGEmpty" {
			if !v.Bool() && !inUnion {
				return "", false
			}
			return "empty:" + strconv.FormatBool(v.Bool()), true
		}
		return "bool:" + strconv.FormatBool(v.Bool()), true
	case reflect.Struct:
		if v.NumField() == 1 {
			return CanonScalar(v.Field(0), true)
		}
	}
	return "?" + t.String(), true
}

// EnumName returns the YANG name of a generated enum value, or "#<n>" when the
// value is not defined.
func EnumName(v reflect.Value) string {
	ge, ok := v.Interface().(ygot.GoEnum)
	if !ok {
		return "#?" + v.Type().String()
	}
	m := ge.ΛMap()
	if defs, ok := m[v.Type().Name()]; ok {
		if d, ok := defs[v.Int()]; ok {
			return d.Name
		}
	}
	return "#" + strconv.FormatInt(v.Int(), 10)
}

// PathElem is one element of a canonical data-tree path.
type PathElem struct {
	Name string
	Keys map[string]string // canonical (kind-tagged) key values
	Pos  int               // index for unkeyed list entries, else -1
}

// ElemString renders one element injectively.
func (e PathElem) String() string {
	var b strings.Builder
	b.WriteString(e.Name)
	if e.Pos >= 0 {
		fmt.Fprintf(&b, "[#%d]", e.Pos)
	}
	if len(e.Keys) > 0 {
		ks := make([]string, 0, len(e.Keys))
		for k := range e.Keys {
			ks = append(ks, k)
		}
		sort.Strings(ks)
		for _, k := range ks {
			fmt.Fprintf(&b, "[%s=%s]", k, strconv.Quote(e.Keys[k]))
		}
	}
	return b.String()
}

// PathString renders a canonical path.
func PathString(p []PathElem) string {
	var b strings.Builder
	for _, e := range p {
		b.WriteByte('/')
		b.WriteString(e.String())
	}
	if len(p) == 0 {
		return "/"
	}
	return b.String()
}

// Leaf is one observed leaf or leaf-list.
type Leaf struct {
	Path   string
	Elems  []PathElem
	Val    string
	Field  *FieldInfo
	IsList bool // leaf-list
	N      int  // number of elements for leaf-lists
}

// Feature is a short description of the leaf's kind and type used in signatures.
func (l *Leaf) Feature() string {
	if l.Field == nil {
		return "?"
	}
	return FieldFeature(l.Field)
}

// FieldFeature describes a schema field for signatures: kind:yangtype[:key].
func FieldFeature(f *FieldInfo) string {
	s := f.Kind.String()
	if f.YType != nil {
		s += ":" + TypeFeature(f)
	}
	return s
}

// TypeFeature names the resolved YANG type of a leaf field.
func TypeFeature(f *FieldInfo) string {
	if f.YType == nil {
		return "-"
	}
	s := f.YType.Kind.String()
	if f.LeafrefPath != "" {
		s = "leafref>" + s
	}
	return s
}

// Obs is the independent leaf-set model of a tree.
type Obs struct {
	Leaves   map[string]*Leaf
	Presence map[string]bool     // presence containers that are non-nil
	Entries  map[string]bool     // list entries (keyed, ordered, unkeyed)
	Order    map[string][]string // ordered list path -> entry element strings in order
	Shape    map[string]string   // non-nil containers / empty maps / empty slices (representation)
}

// NewObs returns an empty model.
func NewObs() *Obs {
	return &Obs{Leaves: map[string]*Leaf{}, Presence: map[string]bool{}, Entries: map[string]bool{}, Order: map[string][]string{}, Shape: map[string]string{}}
}

// Observe flattens a tree.
func (c *Cfg) Observe(root ygot.GoStruct) *Obs {
	o := NewObs()
	if root == nil || reflect.ValueOf(root).IsNil() {
		return o
	}
	c.observeStruct(o, reflect.ValueOf(root), nil)
	return o
}

// ObserveAt flattens a subtree, prefixing every path with prefix.
func (c *Cfg) ObserveAt(sub ygot.GoStruct, prefix []PathElem) *Obs {
	o := NewObs()
	c.observeStruct(o, reflect.ValueOf(sub), prefix)
	return o
}

func extend(p []PathElem, names []string) []PathElem {
	out := make([]PathElem, len(p), len(p)+len(names))
	copy(out, p)
	for _, n := range names {
		out = append(out, PathElem{Name: n, Pos: -1})
	}
	return out
}

// EntryKeys returns canonical key values of a list entry from its key fields.
func (c *Cfg) EntryKeys(entry reflect.Value) map[string]string {
	si := c.Info(entry.Type())
	keys := map[string]string{}
	kf := si.KeyFields()
	for i, k := range si.KeyNames {
		if kf[i] == nil {
			keys[k] = "?nokeyfield"
			continue
		}
		cv, ok := CanonScalar(entry.Elem().Field(kf[i].Idx), true)
		if !ok {
			cv = "<unset>"
		}
		keys[k] = cv
	}
	return keys
}

// OrderedValues calls Values() on a generated ordered map.
func OrderedValues(om reflect.Value) []reflect.Value {
	if om.IsNil() {
		return nil
	}
	res := om.MethodByName("Values").Call(nil)[0]
	out := make([]reflect.Value, res.Len())
	for i := range out {
		out[i] = res.Index(i)
	}
	return out
}

// OrderedKeys calls Keys() on a generated ordered map.
func OrderedKeys(om reflect.Value) []reflect.Value {
	if om.IsNil() {
		return nil
	}
	res := om.MethodByName("Keys").Call(nil)[0]
	out := make([]reflect.Value, res.Len())
	for i := range out {
		out[i] = res.Index(i)
	}
	return out
}

// SortedMapKeys returns the keys of a list map in a deterministic order.
func SortedMapKeys(m reflect.Value) []reflect.Value {
	keys := m.MapKeys()
	sort.Slice(keys, func(i, j int) bool {
		return fmt.Sprintf("%#v", keys[i].Interface()) < fmt.Sprintf("%#v", keys[j].Interface())
	})
	return keys
}

func (c *Cfg) observeStruct(o *Obs, sv reflect.Value, path []PathElem) {
	if sv.Kind() == reflect.Ptr {
		if sv.IsNil() {
			return
		}
		sv = sv.Elem()
	}
	si := c.Info(sv.Type())
	for _, f := range si.Fields {
		fv := sv.Field(f.Idx)
		switch f.Kind {
		case KLeaf:
			cv, ok := CanonScalar(fv, false)
			if !ok {
				continue
			}
			p := extend(path, f.Path)
			ps := PathString(p)
			o.Leaves[ps] = &Leaf{Path: ps, Elems: p, Val: cv, Field: f}
		case KLeafList:
			if fv.IsNil() {
				continue
			}
			p := extend(path, f.Path)
			ps := PathString(p)
			vals := make([]string, fv.Len())
			for i := 0; i < fv.Len(); i++ {
				cv, ok := CanonScalar(fv.Index(i), true)
				if !ok {
					cv = "<nil>"
				}
				vals[i] = strconv.Quote(cv)
			}
			o.Leaves[ps] = &Leaf{Path: ps, Elems: p, Val: "[" + strings.Join(vals, ",") + "]", Field: f, IsList: true, N: fv.Len()}
		case KContainer:
			if fv.IsNil() {
				continue
			}
			p := extend(path, f.Path)
			ps := PathString(p)
			if f.Presence {
				o.Presence[ps] = true
			} else {
				o.Shape[ps] = "container"
			}
			c.observeStruct(o, fv, p)
		case KList:
			if fv.IsNil() {
				continue
			}
			p := extend(path, f.Path)
			if fv.Len() == 0 {
				o.Shape[PathString(p)] = "emptymap"
			}
			for _, k := range SortedMapKeys(fv) {
				ent := fv.MapIndex(k)
				if ent.IsNil() {
					o.Shape[PathString(p)+fmt.Sprintf("{%v}", k.Interface())] = "nilentry"
					continue
				}
				ep := make([]PathElem, len(p))
				copy(ep, p)
				ep[len(ep)-1].Keys = c.EntryKeys(ent)
				o.Entries[PathString(ep)] = true
				c.observeStruct(o, ent, ep)
			}
		case KOrdered:
			if fv.IsNil() {
				continue
			}
			p := extend(path, f.Path)
			ps := PathString(p)
			vals := OrderedValues(fv)
			if len(vals) == 0 {
				o.Shape[ps] = "emptyorderedmap"
			}
			var ord []string
			for _, ent := range vals {
				if ent.IsNil() {
					ord = append(ord, "<nil>")
					continue
				}
				ep := make([]PathElem, len(p))
				copy(ep, p)
				ep[len(ep)-1].Keys = c.EntryKeys(ent)
				ord = append(ord, ep[len(ep)-1].String())
				o.Entries[PathString(ep)] = true
				c.observeStruct(o, ent, ep)
			}
			if len(ord) > 0 {
				o.Order[ps] = ord
			}
		case KUnkeyed:
			if fv.IsNil() {
				continue
			}
			p := extend(path, f.Path)
			if fv.Len() == 0 {
				o.Shape[PathString(p)] = "emptyslice"
			}
			for i := 0; i < fv.Len(); i++ {
				ent := fv.Index(i)
				if ent.IsNil() {
					continue
				}
				ep := make([]PathElem, len(p))
				copy(ep, p)
				ep[len(ep)-1].Pos = i
				o.Entries[PathString(ep)] = true
				c.observeStruct(o, ent, ep)
			}
		}
	}
}

// Delta is one difference between two observations.
type Delta struct {
	Path    string
	A, B    string // "" = absent
	What    string // "leaf", "presence", "entry", "order", "shape"
	Feature string
}

func (d Delta) String() string {
	return fmt.Sprintf("%s %s: %q vs %q (%s)", d.What, d.Path, d.A, d.B, d.Feature)
}

// DiffOpts selects what Diff compares.
type DiffOpts struct {
	Shape       bool // compare representation markers too
	IgnoreOrder bool // do not compare ordered-list order
	// EmptyLeafListIsAbsent treats a set-but-empty leaf-list as absent.
	EmptyLeafListIsAbsent bool
}

func isEmptyLL(l *Leaf) bool { return l != nil && l.IsList && l.N == 0 }

// DiffObs compares two observations.
func DiffObs(a, b *Obs, opt DiffOpts) []Delta {
	var out []Delta
	seen := map[string]bool{}
	for p, la := range a.Leaves {
		seen[p] = true
		lb := b.Leaves[p]
		if opt.EmptyLeafListIsAbsent && isEmptyLL(la) && (lb == nil || isEmptyLL(lb)) {
			continue
		}
		if lb == nil {
			out = append(out, Delta{Path: p, A: la.Val, What: "leaf", Feature: LeafFeat(la)})
		} else if la.Val != lb.Val {
			out = append(out, Delta{Path: p, A: la.Val, B: lb.Val, What: "leaf", Feature: LeafFeat(la)})
		}
	}
	for p, lb := range b.Leaves {
		if seen[p] {
			continue
		}
		if opt.EmptyLeafListIsAbsent && isEmptyLL(lb) {
			continue
		}
		out = append(out, Delta{Path: p, B: lb.Val, What: "leaf", Feature: LeafFeat(lb)})
	}
	boolDiff := func(ma, mb map[string]bool, what string) {
		for p := range ma {
			if !mb[p] {
				out = append(out, Delta{Path: p, A: "present", What: what, Feature: what})
			}
		}
		for p := range mb {
			if !ma[p] {
				out = append(out, Delta{Path: p, B: "present", What: what, Feature: what})
			}
		}
	}
	boolDiff(a.Presence, b.Presence, "presence")
	boolDiff(a.Entries, b.Entries, "entry")
	if !opt.IgnoreOrder {
		for p, oa := range a.Order {
			ob := b.Order[p]
			if strings.Join(oa, "\x00") != strings.Join(ob, "\x00") {
				out = append(out, Delta{Path: p, A: strings.Join(oa, " "), B: strings.Join(ob, " "), What: "order", Feature: "ordered-list"})
			}
		}
		for p, ob := range b.Order {
			if _, ok := a.Order[p]; !ok {
				out = append(out, Delta{Path: p, B: strings.Join(ob, " "), What: "order", Feature: "ordered-list"})
			}
		}
	}
	if opt.Shape {
		for p, sa := range a.Shape {
			if b.Shape[p] != sa {
				out = append(out, Delta{Path: p, A: sa, B: b.Shape[p], What: "shape", Feature: "shape:" + sa})
			}
		}
		for p, sb := range b.Shape {
			if _, ok := a.Shape[p]; !ok {
				out = append(out, Delta{Path: p, B: sb, What: "shape", Feature: "shape:" + sb})
			}
		}
	}
	sort.Slice(out, func(i, j int) bool {
		if out[i].Path != out[j].Path {
			return out[i].Path < out[j].Path
		}
		return out[i].What < out[j].What
	})
	return out
}

// KeyClass names the kinds of the list keys on a path ("" when there are none):
// the sorted distinct Go kinds of the key values; float keys whose shortest
// representation needs an exponent are "float64e".
func KeyClass(elems []PathElem) string {
	set := map[string]bool{}
	for _, e := range elems {
		for _, v := range e.Keys {
			k := v
			if i := strings.Index(v, ":"); i >= 0 {
				k = v[:i]
				if k == "float64" && strings.ContainsAny(v[i+1:], "eE") {
					k = "float64e"
				}
			}
			if k == "float64e" { // only notable key classes enter signatures
				set[k] = true
			}
		}
		if e.Pos >= 0 {
			set["unkeyed"] = true
		}
	}
	if len(set) == 0 {
		return ""
	}
	ks := make([]string, 0, len(set))
	for k := range set {
		ks = append(ks, k)
	}
	sort.Strings(ks)
	return "@keys(" + strings.Join(ks, ",") + ")"
}

func LeafFeat(l *Leaf) string {
	f := l.Feature() + KeyClass(l.Elems)
	if isEmptyLL(l) {
		f += ":empty"
	}
	if l.Val == "bin:" {
		f += ":zero-length"
	}
	if strings.HasPrefix(l.Val, "enum:#") || strings.Contains(l.Val, `"enum:#`) {
		f += ":undefined-enum"
	}
	return f
}

// SortedLeafPaths returns leaf paths in sorted order.
func (o *Obs) SortedLeafPaths() []string {
	out := make([]string, 0, len(o.Leaves))
	for p := range o.Leaves {
		out = append(out, p)
	}
	sort.Strings(out)
	return out
}

// Dump renders the whole observation (for witnesses).
func (o *Obs) Dump() []string {
	var out []string
	for _, p := range o.SortedLeafPaths() {
		out = append(out, p+" = "+o.Leaves[p].Val)
	}
	var pr []string
	for p := range o.Presence {
		pr = append(pr, p+" (presence)")
	}
	sort.Strings(pr)
	out = append(out, pr...)
	var or []string
	for p, v := range o.Order {
		or = append(or, p+" order "+strings.Join(v, " "))
	}
	sort.Strings(or)
	return append(out, or...)
}

// Clone copies the model (leaves are shared, they are immutable).
func (o *Obs) Clone() *Obs {
	n := NewObs()
	for k, v := range o.Leaves {
		n.Leaves[k] = v
	}
	for k, v := range o.Presence {
		n.Presence[k] = v
	}
	for k, v := range o.Entries {
		n.Entries[k] = v
	}
	for k, v := range o.Order {
		n.Order[k] = append([]string(nil), v...)
	}
	for k, v := range o.Shape {
		n.Shape[k] = v
	}
	return n
}

// AltIndex maps every alternative data path of every observed leaf (compressed
// structs give a leaf several paths, e.g. config/name and name) to the leaf's
// primary path.
func (o *Obs) AltIndex() map[string]string {
	idx := map[string]string{}
	for p, l := range o.Leaves {
		idx[p] = p
		if l.Field == nil || len(l.Field.AltPaths) < 2 {
			continue
		}
		base := l.Elems[:len(l.Elems)-len(l.Field.Path)]
		for _, ap := range l.Field.AltPaths {
			idx[PathString(extend(base, ap))] = p
		}
	}
	return idx
}

// HasPrefixPath reports whether path p is at or below prefix pre (both
// canonical strings).
func HasPrefixPath(p, pre string) bool {
	if pre == "/" {
		return true
	}
	return p == pre || strings.HasPrefix(p, pre+"/")
}
