package lib

import (
	"reflect"

	"github.com/openconfig/ygot/ygot"
)

// Mutate applies k random edits to a tree in place and returns a description of
// each.  Edits: clear a field, regenerate a field (leaf value change, union
// member change, list replaced), add or remove one list entry, permute an
// ordered list.  Key leaves are never touched.
func (g *Gen) Mutate(root ygot.GoStruct, k int) []string {
	g.root = reflect.ValueOf(root)
	if g.enumMap == nil {
		g.enumMap = enumTypeMap(root)
	}
	var log []string
	for e := 0; e < k; e++ {
		nodes := g.C.Nodes(root)
		n := nodes[g.Rng.Intn(len(nodes))]
		if n.Keyless && !g.Opt.Unkeyed {
			continue
		}
		si := n.Info
		if len(si.Fields) == 0 {
			continue
		}
		keyIdx := map[int]bool{}
		if n.IsEntry {
			for _, kf := range si.KeyFields() {
				if kf != nil {
					keyIdx[kf.Idx] = true
				}
			}
		}
		f := si.Fields[g.Rng.Intn(len(si.Fields))]
		if keyIdx[f.Idx] {
			continue
		}
		sv := n.V.Elem()
		fv := sv.Field(f.Idx)
		where := PathString(extend(n.Path, f.Path))
		op := g.Rng.Intn(10)
		switch g.MutOps {
		case "clear":
			op = 0
		case "regen":
			op = 9
		case "clear+regen":
			if op >= 3 {
				op = 9
			}
		}
		switch {
		case op < 3:
			if !fv.IsZero() {
				fv.Set(reflect.Zero(fv.Type()))
				log = append(log, "clear "+where)
			}
		case op < 5 && (f.Kind == KList || f.Kind == KOrdered) && !fv.IsNil():
			// remove one entry
			if f.Kind == KList {
				ks := SortedMapKeys(fv)
				if len(ks) > 0 {
					fv.SetMapIndex(ks[g.Rng.Intn(len(ks))], reflect.Value{})
					if fv.Len() == 0 {
						fv.Set(reflect.Zero(fv.Type()))
					}
					log = append(log, "remove-entry "+where)
				}
			} else {
				keys := OrderedKeys(fv)
				if len(keys) > 0 {
					g.rebuildOrdered(fv, func(vals []reflect.Value) []reflect.Value {
						i := g.Rng.Intn(len(vals))
						return append(append([]reflect.Value{}, vals[:i]...), vals[i+1:]...)
					})
					log = append(log, "remove-entry "+where)
				}
			}
		case op < 7 && f.Kind == KOrdered && !fv.IsNil():
			g.rebuildOrdered(fv, func(vals []reflect.Value) []reflect.Value {
				out := make([]reflect.Value, len(vals))
				for i, j := range g.Rng.Perm(len(vals)) {
					out[i] = vals[j]
				}
				return out
			})
			log = append(log, "permute "+where)
		case op < 7 && (f.Kind == KList) && !fv.IsNil():
			// add entries: generate a fresh list and merge new keys in
			old := reflect.MakeMap(fv.Type())
			for _, k := range fv.MapKeys() {
				old.SetMapIndex(k, fv.MapIndex(k))
			}
			fv.Set(reflect.Zero(fv.Type()))
			if g.setField(sv, f, n.Path, len(n.Path)) && !fv.IsNil() {
				for _, k := range fv.MapKeys() {
					if !old.MapIndex(k).IsValid() {
						old.SetMapIndex(k, fv.MapIndex(k))
					}
				}
			}
			fv.Set(old)
			log = append(log, "add-entries "+where)
		default:
			// regenerate
			if f.Choices != nil && fv.IsZero() {
				continue // would need the choice bookkeeping of the parent
			}
			if f.Kind == KLeaf && f.LeafrefPath != "" {
				continue
			}
			fv.Set(reflect.Zero(fv.Type()))
			g.setField(sv, f, n.Path, len(n.Path))
			log = append(log, "regen "+where)
		}
	}
	// deferred leafref work is dropped: mutated trees need not satisfy leafrefs
	g.deferred = nil
	return log
}

// rebuildOrdered replaces the contents of an ordered map by f(values).
func (g *Gen) rebuildOrdered(fv reflect.Value, f func([]reflect.Value) []reflect.Value) {
	vals := f(OrderedValues(fv))
	if len(vals) == 0 {
		fv.Set(reflect.Zero(fv.Type()))
		return
	}
	nm := reflect.New(fv.Type().Elem())
	for _, v := range vals {
		nm.MethodByName("Append").Call([]reflect.Value{v})
	}
	fv.Set(nm)
}
