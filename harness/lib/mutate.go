package lib

import (
	"reflect"
	"strconv"
	"strings"

	"github.com/openconfig/ygot/ygot"
)

// Mutate applies k random edits to a tree in place and returns a description of
// each.  Edits: clear a field, regenerate a field (leaf value change, union
// member change, list replaced), add or remove one list entry, permute an
// ordered list.  Key leaves are never touched.
func (g *Gen) Mutate(root ygot.GoStruct, k int) []string {
	g.root = reflect.ValueOf(root)
	if g.enumMap == nil {
		g.enumMap = enumTypeMap(root)
	}
	var log []string
	for e := 0; e < k; e++ {
		nodes := g.C.Nodes(root)
		n := nodes[g.Rng.Intn(len(nodes))]
		if n.Keyless && !g.Opt.Unkeyed {
			continue
		}
		si := n.Info
		if len(si.Fields) == 0 {
			continue
		}
		keyIdx := map[int]bool{}
		if n.IsEntry {
			for _, kf := range si.KeyFields() {
				if kf != nil {
					keyIdx[kf.Idx] = true
				}
			}
		}
		f := si.Fields[g.Rng.Intn(len(si.Fields))]
		if keyIdx[f.Idx] {
			continue
		}
		sv := n.V.Elem()
		fv := sv.Field(f.Idx)
		where := PathString(extend(n.Path, f.Path))
		op := g.Rng.Intn(10)
		switch g.MutOps {
		case "clear":
			op = 0
		case "regen":
			op = 9
		case "clear+regen":
			if op >= 3 {
				op = 9
			}
		}
		switch {
		case op < 3:
			if !fv.IsZero() {
				fv.Set(reflect.Zero(fv.Type()))
				log = append(log, "clear "+where)
			}
		case op < 5 && (f.Kind == KList || f.Kind == KOrdered) && !fv.IsNil():
			// remove one entry
			if f.Kind == KList {
				ks := SortedMapKeys(fv)
				if len(ks) > 0 {
					fv.SetMapIndex(ks[g.Rng.Intn(len(ks))], reflect.Value{})
					if fv.Len() == 0 {
						fv.Set(reflect.Zero(fv.Type()))
					}
					log = append(log, "remove-entry "+where)
				}
			} else {
				keys := OrderedKeys(fv)
				if len(keys) > 0 {
					g.rebuildOrdered(fv, func(vals []reflect.Value) []reflect.Value {
						i := g.Rng.Intn(len(vals))
						return append(append([]reflect.Value{}, vals[:i]...), vals[i+1:]...)
					})
					log = append(log, "remove-entry "+where)
				}
			}
		case op < 7 && f.Kind == KOrdered && !fv.IsNil():
			g.rebuildOrdered(fv, func(vals []reflect.Value) []reflect.Value {
				out := make([]reflect.Value, len(vals))
				for i, j := range g.Rng.Perm(len(vals)) {
					out[i] = vals[j]
				}
				return out
			})
			log = append(log, "permute "+where)
		case op < 7 && f.Kind == KLeafList && fv.Len() > 0:
			g.leafListPartial(sv, f, n.Path)
			log = append(log, "leaflist-partial "+where)
		case op < 7 && (f.Kind == KList) && !fv.IsNil():
			// add entries: generate a fresh list and merge new keys in
			old := reflect.MakeMap(fv.Type())
			for _, k := range fv.MapKeys() {
				old.SetMapIndex(k, fv.MapIndex(k))
			}
			fv.Set(reflect.Zero(fv.Type()))
			// keys are compared by value: wrapper-union keys are pointers, and two map entries for
			// one YANG key is not a tree any data source could have produced
			keyText := func(e reflect.Value) string {
				var parts []string
				for _, kf := range g.C.Info(f.Elem).KeyFields() {
					if kf != nil {
						c, _ := CanonScalar(e.Elem().Field(kf.Idx), true)
						parts = append(parts, c)
					}
				}
				return strings.Join(parts, "\x00")
			}
			have := map[string]bool{}
			for _, k := range old.MapKeys() {
				have[keyText(old.MapIndex(k))] = true
			}
			if g.setField(sv, f, n.Path, len(n.Path)) && !fv.IsNil() {
				for _, k := range fv.MapKeys() {
					if kt := keyText(fv.MapIndex(k)); !old.MapIndex(k).IsValid() && !have[kt] {
						have[kt] = true
						old.SetMapIndex(k, fv.MapIndex(k))
					}
				}
			}
			fv.Set(old)
			log = append(log, "add-entries "+where)
		default:
			// regenerate
			if f.Choices != nil && fv.IsZero() {
				continue // would need the choice bookkeeping of the parent
			}
			if f.Kind == KLeaf && f.LeafrefPath != "" {
				continue
			}
			if f.Kind == KLeaf && fv.Kind() == reflect.Interface && !fv.IsNil() && g.coin(0.5) && g.unionTwin(sv, f, fv) {
				log = append(log, "union-member-twin "+where)
				g.Tags["union-member-twin"]++
				continue
			}
			fv.Set(reflect.Zero(fv.Type()))
			g.setField(sv, f, n.Path, len(n.Path))
			log = append(log, "regen "+where)
		}
	}
	// deferred leafref work is dropped: mutated trees need not satisfy leafrefs
	g.deferred = nil
	return log
}

// leafListPartial replaces a non-empty leaf-list by some of its old elements
// followed by fresh ones (a partial overlap with the old value).
func (g *Gen) leafListPartial(sv reflect.Value, f *FieldInfo, path []PathElem) {
	fv := sv.Field(f.Idx)
	old := fv
	keep := 1 + g.Rng.Intn(old.Len())
	out := reflect.MakeSlice(fv.Type(), 0, old.Len()+2)
	seen := map[string]bool{}
	for _, j := range g.Rng.Perm(old.Len())[:keep] {
		c, _ := CanonScalar(old.Index(j), false)
		seen[c] = true
		out = reflect.Append(out, old.Index(j))
	}
	fresh := reflect.New(sv.Type()).Elem()
	if g.setField(fresh, f, path, len(path)) {
		nf := fresh.Field(f.Idx)
		for j := 0; j < nf.Len(); j++ {
			c, _ := CanonScalar(nf.Index(j), false)
			if !seen[c] {
				seen[c] = true
				out = reflect.Append(out, nf.Index(j))
			}
		}
	}
	if la := f.Entry.ListAttr; la != nil && BoundedMax(la) && out.Len() > int(la.MaxElements) {
		out = out.Slice(0, int(la.MaxElements))
	}
	fv.Set(out)
}

// LeafListOverlaps applies leafListPartial to each non-empty leaf-list of the
// tree with probability p and returns the number of lists changed.
func (g *Gen) LeafListOverlaps(root ygot.GoStruct, p float64) int {
	g.root = reflect.ValueOf(root)
	if g.enumMap == nil {
		g.enumMap = enumTypeMap(root)
	}
	n := 0
	for _, nd := range g.C.Nodes(root) {
		if nd.Keyless && !g.Opt.Unkeyed {
			continue
		}
		sv := nd.V.Elem()
		for _, f := range nd.Info.Fields {
			if f.Kind == KLeafList && f.LeafrefPath == "" && sv.Field(f.Idx).Len() > 0 && g.coin(p) {
				g.leafListPartial(sv, f, nd.Path)
				n++
			}
		}
	}
	g.deferred = nil
	return n
}

// rebuildOrdered replaces the contents of an ordered map by f(values).
func (g *Gen) rebuildOrdered(fv reflect.Value, f func([]reflect.Value) []reflect.Value) {
	vals := f(OrderedValues(fv))
	if len(vals) == 0 {
		fv.Set(reflect.Zero(fv.Type()))
		return
	}
	nm := reflect.New(fv.Type().Elem())
	for _, v := range vals {
		nm.MethodByName("Append").Call([]reflect.Value{v})
	}
	fv.Set(nm)
}

// unionTwin replaces the value of a union leaf by the value of ANOTHER member that has the same Go
// kind and the same raw number: enumeration value number n <-> the integer n (different YANG values).
func (g *Gen) unionTwin(sv reflect.Value, f *FieldInfo, fv reflect.Value) bool {
	cur := fv.Elem()
	for cur.Kind() == reflect.Ptr || cur.Kind() == reflect.Struct {
		if cur.Kind() == reflect.Ptr {
			if cur.IsNil() {
				return false
			}
			cur = cur.Elem()
		} else {
			if cur.NumField() != 1 {
				return false
			}
			cur = cur.Field(0)
		}
	}
	if cur.Kind() != reflect.Int64 {
		return false
	}
	num := cur.Int()
	canon := ""
	if cur.Type().Implements(goEnumT) {
		canon = "int64:" + strconv.FormatInt(num, 10)
	} else {
		var cands []reflect.Type
		cands = append(cands, g.enumMap["/"+strings.Join(DataPath(f.Entry), "/")]...)
		cands = append(cands, g.enumMap[f.Entry.Path()]...)
		for _, et := range cands {
			if name, ok := EnumDefs(et)[num]; ok {
				canon = "enum:" + name
			}
		}
	}
	if canon == "" {
		return false
	}
	uv, ok := g.unionFromCanon(sv, f, fv.Type(), canon)
	if !ok {
		return false
	}
	fv.Set(uv)
	return true
}

// PermuteOrdered reorders the entries of one ordered-by-user list of the tree (nothing else
// changes) and returns its path, or "" when no such list holds two entries.
func (g *Gen) PermuteOrdered(root ygot.GoStruct) string {
	type site struct {
		fv    reflect.Value
		where string
	}
	var sites []site
	for _, n := range g.C.Nodes(root) {
		if n.Keyless {
			continue
		}
		for _, f := range n.Info.Fields {
			fv := n.V.Elem().Field(f.Idx)
			if f.Kind == KOrdered && !fv.IsNil() && len(OrderedValues(fv)) >= 2 {
				sites = append(sites, site{fv, PathString(extend(n.Path, f.Path))})
			}
		}
	}
	if len(sites) == 0 {
		return ""
	}
	s := sites[g.Rng.Intn(len(sites))]
	g.rebuildOrdered(s.fv, func(vals []reflect.Value) []reflect.Value {
		out := append([]reflect.Value{}, vals...)
		// a rotation always changes the order of >= 2 entries
		return append(out[1:], out[0])
	})
	return s.where
}
