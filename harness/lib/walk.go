package lib

import (
	"encoding/base64"
	"fmt"
	"math/big"
	"reflect"
	"sort"
	"strconv"
	"strings"

	gpb "github.com/openconfig/gnmi/proto/gnmi"
	"github.com/openconfig/goyang/pkg/yang"
	"github.com/openconfig/ygot/ygot"
)

// Node is a struct node of a tree with its canonical data-tree path.
type Node struct {
	V        reflect.Value // pointer to struct
	Path     []PathElem
	Info     *StructInfo
	Field    *FieldInfo // field of the parent that holds this node (nil for root)
	Parent   *Node
	IsEntry  bool     // list entry (keyed, ordered or unkeyed)
	KeyPaths []string // canonical paths of the key leaves of every list entry on the way (incl. this one)
	Keyless  bool     // this node or an ancestor is an unkeyed-list entry
}

// Nodes lists every struct node of the tree in deterministic order.
func (c *Cfg) Nodes(root ygot.GoStruct) []*Node {
	var out []*Node
	rn := &Node{V: reflect.ValueOf(root), Info: c.Info(reflect.TypeOf(root))}
	out = append(out, rn)
	c.walkNodes(rn, &out)
	return out
}

func (c *Cfg) walkNodes(n *Node, out *[]*Node) {
	sv := n.V.Elem()
	for _, f := range n.Info.Fields {
		fv := sv.Field(f.Idx)
		mk := func(ent reflect.Value, p []PathElem, isEntry, keyless bool) {
			ch := &Node{V: ent, Path: p, Info: c.Info(ent.Type()), Field: f, Parent: n, IsEntry: isEntry, KeyPaths: n.KeyPaths, Keyless: n.Keyless || keyless}
			if isEntry && !keyless {
				kp := append([]string(nil), n.KeyPaths...)
				for _, kf := range ch.Info.KeyFields() {
					if kf != nil {
						kp = append(kp, PathString(extend(p, kf.Path)))
					}
				}
				ch.KeyPaths = kp
			}
			*out = append(*out, ch)
			c.walkNodes(ch, out)
		}
		switch f.Kind {
		case KContainer:
			if !fv.IsNil() {
				mk(fv, extend(n.Path, f.Path), false, false)
			}
		case KList:
			for _, k := range SortedMapKeys(fv) {
				ent := fv.MapIndex(k)
				if ent.IsNil() {
					continue
				}
				p := extend(n.Path, f.Path)
				p[len(p)-1].Keys = c.EntryKeys(ent)
				mk(ent, p, true, false)
			}
		case KOrdered:
			for _, ent := range OrderedValues(fv) {
				if ent.IsNil() {
					continue
				}
				p := extend(n.Path, f.Path)
				p[len(p)-1].Keys = c.EntryKeys(ent)
				mk(ent, p, true, false)
			}
		case KUnkeyed:
			for i := 0; i < fv.Len(); i++ {
				ent := fv.Index(i)
				if ent.IsNil() {
					continue
				}
				p := extend(n.Path, f.Path)
				p[len(p)-1].Pos = i
				mk(ent, p, true, true)
			}
		}
	}
}

// KeyLex renders a canonical key value as the lexical string a gNMI path key
// carries (harness formatter, independent of ygot.KeyValueAsString).
func KeyLex(canon string) string { return LexForm(canon) }

// ToGNMIPath converts canonical elements to a gNMI path.
func ToGNMIPath(elems []PathElem) *gpb.Path {
	p := &gpb.Path{}
	for _, e := range elems {
		pe := &gpb.PathElem{Name: e.Name}
		if len(e.Keys) > 0 {
			pe.Key = map[string]string{}
			for k, v := range e.Keys {
				pe.Key[k] = KeyLex(v)
			}
		}
		p.Elem = append(p.Elem, pe)
	}
	return p
}

// ParseLexByType parses a lexical value (a gNMI key string) for a resolved YANG
// type into canonical kind-tagged form.
func ParseLexByType(t *yang.YangType, s string) (string, error) {
	switch t.Kind {
	case yang.Yint8, yang.Yint16, yang.Yint32, yang.Yint64, yang.Yuint8, yang.Yuint16, yang.Yuint32, yang.Yuint64:
		if !isStrictInt(s) {
			return "", fmt.Errorf("%q is not a canonical integer", s)
		}
		v, _ := new(big.Int).SetString(s, 10)
		lo, hi := typeBounds(t.Kind)
		if v.Cmp(lo) < 0 || v.Cmp(hi) > 0 {
			return "", fmt.Errorf("%q out of range for %s", s, t.Kind)
		}
		return goKindForYang(t.Kind).String() + ":" + v.String(), nil
	case yang.Ystring:
		return "string:" + s, nil
	case yang.Ybool:
		if s != "true" && s != "false" {
			return "", fmt.Errorf("%q is not a boolean", s)
		}
		return "bool:" + s, nil
	case yang.Ydecimal64:
		f, err := strconv.ParseFloat(s, 64)
		if err != nil {
			return "", err
		}
		return "float64:" + strconv.FormatFloat(f, 'g', -1, 64), nil
	case yang.Yenum:
		if t.Enum == nil {
			return "", fmt.Errorf("enum without values")
		}
		if _, ok := t.Enum.ToInt[s]; !ok {
			return "", fmt.Errorf("%q is not an enum name", s)
		}
		return "enum:" + s, nil
	case yang.Yidentityref:
		n := stripPrefix(s)
		if t.IdentityBase != nil {
			for _, v := range t.IdentityBase.Values {
				if v.Name == n {
					return "enum:" + n, nil
				}
			}
		}
		return "", fmt.Errorf("%q is not an identity of the base", s)
	case yang.Ybinary:
		b, err := base64.StdEncoding.DecodeString(s)
		if err != nil {
			return "", err
		}
		return "bin:" + fmt.Sprintf("%x", b), nil
	case yang.Yunion:
		ms := FlattenUnion(t)
		// enum-like members first, then schema order
		for pass := 0; pass < 2; pass++ {
			for _, m := range ms {
				if (pass == 0) != isEnumKind(m.Kind) {
					continue
				}
				if m.Kind == yang.Yleafref || m.Kind == yang.Yempty {
					continue
				}
				if cv, err := ParseLexByType(m, s); err == nil {
					return cv, nil
				}
			}
		}
		return "", fmt.Errorf("%q fits no union member", s)
	}
	return "", fmt.Errorf("unsupported key type %s", t.Kind)
}

func isStrictInt(s string) bool {
	if s == "" {
		return false
	}
	i := 0
	if s[0] == '-' {
		i = 1
	}
	if i == len(s) {
		return false
	}
	if s[i] == '0' && len(s) > i+1 {
		return false
	}
	for ; i < len(s); i++ {
		if s[i] < '0' || s[i] > '9' {
			return false
		}
	}
	return s != "-0"
}

// CanonGNMIPath converts a gNMI PathElem path into canonical elements by
// walking the schema and parsing key strings by the key leaves' types.
// Wildcard or missing keys are an error.
func (c *Cfg) CanonGNMIPath(p *gpb.Path) ([]PathElem, error) {
	cur := c.RootEntry()
	var out []PathElem
	for _, pe := range p.GetElem() {
		nxt, _ := FindChild(cur, pe.Name)
		if nxt == nil {
			return nil, fmt.Errorf("no schema node %q under %s", pe.Name, cur.Path())
		}
		e := PathElem{Name: pe.Name, Pos: -1}
		if nxt.IsList() && nxt.Key != "" {
			if len(pe.Key) > 0 {
				e.Keys = map[string]string{}
				for _, k := range strings.Fields(nxt.Key) {
					ks, ok := pe.Key[k]
					if !ok {
						return nil, fmt.Errorf("missing key %q at %s", k, pe.Name)
					}
					kl, _ := FindChild(nxt, k)
					if kl == nil {
						return nil, fmt.Errorf("no key leaf %q", k)
					}
					yt, _, err := ResolveType(kl)
					if err != nil {
						return nil, err
					}
					cv, err := ParseLexByType(yt, ks)
					if err != nil {
						return nil, fmt.Errorf("key %s of %s: %v", k, pe.Name, err)
					}
					e.Keys[k] = cv
				}
				if len(pe.Key) != len(e.Keys) {
					return nil, fmt.Errorf("unexpected keys at %s: %v", pe.Name, pe.Key)
				}
			}
		} else if len(pe.Key) > 0 {
			return nil, fmt.Errorf("keys on non-list %s", pe.Name)
		}
		out = append(out, e)
		cur = nxt
	}
	return out, nil
}

// CanonGNMIPathString is CanonGNMIPath + PathString over prefix+path.
func (c *Cfg) CanonGNMIPathString(prefix, p *gpb.Path) (string, error) {
	full := &gpb.Path{}
	full.Elem = append(full.Elem, prefix.GetElem()...)
	full.Elem = append(full.Elem, p.GetElem()...)
	el, err := c.CanonGNMIPath(full)
	if err != nil {
		return "", err
	}
	return PathString(el), nil
}

// SchemaEntryAt returns the schema node of a data-tree path (names only).
func (c *Cfg) SchemaEntryAt(names []string) *yang.Entry {
	cur := c.RootEntry()
	for _, n := range names {
		nxt, _ := FindChild(cur, n)
		if nxt == nil {
			return nil
		}
		cur = nxt
	}
	return cur
}

// GNMIPathString renders a gNMI path for messages (not canonical).
func GNMIPathString(p *gpb.Path) string {
	var b strings.Builder
	for _, e := range p.GetElem() {
		b.WriteString("/" + e.Name)
		ks := make([]string, 0, len(e.Key))
		for k := range e.Key {
			ks = append(ks, k)
		}
		sort.Strings(ks)
		for _, k := range ks {
			fmt.Fprintf(&b, "[%s=%q]", k, e.Key[k])
		}
	}
	if b.Len() == 0 {
		return "/"
	}
	return b.String()
}
