// Package lib holds the shared machinery of the runtime monitors: configuration
// registry, independent schema resolution, tree generator, observer and reporting.
//
// Nothing in here calls ygot's util/ytypes helpers to interpret struct tags or walk
// trees: those helpers are code under test.
package lib

import (
	"fmt"
	"reflect"
	"sort"
	"sync"

	"github.com/openconfig/goyang/pkg/yang"
	"github.com/openconfig/ygot/ygot"
	"github.com/openconfig/ygot/ytypes"
)

// Cfg is one (schema, flag set) configuration: a generated package linked into the
// harness binary.
type Cfg struct {
	Name       string // e.g. "vt/U-simple"
	SchemaFn   func() (*ytypes.Schema, error)
	Compressed bool
	Wrapper    bool
	OpState    bool
	Shadow     bool // generated with ignore_shadow_schema_paths
	Simplify   bool // path structs generated with simplify_wildcard_paths (all-wildcard key sets are omitted)
	YangFiles  []string
	YangPath   string
	// PathRoot returns the root path struct when the package was generated with
	// path structs.
	PathRoot func() interface{}

	once     sync.Once
	base     *ytypes.Schema
	rootType reflect.Type // pointer type
	infoMu   sync.Mutex
	infos    map[reflect.Type]*StructInfo
}

var registry = map[string]*Cfg{}

// Register adds a configuration to the registry (called from generated shims).
func Register(c *Cfg) { registry[c.Name] = c }

// Get returns a registered configuration or panics.
func Get(name string) *Cfg {
	c, ok := registry[name]
	if !ok {
		panic("unknown cfg " + name)
	}
	return c
}

// Names returns the registered configuration names, sorted.
func Names() []string {
	var out []string
	for n := range registry {
		out = append(out, n)
	}
	sort.Strings(out)
	return out
}

func (c *Cfg) init() {
	c.once.Do(func() {
		s, err := c.SchemaFn()
		if err != nil {
			panic(fmt.Sprintf("cfg %s: Schema(): %v", c.Name, err))
		}
		c.base = s
		c.rootType = reflect.TypeOf(s.Root)
		c.infos = map[reflect.Type]*StructInfo{}
	})
}

// NewRoot returns a fresh empty root struct.
func (c *Cfg) NewRoot() ygot.GoStruct {
	c.init()
	return reflect.New(c.rootType.Elem()).Interface().(ygot.GoStruct)
}

// Tree returns the (shared, read-only) schema tree keyed by struct name.
func (c *Cfg) Tree() map[string]*yang.Entry {
	c.init()
	return c.base.SchemaTree
}

// RootEntry is the schema entry of the fake root.
func (c *Cfg) RootEntry() *yang.Entry {
	c.init()
	return c.base.SchemaTree[c.rootType.Elem().Name()]
}

// RootSchemaName is the struct name of the root.
func (c *Cfg) RootName() string { c.init(); return c.rootType.Elem().Name() }

// Schema returns a ytypes.Schema with a fresh root sharing the schema tree.
func (c *Cfg) Schema() *ytypes.Schema {
	c.init()
	return &ytypes.Schema{Root: c.NewRoot(), SchemaTree: c.base.SchemaTree, Unmarshal: c.base.Unmarshal}
}

// SchemaWith returns a ytypes.Schema around an existing root.
func (c *Cfg) SchemaWith(root ygot.GoStruct) *ytypes.Schema {
	c.init()
	return &ytypes.Schema{Root: root, SchemaTree: c.base.SchemaTree, Unmarshal: c.base.Unmarshal}
}

// FreshSchema calls the generated Schema() function (unzips again): nothing shared.
func (c *Cfg) FreshSchema() *ytypes.Schema {
	s, err := c.SchemaFn()
	if err != nil {
		panic(err)
	}
	return s
}

// UnmarshalJSON runs the generated package's Unmarshal on JSON bytes.
func (c *Cfg) UnmarshalJSON(data []byte, dst ygot.GoStruct, opts ...ytypes.UnmarshalOpt) error {
	c.init()
	return c.base.Unmarshal(data, dst, opts...)
}

// UnmarshalValue runs ytypes.Unmarshal with an already decoded JSON value.
func (c *Cfg) UnmarshalValue(tree interface{}, dst ygot.GoStruct, opts ...ytypes.UnmarshalOpt) error {
	c.init()
	e, ok := c.base.SchemaTree[reflect.TypeOf(dst).Elem().Name()]
	if !ok {
		return fmt.Errorf("no schema for %T", dst)
	}
	return ytypes.Unmarshal(e, dst, tree, opts...)
}
