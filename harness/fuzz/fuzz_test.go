// Package fuzz holds the coverage-guided workload of C20 (thorough tier): one
// native Go fuzz target that dispatches to every C20 entry point and
// configuration.  The seed corpus is the structure-aware corpus of the seeded
// mutator (mon.C20Collect).  A panic is not allowed to stop the fuzzer: it is
// recorded (signature + input) in $VERIF_FUZZ_CRASHLOG and fuzzing goes on, the
// monitor turns the records into violations.
package fuzz

import (
	"encoding/hex"
	"encoding/json"
	"fmt"
	"os"
	"runtime/debug"
	"strconv"
	"sync"
	"testing"

	_ "github.com/openconfig/ygot/zzverif/cfgs"
	"github.com/openconfig/ygot/zzverif/lib"
	"github.com/openconfig/ygot/zzverif/mon"
)

var crashMu sync.Mutex

func record(target, cfg string, data []byte, p interface{}, stack string) {
	path := os.Getenv("VERIF_FUZZ_CRASHLOG")
	if path == "" {
		return
	}
	crashMu.Lock()
	defer crashMu.Unlock()
	f, err := os.OpenFile(path, os.O_APPEND|os.O_CREATE|os.O_WRONLY, 0o644)
	if err != nil {
		return
	}
	defer f.Close()
	d := data
	if len(d) > 4000 {
		d = d[:4000]
	}
	b, _ := json.Marshal(map[string]string{"target": target, "cfg": cfg, "panic": fmt.Sprint(p), "frame": lib.PanicFrame(stack), "input_hex": hex.EncodeToString(d)})
	f.Write(append(b, '\n'))
}

func FuzzC20(f *testing.F) {
	targets := mon.FuzzTargets()
	names := []string{"vt/U-simple", "vt/U-wrapper", "vtoc/C-simple"}
	var cfgs []*lib.Cfg
	for _, n := range names {
		cfgs = append(cfgs, lib.Get(n))
	}
	tindex := map[string]int{}
	for i, t := range targets {
		tindex[t.Name] = i
	}
	// seed corpus: every k-th input of the seeded mutator
	seed, _ := strconv.ParseInt(os.Getenv("VERIF_SEED"), 10, 64)
	if seed == 0 {
		seed = 1
	}
	every, _ := strconv.Atoi(os.Getenv("VERIF_FUZZ_SEED_EVERY"))
	if every <= 0 {
		every = 12
	}
	n := 0
	for ci, cfg := range cfgs {
		ci := ci
		mon.C20Collect(cfg, seed, 40, func(target string, data []byte) {
			n++
			if n%every == 0 && len(data) < 1<<16 {
				f.Add(uint8(tindex[target]), uint8(ci), data)
			}
		})
	}
	f.Fuzz(func(t *testing.T, ti, ci uint8, data []byte) {
		tg := targets[int(ti)%len(targets)]
		cfg := cfgs[int(ci)%len(cfgs)]
		defer func() {
			if p := recover(); p != nil {
				record(tg.Name, cfg.Name, data, p, string(debug.Stack()))
			}
		}()
		tg.Run(cfg, data)
	})
}
