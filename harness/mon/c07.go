package mon

import (
	"fmt"
	"math/big"
	"math/rand"
	"reflect"
	"strings"

	"github.com/openconfig/goyang/pkg/yang"
	"github.com/openconfig/ygot/ygot"
	"github.com/openconfig/ygot/ytypes"
	"github.com/openconfig/ygot/zzverif/lib"
)

func init() { Monitors["C07"] = runC07 }

type validator interface {
	Validate(...ygot.ValidationOption) error
}

func validateNoLeafref(t ygot.GoStruct) error {
	return t.(validator).Validate(&ytypes.LeafrefOptions{IgnoreMissingData: true})
}

func c07Opts(i int) lib.GenOpts {
	opt := lib.DefaultGen()
	opt.Unkeyed = i%3 == 0
	opt.OrderedSiblings = true
	opt.Density = 0.65
	return opt
}

// fault injects one targeted fault into a valid tree and returns a class name,
// or "" when the tree offers no site for it.
type fault struct {
	name string
	f    func(cfg *lib.Cfg, t ygot.GoStruct, rng *rand.Rand) string
}

// leafSites lists (node, field) pairs of set leaves/leaf-lists satisfying pred.
type site struct {
	n *lib.Node
	f *lib.FieldInfo
	v reflect.Value
}

func sites(cfg *lib.Cfg, t ygot.GoStruct, pred func(*lib.Node, *lib.FieldInfo, reflect.Value) bool) []site {
	var out []site
	for _, n := range cfg.Nodes(t) {
		for _, f := range n.Info.Fields {
			fv := n.V.Elem().Field(f.Idx)
			if pred(n, f, fv) {
				out = append(out, site{n, f, fv})
			}
		}
	}
	return out
}

func isKeyField(n *lib.Node, f *lib.FieldInfo) bool {
	if !n.IsEntry {
		return false
	}
	for _, kf := range n.Info.KeyFields() {
		if kf == f {
			return true
		}
	}
	return false
}

func isSet(v reflect.Value) bool {
	switch v.Kind() {
	case reflect.Ptr, reflect.Slice, reflect.Map, reflect.Interface:
		return !v.IsNil()
	}
	return !v.IsZero()
}

// outOfRange finds a scaled integer outside every range part but inside the
// base type.
func outOfRange(t *yang.YangType) (*big.Int, bool) {
	if len(t.Range) == 0 {
		return nil, false
	}
	fd := 0
	if t.Kind == yang.Ydecimal64 {
		fd = t.FractionDigits
	}
	_ = fd
	cands := []*big.Int{}
	for _, r := range t.Range {
		lo, hi := numBig(r.Min, t), numBig(r.Max, t)
		cands = append(cands, new(big.Int).Sub(lo, big.NewInt(1)), new(big.Int).Add(hi, big.NewInt(1)))
	}
	blo, bhi := baseBounds(t.Kind)
	for _, c := range cands {
		if c.Cmp(blo) >= 0 && c.Cmp(bhi) <= 0 && !lib.InRanges(t, c) {
			return c, true
		}
	}
	return nil, false
}

func numBig(n yang.Number, t *yang.YangType) *big.Int {
	v := new(big.Int).SetUint64(n.Value)
	fd := 0
	if t.Kind == yang.Ydecimal64 {
		fd = t.FractionDigits
	}
	for d := fd - int(n.FractionDigits); d > 0; d-- {
		v.Mul(v, big.NewInt(10))
	}
	if n.Negative {
		v.Neg(v)
	}
	return v
}

func baseBounds(k yang.TypeKind) (*big.Int, *big.Int) {
	switch k {
	case yang.Yint8:
		return big.NewInt(-128), big.NewInt(127)
	case yang.Yint16:
		return big.NewInt(-32768), big.NewInt(32767)
	case yang.Yint32:
		return big.NewInt(-1 << 31), big.NewInt(1<<31 - 1)
	case yang.Yuint8:
		return big.NewInt(0), big.NewInt(255)
	case yang.Yuint16:
		return big.NewInt(0), big.NewInt(65535)
	case yang.Yuint32:
		return big.NewInt(0), big.NewInt(1<<32 - 1)
	case yang.Yuint64:
		return big.NewInt(0), new(big.Int).SetUint64(^uint64(0))
	}
	return big.NewInt(-1 << 62), big.NewInt(1 << 62)
}

func pick(rng *rand.Rand, s []site) (site, bool) {
	if len(s) == 0 {
		return site{}, false
	}
	return s[rng.Intn(len(s))], true
}

func c07Faults() []fault {
	scalarPtr := func(v reflect.Value) bool { return v.Kind() == reflect.Ptr && v.Elem().Kind() != reflect.Struct }
	return []fault{
		{"range:int", func(cfg *lib.Cfg, t ygot.GoStruct, rng *rand.Rand) string {
			s, ok := pick(rng, sites(cfg, t, func(n *lib.Node, f *lib.FieldInfo, v reflect.Value) bool {
				if f.Kind != lib.KLeaf || !isSet(v) || !scalarPtr(v) || isKeyField(n, f) || f.YType.Kind == yang.Ydecimal64 {
					return false
				}
				_, ok := outOfRange(f.YType)
				return ok && v.Elem().Kind() != reflect.Float64 && v.Elem().Kind() != reflect.String
			}))
			if !ok {
				return ""
			}
			bad, _ := outOfRange(s.f.YType)
			e := s.v.Elem()
			if e.Kind() >= reflect.Int && e.Kind() <= reflect.Int64 {
				e.SetInt(bad.Int64())
			} else {
				e.SetUint(bad.Uint64())
			}
			return "range:" + s.f.YType.Kind.String()
		}},
		{"range:decimal64", func(cfg *lib.Cfg, t ygot.GoStruct, rng *rand.Rand) string {
			s, ok := pick(rng, sites(cfg, t, func(n *lib.Node, f *lib.FieldInfo, v reflect.Value) bool {
				if f.Kind != lib.KLeaf || !isSet(v) || !scalarPtr(v) || f.YType.Kind != yang.Ydecimal64 || isKeyField(n, f) {
					return false
				}
				_, ok := outOfRange(f.YType)
				return ok
			}))
			if !ok {
				return ""
			}
			bad, _ := outOfRange(s.f.YType)
			// one unit in the last place outside the range
			fl, _ := new(big.Float).SetString(lib.ScaledToDecimalString(bad, s.f.YType.FractionDigits))
			x, _ := fl.Float64()
			s.v.Elem().SetFloat(x)
			return "range:decimal64"
		}},
		{"range:decimal64:sub-quantum", func(cfg *lib.Cfg, t ygot.GoStruct, rng *rand.Rand) string {
			// a float64 between the range bound and the next member of the
			// type outside it (0.1-0.4 quantum beyond the bound): outside the
			// range, so outside the value space
			s, ok := pick(rng, sites(cfg, t, func(n *lib.Node, f *lib.FieldInfo, v reflect.Value) bool {
				if f.Kind != lib.KLeaf || !isSet(v) || !scalarPtr(v) || f.YType.Kind != yang.Ydecimal64 || isKeyField(n, f) || f.YType.FractionDigits >= 15 {
					return false
				}
				_, ok := outOfRange(f.YType)
				return ok
			}))
			if !ok {
				return ""
			}
			bad, _ := outOfRange(s.f.YType)
			d := big.NewInt(1 + rng.Int63n(4))
			var v10 *big.Int
			if lib.InRanges(s.f.YType, new(big.Int).Sub(bad, big.NewInt(1))) {
				v10 = new(big.Int).Add(new(big.Int).Mul(new(big.Int).Sub(bad, big.NewInt(1)), big.NewInt(10)), d)
			} else {
				v10 = new(big.Int).Sub(new(big.Int).Mul(new(big.Int).Add(bad, big.NewInt(1)), big.NewInt(10)), d)
			}
			if len(strings.Trim(new(big.Int).Abs(v10).String(), "0")) > 12 {
				return ""
			}
			fl, _ := new(big.Float).SetString(lib.ScaledToDecimalString(v10, s.f.YType.FractionDigits+1))
			x, _ := fl.Float64()
			s.v.Elem().SetFloat(x)
			return "range:decimal64:sub-quantum-outside"
		}},
		{"length:string", func(cfg *lib.Cfg, t ygot.GoStruct, rng *rand.Rand) string {
			s, ok := pick(rng, sites(cfg, t, func(n *lib.Node, f *lib.FieldInfo, v reflect.Value) bool {
				return f.Kind == lib.KLeaf && isSet(v) && scalarPtr(v) && f.YType.Kind == yang.Ystring && len(f.YType.Length) > 0 && !isKeyField(n, f)
			}))
			if !ok {
				return ""
			}
			// a string that satisfies the patterns but not the length: repeat a member character
			// lengths count characters, not bytes: multi-byte candidates whose byte length may well be
			// inside a range while their character count is not
			cands := []string{"aaaaaaa", "aaaaaaaaaaaaaaaaaaaaaa", ""}
			for k := 1; k <= 8; k++ {
				cands = append(cands, strings.Repeat("é", k), strings.Repeat("日", k))
			}
			rng.Shuffle(len(cands), func(i, j int) { cands[i], cands[j] = cands[j], cands[i] })
			for _, cand := range cands {
				lenOK := lib.StringInType(&yang.YangType{Kind: yang.Ystring, Length: s.f.YType.Length}, cand)
				patOK := lib.StringInType(&yang.YangType{Kind: yang.Ystring, Pattern: s.f.YType.Pattern}, cand)
				if !lenOK && patOK {
					s.v.Elem().SetString(cand)
					if len(cand) != len([]rune(cand)) {
						return "length:string:multi-byte"
					}
					return "length:string"
				}
			}
			return ""
		}},
		{"pattern:string", func(cfg *lib.Cfg, t ygot.GoStruct, rng *rand.Rand) string {
			s, ok := pick(rng, sites(cfg, t, func(n *lib.Node, f *lib.FieldInfo, v reflect.Value) bool {
				return f.Kind == lib.KLeaf && isSet(v) && scalarPtr(v) && f.YType.Kind == yang.Ystring && len(f.YType.Pattern) > 0 && !isKeyField(n, f)
			}))
			if !ok {
				return ""
			}
			for _, cand := range []string{"AB", "a1", "%", "Z"} {
				lenOK := lib.StringInType(&yang.YangType{Kind: yang.Ystring, Length: s.f.YType.Length}, cand)
				patOK := lib.StringInType(&yang.YangType{Kind: yang.Ystring, Pattern: s.f.YType.Pattern}, cand)
				if lenOK && !patOK {
					s.v.Elem().SetString(cand)
					return "pattern:string"
				}
			}
			return ""
		}},
		{"length:binary", func(cfg *lib.Cfg, t ygot.GoStruct, rng *rand.Rand) string {
			s, ok := pick(rng, sites(cfg, t, func(n *lib.Node, f *lib.FieldInfo, v reflect.Value) bool {
				return f.Kind == lib.KLeaf && isSet(v) && v.Kind() == reflect.Slice && f.YType.Kind == yang.Ybinary && len(f.YType.Length) > 0
			}))
			if !ok {
				return ""
			}
			max := uint64(0)
			for _, p := range s.f.YType.Length {
				if p.Max.Value > max {
					max = p.Max.Value
				}
			}
			s.v.SetBytes(make([]byte, max+1))
			return "length:binary"
		}},
		{"enum-undefined:leaf", func(cfg *lib.Cfg, t ygot.GoStruct, rng *rand.Rand) string {
			s, ok := pick(rng, sites(cfg, t, func(n *lib.Node, f *lib.FieldInfo, v reflect.Value) bool {
				return f.Kind == lib.KLeaf && isSet(v) && v.Kind() == reflect.Int64 && v.Type().Implements(goEnumType) && !isKeyField(n, f)
			}))
			if !ok {
				return ""
			}
			s.v.SetInt(undefinedEnum(s.v.Type()))
			return "enum-undefined:leaf:" + s.f.YType.Kind.String()
		}},
		{"enum-undefined:leaf-list", func(cfg *lib.Cfg, t ygot.GoStruct, rng *rand.Rand) string {
			s, ok := pick(rng, sites(cfg, t, func(n *lib.Node, f *lib.FieldInfo, v reflect.Value) bool {
				return f.Kind == lib.KLeafList && isSet(v) && v.Len() > 0 && v.Type().Elem().Kind() == reflect.Int64 && v.Type().Elem().Implements(goEnumType)
			}))
			if !ok {
				return ""
			}
			s.v.Index(0).SetInt(undefinedEnum(s.v.Type().Elem()))
			return "enum-undefined:leaf-list:" + s.f.YType.Kind.String()
		}},
		{"enum-undefined:union", func(cfg *lib.Cfg, t ygot.GoStruct, rng *rand.Rand) string {
			s, ok := pick(rng, sites(cfg, t, func(n *lib.Node, f *lib.FieldInfo, v reflect.Value) bool {
				if f.Kind != lib.KLeaf || !isSet(v) || v.Kind() != reflect.Interface || isKeyField(n, f) {
					return false
				}
				e := v.Elem()
				return e.Kind() == reflect.Int64 && e.Type().Implements(reflect.TypeOf((*ygot.GoEnum)(nil)).Elem())
			}))
			if !ok {
				return ""
			}
			nv := reflect.New(s.v.Elem().Type()).Elem()
			nv.SetInt(undefinedEnum(nv.Type()))
			s.v.Set(nv)
			return "enum-undefined:union-member"
		}},
		{"enum-undefined:key", func(cfg *lib.Cfg, t ygot.GoStruct, rng *rand.Rand) string {
			// an entry of an enum-keyed list whose key (map key and key leaf alike) is undefined
			s, ok := pick(rng, sites(cfg, t, func(n *lib.Node, f *lib.FieldInfo, v reflect.Value) bool {
				return f.Kind == lib.KList && isSet(v) && v.Len() > 0 && v.Type().Key().Kind() == reflect.Int64 && v.Type().Key().Implements(goEnumType)
			}))
			if !ok {
				return ""
			}
			ks := lib.SortedMapKeys(s.v)
			ent := s.v.MapIndex(ks[0])
			s.v.SetMapIndex(ks[0], reflect.Value{})
			nk := reflect.New(s.v.Type().Key()).Elem()
			nk.SetInt(undefinedEnum(nk.Type()))
			kf := cfg.Info(ent.Type()).KeyFields()[0]
			ent.Elem().Field(kf.Idx).Set(nk)
			s.v.SetMapIndex(nk, ent)
			return "enum-undefined:list-key"
		}},
		{"union-no-member", func(cfg *lib.Cfg, t ygot.GoStruct, rng *rand.Rand) string {
			s, ok := pick(rng, sites(cfg, t, func(n *lib.Node, f *lib.FieldInfo, v reflect.Value) bool {
				if f.Kind != lib.KLeaf || !isSet(v) || v.Kind() != reflect.Interface || isKeyField(n, f) {
					return false
				}
				// needs a string member with a length restriction, value held is a string
				e := v.Elem()
				for e.Kind() == reflect.Ptr || e.Kind() == reflect.Struct {
					if e.Kind() == reflect.Ptr {
						e = e.Elem()
					} else {
						e = e.Field(0)
					}
				}
				if e.Kind() != reflect.String {
					return false
				}
				for _, m := range lib.FlattenUnion(f.YType) {
					if m.Kind == yang.Ystring && len(m.Length) > 0 {
						return true
					}
				}
				return false
			}))
			if !ok {
				return ""
			}
			bad := "this-string-is-far-too-long-for-any-member~"
			e := s.v.Elem()
			if e.Kind() == reflect.String {
				nv := reflect.New(e.Type()).Elem()
				nv.SetString(bad)
				s.v.Set(nv)
			} else if e.Kind() == reflect.Ptr {
				e.Elem().Field(0).SetString(bad)
			}
			return "union-no-member:string-length"
		}},
		{"key-mismatch", func(cfg *lib.Cfg, t ygot.GoStruct, rng *rand.Rand) string {
			// change an entry's key leaf without re-keying the map
			var cands []*lib.Node
			for _, n := range cfg.Nodes(t) {
				if n.IsEntry && !n.Keyless {
					cands = append(cands, n)
				}
			}
			for tries := 0; tries < 10 && len(cands) > 0; tries++ {
				n := cands[rng.Intn(len(cands))]
				kfs := n.Info.KeyFields()
				kf := kfs[rng.Intn(len(kfs))]
				fv := n.V.Elem().Field(kf.Idx)
				if fv.Kind() != reflect.Ptr {
					continue
				}
				before, _ := lib.CanonScalar(fv, true)
				switch fv.Elem().Kind() {
				case reflect.String:
					ns := fv.Elem().String() + "x"
					if !lib.StringInType(kf.YType, ns) {
						continue
					}
					fv.Set(reflect.ValueOf(&ns).Convert(fv.Type()))
				case reflect.Int8, reflect.Int16, reflect.Int32, reflect.Int64:
					nv := reflect.New(fv.Type().Elem())
					nv.Elem().SetInt(fv.Elem().Int() ^ 1)
					fv.Set(nv)
				case reflect.Uint8, reflect.Uint16, reflect.Uint32, reflect.Uint64:
					nv := reflect.New(fv.Type().Elem())
					nv.Elem().SetUint(fv.Elem().Uint() ^ 1)
					fv.Set(nv)
				case reflect.Bool:
					nv := reflect.New(fv.Type().Elem())
					nv.Elem().SetBool(!fv.Elem().Bool())
					fv.Set(nv)
				default:
					continue
				}
				after, _ := lib.CanonScalar(fv, true)
				if before == after {
					continue
				}
				kind := "map"
				if n.Field.Kind == lib.KOrdered {
					kind = "ordered-map"
				}
				multi := "single-key"
				if len(kfs) > 1 {
					multi = "multi-key"
				}
				return "key-mismatch:" + kind + ":" + multi
			}
			return ""
		}},
		{"key-unset", func(cfg *lib.Cfg, t ygot.GoStruct, rng *rand.Rand) string {
			// unset an entry's key leaf while the map still holds the entry under its key
			var cands []*lib.Node
			for _, n := range cfg.Nodes(t) {
				if n.IsEntry && !n.Keyless {
					cands = append(cands, n)
				}
			}
			for tries := 0; tries < 10 && len(cands) > 0; tries++ {
				n := cands[rng.Intn(len(cands))]
				kfs := n.Info.KeyFields()
				ki := rng.Intn(len(kfs))
				fv := n.V.Elem().Field(kfs[ki].Idx)
				if fv.Kind() != reflect.Ptr || fv.IsNil() {
					continue
				}
				fv.Set(reflect.Zero(fv.Type()))
				kind := "map"
				if n.Field.Kind == lib.KOrdered {
					kind = "ordered-map"
				}
				multi := "single-key"
				if len(kfs) > 1 {
					multi = "multi-key"
				}
				return "key-unset:" + kind + ":" + multi
			}
			return ""
		}},
		{"leaf-list-duplicate", func(cfg *lib.Cfg, t ygot.GoStruct, rng *rand.Rand) string {
			s, ok := pick(rng, sites(cfg, t, func(n *lib.Node, f *lib.FieldInfo, v reflect.Value) bool {
				if f.Kind != lib.KLeafList || !isSet(v) || v.Len() == 0 || !f.Config {
					return false
				}
				la := f.Entry.ListAttr
				return la == nil || !lib.BoundedMax(la) || uint64(v.Len()) < la.MaxElements
			}))
			if !ok {
				return ""
			}
			s.v.Set(reflect.Append(s.v, s.v.Index(0)))
			return "leaf-list-duplicate:config"
		}},
		{"leaf-list-max", func(cfg *lib.Cfg, t ygot.GoStruct, rng *rand.Rand) string {
			s, ok := pick(rng, sites(cfg, t, func(n *lib.Node, f *lib.FieldInfo, v reflect.Value) bool {
				la := f.Entry.ListAttr
				return f.Kind == lib.KLeafList && isSet(v) && v.Len() > 0 && la != nil && lib.BoundedMax(la) && v.Index(0).Kind() != reflect.Interface
			}))
			if !ok {
				return ""
			}
			g := lib.NewGen(cfg, rng.Int63(), 0, lib.DefaultGen())
			seen := map[string]bool{}
			for i := 0; i < s.v.Len(); i++ {
				c, _ := lib.CanonScalar(s.v.Index(i), true)
				seen[c] = true
			}
			for tries := 0; uint64(s.v.Len()) <= s.f.Entry.ListAttr.MaxElements && tries < 200; tries++ {
				nv := g.ScalarFor(s.n.V.Elem(), s.f, s.v.Type().Elem())
				if !nv.IsValid() {
					continue
				}
				c, _ := lib.CanonScalar(nv, true)
				if seen[c] {
					continue
				}
				seen[c] = true
				s.v.Set(reflect.Append(s.v, nv))
			}
			if uint64(s.v.Len()) <= s.f.Entry.ListAttr.MaxElements {
				return ""
			}
			return "leaf-list-above-max-elements"
		}},
		{"leaf-list-min", func(cfg *lib.Cfg, t ygot.GoStruct, rng *rand.Rand) string {
			s, ok := pick(rng, sites(cfg, t, func(n *lib.Node, f *lib.FieldInfo, v reflect.Value) bool {
				la := f.Entry.ListAttr
				return f.Kind == lib.KLeafList && isSet(v) && la != nil && la.MinElements > 1 && uint64(v.Len()) >= la.MinElements
			}))
			if !ok {
				return ""
			}
			s.v.Set(s.v.Slice(0, int(s.f.Entry.ListAttr.MinElements)-1))
			return "leaf-list-below-min-elements"
		}},
		{"leaf-list-min-absent", func(cfg *lib.Cfg, t ygot.GoStruct, rng *rand.Rand) string {
			s, ok := pick(rng, sites(cfg, t, func(n *lib.Node, f *lib.FieldInfo, v reflect.Value) bool {
				la := f.Entry.ListAttr
				return f.Kind == lib.KLeafList && isSet(v) && la != nil && la.MinElements > 0
			}))
			if !ok {
				return ""
			}
			s.v.Set(reflect.Zero(s.v.Type()))
			return "leaf-list-absent-with-min-elements"
		}},
		{"list-max", func(cfg *lib.Cfg, t ygot.GoStruct, rng *rand.Rand) string {
			s, ok := pick(rng, sites(cfg, t, func(n *lib.Node, f *lib.FieldInfo, v reflect.Value) bool {
				la := f.Entry.ListAttr
				return f.Kind == lib.KList && isSet(v) && v.Len() > 0 && la != nil && lib.BoundedMax(la) && v.Type().Key().Kind() == reflect.String
			}))
			if !ok {
				return ""
			}
			kf := cfg.Info(s.f.Elem).KeyFields()[0]
			for i := 0; uint64(s.v.Len()) <= s.f.Entry.ListAttr.MaxElements; i++ {
				k := fmt.Sprintf("extra%d", i)
				ent := reflect.New(s.f.Elem.Elem())
				ent.Elem().Field(kf.Idx).Set(reflect.ValueOf(&k))
				s.v.SetMapIndex(reflect.ValueOf(k).Convert(s.v.Type().Key()), ent)
			}
			return "list-above-max-elements"
		}},
		{"list-min", func(cfg *lib.Cfg, t ygot.GoStruct, rng *rand.Rand) string {
			s, ok := pick(rng, sites(cfg, t, func(n *lib.Node, f *lib.FieldInfo, v reflect.Value) bool {
				la := f.Entry.ListAttr
				return f.Kind == lib.KList && isSet(v) && la != nil && la.MinElements > 0
			}))
			if !ok {
				return ""
			}
			if rng.Intn(2) == 0 {
				s.v.Set(reflect.Zero(s.v.Type()))
				return "list-below-min-elements:nil-map"
			}
			s.v.Set(reflect.MakeMap(s.v.Type()))
			return "list-below-min-elements:empty-map"
		}},
		{"choice-two-cases", func(cfg *lib.Cfg, t ygot.GoStruct, rng *rand.Rand) string {
			// a struct with a set field in one case and an unset leaf of another case of the same
			// choice (at any nesting level); one candidate is chosen at random
			type cand struct {
				n    *lib.Node
				g    *lib.FieldInfo
				feat string
			}
			var cands []cand
			for _, n := range cfg.Nodes(t) {
				for _, f := range n.Info.Fields {
					if len(f.Choices) == 0 || !isSet(n.V.Elem().Field(f.Idx)) {
						continue
					}
					for _, g := range n.Info.Fields {
						if g == f || len(g.Choices) == 0 || g.Kind != lib.KLeaf || isSet(n.V.Elem().Field(g.Idx)) {
							continue
						}
						// same choice, different case at some level
						lvl := -1
						for i := range f.Choices {
							if i < len(g.Choices) && f.Choices[i].Choice == g.Choices[i].Choice && f.Choices[i].Case != g.Choices[i].Case {
								lvl = i
								break
							}
							if i >= len(g.Choices) || f.Choices[i].Choice != g.Choices[i].Choice {
								break
							}
						}
						if lvl < 0 {
							continue
						}
						feat := "choice-two-cases"
						if lvl > 0 {
							feat += ":nested"
						}
						// a shorthand case is a case named after its only node
						if f.Choices[lvl].Case == f.Path[len(f.Path)-1] || g.Choices[lvl].Case == g.Path[len(g.Path)-1] {
							feat += ":shorthand-case"
						}
						cands = append(cands, cand{n, g, feat})
					}
				}
			}
			for tries := 0; tries < 6 && len(cands) > 0; tries++ {
				c := cands[rng.Intn(len(cands))]
				gen := lib.NewGen(cfg, rng.Int63(), 0, lib.DefaultGen())
				nv := gen.ScalarFor(c.n.V.Elem(), c.g, c.n.V.Elem().Field(c.g.Idx).Type())
				if !nv.IsValid() {
					continue
				}
				c.n.V.Elem().Field(c.g.Idx).Set(nv)
				return c.feat
			}
			return ""
		}},
	}
}

var goEnumType = reflect.TypeOf((*ygot.GoEnum)(nil)).Elem()

func undefinedEnum(t reflect.Type) int64 {
	max := int64(0)
	for k := range lib.EnumDefs(t) {
		if k > max {
			max = k
		}
	}
	return max + 3
}

func runC07(r *lib.Run) {
	r.Rule = "valid trees by construction from the generator (ranges, lengths, patterns, min/max-elements, unique config leaf-lists, one case per choice) must validate; then one targeted fault of each class from the statement is injected into a fresh valid tree and Validate must fail; non-trivial = tree has >=5 leaves (valid) / fault site found (fault); distinct by cfg+fault+leaf set"
	r.Assume("leafref resolution is ignored here (IgnoreMissingData) – C30 owns it; state leaf-lists may hold duplicates")
	n := r.N(300, 6000)
	faults := c07Faults()
	for _, cfg := range cfgsFor(r, quick3) {
		for i := 0; i < n; i++ {
			if skip(cfg, i) {
				continue
			}
			t := lib.NewGen(cfg, r.Seed, i, c07Opts(i)).Tree()
			o := cfg.Observe(t)
			r.Case(cfg.Name+"valid"+caseKey(cfg, o), len(o.Leaves) >= 5)
			w := func(more map[string]interface{}) map[string]interface{} {
				more["tree"] = o.Dump()
				return wit(cfg, r.Seed, i, more)
			}
			var err error
			if r.Guard("Validate", w(map[string]interface{}{}), func() { err = validateNoLeafref(t) }) {
				continue
			}
			if err != nil {
				r.ViolateErr("valid-tree-rejected", err, w(map[string]interface{}{"error": err.Error()}))
				continue
			}
			r.Hit("valid-accepted")
			if i < 2 {
				r.Sample(map[string]interface{}{"cfg": cfg.Name, "valid_tree_leaves": len(o.Leaves)})
			}
			// faults: every class on this tree (fresh copy each)
			nf := 60
			if !r.Quick() {
				nf = 400
			}
			if i >= nf {
				continue
			}
			for fi, ft := range faults {
				ft2 := lib.NewGen(cfg, r.Seed, i, c07Opts(i)).Tree()
				rng := rand.New(rand.NewSource(r.Seed*131 + int64(i)*17 + int64(fi)))
				var class string
				if r.Guard("fault-injection", w(map[string]interface{}{"fault": ft.name}), func() { class = ft.f(cfg, ft2, rng) }) {
					continue
				}
				if class == "" {
					continue
				}
				fo := cfg.Observe(ft2)
				r.Case(cfg.Name+class+caseKey(cfg, fo), true)
				r.Hit("fault:" + ft.name)
				r.Hit("fault-class:" + class)
				var ferr error
				wf := func() map[string]interface{} {
					return wit(cfg, r.Seed, i, map[string]interface{}{"fault": class, "tree": fo.Dump()})
				}
				if r.Guard("Validate", wf(), func() { ferr = validateNoLeafref(ft2) }) {
					continue
				}
				if ferr == nil {
					r.Violate("fault-accepted", class, "Validate returned nil for a tree with fault "+class, wf())
				} else {
					r.Hit("fault-rejected:" + strings.SplitN(class, ":", 2)[0])
				}
			}
		}
	}
	r.RequireCov("valid-accepted", "fault:range:int", "fault:length:string", "fault-class:length:string:multi-byte", "fault:pattern:string", "fault:enum-undefined:leaf", "fault:key-mismatch", "fault:key-unset", "fault:leaf-list-duplicate", "fault:list-max", "fault:choice-two-cases", "fault:union-no-member")
}
