package mon

import (
	"fmt"
	"reflect"
	"sort"
	"strings"

	"github.com/openconfig/goyang/pkg/yang"
	"github.com/openconfig/ygot/zzverif/lib"
)

func init() { Monitors["C26"] = runC26 }

// structTypes enumerates the struct types reachable from the root with one
// schema-level data path each (element names, no keys).
type reachedStruct struct {
	si    *lib.StructInfo
	names []string
}

func reachStructs(cfg *lib.Cfg) (out []reachedStruct, err error) {
	defer func() {
		if p := recover(); p != nil {
			err = fmt.Errorf("%v", p)
		}
	}()
	root := cfg.Info(reflect.TypeOf(cfg.NewRoot()))
	seen := map[reflect.Type]bool{}
	var walk func(si *lib.StructInfo, names []string)
	walk = func(si *lib.StructInfo, names []string) {
		if seen[si.Type] {
			return
		}
		seen[si.Type] = true
		out = append(out, reachedStruct{si, names})
		for _, f := range si.Fields {
			if f.Elem != nil && (f.Kind == lib.KContainer || f.Kind == lib.KList || f.Kind == lib.KOrdered || f.Kind == lib.KUnkeyed) {
				walk(cfg.Info(f.Elem), append(append([]string(nil), names...), f.Path...))
			}
		}
	}
	walk(root, nil)
	return out, nil
}

// goTypeFits checks a leaf field's Go type (element type for leaf-lists)
// against the resolved YANG type.
func goTypeFits(t reflect.Type, yt *yang.YangType) (bool, string) {
	want := map[yang.TypeKind]reflect.Kind{
		yang.Yint8: reflect.Int8, yang.Yint16: reflect.Int16, yang.Yint32: reflect.Int32, yang.Yint64: reflect.Int64,
		yang.Yuint8: reflect.Uint8, yang.Yuint16: reflect.Uint16, yang.Yuint32: reflect.Uint32, yang.Yuint64: reflect.Uint64,
		yang.Ystring: reflect.String, yang.Ybool: reflect.Bool, yang.Ydecimal64: reflect.Float64,
	}
	base := t
	if base.Kind() == reflect.Ptr {
		base = base.Elem()
	}
	switch yt.Kind {
	case yang.Yenum, yang.Yidentityref:
		if base.Kind() == reflect.Int64 && base.Implements(goEnumType) {
			// the generated type must carry exactly the names the leaf's type defines
			want := sortedNameSet(lib.MemberNames(yt))
			var have []string
			for _, n := range lib.EnumDefs(base) {
				have = append(have, n)
			}
			sort.Strings(have)
			if len(want) > 0 && strings.Join(want, ",") != strings.Join(have, ",") {
				return false, "enumeration/identityref leaf has an enum type with other names than its YANG type"
			}
			return true, ""
		}
		return false, "enumeration/identityref leaf is not a generated enum type"
	case yang.Yempty:
		if base.Kind() == reflect.Bool && base.Name() == "YANGEmpty" {
			return true, ""
		}
		return false, "empty leaf is not YANGEmpty"
	case yang.Ybinary:
		if base.Kind() == reflect.Slice && base.Elem().Kind() == reflect.Uint8 {
			return true, ""
		}
		return false, "binary leaf is not a byte slice"
	case yang.Yunion:
		ms := lib.FlattenUnion(yt)
		kinds := map[string]bool{}
		for _, m := range ms {
			k := m.Kind.String()
			if m.Kind == yang.Yenum || m.Kind == yang.Yidentityref {
				k = "enum:" + strings.Join(sortedNameSet(lib.MemberNames(m)), ",")
			}
			kinds[k] = true
		}
		if base.Kind() == reflect.Interface {
			return true, ""
		}
		if len(kinds) == 1 {
			return goTypeFits(t, ms[0]) // single-type union collapses to that type
		}
		return false, "multi-type union is not an interface"
	case yang.Ybits:
		return true, ""
	}
	if k, ok := want[yt.Kind]; ok {
		if base.Kind() == k && !base.Implements(goEnumType) {
			return true, ""
		}
		return false, fmt.Sprintf("%s leaf has Go kind %s", yt.Kind, base.Kind())
	}
	return true, ""
}

func sortedNameSet(m map[string]bool) []string {
	out := make([]string, 0, len(m))
	for k := range m {
		out = append(out, k)
	}
	sort.Strings(out)
	return out
}

func isDataNode(e *yang.Entry) bool { return !e.IsChoice() && !e.IsCase() }

// dataChildren lists the data-node children of a goyang entry looking through
// choice and case.
func dataChildren(e *yang.Entry) map[string]*yang.Entry {
	out := map[string]*yang.Entry{}
	var walk func(x *yang.Entry)
	walk = func(x *yang.Entry) {
		for n, c := range x.Dir {
			if c.RPC != nil || c.Kind == yang.NotificationEntry {
				continue
			}
			if isDataNode(c) {
				out[n] = c
			} else {
				walk(c)
			}
		}
	}
	walk(e)
	return out
}

func runC26(r *lib.Run) {
	r.Level = "translation_validation"
	r.Rule = "every linked configuration (harness schemas and seeded random schemas x flag sets; the driver has already generated and compiled them): reflection over every generated struct reachable from the root; every path/module/shadow tag must resolve in UnzipSchema() (independent resolver) to a node whose kind fits the field's Go type; the data nodes of a direct goyang compilation must be covered exactly once by the fields; non-trivial = configuration has >=5 structs; distinct by configuration"
	for _, name := range lib.Names() {
		cfg := lib.Get(name)
		w := map[string]interface{}{"cfg": name, "yang": cfg.YangFiles}
		structs, err := reachStructs(cfg)
		if err != nil {
			r.Violate("tag-does-not-resolve", lib.ErrClass(err.Error()), err.Error(), w)
			r.Case(name, false)
			continue
		}
		r.Case(name, len(structs) >= 5)
		r.Hit("configuration")
		if cfg.Compressed {
			r.Hit("compressed")
		} else {
			r.Hit("uncompressed")
		}
		fields := 0
		fieldPaths := map[string][]string{} // schema path -> fields covering it
		for _, rs := range structs {
			for _, f := range rs.si.Fields {
				fields++
				r.Hit("kind:" + f.Kind.String())
				id := rs.si.Type.Name() + "." + f.GoName
				fw := map[string]interface{}{"cfg": name, "field": id, "path": strings.Join(f.Path, "/"), "yang": cfg.YangFiles}
				e := f.Entry
				for _, alts := range [][][]string{f.AltPaths, f.Shadow} {
					for _, ap := range alts {
						fp := strings.Join(append(append([]string(nil), rs.names...), ap...), "/")
						dup := false
						for _, x := range fieldPaths[fp] {
							if x == id {
								dup = true
							}
						}
						if !dup {
							fieldPaths[fp] = append(fieldPaths[fp], id)
						}
						ae, _, aerr := lib.ResolveRel(rs.si.Entry, ap)
						if aerr != nil {
							r.Violate("tag-does-not-resolve", "alternative-or-shadow-path", id+": "+aerr.Error(), fw)
							continue
						}
						if (ae.IsLeaf() != e.IsLeaf()) || (ae.IsLeafList() != e.IsLeafList()) || (ae.IsList() != e.IsList()) {
							r.Violate("kind-mismatch", "alternative-path-kind", id+": alternative path resolves to a different node kind", fw)
						}
					}
				}
				switch f.Kind {
				case lib.KLeaf, lib.KLeafList:
					if f.Kind == lib.KLeaf && !e.IsLeaf() {
						r.Violate("kind-mismatch", "scalar-field-for-"+entryKind(e), id+": scalar Go field for a "+entryKind(e), fw)
						continue
					}
					if f.Kind == lib.KLeafList && !e.IsLeafList() {
						r.Violate("kind-mismatch", "slice-field-for-"+entryKind(e), id+": slice Go field for a "+entryKind(e), fw)
						continue
					}
					t := f.Type
					if f.Kind == lib.KLeafList {
						t = t.Elem()
					}
					if ok, why := goTypeFits(t, f.YType); !ok {
						r.Violate("kind-mismatch", "leaf-type:"+f.YType.Kind.String(), id+": "+why+" (Go type "+f.Type.String()+")", fw)
					}
					r.Hit("leaftype:" + f.YType.Kind.String())
				case lib.KContainer:
					if !(e.Kind == yang.DirectoryEntry && e.ListAttr == nil) {
						r.Violate("kind-mismatch", "struct-pointer-for-"+entryKind(e), id+": struct pointer for a "+entryKind(e), fw)
					}
				case lib.KList, lib.KOrdered, lib.KUnkeyed:
					if !e.IsList() {
						r.Violate("kind-mismatch", f.Kind.String()+"-for-"+entryKind(e), id, fw)
						continue
					}
					ordered := e.ListAttr != nil && e.ListAttr.OrderedByUser
					switch {
					case f.Kind == lib.KUnkeyed && e.Key != "":
						r.Violate("kind-mismatch", "slice-for-keyed-list", id, fw)
					case f.Kind != lib.KUnkeyed && e.Key == "":
						r.Violate("kind-mismatch", "map-for-keyless-list", id, fw)
					case f.Kind == lib.KOrdered && !ordered:
						r.Violate("kind-mismatch", "ordered-map-for-system-ordered-list", id, fw)
					case f.Kind == lib.KList && ordered:
						r.Violate("kind-mismatch", "plain-map-for-ordered-by-user-list", id, fw)
					}
					if f.Kind == lib.KList {
						esi := cfg.Info(f.Elem)
						kfs := esi.KeyFields()
						kt := f.Type.Key()
						bad := ""
						for _, kf := range kfs {
							if kf == nil {
								bad = "key leaf has no field"
							}
						}
						if bad == "" {
							if len(kfs) == 1 {
								ft := kfs[0].Type
								if ft.Kind() == reflect.Ptr {
									ft = ft.Elem()
								}
								if ft != kt {
									bad = fmt.Sprintf("map key type %s differs from key leaf type %s", kt, ft)
								}
							} else {
								if kt.Kind() != reflect.Struct || kt.NumField() != len(kfs) {
									bad = "multi-key list without a matching key struct"
								} else {
									for _, kf := range kfs {
										sf, ok := kt.FieldByName(kf.GoName)
										ft := kf.Type
										if ft.Kind() == reflect.Ptr {
											ft = ft.Elem()
										}
										if !ok || sf.Type != ft {
											bad = "key struct field " + kf.GoName + " does not match the key leaf type"
										}
									}
								}
							}
						}
						if bad != "" {
							r.Violate("kind-mismatch", "map-key-type", id+": "+bad, fw)
						}
						r.Hit("keys:" + fmt.Sprint(len(kfs)))
					}
				}
			}
		}
		r.HitN("fields", fields)
		r.HitN("structs", len(structs))
		// coverage against a direct goyang compilation
		gy, gerr := cfg.Goyang()
		if gerr != nil {
			r.Inconclusive("goyang compile of " + name + ": " + gerr.Error())
			continue
		}
		c26Coverage(r, cfg, gy, structs, fieldPaths, w)
		r.Sample(map[string]interface{}{"cfg": name, "structs": len(structs), "fields": fields, "yang": cfg.YangFiles})
	}
	r.RequireCov("configuration", "compressed", "uncompressed", "kind:leaf", "kind:leaf-list", "kind:container", "kind:list", "kind:ordered-list", "coverage-checked")
}

func entryKind(e *yang.Entry) string {
	switch {
	case e.IsLeaf():
		return "leaf"
	case e.IsLeafList():
		return "leaf-list"
	case e.IsList():
		return "list"
	case e.IsChoice():
		return "choice"
	case e.IsCase():
		return "case"
	}
	return "container"
}

// c26Coverage: every schema data node reachable under the compression appears
// as exactly one field.
func c26Coverage(r *lib.Run, cfg *lib.Cfg, gy *lib.Goyang, structs []reachedStruct, fieldPaths map[string][]string, w map[string]interface{}) {
	type gnode struct {
		names []string
		e     *yang.Entry
	}
	var all []gnode
	var walk func(e *yang.Entry, names []string)
	walk = func(e *yang.Entry, names []string) {
		for n, c := range dataChildren(e) {
			nn := append(append([]string(nil), names...), n)
			all = append(all, gnode{nn, c})
			if c.IsDir() {
				walk(c, nn)
			}
		}
	}
	for _, mn := range gy.Names {
		walk(gy.Tops[mn], nil)
	}
	sort.Slice(all, func(i, j int) bool { return len(all[i].names) < len(all[j].names) })
	uncovered := map[string]bool{}
	for _, g := range all {
		p := strings.Join(g.names, "/")
		cover := fieldPaths[p]
		kind := entryKind(g.e)
		skipChild := false
		for k := 1; k < len(g.names); k++ {
			if uncovered[strings.Join(g.names[:k], "/")] {
				skipChild = true
			}
		}
		if skipChild {
			continue // reported through its uncovered ancestor
		}
		if len(cover) == 0 {
			uncovered[p] = true
		}
		if len(cover) == 0 && len(g.names) == 1 && g.e.Parent != nil && (g.e.Parent.IsCase() || g.e.Parent.IsChoice()) {
			r.Violate("schema-node-not-covered", "top-level-choice", fmt.Sprintf("%s (%s) sits in a choice at the top of a module and is covered by no field of the fake root", p, kind),
				map[string]interface{}{"cfg": cfg.Name, "schema_path": p, "kind": kind, "yang": cfg.YangFiles})
			continue
		}
		gw := map[string]interface{}{"cfg": cfg.Name, "schema_path": p, "kind": kind, "fields": cover, "yang": cfg.YangFiles}
		r.Hit("coverage-checked")
		if !cfg.Compressed {
			if len(cover) != 1 {
				cl := "schema-node-not-covered"
				if len(cover) > 1 {
					cl = "schema-node-covered-twice"
				}
				r.Violate(cl, "uncompressed:"+kind, fmt.Sprintf("%s (%s) is covered by %d fields %v", p, kind, len(cover), cover), gw)
			}
			continue
		}
		// compressed code: leaves and lists are tracked; containers may be elided
		switch kind {
		case "leaf", "leaf-list":
			n := len(g.names)
			if len(cover) > 1 {
				r.Violate("schema-node-covered-twice", "compressed:"+kind, fmt.Sprintf("%s is covered by fields %v", p, cover), gw)
			}
			if len(cover) == 0 {
				// legitimately absent: the config/state twin that compression drops when no shadow tags are generated
				twin := ""
				if n >= 2 && (g.names[n-2] == "config" || g.names[n-2] == "state") {
					other := "state"
					if g.names[n-2] == "state" {
						other = "config"
					}
					twin = strings.Join(append(append(append([]string(nil), g.names[:n-2]...), other), g.names[n-1]), "/")
				}
				if twin != "" && len(fieldPaths[twin]) > 0 && !cfg.Shadow {
					r.Hit("compressed-out-twin")
					continue
				}
				r.Violate("schema-node-not-covered", "compressed:"+kind, p+" is covered by no field", gw)
			}
		case "list":
			if len(cover) != 1 {
				r.Violate("schema-node-not-covered", "compressed:list", fmt.Sprintf("%s is covered by %d fields", p, len(cover)), gw)
			}
		}
	}
}
