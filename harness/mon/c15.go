package mon

import (
	"fmt"
	"github.com/openconfig/goyang/pkg/yang"
	"math/rand"
	"reflect"
	"strings"

	gpb "github.com/openconfig/gnmi/proto/gnmi"
	"github.com/openconfig/ygot/ygot"
	"github.com/openconfig/ygot/ytypes"
	"github.com/openconfig/ygot/zzverif/lib"
)

func init() {
	Monitors["C15"] = runC15
	Monitors["C34"] = runC34
}

// listSite is one list field of a struct inside a generated tree.
type listSite struct {
	root   ygot.GoStruct
	node   *lib.Node // parent struct node
	f      *lib.FieldInfo
	esi    *lib.StructInfo
	kfs    []*lib.FieldInfo
	tuples []keyTuple // the small key domain
	lname  string     // Go name of the list (method suffix)
}

type keyTuple struct {
	id     string
	params []reflect.Value // values typed as the helper parameters (dereferenced key leaves)
	keys   map[string]string
}

// newElem builds a fresh entry carrying the tuple's keys.
func (s *listSite) newElem(t keyTuple) reflect.Value {
	ent := reflect.New(s.f.Elem.Elem())
	for i, kf := range s.kfs {
		fv := ent.Elem().Field(kf.Idx)
		if fv.Kind() == reflect.Ptr {
			p := reflect.New(fv.Type().Elem())
			p.Elem().Set(t.params[i])
			fv.Set(p)
		} else {
			fv.Set(t.params[i])
		}
	}
	return ent
}

// elemKeys reads back the canonical keys of an entry.
func (s *listSite) elemKeys(cfg *lib.Cfg, ent reflect.Value) string {
	return lib.PathElem{Name: "e", Keys: cfg.EntryKeys(ent), Pos: -1}.String()
}

// findListSites generates trees until every list field type of the
// configuration (ordered or plain, as requested) has been seen once.
func findListSites(cfg *lib.Cfg, seed int64, kind lib.Kind, domain int) []*listSite {
	return findListSitesOpt(cfg, seed, kind, domain, false)
}

// findListSitesOpt: with hostileKeys the key domains also hold hostile strings
// and decimals that need 16-17 significant digits.
func findListSitesOpt(cfg *lib.Cfg, seed int64, kind lib.Kind, domain int, hostileKeys bool) []*listSite {
	seen := map[string]bool{}
	var out []*listSite
	for i := 0; i < 60; i++ {
		opt := lib.DefaultGen()
		opt.OrderedSiblings = true
		opt.Density = 0.8
		opt.Hostile = false
		g := lib.NewGen(cfg, seed+31337, i, opt)
		t := g.Tree()
		for _, n := range cfg.Nodes(t) {
			if n.Keyless {
				continue
			}
			for _, f := range n.Info.Fields {
				if f.Kind != kind {
					continue
				}
				id := n.Info.Type.Name() + "." + f.GoName
				if seen[id] {
					continue
				}
				esi := cfg.Info(f.Elem)
				kfs := esi.KeyFields()
				ok := true
				for _, kf := range kfs {
					if kf == nil {
						ok = false
					}
				}
				if !ok {
					continue
				}
				s := &listSite{root: t, node: n, f: f, esi: esi, kfs: kfs, lname: f.GoName}
				// key domain
				kopt := opt
				kopt.Hostile = hostileKeys
				kopt.PreciseDecimals = hostileKeys
				kopt.EmptyKeyStrings = hostileKeys
				kg := lib.NewGen(cfg, seed, i*7+len(out), kopt)
				ids := map[string]bool{}
				for tries := 0; len(s.tuples) < domain && tries < 200; tries++ {
					ent := reflect.New(f.Elem.Elem())
					good := true
					var params []reflect.Value
					for _, kf := range kfs {
						fv := ent.Elem().Field(kf.Idx)
						v := kg.KeyFor(ent.Elem(), kf, fv.Type())
						if !v.IsValid() {
							good = false
							break
						}
						fv.Set(v)
						if v.Kind() == reflect.Ptr {
							params = append(params, v.Elem())
						} else {
							params = append(params, v)
						}
					}
					if !good {
						continue
					}
					kt := keyTuple{params: params, keys: cfg.EntryKeys(ent)}
					kt.id = lib.PathElem{Name: "e", Keys: kt.keys, Pos: -1}.String()
					if ids[kt.id] {
						continue
					}
					ids[kt.id] = true
					s.tuples = append(s.tuples, kt)
				}
				if hostileKeys {
					// colon twins: next to a tuple with string key K put the tuple "x:K"
					// (a value that only looks like a module-qualified K)
					var out2 []keyTuple
					for ti, t := range s.tuples {
						out2 = append(out2, t)
						if ti%4 != 0 {
							continue
						}
						for pi, kf := range kfs {
							plain := kf.YType != nil && kf.YType.Kind == yang.Ystring && len(kf.YType.Pattern) == 0 && len(kf.YType.POSIXPattern) == 0 && len(kf.YType.Length) == 0
							if t.params[pi].Kind() != reflect.String || !(plain || kf.LeafrefPath != "") {
								continue
							}
							ent := s.newElem(t)
							fv := ent.Elem().Field(kf.Idx)
							if fv.Kind() != reflect.Ptr || fv.Elem().Kind() != reflect.String {
								break
							}
							fv.Elem().SetString("x:" + t.params[pi].String())
							var params []reflect.Value
							for _, kf2 := range kfs {
								v := ent.Elem().Field(kf2.Idx)
								if v.Kind() == reflect.Ptr {
									v = v.Elem()
								}
								params = append(params, v)
							}
							kt := keyTuple{params: params, keys: cfg.EntryKeys(ent)}
							kt.id = lib.PathElem{Name: "e", Keys: kt.keys, Pos: -1}.String()
							if !ids[kt.id] {
								ids[kt.id] = true
								out2 = append(out2, kt)
							}
							break
						}
					}
					s.tuples = out2
				}
				if len(s.tuples) < 2 {
					continue
				}
				seen[id] = true
				out = append(out, s)
			}
		}
	}
	return out
}

// ---------------------------------------------------------------- C15 --------

type omModel struct {
	keys  []string
	elems map[string]reflect.Value
}

func (m *omModel) has(id string) bool { _, ok := m.elems[id]; return ok }
func (m *omModel) add(id string, e reflect.Value) {
	m.keys = append(m.keys, id)
	m.elems[id] = e
}
func (m *omModel) del(id string) {
	delete(m.elems, id)
	for i, k := range m.keys {
		if k == id {
			m.keys = append(m.keys[:i:i], m.keys[i+1:]...)
			return
		}
	}
}

// omOp is one operation instance.
type omOp struct {
	name   string // AppendNew, Append, AppendNil, AppendNilKey, Delete, Get
	tuple  int
	parent bool // through the parent's helper
}

func (o omOp) String(s *listSite) string {
	via := "map"
	if o.parent {
		via = "parent"
	}
	if o.tuple >= 0 {
		return fmt.Sprintf("%s(%s)@%s", o.name, s.tuples[o.tuple].id, via)
	}
	return fmt.Sprintf("%s@%s", o.name, via)
}

func c15Ops(s *listSite) []omOp {
	var ops []omOp
	for _, par := range []bool{false, true} {
		for t := range s.tuples {
			ops = append(ops, omOp{"AppendNew", t, par}, omOp{"Append", t, par}, omOp{"Delete", t, par}, omOp{"Get", t, par})
		}
		ops = append(ops, omOp{"AppendNil", -1, par}, omOp{"AppendNilKey", 0, par})
	}
	return ops
}

func errOf(v reflect.Value) error {
	if v.IsNil() {
		return nil
	}
	return v.Interface().(error)
}

// c15Run executes one history on a fresh ordered map and checks every step.
func c15Run(r *lib.Run, cfg *lib.Cfg, s *listSite, hist []omOp, w func(map[string]interface{}) map[string]interface{}) bool {
	pv := s.node.V // parent struct pointer
	fv := pv.Elem().Field(s.f.Idx)
	fv.Set(reflect.Zero(fv.Type()))
	model := &omModel{elems: map[string]reflect.Value{}}
	var trace []string
	fail := func(clause, feat, detail string) bool {
		r.Violate(clause, feat, detail, w(map[string]interface{}{"list": s.node.Info.Type.Name() + "." + s.lname, "trace": trace}))
		return false
	}
	om := func() reflect.Value {
		if fv.IsNil() {
			fv.Set(reflect.New(fv.Type().Elem()))
		}
		return fv
	}
	multi := "single-key"
	if len(s.kfs) > 1 {
		multi = "multi-key"
	}
	for _, op := range hist {
		trace = append(trace, op.String(s))
		var t keyTuple
		if op.tuple >= 0 {
			t = s.tuples[op.tuple]
		}
		via := "map"
		if op.parent {
			via = "parent"
		}
		feat := op.name + ":" + via + ":" + multi
		switch op.name {
		case "AppendNew":
			var out []reflect.Value
			if op.parent {
				out = pv.MethodByName("AppendNew" + s.lname).Call(t.params)
			} else {
				out = om().MethodByName("AppendNew").Call(t.params)
			}
			err := errOf(out[1])
			if model.has(t.id) {
				if err == nil {
					return fail("duplicate-accepted", feat, "AppendNew accepted a duplicate key "+t.id)
				}
			} else {
				if err != nil {
					return fail("spurious-error", feat, "AppendNew failed: "+err.Error())
				}
				if out[0].IsNil() {
					return fail("nil-result", feat, "AppendNew returned nil element")
				}
				if got := s.elemKeys(cfg, out[0]); got != t.id {
					return fail("new-element-keys", feat, fmt.Sprintf("AppendNew(%s) created element with keys %s", t.id, got))
				}
				model.add(t.id, out[0])
			}
		case "Append", "AppendNil", "AppendNilKey":
			var e reflect.Value
			switch op.name {
			case "Append":
				e = s.newElem(t)
			case "AppendNil":
				e = reflect.Zero(s.f.Elem)
			default:
				e = s.newElem(t)
				kfv := e.Elem().Field(s.kfs[0].Idx)
				if kfv.Kind() != reflect.Ptr && kfv.Kind() != reflect.Interface {
					continue // enum key left UNSET is don't-care
				}
				kfv.Set(reflect.Zero(kfv.Type()))
			}
			var out []reflect.Value
			if op.parent {
				out = pv.MethodByName("Append" + s.lname).Call([]reflect.Value{e})
			} else {
				out = om().MethodByName("Append").Call([]reflect.Value{e})
			}
			err := errOf(out[0])
			switch {
			case op.name == "AppendNil":
				if err == nil {
					return fail("nil-element-accepted", feat, "Append(nil) succeeded")
				}
			case op.name == "AppendNilKey":
				if err == nil {
					kind := "pointer-key"
					if e.Elem().Field(s.kfs[0].Idx).Kind() == reflect.Interface {
						kind = "union-key"
					}
					return fail("nil-key-accepted", feat+":"+kind, "Append accepted an element whose key leaf is nil ("+kind+")")
				}
			case model.has(t.id):
				if err == nil {
					return fail("duplicate-accepted", feat, "Append accepted a duplicate key "+t.id)
				}
			default:
				if err != nil {
					return fail("spurious-error", feat, "Append failed: "+err.Error())
				}
				model.add(t.id, e)
			}
		case "Delete":
			var out []reflect.Value
			if op.parent {
				out = pv.MethodByName("Delete" + s.lname).Call(t.params)
			} else {
				out = callKeyed(om().MethodByName("Delete"), s, t)
			}
			if out[0].Bool() != model.has(t.id) {
				return fail("delete-result", feat, fmt.Sprintf("Delete(%s) returned %v, model has=%v", t.id, out[0].Bool(), model.has(t.id)))
			}
			model.del(t.id)
		case "Get":
			var out []reflect.Value
			if op.parent {
				out = pv.MethodByName("Get" + s.lname).Call(t.params)
			} else {
				out = callKeyed(om().MethodByName("Get"), s, t)
			}
			if model.has(t.id) {
				if out[0].IsNil() || out[0].Pointer() != model.elems[t.id].Pointer() {
					return fail("get-result", feat, "Get("+t.id+") did not return the inserted element")
				}
			} else if !out[0].IsNil() {
				return fail("get-result", feat, "Get("+t.id+") returned an element for an absent key")
			}
		}
		// state check after every step
		if fv.IsNil() {
			if len(model.keys) != 0 {
				return fail("state", feat, "ordered map is nil but model has entries")
			}
			continue
		}
		cur := fv
		if n := cur.MethodByName("Len").Call(nil)[0].Int(); int(n) != len(model.keys) {
			return fail("state-len", feat, fmt.Sprintf("Len()=%d, model %d", n, len(model.keys)))
		}
		vals := lib.OrderedValues(cur)
		keys := lib.OrderedKeys(cur)
		if len(vals) != len(model.keys) || len(keys) != len(model.keys) {
			return fail("state-len", feat, fmt.Sprintf("Keys()/Values() lengths %d/%d, model %d", len(keys), len(vals), len(model.keys)))
		}
		for i, id := range model.keys {
			if vals[i].IsNil() || vals[i].Pointer() != model.elems[id].Pointer() {
				return fail("state-order", feat, fmt.Sprintf("Values()[%d] is not the element inserted for %s", i, id))
			}
			if got := s.elemKeys(cfg, vals[i]); got != id {
				return fail("state-keys", feat, fmt.Sprintf("element %d has keys %s, expected %s", i, got, id))
			}
		}
		// internal agreement
		ik := cur.Elem().FieldByName("keys")
		im := cur.Elem().FieldByName("valueMap")
		if ik.IsValid() && im.IsValid() && (ik.Len() != len(model.keys) || im.Len() != len(model.keys)) {
			return fail("internal-state", feat, fmt.Sprintf("internal keys=%d valueMap=%d, model %d", ik.Len(), im.Len(), len(model.keys)))
		}
		// Keys()/Values() return copies
		if len(keys) > 0 {
			ks := cur.MethodByName("Keys").Call(nil)[0]
			vs := cur.MethodByName("Values").Call(nil)[0]
			ks.Index(0).Set(reflect.Zero(ks.Type().Elem()))
			vs.Index(0).Set(reflect.Zero(vs.Type().Elem()))
			again := lib.OrderedValues(cur)
			if again[0].IsNil() || again[0].Pointer() != model.elems[model.keys[0]].Pointer() {
				return fail("values-not-a-copy", feat, "mutating the slice returned by Values() changed the map")
			}
			k2 := lib.OrderedKeys(cur)
			if fmt.Sprintf("%#v", k2[0].Interface()) != fmt.Sprintf("%#v", keys[0].Interface()) {
				return fail("keys-not-a-copy", feat, "mutating the slice returned by Keys() changed the map")
			}
		}
	}
	return true
}

func runC15(r *lib.Run) {
	r.Rule = "every ordered-by-user list of every configuration, helpers called by name through reflection; exhaustive histories up to length L over {AppendNew,Append,Delete,Get}x3 keys + Append(nil) + Append(nil key), each directly on the map and through the parent's helpers, plus random length-30 histories; model = (key slice, key->element); after random histories order is compared through JSON, atomic gNMI and DeepCopy; non-trivial = history changes the map; distinct by list+history"
	depth := 3
	nrand := 300
	if !r.Quick() {
		depth = 4
		nrand = 20000
	}
	total := 0
	for _, cfg := range cfgsFor(r, quick3) {
		sites := findListSites(cfg, r.Seed, lib.KOrdered, 3)
		for _, s := range sites {
			r.Hit("list:" + cfg.Name + ":" + s.node.Info.Type.Name() + "." + s.lname)
			ops := c15Ops(s)
			w := func(more map[string]interface{}) map[string]interface{} {
				return wit(cfg, r.Seed, 0, more)
			}
			// exhaustive
			var rec func(h []omOp)
			stop := false
			rec = func(h []omOp) {
				if stop {
					return
				}
				if len(h) > 0 {
					total++
					mut := false
					for _, o := range h {
						if o.name != "Get" {
							mut = true
						}
					}
					r.Case(fmt.Sprintf("%s %s %v", cfg.Name, s.lname, h), mut)
					if !c15Run(r, cfg, s, h, w) {
						stop = r.Violations() > 40
					}
				}
				if len(h) == depth {
					return
				}
				for _, o := range ops {
					rec(append(h[:len(h):len(h)], o))
				}
			}
			rec(nil)
			// random long histories with order preservation through JSON / gNMI / DeepCopy
			rng := rand.New(rand.NewSource(r.Seed*17 + int64(len(s.lname))))
			for k := 0; k < nrand/len(sites)+1; k++ {
				var h []omOp
				for j := 0; j < 30; j++ {
					h = append(h, ops[rng.Intn(len(ops))])
				}
				r.Case(fmt.Sprintf("%s %s rnd %d", cfg.Name, s.lname, k), true)
				if c15Run(r, cfg, s, h, w) {
					c15Order(r, cfg, s, w)
				}
				r.Hit("random-history")
			}
		}
		if len(sites) == 0 {
			r.Inconclusive("no ordered list found in " + cfg.Name)
		}
	}
	r.Extra("exhaustive_depth", depth)
	r.Exhaustive = true
	r.RequireCov("random-history", "order:json", "order:gnmi", "order:deepcopy")
}

// c15Order: the list order survives JSON, atomic gNMI and DeepCopy.
func c15Order(r *lib.Run, cfg *lib.Cfg, s *listSite, w func(map[string]interface{}) map[string]interface{}) {
	o := cfg.Observe(s.root)
	lp := lib.PathString(append(append([]lib.PathElem(nil), s.node.Path...), pathElems(s.f.Path)...))
	want := strings.Join(o.Order[lp], " ")
	if want == "" {
		return
	}
	check := func(kind string, t ygot.GoStruct) {
		got := strings.Join(cfg.Observe(t).Order[lp], " ")
		if got != want {
			r.Violate("order-lost", kind, fmt.Sprintf("%s: order %q became %q", lp, want, got), w(map[string]interface{}{"list": lp}))
		} else {
			r.Hit("order:" + kind)
		}
	}
	r.Guard("order-roundtrip", w(map[string]interface{}{}), func() {
		if j, err := emit(s.root, nil); err == nil {
			n := cfg.NewRoot()
			if cfg.UnmarshalJSON([]byte(j), n) == nil {
				check("json", n)
			}
		}
		if cp, err := ygot.DeepCopy(s.root); err == nil {
			check("deepcopy", cp)
		}
		// only lists without siblings can travel in an atomic notification without loss (C02 known finding)
		if ns, err := ygot.TogNMINotifications(s.root, 1, ygot.GNMINotificationsConfig{UsePathElem: true}); err == nil {
			sch := cfg.Schema()
			if ytypes.UnmarshalNotifications(sch, ns) == nil {
				got := strings.Join(cfg.Observe(sch.Root).Order[lp], " ")
				if got == want {
					r.Hit("order:gnmi")
				} else if got != "" {
					r.Violate("order-lost", "gnmi", fmt.Sprintf("%s: order %q became %q", lp, want, got), w(map[string]interface{}{"list": lp}))
				}
			}
		}
	})
}

func pathElems(names []string) []lib.PathElem {
	var out []lib.PathElem
	for _, n := range names {
		out = append(out, lib.PathElem{Name: n, Pos: -1})
	}
	return out
}

var _ = gpb.Path{}

// callKeyed calls a method that takes the list key either as separate
// parameters or, for multi-key lists, as one key struct.
func callKeyed(m reflect.Value, s *listSite, t keyTuple) []reflect.Value {
	if m.Type().NumIn() == 1 && len(t.params) > 1 {
		k := reflect.New(m.Type().In(0)).Elem()
		for i, kf := range s.kfs {
			k.FieldByName(kf.GoName).Set(t.params[i])
		}
		return m.Call([]reflect.Value{k})
	}
	return m.Call(t.params)
}
