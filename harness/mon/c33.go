package mon

import (
	"fmt"
	"reflect"
	"strings"

	"github.com/openconfig/ygot/zzverif/lib"
)

func init() { Monitors["C33"] = runC33 }

func runC33(r *lib.Run) {
	r.Rule = "trees over schemas with defaults of every type (scalars, typedef defaults, enumerations, identityrefs, unions, inside list entries and inside choices); generated PopulateDefaults(); expected defaults parsed by the harness from a direct goyang compilation; checks: set leaves unchanged, every unset defaulted leaf of every instantiated struct holds its default, nothing else appears, valid-before implies valid-after; non-trivial = >=1 default was populated and >=1 defaulted leaf was already set; distinct by cfg+leaf set"
	names := []string{"vt/U-simple", "vtoc/C-simple", "vtoc/C-opstate"}
	n := r.N(500, 10000)
	for _, cn := range names {
		cfg := lib.Get(cn)
		gy, err := cfg.Goyang()
		if err != nil {
			r.Inconclusive("goyang: " + err.Error())
			continue
		}
		for i := 0; i < n; i++ {
			if skip(cfg, i) {
				continue
			}
			opt := lib.DefaultGen()
			opt.OrderedSiblings = true
			opt.Density = 0.6
			t := lib.NewGen(cfg, r.Seed, i, opt).Tree()
			before := cfg.Observe(t)
			w := wit(cfg, r.Seed, i, map[string]interface{}{"tree": before.Dump()})
			var validBefore error
			if r.Guard("Validate", w, func() { validBefore = validateNoLeafref(t) }) {
				continue
			}
			m := reflect.ValueOf(t).MethodByName("PopulateDefaults")
			if !m.IsValid() {
				r.Inconclusive("no PopulateDefaults method in " + cfg.Name)
				break
			}
			if r.Guard("PopulateDefaults", w, func() { m.Call(nil) }) {
				continue
			}
			after := cfg.Observe(t)
			populated, preset := 0, 0
			// expected: walk every struct node now present
			want := before.Clone()
			for _, nd := range cfg.Nodes(t) {
				for _, f := range nd.Info.Fields {
					if f.Kind != lib.KLeaf && f.Kind != lib.KLeafList {
						continue
					}
					el := append(append([]lib.PathElem(nil), nd.Path...), pathElems(f.Path)...)
					var dn []string
					for _, e := range el {
						dn = append(dn, e.Name)
					}
					ge := gy.Find(dn)
					if ge == nil {
						continue
					}
					dvs := ge.DefaultValues()
					if len(dvs) == 0 {
						continue
					}
					ps := lib.PathString(el)
					if _, set := before.Leaves[ps]; set {
						preset++
						continue
					}
					yt := resolveGoyangType(ge)
					var canon []string
					okAll := true
					for _, dv := range dvs {
						c, err := lib.ParseLexByType(yt, dv)
						if err != nil {
							okAll = false
							break
						}
						canon = append(canon, c)
					}
					if !okAll {
						r.Hit("default-unparseable")
						continue
					}
					val := canon[0]
					if f.Kind == lib.KLeafList {
						q := make([]string, len(canon))
						for k, c := range canon {
							q[k] = fmt.Sprintf("%q", c)
						}
						val = "[" + strings.Join(q, ",") + "]"
					}
					want.Leaves[ps] = &lib.Leaf{Path: ps, Elems: el, Val: val, Field: f, IsList: f.Kind == lib.KLeafList, N: len(canon)}
					populated++
					r.Hit("default:" + lib.TypeFeature(f))
					if len(f.Choices) > 0 {
						r.Hit("default-in-choice")
					}
					if nd.IsEntry {
						r.Hit("default-in-list-entry")
					}
				}
			}
			r.Case(caseKey(cfg, before), populated > 0 && preset > 0)
			bad := false
			for _, d := range lib.DiffObs(want, after, lib.DiffOpts{IgnoreOrder: true, EmptyLeafListIsAbsent: true}) {
				if d.What != "leaf" {
					continue
				}
				bad = true
				_, wasSet := before.Leaves[d.Path]
				cl := "default-not-populated"
				switch {
				case wasSet:
					cl = "set-leaf-changed"
				case d.A == "":
					cl = "leaf-without-default-set"
				case d.B != "":
					cl = "wrong-default-value"
				}
				feat := featOf(d)
				if l := want.Leaves[d.Path]; l != nil && l.Field != nil && len(l.Field.Choices) > 0 {
					feat += ":in-choice"
				}
				r.Violate(cl, feat, d.String(), w)
			}
			if !bad {
				r.Hit("defaults-ok")
			}
			if validBefore == nil {
				var validAfter error
				if !r.Guard("Validate", w, func() { validAfter = validateNoLeafref(t) }) && validAfter != nil {
					cls := "other"
					if strings.Contains(validAfter.Error(), "choice") || strings.Contains(validAfter.Error(), "case") {
						cls = "choice-cases"
					}
					feat := cls
					if cls == "other" {
						feat += ":" + strings.Join(lib.ErrClasses(validAfter.Error()), "|")
					}
					r.Violate("valid-tree-invalid-after-defaults", feat, validAfter.Error(), w)
				} else {
					r.Hit("still-valid")
				}
			}
			if i < 2 {
				r.Sample(map[string]interface{}{"cfg": cfg.Name, "leaves_before": len(before.Leaves), "defaults_populated": populated, "defaulted_leaves_already_set": preset})
			}
		}
	}
	r.RequireCov("defaults-ok", "default:uint16", "default:enumeration", "default:identityref", "default:union", "default:decimal64", "default:string", "default:boolean", "default:int64", "default-in-list-entry", "default-in-choice")
}
