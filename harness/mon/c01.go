package mon

import (
	"bytes"
	"encoding/json"
	"fmt"
	"strings"

	"github.com/openconfig/ygot/ygot"
	"github.com/openconfig/ygot/zzverif/lib"
)

func init() { Monitors["C01"] = runC01 }

type jsonMode struct {
	name string
	cfg  *ygot.RFC7951JSONConfig
}

func jsonModes() []jsonMode {
	return []jsonMode{
		{"plain", &ygot.RFC7951JSONConfig{}},
		{"modname", &ygot.RFC7951JSONConfig{AppendModuleName: true}},
		{"modname+idprefix", &ygot.RFC7951JSONConfig{AppendModuleName: true, PrependModuleNameIdentityref: true}},
		{"idprefix", &ygot.RFC7951JSONConfig{PrependModuleNameIdentityref: true}},
	}
}

func normJSON(s []byte) (string, error) {
	var v interface{}
	d := json.NewDecoder(bytes.NewReader(s))
	d.UseNumber()
	if err := d.Decode(&v); err != nil {
		return "", err
	}
	b, err := json.Marshal(v)
	return string(b), err
}

func runC01(r *lib.Run) {
	r.Rule = "trees from the schema-directed generator (seed,index) per configuration and JSON mode; non-trivial = tree has >=3 leaves; distinct by configuration+mode+leaf set"
	r.Assume("union values are canonical (DESIGN 3.2); decimal64 values are float64 values whose shortest decimal form has at most fraction-digits digits after the point (up to 17 significant digits)")
	n := r.N(400, 6000)
	for _, cfg := range cfgsFor(r, quick3) {
		for i := 0; i < n; i++ {
			opt := lib.DefaultGen()
			opt.Unkeyed = i%3 == 0
			opt.EmptyLeafLists = i%5 == 0
			opt.OrderedSiblings = true
			opt.ZeroLenBinary = true
			if skip(cfg, i) {
				continue
			}
			g := lib.NewGen(cfg, r.Seed, i, opt)
			t := g.Tree()
			mode := jsonModes()[i%4]
			c01Case(r, cfg, g, t, mode, i)
		}
	}
	r.RequireCov("mode:plain", "mode:modname", "tag:ordered-list", "roundtrip-ok")
}

func c01Case(r *lib.Run, cfg *lib.Cfg, g *lib.Gen, t ygot.GoStruct, mode jsonMode, idx int) {
	o := cfg.Observe(t)
	r.Case(cfg.Name+mode.name+caseKey(cfg, o), len(o.Leaves) >= 3)
	r.Hit("mode:" + mode.name)
	r.Hit("cfg:" + cfg.Name)
	for k := range g.Tags {
		r.Hit("tag:" + k)
	}
	for _, l := range o.Leaves {
		r.Hit("leaf:" + l.Feature())
	}
	w := func(more map[string]interface{}) map[string]interface{} {
		more["mode"] = mode.name
		more["tree"] = o.Dump()
		return wit(cfg, r.Seed, idx, more)
	}
	var j1 string
	var err error
	if r.Guard("EmitJSON", w(map[string]interface{}{}), func() { j1, err = emit(t, mode.cfg) }) {
		return
	}
	if err != nil {
		r.ViolateErr("emit-error", err, w(map[string]interface{}{}))
		return
	}
	if idx < 2 {
		r.Sample(map[string]interface{}{"cfg": cfg.Name, "mode": mode.name, "json": json.RawMessage(j1)})
	}
	nroot := cfg.NewRoot()
	if r.Guard("Unmarshal", w(map[string]interface{}{"json": j1}), func() { err = cfg.UnmarshalJSON([]byte(j1), nroot) }) {
		return
	}
	if err != nil {
		r.ViolateErr("unmarshal-error", err, w(map[string]interface{}{"json": lib.Clip(j1, 4000)}))
		return
	}
	o2 := cfg.Observe(nroot)
	deltas := lib.DiffObs(o, o2, lib.DiffOpts{EmptyLeafListIsAbsent: true})
	for _, d := range deltas {
		r.Violate("tree-differs", featOf(d), d.String(), w(map[string]interface{}{"json": lib.Clip(j1, 4000), "delta": d.String()}))
	}
	var j2 string
	if r.Guard("EmitJSON", w(map[string]interface{}{}), func() { j2, err = emit(nroot, mode.cfg) }) {
		return
	}
	if err != nil {
		r.ViolateErr("re-emit-error", err, w(map[string]interface{}{}))
		return
	}
	if j2 != j1 && len(deltas) == 0 {
		feat := "bytes"
		// attribute to representation classes if that explains it
		sd := lib.DiffObs(o, o2, lib.DiffOpts{Shape: true})
		if len(sd) > 0 {
			feat = featOf(sd[0])
			for _, x := range sd {
				if strings.HasSuffix(x.Feature, ":empty") {
					feat = "empty-leaf-list"
				}
			}
		}
		r.Violate("rerender-differs", feat, fmt.Sprintf("re-rendered JSON differs (%s)", feat), w(map[string]interface{}{"j1": lib.Clip(j1, 3000), "j2": lib.Clip(j2, 3000)}))
	}
	// Marshal7951 must agree with EmitJSON modulo formatting.
	var m []byte
	if r.Guard("Marshal7951", w(map[string]interface{}{}), func() { m, err = ygot.Marshal7951(t, mode.cfg) }) {
		return
	}
	if err != nil {
		r.ViolateErr("marshal7951-error", err, w(map[string]interface{}{}))
		return
	}
	a, e1 := normJSON(m)
	b, e2 := normJSON([]byte(j1))
	if e1 != nil || e2 != nil || a != b {
		r.Violate("marshal7951-vs-emitjson", "bytes", "Marshal7951 and EmitJSON disagree", w(map[string]interface{}{"marshal7951": lib.Clip(string(m), 3000), "emitjson": lib.Clip(j1, 3000)}))
	}
	if len(deltas) == 0 {
		r.Hit("roundtrip-ok")
	}
}
