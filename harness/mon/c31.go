package mon

import (
	"encoding/json"
	"fmt"
	"math/rand"
	"reflect"
	"sort"
	"strings"

	"github.com/openconfig/ygot/ygot"
	"github.com/openconfig/ygot/ytypes"
	"github.com/openconfig/ygot/zzverif/lib"
)

func init() { Monitors["C31"] = runC31 }

// injectUnknown adds an unknown member somewhere in a JSON document and returns
// a description of where.
func injectUnknown(doc map[string]interface{}, rng *rand.Rand, prefixed bool) string {
	type site struct {
		obj  map[string]interface{}
		kind string
	}
	var sites []site
	var walk func(v interface{}, kind string)
	walk = func(v interface{}, kind string) {
		switch x := v.(type) {
		case map[string]interface{}:
			sites = append(sites, site{x, kind})
			keys := make([]string, 0, len(x))
			for k := range x {
				keys = append(keys, k)
			}
			sort.Strings(keys)
			for _, k := range keys {
				walk(x[k], "container")
			}
		case []interface{}:
			for _, e := range x {
				if _, ok := e.(map[string]interface{}); ok {
					walk(e, "list-entry")
				}
			}
		}
	}
	walk(doc, "root")
	s := sites[rng.Intn(len(sites))]
	name := "zz-unknown-member"
	if prefixed {
		name = "zz-module:zz-unknown-member"
	}
	vals := []interface{}{1, "x", map[string]interface{}{"a": 1}, []interface{}{1, 2}}
	vi := rng.Intn(len(vals))
	s.obj[name] = vals[vi]
	return s.kind + ":" + []string{"number", "string", "object", "array"}[vi]
}

func runC31(r *lib.Run) {
	r.Rule = "pairs (E existing tree, T source tree): T = E regenerated and mutated, or independent; the JSON document is rendered from T's leaf-set observation by the harness' own RFC7951 encoder, unmarshalled into E and compared with the merge model (leaves overwritten, leaf-lists replaced wholesale, list entries merged by key); unknown members injected at random depths with and without IgnoreExtraFields; non-trivial = E and T both have >=3 leaves; distinct by cfg+obs(E)+obs(T)+variant"
	r.Assume("unkeyed lists are not generated; pairs where an ordered-by-user list is populated on both sides are don't-care (documented: unmarshalled as a whole)")
	n := r.N(600, 12000)
	for _, cfg := range cfgsFor(r, quick3) {
		for i := 0; i < n; i++ {
			if skip(cfg, i) {
				continue
			}
			opt := lib.DefaultGen()
			opt.OrderedSiblings = true
			E := lib.NewGen(cfg, r.Seed, i, opt).Tree()
			var T = cfg.NewRoot()
			kind := ""
			switch i % 3 {
			case 0:
				kind = "mutated"
				g := lib.NewGen(cfg, r.Seed, i, opt)
				T = g.Tree()
				g.Mutate(T, 2+i%5)
			case 1:
				kind = "independent"
				T = lib.NewGen(cfg, r.Seed+8080, i, opt).Tree()
			default:
				kind = "sparse"
				o2 := opt
				o2.Density = 0.3
				T = lib.NewGen(cfg, r.Seed+9090, i, o2).Tree()
			}
			// some leaf-lists of the source are set but empty: the document mentions them as
			// [] and that replaces whatever the existing tree holds
			if i%2 == 0 {
				erng := rand.New(rand.NewSource(r.Seed*59 + int64(i)))
				for _, nd := range cfg.Nodes(T) {
					for _, f := range nd.Info.Fields {
						fv := nd.V.Elem().Field(f.Idx)
						if f.Kind == lib.KLeafList && fv.Len() > 0 && erng.Intn(3) == 0 {
							fv.Set(reflect.MakeSlice(fv.Type(), 0, 0))
							r.Hit("source:empty-leaf-list")
						}
					}
				}
			}
			// the existing tree may share one Go pointer between several leaves (v := ygot.String("x")
			// assigned to many entries): unmarshalling one of them must not write through the pointer
			if i%3 == 1 {
				arng := rand.New(rand.NewSource(r.Seed*61 + int64(i)))
				byType := map[reflect.Type][]reflect.Value{}
				for _, nd := range cfg.Nodes(E) {
					keyIdx := map[int]bool{}
					if nd.IsEntry {
						for _, kf := range nd.Info.KeyFields() {
							if kf != nil {
								keyIdx[kf.Idx] = true
							}
						}
					}
					for _, f := range nd.Info.Fields {
						fv := nd.V.Elem().Field(f.Idx)
						if f.Kind == lib.KLeaf && fv.Kind() == reflect.Ptr && !fv.IsNil() && !keyIdx[f.Idx] && f.LeafrefPath == "" {
							byType[fv.Type()] = append(byType[fv.Type()], fv)
						}
					}
				}
				var types []reflect.Type
				for t := range byType {
					types = append(types, t)
				}
				sort.Slice(types, func(a, b int) bool { return types[a].String() < types[b].String() })
				for _, t := range types {
					vs := byType[t]
					for k := 0; k+1 < len(vs) && k < 6; k += 2 {
						if arng.Intn(2) == 0 {
							vs[k+1].Set(vs[k]) // both leaves now share one pointer (and value)
							r.Hit("existing:aliased-leaf-pointers")
						}
					}
				}
			}
			oe, ot := cfg.Observe(E), cfg.Observe(T)
			both := false
			for lp := range ot.Order {
				if _, ok := oe.Order[lp]; ok {
					both = true
				}
			}
			if both {
				r.Hit("dont-care:ordered-list-on-both-sides")
				continue
			}
			rng := rand.New(rand.NewSource(r.Seed*53 + int64(i)))
			// every fourth case the document is unmarshalled into ONE keyed-list entry of the existing
			// tree (generated Unmarshal on a sub-struct / SetNode with JSON on a list entry) instead of
			// the root: the options given must reach everything below that entry too
			var scopePath []lib.PathElem
			var scopeDst ygot.GoStruct
			if i%4 == 3 {
				inT := map[string]bool{}
				for _, nd := range cfg.Nodes(T) {
					inT[lib.PathString(nd.Path)] = true
				}
				var cands []*lib.Node
				for _, nd := range cfg.Nodes(E) {
					if nd.IsEntry && !nd.Keyless && nd.Field.Kind == lib.KList && inT[lib.PathString(nd.Path)] {
						cands = append(cands, nd)
					}
				}
				if len(cands) > 0 {
					nd := cands[rng.Intn(len(cands))]
					if gs, ok := nd.V.Interface().(ygot.GoStruct); ok {
						scopePath, scopeDst = nd.Path, gs
					}
				}
			}
			doc, err := ot.SubtreeJSON(scopePath)
			if err != nil || len(doc) == 0 {
				continue
			}
			variant := []string{"plain", "unknown", "unknown+ignore"}[i%7%3]
			where := ""
			if variant != "plain" {
				where = injectUnknown(doc, rng, rng.Intn(2) == 0)
			}
			js, _ := json.Marshal(doc)
			r.Hit("pair:" + kind)
			r.Hit("variant:" + variant)
			r.Case(cfg.Name+variant+strings.Join(oe.Dump(), "\n")+"<-"+string(js), len(oe.Leaves) >= 3 && len(ot.Leaves) >= 3)
			w := wit(cfg, r.Seed, i, map[string]interface{}{"variant": variant, "scope": lib.PathString(scopePath), "unknown_at": where, "existing": oe.Dump(), "json": lib.Clip(string(js), 6000)})
			model := lib.NewModel(cfg, oe)
			model.WriteSubtree(ot, scopePath)
			scope := "root"
			if scopeDst != nil {
				scope = "list-entry"
			}
			r.Hit("scope:" + scope)
			var opts []ytypes.UnmarshalOpt
			if variant == "unknown+ignore" {
				opts = append(opts, &ytypes.IgnoreExtraFields{})
			}
			var uerr error
			if r.Guard("Unmarshal", w, func() {
				if scopeDst != nil {
					var tree interface{}
					if uerr = json.Unmarshal(js, &tree); uerr == nil {
						uerr = cfg.UnmarshalValue(tree, scopeDst, opts...)
					}
					return
				}
				uerr = cfg.UnmarshalJSON(js, E, opts...)
			}) {
				continue
			}
			if variant == "unknown" {
				if uerr == nil {
					r.Violate("unknown-member-accepted", where, "Unmarshal without IgnoreExtraFields accepted an unknown member", w)
				} else {
					r.Hit("unknown-rejected")
				}
				continue
			}
			if uerr != nil {
				for _, c := range lib.ErrClasses(uerr.Error()) {
					r.Violate("unmarshal-error", variant+":"+c, uerr.Error(), w)
				}
				continue
			}
			bad := false
			for _, d := range lib.DiffObs(model.Obs(), cfg.Observe(E), lib.DiffOpts{EmptyLeafListIsAbsent: true}) {
				if d.What == "entry" || d.What == "presence" {
					continue
				}
				if d.What == "order" && nestedOrdered(model.Order, cfg.Observe(E).Order, d.Path) {
					continue
				}
				bad = true
				cl := "merge-differs-from-model"
				if variant == "unknown+ignore" {
					cl = "merge-differs-from-model"
				}
				note := ""
				if l := model.Leaves[d.Path]; l != nil {
					note = cfg.KeyNote(l.Elems)
				}
				r.Violate(cl, featOf(d)+note, d.String(), w)
			}
			if !bad {
				r.Hit("merged-ok:" + variant)
				r.Hit("merged-ok:" + scope + ":" + variant)
			}
			if i < 3 {
				r.Sample(map[string]interface{}{"cfg": cfg.Name, "variant": variant, "existing_leaves": len(oe.Leaves), "json_leaves": len(ot.Leaves), "result_leaves": len(cfg.Observe(E).Leaves)})
			}
		}
	}
	r.RequireCov("merged-ok:plain", "merged-ok:unknown+ignore", "merged-ok:list-entry:unknown+ignore", "merged-ok:list-entry:plain", "unknown-rejected", "pair:mutated", "pair:independent")
}

var _ = fmt.Sprintf
