package mon

import (
	"encoding/json"
	"fmt"
	"math/rand"
	"reflect"
	"runtime"
	"sort"
	"strings"
	"sync"
	"time"

	gpb "github.com/openconfig/gnmi/proto/gnmi"
	"github.com/openconfig/ygot/ygot"
	"github.com/openconfig/ygot/ytypes"
	"github.com/openconfig/ygot/zzverif/lib"
	"google.golang.org/protobuf/proto"
)

func init() { Monitors["C21"] = runC21 }

type concOp struct {
	name string
	run  func() string // canonicalised result
}

func sortedNotifs(ns []*gpb.Notification, err error) string {
	if err != nil {
		return "ERR " + err.Error()
	}
	var out []string
	for _, n := range ns {
		var us []string
		for _, u := range n.Update {
			us = append(us, u.String())
		}
		sort.Strings(us)
		var ds []string
		for _, d := range n.Delete {
			ds = append(ds, d.String())
		}
		sort.Strings(ds)
		out = append(out, fmt.Sprintf("atomic=%v prefix=%s U=%v D=%v", n.Atomic, n.Prefix, us, ds))
	}
	sort.Strings(out)
	return strings.Join(out, "\n")
}

// runC21 is one process of the concurrency workload.  The race verdict itself is
// taken by the driver from the race detector's log of this process; this
// function decides the schedule-independence clause (results equal the results
// of the same operations run one at a time) and records what overlapped.
func runC21(r *lib.Run) {
	r.Rule = "one process = one cold start: G goroutines released by a barrier run shuffled rounds of read-only operations on ONE shared tree, schema and option structs (phase A), then G goroutines decode the SAME JSON value / SetRequest / Notifications / TypedValues into DISTINCT roots sharing one schema (phase B); afterwards every operation is re-run sequentially and its canonicalised result must equal what each goroutine saw; the race detector log of the process is judged by the driver; non-trivial = operation executed concurrently with another; distinct by process seed+phase+operation+goroutine+round"
	rng := rand.New(rand.NewSource(r.Seed*104729 + 7))
	procs := []int{1, 2, 4, 16}[rng.Intn(4)]
	runtime.GOMAXPROCS(procs)
	G := []int{2, 4, 16}[rng.Intn(3)]
	rounds := r.N(3, 6)
	r.Extra("gomaxprocs", procs)
	r.Extra("goroutines", G)
	r.Hit(fmt.Sprintf("gomaxprocs:%d", procs))
	r.Hit(fmt.Sprintf("goroutines:%d", G))
	cfgs := cfgsFor(r, quick3)
	cfg := cfgs[rng.Intn(len(cfgs))]
	r.Hit("cfg:" + cfg.Name)
	opt := lib.DefaultGen()
	opt.OrderedSiblings = false
	opt.Density = 0.75
	idx := int(r.Seed % 1000)
	t := lib.NewGen(cfg, r.Seed, idx, opt).Tree()
	b := lib.NewGen(cfg, r.Seed+1, idx, opt).Tree()
	o := cfg.Observe(t)
	rootEntry := cfg.RootEntry()
	w := wit(cfg, r.Seed, idx, map[string]interface{}{"gomaxprocs": procs, "goroutines": G})

	// shared option structs
	jc := &ygot.EmitJSONConfig{Format: ygot.RFC7951, SkipValidation: true, RFC7951Config: &ygot.RFC7951JSONConfig{AppendModuleName: true}}
	rc := &ygot.RFC7951JSONConfig{AppendModuleName: true}
	rcPlain := &ygot.RFC7951JSONConfig{}
	lo := &ytypes.LeafrefOptions{IgnoreMissingData: true}
	nodes := cfg.Nodes(t)
	var paths []*gpb.Path
	for k := 0; k < 6 && k < len(nodes); k++ {
		nd := nodes[rng.Intn(len(nodes))]
		p := lib.ToGNMIPath(nd.Path)
		paths = append(paths, p)
		// wildcard / partial-key variants
		wp := proto.Clone(p).(*gpb.Path)
		for _, e := range wp.Elem {
			for kk := range e.Key {
				e.Key[kk] = "*"
				break
			}
		}
		paths = append(paths, wp)
	}
	var leafVals []interface{}
	for _, nd := range nodes {
		for _, f := range nd.Info.Fields {
			fv := nd.V.Elem().Field(f.Idx)
			if (f.Kind == lib.KLeaf || f.Kind == lib.KLeafList) && isSet(fv) && len(leafVals) < 8 {
				leafVals = append(leafVals, fv.Interface())
			}
		}
	}
	opsA := []concOp{
		{"Validate", func() string { return errCanon(t.(validator).Validate(lo)) }},
		{"Validate(leafrefs)", func() string { return errCanon(t.(validator).Validate()) }},
		{"EmitJSON", func() string { s, err := ygot.EmitJSON(t, jc); return s + fmt.Sprint(err) }},
		{"Marshal7951", func() string {
			bs, err := ygot.Marshal7951(t, rc)
			n, _ := normJSON(bs)
			return n + fmt.Sprint(err)
		}},
		{"TogNMINotifications", func() string {
			return sortedNotifs(ygot.TogNMINotifications(t, 7, ygot.GNMINotificationsConfig{UsePathElem: true}))
		}},
		{"Diff", func() string { n, err := ygot.Diff(t, b); return sortedNotifs([]*gpb.Notification{n}, err) }},
		{"DiffWithAtomic", func() string { return sortedNotifs(ygot.DiffWithAtomic(t, b)) }},
		{"DeepCopy", func() string {
			c, err := ygot.DeepCopy(t)
			if err != nil {
				return "ERR " + err.Error()
			}
			return strings.Join(cfg.Observe(c).Dump(), "\n")
		}},
		{"EncodeTypedValue(struct,shared cfg)", func() string {
			tv, err := ygot.EncodeTypedValue(t, gpb.Encoding_JSON_IETF, rcPlain)
			n, _ := normJSON(tv.GetJsonIetfVal())
			return n + fmt.Sprint(err)
		}},
	}
	// path structs hanging off shared ancestors, resolved for the first time by several goroutines at once
	// (another read-only operation on shared objects; only when a configuration with path structs is linked)
	for _, pn := range lib.Names() {
		pc := lib.Get(pn)
		if pc.PathRoot == nil {
			continue
		}
		for k, ps := range c21PathStructs(pc, 24) {
			ps := ps
			opsA = append(opsA, concOp{fmt.Sprintf("ResolvePath#%d", k), func() string {
				p, _, errs := ygot.ResolvePath(ps)
				return p.String() + fmt.Sprint(errs)
			}})
		}
		r.Hit("path-structs-linked")
		break
	}
	for k, p := range paths {
		p := p
		opsA = append(opsA, concOp{fmt.Sprintf("GetNode#%d", k), func() string {
			ns, err := ytypes.GetNode(rootEntry, t, p, &ytypes.GetHandleWildcards{}, &ytypes.GetPartialKeyMatch{})
			var out []string
			for _, n := range ns {
				out = append(out, n.Path.String()+fmt.Sprintf("%T", n.Data))
			}
			sort.Strings(out)
			// a wildcard query fails on the first entry (in map order) that lacks the rest of the
			// path: which entry the message names is not a property of the schedule
			es := ""
			if err != nil {
				es = strings.Join(lib.ErrClasses(err.Error()), "|")
			}
			return strings.Join(out, ";") + es
		}})
	}
	for k, v := range leafVals {
		v := v
		opsA = append(opsA, concOp{fmt.Sprintf("EncodeTypedValue#%d", k), func() string {
			tv, err := ygot.EncodeTypedValue(v, gpb.Encoding_JSON_IETF)
			return tv.String() + fmt.Sprint(err)
		}})
	}

	// phase B inputs (shared, read-only by contract)
	var jsonTree interface{}
	if doc, err := o.SubtreeJSON(nil); err == nil {
		bs, _ := json.Marshal(doc)
		json.Unmarshal(bs, &jsonTree)
	}
	ups := leafUpdates(o, nil, false)
	// tolerant-mode representation: uints as int_val (what a JSON-translated client sends)
	var tolUps []*gpb.Update
	for _, u := range ups {
		c := proto.Clone(u).(*gpb.Update)
		if _, isU := c.Val.GetValue().(*gpb.TypedValue_UintVal); isU && c.Val.GetUintVal() < 1<<62 {
			c.Val.Value = &gpb.TypedValue_IntVal{IntVal: int64(c.Val.GetUintVal())}
		}
		tolUps = append(tolUps, c)
	}
	req := &gpb.SetRequest{Update: ups}
	ns, _ := ygot.TogNMINotifications(t, 1, ygot.GNMINotificationsConfig{UsePathElem: true})
	sharedTree := cfg.Tree()
	_ = sharedTree
	dump := func(root ygot.GoStruct, err error) string {
		return strings.Join(cfg.Observe(root).Dump(), "\n") + "|" + fmt.Sprint(err != nil)
	}
	opsB := []concOp{
		{"Unmarshal(shared JSON value)", func() string {
			root := cfg.NewRoot()
			return dump(root, cfg.UnmarshalValue(jsonTree, root))
		}},
		{"UnmarshalSetRequest(shared request)", func() string {
			s := cfg.Schema()
			return dump(s.Root, ytypes.UnmarshalSetRequest(s, req))
		}},
		{"UnmarshalNotifications(shared notifications)", func() string {
			s := cfg.Schema()
			return dump(s.Root, ytypes.UnmarshalNotifications(s, ns))
		}},
		{"SetNode(shared TypedValues)", func() string {
			root := cfg.NewRoot()
			var last error
			for _, u := range ups {
				if err := ytypes.SetNode(rootEntry, root, u.Path, u.Val, &ytypes.InitMissingElements{}); err != nil {
					last = err
				}
			}
			return dump(root, last)
		}},
		{"SetNode+TolerateJSONInconsistencies(shared TypedValues)", func() string {
			root := cfg.NewRoot()
			var last error
			for _, u := range tolUps {
				if err := ytypes.SetNode(rootEntry, root, u.Path, u.Val, &ytypes.InitMissingElements{}, &ytypes.TolerateJSONInconsistencies{}); err != nil {
					last = err
				}
			}
			return dump(root, last)
		}},
	}

	type rec struct {
		phase, op string
		g, round  int
		res       string
		t0, t1    int64
	}
	var mu sync.Mutex
	var recs []rec
	runPhase := func(phase string, ops []concOp) {
		var wg sync.WaitGroup
		start := make(chan struct{})
		for g := 0; g < G; g++ {
			wg.Add(1)
			go func(g int) {
				defer wg.Done()
				lr := rand.New(rand.NewSource(r.Seed*31 + int64(g)))
				<-start
				for round := 0; round < rounds; round++ {
					for _, k := range lr.Perm(len(ops)) {
						op := ops[k]
						var res string
						t0 := time.Now().UnixNano()
						func() {
							defer func() {
								if p := recover(); p != nil {
									res = fmt.Sprintf("PANIC %v", p)
								}
							}()
							res = op.run()
						}()
						t1 := time.Now().UnixNano()
						mu.Lock()
						recs = append(recs, rec{phase, op.name, g, round, res, t0, t1})
						mu.Unlock()
					}
				}
			}(g)
		}
		close(start)
		wg.Wait()
	}
	runPhase("A", opsA)
	runPhase("B", opsB)
	// sequential reference, after the concurrent phases (the process started cold)
	ref := map[string]string{}
	for _, op := range append(append([]concOp{}, opsA...), opsB...) {
		func() {
			defer func() {
				if p := recover(); p != nil {
					ref[op.name] = fmt.Sprintf("PANIC %v", p)
				}
			}()
			ref[op.name] = op.run()
		}()
	}
	overlap := map[string]bool{}
	for i, x := range recs {
		r.Case(fmt.Sprintf("%d %s %s g%d r%d", r.Seed, x.phase, x.op, x.g, x.round), true)
		r.Hit("op:" + x.op)
		if x.res != ref[x.op] {
			cl := "schedule-dependent-result"
			if strings.HasPrefix(x.res, "PANIC") {
				cl = "panic-under-concurrency"
			}
			base := x.op
			if k := strings.Index(base, "#"); k >= 0 {
				base = base[:k]
			}
			r.Violate(cl, base, fmt.Sprintf("%s (goroutine %d, round %d) returned a result different from the sequential run", x.op, x.g, x.round),
				map[string]interface{}{"case": w, "concurrent": lib.Clip(x.res, 1500), "sequential": lib.Clip(ref[x.op], 1500)})
		}
		// which operation pairs actually overlapped in time (bounded work: neighbours only)
		for j := i + 1; j < len(recs) && j < i+4*G; j++ {
			y := recs[j]
			if x.g != y.g && x.phase == y.phase && x.t0 < y.t1 && y.t0 < x.t1 {
				a, b := baseOp(x.op), baseOp(y.op)
				if a > b {
					a, b = b, a
				}
				overlap[a+" || "+b] = true
			}
		}
	}
	var ov []string
	for k := range overlap {
		ov = append(ov, k)
	}
	sort.Strings(ov)
	r.Extra("overlapping_op_pairs", ov)
	r.HitN("overlapping-op-pairs", len(ov))
	r.Sample(map[string]interface{}{"cfg": cfg.Name, "gomaxprocs": procs, "goroutines": G, "rounds": rounds, "operations_A": len(opsA), "operations_B": len(opsB), "overlapping_pairs": len(ov), "leaves": len(o.Leaves)})
}

func baseOp(s string) string {
	if k := strings.Index(s, "#"); k >= 0 {
		return s[:k]
	}
	return s
}

// errCanon canonicalises a (possibly multi-part) validation error: the parts are
// collected from maps, so their order is not part of the result.
func errCanon(err error) string {
	if err == nil {
		return "<nil>"
	}
	parts := strings.FieldsFunc(err.Error(), func(r rune) bool { return r == ',' || r == '\n' })
	for i := range parts {
		parts[i] = strings.TrimSpace(parts[i])
	}
	sort.Strings(parts)
	return strings.Join(parts, " | ")
}

// c21PathStructs builds up to max path structs below one fresh root by calling the generated
// accessors with fixed key arguments; children keep a pointer to their parent, so the set shares
// its ancestors the way application code does.
func c21PathStructs(cfg *lib.Cfg, max int) []ygot.PathStruct {
	var out []ygot.PathStruct
	var walk func(v reflect.Value, depth int)
	walk = func(v reflect.Value, depth int) {
		if depth > 6 {
			return
		}
		t := v.Type()
		for mi := 0; mi < t.NumMethod() && len(out) < max; mi++ {
			m := t.Method(mi)
			if m.Type.NumOut() != 1 || !m.Type.Out(0).Implements(pathStructT) || strings.HasPrefix(m.Name, "With") {
				continue
			}
			args := make([]reflect.Value, m.Type.NumIn()-1)
			ok := true
			for a := range args {
				at := m.Type.In(a + 1)
				switch at.Kind() {
				case reflect.String:
					args[a] = reflect.ValueOf("k1").Convert(at)
				case reflect.Int8, reflect.Int16, reflect.Int32, reflect.Int64:
					args[a] = reflect.ValueOf(int64(1)).Convert(at)
				case reflect.Uint8, reflect.Uint16, reflect.Uint32, reflect.Uint64:
					args[a] = reflect.ValueOf(uint64(1)).Convert(at)
				default:
					ok = false
				}
			}
			if !ok {
				continue
			}
			child := v.Method(mi).Call(args)[0]
			ps, isPS := child.Interface().(ygot.PathStruct)
			if !isPS {
				continue
			}
			out = append(out, ps)
			walk(child, depth+1)
		}
	}
	walk(reflect.ValueOf(cfg.PathRoot()), 0)
	return out
}
