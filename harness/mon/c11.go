package mon

import (
	"bytes"
	"encoding/json"
	"fmt"
	"math/rand"
	"reflect"
	"strings"

	gpb "github.com/openconfig/gnmi/proto/gnmi"
	"github.com/openconfig/ygot/gnmidiff"
	"github.com/openconfig/ygot/util"
	"github.com/openconfig/ygot/ygot"
	"github.com/openconfig/ygot/ytypes"
	"github.com/openconfig/ygot/zzverif/lib"
	"google.golang.org/protobuf/proto"
)

func init() { Monitors["C11"] = runC11 }

// snapshot of one argument: a closure that reports how the argument differs
// from its state at snapshot time ("" = unchanged).
type snap func() string

func snapStruct(cfg *lib.Cfg, name string, t ygot.GoStruct) snap {
	if t == nil || reflect.ValueOf(t).IsNil() {
		return func() string { return "" }
	}
	before := cfg.Observe(t)
	return func() string {
		ds := lib.DiffObs(before, cfg.Observe(t), lib.DiffOpts{Shape: true})
		if len(ds) == 0 {
			return ""
		}
		return name + ": " + ds[0].String()
	}
}

func snapProto(name string, m proto.Message) snap {
	if m == nil || reflect.ValueOf(m).IsNil() {
		return func() string { return "" }
	}
	cl := proto.Clone(m)
	b, _ := proto.MarshalOptions{Deterministic: true}.Marshal(m)
	return func() string {
		b2, _ := proto.MarshalOptions{Deterministic: true}.Marshal(m)
		if !proto.Equal(cl, m) || !bytes.Equal(b, b2) {
			return name + ": protobuf message changed"
		}
		return ""
	}
}

func snapProtos[T proto.Message](name string, ms []T) snap {
	var ss []snap
	for i, m := range ms {
		ss = append(ss, snapProto(fmt.Sprintf("%s[%d]", name, i), m))
	}
	n := len(ms)
	return func() string {
		if len(ms) != n {
			return name + ": slice length changed"
		}
		for _, s := range ss {
			if d := s(); d != "" {
				return d
			}
		}
		return ""
	}
}

func snapValue(name string, v interface{}) snap {
	b, _ := json.Marshal(v)
	cp := fmt.Sprintf("%#v", v)
	return func() string {
		b2, _ := json.Marshal(v)
		if !bytes.Equal(b, b2) || cp != fmt.Sprintf("%#v", v) {
			return name + ": value changed from " + lib.Clip(string(b), 200) + " to " + lib.Clip(string(b2), 200)
		}
		return ""
	}
}

// deref-snapshot for option structs passed by pointer
func snapOpt(name string, p interface{}) snap {
	v := reflect.ValueOf(p)
	if !v.IsValid() || (v.Kind() == reflect.Ptr && v.IsNil()) {
		return func() string { return "" }
	}
	before := fmt.Sprintf("%+v", reflect.Indirect(v).Interface())
	return func() string {
		after := fmt.Sprintf("%+v", reflect.Indirect(v).Interface())
		if before != after {
			return name + ": option struct changed from " + before + " to " + after
		}
		return ""
	}
}

func runC11(r *lib.Run) {
	r.Rule = "every API named in the statement is called on generated trees, requests, notifications, payloads and option structs; each argument is deep-snapshotted before the call (leaf set + representation for GoStructs, proto.Clone + deterministic bytes for messages, formatted copy for option structs and decoded JSON) and compared after; non-trivial = tree has >=5 leaves; distinct by cfg+tree"
	n := r.N(150, 1500)
	for _, cfg := range cfgsFor(r, quick3) {
		rootEntry := cfg.RootEntry()
		for i := 0; i < n; i++ {
			if skip(cfg, i) {
				continue
			}
			opt := lib.DefaultGen()
			opt.OrderedSiblings = true
			opt.Unkeyed = i%3 == 0
			opt.EmptyLeafLists = i%4 == 0
			opt.EmptyContainers = i%5 == 0
			t := lib.NewGen(cfg, r.Seed, i, opt).Tree()
			b := lib.NewGen(cfg, r.Seed+5, i, opt).Tree()
			o := cfg.Observe(t)
			rng := rand.New(rand.NewSource(r.Seed*37 + int64(i)))
			r.Case(caseKey(cfg, o), len(o.Leaves) >= 5)
			call := func(entry string, snaps []snap, f func()) {
				panicked := false
				func() {
					defer func() {
						if p := recover(); p != nil {
							panicked = true
						}
					}()
					f()
				}()
				if panicked {
					r.Hit("panic-not-judged-here:" + entry) // C20 owns panics
					return
				}
				r.Hit("call:" + entry)
				for _, s := range snaps {
					if d := s(); d != "" {
						r.Violate("input-mutated", entry, d, wit(cfg, r.Seed, i, map[string]interface{}{"entry": entry, "change": d}))
					}
				}
			}
			st := func() snap { return snapStruct(cfg, "tree", t) }
			// --- read-only tree APIs
			nodes := cfg.Nodes(t)
			nd := nodes[rng.Intn(len(nodes))]
			gp := lib.ToGNMIPath(nd.Path)
			// path shapes a caller may hand in: the node's path, a leaf path, the same with a
			// wildcard key, the "absolute" form with a leading empty element, with origin/target,
			// and a path that matches nothing
			gpaths := []*gpb.Path{gp}
			if lps := cfg.Observe(t).SortedLeafPaths(); len(lps) > 0 {
				if l := cfg.Observe(t).Leaves[lps[rng.Intn(len(lps))]]; !strings.Contains(l.Path, "[#") {
					gpaths = append(gpaths, lib.ToGNMIPath(l.Elems))
				}
			}
			for _, base := range append([]*gpb.Path(nil), gpaths...) {
				abs := proto.Clone(base).(*gpb.Path)
				abs.Elem = append([]*gpb.PathElem{{Name: ""}}, abs.Elem...)
				wc := proto.Clone(base).(*gpb.Path)
				for _, e := range wc.Elem {
					for k := range e.Key {
						e.Key[k] = "*"
						break
					}
				}
				ot := proto.Clone(base).(*gpb.Path)
				ot.Origin, ot.Target = "openconfig", "dev1"
				miss := proto.Clone(base).(*gpb.Path)
				miss.Elem = append(miss.Elem, &gpb.PathElem{Name: "no-such-node"})
				gpaths = append(gpaths, abs, wc, ot, miss)
			}
			for pi, gpath := range gpaths {
				gpath := gpath
				for _, gopts := range [][]ytypes.GetNodeOpt{nil, {&ytypes.GetPartialKeyMatch{}}, {&ytypes.GetHandleWildcards{}}, {&ytypes.GetTolerateNil{}}, {&ytypes.GetPartialKeyMatch{}, &ytypes.GetHandleWildcards{}, &ytypes.GetTolerateNil{}}} {
					call("GetNode", []snap{st(), snapProto("path", gpath)}, func() { ytypes.GetNode(rootEntry, t, gpath, gopts...) })
				}
				r.HitN("getnode-path-shapes", 1)
				_ = pi
			}
			lo := &ytypes.LeafrefOptions{IgnoreMissingData: true}
			call("Validate", []snap{st(), snapOpt("LeafrefOptions", lo)}, func() { t.(validator).Validate(lo) })
			for _, m := range jsonModes() {
				jc := &ygot.EmitJSONConfig{Format: ygot.RFC7951, SkipValidation: true, RFC7951Config: m.cfg}
				call("EmitJSON", []snap{st(), snapOpt("EmitJSONConfig", jc), snapOpt("RFC7951JSONConfig", m.cfg)}, func() { ygot.EmitJSON(t, jc) })
				call("ConstructIETFJSON", []snap{st(), snapOpt("RFC7951JSONConfig", m.cfg)}, func() { ygot.ConstructIETFJSON(t, m.cfg) })
				call("Marshal7951", []snap{st(), snapOpt("RFC7951JSONConfig", m.cfg)}, func() { ygot.Marshal7951(t, m.cfg) })
			}
			call("ConstructInternalJSON", []snap{st()}, func() { ygot.ConstructInternalJSON(t) })
			nc := ygot.GNMINotificationsConfig{UsePathElem: true, PathElemPrefix: gp.Elem}
			call("TogNMINotifications", []snap{snapStruct(cfg, "subtree", nd.V.Interface().(ygot.GoStruct)), snapProto("prefix", gp)}, func() {
				ygot.TogNMINotifications(nd.V.Interface().(ygot.GoStruct), 1, nc)
			})
			// EncodeTypedValue on every struct node and a few leaves, all encodings
			for _, enc := range []gpb.Encoding{gpb.Encoding_JSON_IETF, gpb.Encoding_JSON, gpb.Encoding_PROTO} {
				jc := &ygot.RFC7951JSONConfig{}
				sub := nd.V.Interface().(ygot.GoStruct)
				call("EncodeTypedValue", []snap{snapStruct(cfg, "value", sub), snapOpt("RFC7951JSONConfig", jc)}, func() { ygot.EncodeTypedValue(sub, enc, jc) })
				for _, f := range nd.Info.Fields {
					fv := nd.V.Elem().Field(f.Idx)
					if (f.Kind == lib.KLeaf || f.Kind == lib.KLeafList) && isSet(fv) {
						val := fv.Interface()
						call("EncodeTypedValue", []snap{st(), snapOpt("RFC7951JSONConfig", jc)}, func() { ygot.EncodeTypedValue(val, enc, jc) })
						break
					}
				}
			}
			sb := snapStruct(cfg, "b", b)
			for _, dopts := range [][]ygot.DiffOpt{nil, {&ygot.IgnoreAdditions{}}, {&ygot.DiffPathOpt{MapToSinglePath: true}}} {
				var os []snap
				for _, x := range dopts {
					os = append(os, snapOpt("DiffOpt", x))
				}
				call("Diff", append([]snap{st(), sb}, os...), func() { ygot.Diff(t, b, dopts...) })
				call("DiffWithAtomic", append([]snap{st(), sb}, os...), func() { ygot.DiffWithAtomic(t, b, dopts...) })
			}
			call("DeepCopy", []snap{st()}, func() { ygot.DeepCopy(t) })
			for _, mopts := range [][]ygot.MergeOpt{nil, {&ygot.MergeOverwriteExistingFields{}}, {&ygot.MergeEmptyMaps{}}} {
				call("MergeStructs", []snap{st(), sb}, func() { ygot.MergeStructs(t, b, mopts...) })
			}
			// --- decoding APIs: the payloads must stay intact
			// (documents with plain and with module-qualified member names)
			for _, jm := range jsonModes() {
				j, err := emit(t, jm.cfg)
				if err != nil {
					continue
				}
				var tree interface{}
				json.Unmarshal([]byte(j), &tree)
				dst := cfg.NewRoot()
				call("Unmarshal", []snap{snapValue("decoded JSON", tree)}, func() { cfg.UnmarshalValue(tree, dst) })
				dst2 := lib.NewGen(cfg, r.Seed+9, i, opt).Tree()
				call("Unmarshal", []snap{snapValue("decoded JSON", tree)}, func() { cfg.UnmarshalValue(tree, dst2, &ytypes.IgnoreExtraFields{}) })
				r.Hit("unmarshal-json-mode:" + jm.name)
			}
			ups := leafUpdates(o, nil, false)
			for k, u := range ups {
				if k > 6 {
					break
				}
				for _, tol := range []bool{false, true} {
					dst := cfg.NewRoot()
					sopts := []ytypes.SetNodeOpt{&ytypes.InitMissingElements{}}
					if tol {
						sopts = append(sopts, &ytypes.TolerateJSONInconsistencies{})
					}
					// tolerant mode with the JSON-style representation of numbers (floats for integers)
					val := u.Val
					if _, isU := u.Val.GetValue().(*gpb.TypedValue_UintVal); tol && isU && u.Val.GetUintVal() < 1<<62 {
						// a JSON-translated client sends positive numbers as int_val
						val = &gpb.TypedValue{Value: &gpb.TypedValue_IntVal{IntVal: int64(u.Val.GetUintVal())}}
					}
					if tol && u.Val.GetLeaflistVal() != nil {
						cl := proto.Clone(u.Val).(*gpb.TypedValue)
						for _, e := range cl.GetLeaflistVal().Element {
							if _, isU := e.GetValue().(*gpb.TypedValue_UintVal); isU && e.GetUintVal() < 1<<62 {
								e.Value = &gpb.TypedValue_IntVal{IntVal: int64(e.GetUintVal())}
							}
						}
						val = cl
					}
					entry := "SetNode"
					if tol {
						entry = "SetNode+TolerateJSONInconsistencies"
					}
					call(entry, []snap{snapProto("TypedValue", val), snapProto("path", u.Path)}, func() { ytypes.SetNode(rootEntry, dst, u.Path, val, sopts...) })
				}
			}
			req := &gpb.SetRequest{Update: ups}
			if len(nodes) > 1 {
				req.Delete = []*gpb.Path{lib.ToGNMIPath(nodes[1].Path)}
			}
			if ju, err := jsonUpdate(o, nil, nd.Path); err == nil && len(nd.Path) > 0 {
				req.Replace = []*gpb.Update{ju}
			}
			call("UnmarshalSetRequest", []snap{spareCanary("SetRequest", req), snapProto("SetRequest", req)}, func() { ytypes.UnmarshalSetRequest(cfg.Schema(), req) })
			// the same leaves under a prefix that is the parent of the first path (a client cutting
			// full.Elem[:k] shares the backing array with the full path; the canary's spare capacity
			// stands for that)
			if len(ups) > 0 && len(ups[0].Path.GetElem()) >= 2 {
				full := ups[0].Path.GetElem()
				k := 1 + i%(len(full)-1)
				preq := &gpb.SetRequest{Prefix: &gpb.Path{Elem: append([]*gpb.PathElem{}, full[:k]...)}}
				for _, u := range ups {
					el := u.Path.GetElem()
					same := len(el) > k
					for j := 0; same && j < k; j++ {
						if !proto.Equal(el[j], full[j]) {
							same = false
						}
					}
					if same {
						preq.Update = append(preq.Update, &gpb.Update{Path: &gpb.Path{Elem: append([]*gpb.PathElem{}, el[k:]...)}, Val: proto.Clone(u.Val).(*gpb.TypedValue)})
					}
				}
				if len(preq.Update) > 0 {
					jp, js := proto.Clone(preq.Prefix).(*gpb.Path), proto.Clone(preq.Update[0].Path).(*gpb.Path)
					call("JoinPaths", []snap{spareCanary("prefix", jp), spareCanary("suffix", js), snapProto("prefix", jp), snapProto("suffix", js)}, func() { util.JoinPaths(jp, js) })
					preq.Delete = []*gpb.Path{proto.Clone(preq.Update[0].Path).(*gpb.Path)}
					call("UnmarshalSetRequest+prefix", []snap{spareCanary("SetRequest", preq), snapProto("SetRequest", preq)}, func() { ytypes.UnmarshalSetRequest(cfg.Schema(), preq) })
				}
			}
			// notifications whose Delete slice has spare capacity
			var ns []*gpb.Notification
			if nn, err := ygot.TogNMINotifications(t, 1, ygot.GNMINotificationsConfig{UsePathElem: true}); err == nil {
				ns = nn
			}
			for _, nf := range ns {
				d := make([]*gpb.Path, 0, 4)
				if len(nodes) > 1 {
					d = append(d, lib.ToGNMIPath(nodes[len(nodes)-1].Path))
				}
				nf.Delete = d
			}
			spare := func() snap {
				return func() string {
					for _, nf := range ns {
						full := nf.Delete[:cap(nf.Delete)]
						for k := len(nf.Delete); k < len(full); k++ {
							if full[k] != nil {
								return "notification.Delete: spare capacity of the caller's slice was written"
							}
						}
					}
					return ""
				}
			}
			call("UnmarshalNotifications", []snap{snapProtos("notifications", ns), spare()}, func() { ytypes.UnmarshalNotifications(cfg.Schema(), ns) })
			// --- gnmidiff
			sch := cfg.SchemaWith(lib.NewGen(cfg, r.Seed+11, i, opt).Tree())
			ss := []snap{spareCanary("SetRequest a", req), snapProto("SetRequest a", req), snapStruct(cfg, "schema.Root", sch.Root), snapValue("schema tree size", len(sch.SchemaTree))}
			req2 := proto.Clone(req).(*gpb.SetRequest)
			call("DiffSetRequest", append(ss, snapProto("SetRequest b", req2)), func() { gnmidiff.DiffSetRequest(req, req2, sch) })
			call("DiffSetRequestToNotifications", append(ss, snapProtos("notifications", ns)), func() { gnmidiff.DiffSetRequestToNotifications(req, ns, sch) })
			if cfg.Compressed {
				call("DiffSetRequest(no schema)", []snap{snapProto("SetRequest a", req), snapProto("SetRequest b", req2)}, func() { gnmidiff.DiffSetRequest(req, req2, nil) })
			}
			if i < 2 {
				r.Sample(map[string]interface{}{"cfg": cfg.Name, "leaves": len(o.Leaves), "updates": len(ups), "notifications": len(ns)})
			}
		}
	}
	r.RequireCov("call:GetNode", "call:Validate", "call:EmitJSON", "call:ConstructIETFJSON", "call:ConstructInternalJSON", "call:Marshal7951", "call:TogNMINotifications", "call:EncodeTypedValue",
		"call:Diff", "call:DiffWithAtomic", "call:DeepCopy", "call:MergeStructs", "call:Unmarshal", "call:SetNode", "call:SetNode+TolerateJSONInconsistencies", "call:UnmarshalSetRequest", "call:UnmarshalSetRequest+prefix", "call:JoinPaths", "call:UnmarshalNotifications",
		"call:DiffSetRequest", "call:DiffSetRequestToNotifications")
}
