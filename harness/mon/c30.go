package mon

import (
	"fmt"
	"math/rand"
	"reflect"
	"regexp"
	"sort"
	"strings"

	"github.com/openconfig/ygot/ygot"
	"github.com/openconfig/ygot/ytypes"
	"github.com/openconfig/ygot/zzverif/lib"
)

func init() { Monitors["C30"] = runC30 }

// danglingLeafrefs lists the leafref leaves whose value is not in the node-set
// their path selects (harness XPath-subset evaluator over the leaf-set model).
func danglingLeafrefs(o *lib.Obs) []*lib.Leaf {
	var out []*lib.Leaf
	for _, p := range o.SortedLeafPaths() {
		l := o.Leaves[p]
		if l.Field == nil || l.Field.LeafrefPath == "" || l.IsList {
			continue
		}
		found := false
		pl := l.Val[strings.Index(l.Val, ":")+1:]
		for _, c := range lib.EvalLeafref(o, l.Elems, l.Field.LeafrefPath) {
			if c[strings.Index(c, ":")+1:] == pl {
				found = true
			}
		}
		if !found {
			out = append(out, l)
		}
	}
	return out
}

func leafrefClass(l *lib.Leaf) string {
	p := l.Field.LeafrefPath
	c := "relative"
	if strings.HasPrefix(p, "/") {
		c = "absolute"
	}
	if strings.Contains(p, "current()") {
		c += "+current-predicate"
	}
	return c + ":" + lib.TypeFeature(l.Field)
}

func runC30(r *lib.Run) {
	r.Rule = "trees whose leafrefs are all satisfied by construction (relative, absolute, key predicates with current(), leafref list keys, compressed and uncompressed), then one reference re-pointed to a fresh value or its target removed; Validate() with default options must fail exactly when the harness' leafref evaluator finds a dangling leaf, and never with IgnoreMissingData; non-trivial = tree has >=1 set leafref leaf; distinct by cfg+variant+leaf set"
	r.Assume("leafref leaf-lists are not generated (statement says leafref leaf); trees that fail validation for other reasons (C07 findings) are skipped and counted")
	n := r.N(600, 12000)
	for _, cfg := range cfgsFor(r, quick3) {
		for i := 0; i < n; i++ {
			if skip(cfg, i) {
				continue
			}
			opt := lib.DefaultGen()
			opt.OrderedSiblings = true
			opt.Density = 0.7
			t := lib.NewGen(cfg, r.Seed, i, opt).Tree()
			rng := rand.New(rand.NewSource(r.Seed*401 + int64(i)))
			variant := "satisfied"
			var mutated string
			if i%2 == 1 {
				variant = "dangling"
				mutated = c30Dangle(cfg, t, rng)
				if strings.Contains(mutated, "another union member") {
					r.Hit("mutation:same-number-other-union-member")
				}
				if mutated == "" {
					variant = "satisfied"
				}
			}
			o := cfg.Observe(t)
			nref := 0
			for _, l := range o.Leaves {
				if l.Field != nil && l.Field.LeafrefPath != "" {
					nref++
				}
			}
			w := wit(cfg, r.Seed, i, map[string]interface{}{"variant": variant, "mutation": mutated, "tree": o.Dump()})
			// precondition: valid apart from leafrefs
			var pre error
			if r.Guard("Validate", w, func() { pre = validateNoLeafref(t) }) {
				continue
			}
			if pre != nil {
				r.Hit("skipped:otherwise-invalid")
				if nref > 0 {
					// with IgnoreMissingData no leafref error may appear: the error must be about something else
					if strings.Contains(pre.Error(), "leafref") || strings.Contains(pre.Error(), "pointed-to value") {
						r.Violate("leafref-error-with-ignoremissingdata", "any", pre.Error(), w)
					}
				}
				continue
			}
			dang := danglingLeafrefs(o)
			r.Case(cfg.Name+variant+caseKey(cfg, o), nref > 0)
			r.Hit("variant:" + variant)
			var err error
			if r.Guard("Validate", w, func() { err = t.(validator).Validate() }) {
				continue
			}
			// leafref checking is also "enabled" when an option struct is passed whose IgnoreMissingData
			// is false: the verdict must be the same as without options
			if i%3 == 0 {
				var err2 error
				if !r.Guard("Validate", w, func() { err2 = t.(validator).Validate(&ytypes.LeafrefOptions{IgnoreMissingData: false}) }) {
					r.Hit("options:explicit-IgnoreMissingData=false")
					if (err == nil) != (err2 == nil) {
						r.Violate("explicit-options-differ", "IgnoreMissingData=false", fmt.Sprintf("Validate() = %v, Validate(&LeafrefOptions{IgnoreMissingData: false}) = %v", err, err2), w)
					}
				}
			}
			switch {
			case len(dang) > 0 && err == nil:
				for _, l := range dang {
					cls := leafrefClass(l)
					if m := curPredRe.FindStringSubmatch(l.Field.LeafrefPath); m != nil && len(l.Elems) > 0 {
						// the value the predicate compares with: a sibling of the reference
						sib := lib.PathString(l.Elems[:len(l.Elems)-1]) + "/" + m[2]
						if sl := o.Leaves[sib]; sl != nil && sl.Val == "string:*" {
							cls += ":predicate-value-is-the-string-*"
						}
					}
					r.Violate("dangling-accepted", cls, fmt.Sprintf("Validate() returned nil although %s = %s is not in the node-set of %s", l.Path, l.Val, l.Field.LeafrefPath), w)
				}
			case len(dang) == 0 && err != nil:
				cls := "none-dangling"
				feat := cls + ":" + strings.Join(lib.ErrClasses(err.Error()), "|")
				if strings.Contains(err.Error(), "not equal to any target nodes") {
					feat = cls + ":leafref-reported-dangling"
				}
				r.Violate("satisfied-rejected", feat, err.Error(), w)
			case len(dang) > 0:
				r.Hit("dangling-rejected")
				for _, l := range dang {
					r.Hit("dangling:" + leafrefClass(l))
					if strings.Contains(mutated, "predicate excludes") {
						r.Hit("dangling:value-excluded-by-predicate")
					}
					if strings.Contains(mutated, "predicate source unset") {
						r.Hit("dangling:predicate-source-unset")
					}
					if strings.Contains(mutated, "another union member") {
						r.Hit("dangling:same-number-other-union-member")
					}
				}
			default:
				r.Hit("satisfied-accepted")
				if nref > 0 {
					r.Hit("satisfied-accepted-with-leafrefs")
				}
			}
			if i < 2 {
				r.Sample(map[string]interface{}{"cfg": cfg.Name, "variant": variant, "leafref_leaves": nref, "dangling": len(dang), "validate_error": fmt.Sprint(err)})
			}
		}
	}
	r.RequireCov("variant:satisfied", "variant:dangling", "dangling-rejected", "satisfied-accepted-with-leafrefs", "dangling:value-excluded-by-predicate", "dangling:predicate-source-unset")
}

// c30Dangle makes exactly one leafref leaf dangle: either by re-pointing it to a
// fresh value or by removing/changing its target.  It returns a description.
func c30Dangle(cfg *lib.Cfg, t ygot.GoStruct, rng *rand.Rand) string {
	type cand struct {
		n *lib.Node
		f *lib.FieldInfo
	}
	var cs []cand
	for _, n := range cfg.Nodes(t) {
		if n.Keyless {
			continue
		}
		for _, f := range n.Info.Fields {
			if f.Kind == lib.KLeaf && f.LeafrefPath != "" && isSet(n.V.Elem().Field(f.Idx)) && !isKeyField(n, f) {
				cs = append(cs, cand{n, f})
			}
		}
	}
	if len(cs) == 0 {
		return ""
	}
	sort.Slice(cs, func(i, j int) bool {
		return lib.PathString(cs[i].n.Path)+cs[i].f.GoName < lib.PathString(cs[j].n.Path)+cs[j].f.GoName
	})
	// choose the kind of reference first so that rare kinds (predicates) are broken as often as common ones
	byPath := map[string][]cand{}
	var lps []string
	for _, c := range cs {
		if _, ok := byPath[c.f.LeafrefPath]; !ok {
			lps = append(lps, c.f.LeafrefPath)
		}
		byPath[c.f.LeafrefPath] = append(byPath[c.f.LeafrefPath], c)
	}
	sort.Strings(lps)
	grp := byPath[lps[rng.Intn(len(lps))]]
	c := grp[rng.Intn(len(grp))]
	fv := c.n.V.Elem().Field(c.f.Idx)
	if fv.Kind() == reflect.Interface {
		return c30UnionTwin(t, c.n, c.f, fv)
	}
	if fv.Kind() != reflect.Ptr {
		return ""
	}
	// a reference with a key predicate: point it at a value that exists in the
	// list but only in entries the predicate excludes
	if m := curPredRe.FindStringSubmatch(c.f.LeafrefPath); m != nil && rng.Intn(3) == 0 {
		// unset the leaf the predicate takes its value from: the node-set becomes empty
		for _, sf := range c.n.Info.Fields {
			if sf.Kind == lib.KLeaf && len(sf.Path) == 1 && sf.Path[0] == m[2] && isSet(c.n.V.Elem().Field(sf.Idx)) {
				sv := c.n.V.Elem().Field(sf.Idx)
				sv.Set(reflect.Zero(sv.Type()))
				return "predicate source unset: " + lib.PathString(c.n.Path) + "/" + m[2]
			}
		}
	}
	if strings.Contains(c.f.LeafrefPath, "[") && rng.Intn(3) > 0 {
		o := cfg.Observe(t)
		lp := append(append([]lib.PathElem(nil), c.n.Path...), pathElems(c.f.Path)...)
		allowed := map[string]bool{}
		for _, v := range lib.EvalLeafref(o, lp, c.f.LeafrefPath) {
			allowed[v] = true
		}
		var excluded []string
		for _, v := range lib.EvalLeafref(o, lp, predRe.ReplaceAllString(c.f.LeafrefPath, "")) {
			if !allowed[v] {
				excluded = append(excluded, v)
			}
		}
		if len(excluded) > 0 {
			nv := reflect.New(fv.Type()).Elem()
			if lib.ParseCanonInto(nv, excluded[rng.Intn(len(excluded))]) {
				fv.Set(nv)
				return "re-pointed to a value the predicate excludes: " + lib.PathString(c.n.Path) + "/" + strings.Join(c.f.Path, "/")
			}
		}
	}
	e := reflect.New(fv.Type().Elem())
	switch e.Elem().Kind() {
	case reflect.String:
		e.Elem().SetString("dangling~" + fmt.Sprint(rng.Intn(1000)))
	case reflect.Int8, reflect.Int16, reflect.Int32, reflect.Int64:
		// a value of the target type that is valid but (almost surely) absent
		g := lib.NewGen(cfg, rng.Int63(), 0, lib.DefaultGen())
		nv := g.ScalarFor(c.n.V.Elem(), c.f, fv.Type())
		if !nv.IsValid() || nv.Elem().Int() == fv.Elem().Int() {
			return ""
		}
		e = nv
	case reflect.Uint8, reflect.Uint16, reflect.Uint32, reflect.Uint64:
		g := lib.NewGen(cfg, rng.Int63(), 0, lib.DefaultGen())
		nv := g.ScalarFor(c.n.V.Elem(), c.f, fv.Type())
		if !nv.IsValid() || nv.Elem().Uint() == fv.Elem().Uint() {
			return ""
		}
		e = nv
	default:
		return ""
	}
	fv.Set(e)
	return "re-pointed " + lib.PathString(c.n.Path) + "/" + strings.Join(c.f.Path, "/")
}

// c30UnionTwin re-points a reference whose target is a union to the value of ANOTHER member with
// the same number: enumeration value RED (1) becomes the integer 1 and vice versa.  The two are
// different YANG values ("RED" vs "1"), so the reference dangles unless the integer happens to be
// a target value too (the evaluator decides).
func c30UnionTwin(root ygot.GoStruct, n *lib.Node, f *lib.FieldInfo, fv reflect.Value) string {
	cur := fv.Elem()
	for cur.Kind() == reflect.Ptr || cur.Kind() == reflect.Struct {
		if cur.Kind() == reflect.Ptr {
			cur = cur.Elem()
		} else {
			cur = cur.Field(0)
		}
	}
	if cur.Kind() != reflect.Int64 {
		return ""
	}
	conv := lib.FindUnionConv(n.V, fv.Type())
	if !conv.IsValid() {
		return ""
	}
	num := cur.Int()
	var arg reflect.Value
	if cur.Type().Implements(goEnumType) {
		arg = reflect.ValueOf(num) // the plain integer with the enumeration value's number
	} else {
		for _, et := range enumTypesAt(root, f) {
			if _, ok := lib.EnumDefs(et)[num]; ok {
				arg = reflect.New(et).Elem()
				arg.SetInt(num)
			}
		}
	}
	if !arg.IsValid() {
		return ""
	}
	out := conv.Call([]reflect.Value{arg})
	if len(out) != 2 || !out[1].IsNil() {
		return ""
	}
	fv.Set(out[0])
	return "re-pointed to the same number in another union member: " + lib.PathString(n.Path) + "/" + strings.Join(f.Path, "/")
}

var curPredRe = regexp.MustCompile(`\[(?:[\w.-]+:)?([\w.-]+)\s*=\s*current\(\)/\.\./(?:[\w.-]+:)?([\w.-]+)\]`)
var predRe = regexp.MustCompile(`\[[^\]]*\]`)

var _ = ytypes.LeafrefOptions{}
