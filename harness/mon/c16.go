package mon

import (
	"fmt"
	"os"
	"reflect"
	"sort"
	"strings"

	gpb "github.com/openconfig/gnmi/proto/gnmi"
	"github.com/openconfig/ygot/ygot"
	"github.com/openconfig/ygot/ytypes"
	"github.com/openconfig/ygot/zzverif/lib"
)

func init() { Monitors["C16"] = runC16 }

// keyClassOf describes the key type(s) of a list for signatures.
func keyClassOf(s *listSite, t keyTuple) string {
	var parts []string
	for i, kf := range s.kfs {
		c := lib.TypeFeature(kf)
		cv, _ := lib.CanonScalar(t.params[i], true)
		if strings.HasPrefix(cv, "float64:") && strings.ContainsAny(cv[8:], "eE") {
			c += "(exponent-form)"
		}
		if kf.YType.Kind.String() == "union" {
			c += "(" + cv[:strings.Index(cv, ":")] + ")"
		}
		parts = append(parts, c)
	}
	return strings.Join(parts, "+")
}

func keyMapString(m map[string]string) string {
	ks := make([]string, 0, len(m))
	for k := range m {
		ks = append(ks, k)
	}
	sort.Strings(ks)
	var b strings.Builder
	for _, k := range ks {
		fmt.Fprintf(&b, "[%s=%q]", k, m[k])
	}
	return b.String()
}

// emittedKeys collects, from notifications, the key maps ygot wrote for the
// list at listPath (element names), with the updates below each.
func emittedKeys(cfg *lib.Cfg, ns []*gpb.Notification, listNames []string, parent []lib.PathElem) map[string][]*gpb.Update {
	out := map[string][]*gpb.Update{}
	want := lib.PathString(parent)
	for _, n := range ns {
		for _, u := range n.Update {
			full := append(append([]*gpb.PathElem{}, n.Prefix.GetElem()...), u.Path.GetElem()...)
			if len(full) < len(listNames) {
				continue
			}
			ok := true
			for i, nme := range listNames {
				if full[i].Name != nme {
					ok = false
				}
			}
			if !ok || len(full[len(listNames)-1].Key) == 0 {
				continue
			}
			// same parent instance (ancestor list keys compared semantically)
			if pe, err := cfg.CanonGNMIPath(&gpb.Path{Elem: full[:len(parent)]}); err != nil || lib.PathString(pe) != want {
				continue
			}
			ks := keyMapString(full[len(listNames)-1].Key)
			out[ks] = append(out[ks], &gpb.Update{Path: &gpb.Path{Elem: full}, Val: u.Val})
		}
	}
	return out
}

func runC16(r *lib.Run) {
	r.Rule = "every keyed and ordered list of every configuration x a grid of key tuples drawn per key type (extremes, 0, negatives, small and large decimals, hostile strings, every enum/identity, each union member, leafref keys, multi-key products): two entries are created through the Go API, the key strings ygot itself emits (TogNMINotifications, Diff from empty) are fed to GetNode, SetNode on an empty root and DeleteNode; non-trivial = list has a non-string key or a hostile string; distinct by list+key tuple"
	domain := 40
	if !r.Quick() {
		domain = 400
	}
	for _, cfg := range cfgsFor(r, quick3) {
		rootEntry := cfg.RootEntry()
		var sites []*listSite
		sites = append(sites, findListSitesOpt(cfg, r.Seed, lib.KList, domain, true)...)
		sites = append(sites, findListSitesOpt(cfg, r.Seed, lib.KOrdered, domain, true)...)
		var prevRestore func()
		for _, s := range sites {
			if s.node.Keyless {
				continue
			}
			nested := false
			for a := s.node; a != nil; a = a.Parent {
				if a.Field != nil && a.Field.Kind == lib.KOrdered {
					nested = true
				}
			}
			if nested && s.f.Kind == lib.KOrdered {
				r.Hit("skipped:nested-ordered-list")
				continue // documented as unsupported
			}
			lnames := []string{}
			for _, e := range s.node.Path {
				lnames = append(lnames, e.Name)
			}
			lnames = append(lnames, s.f.Path...)
			origList := reflect.ValueOf(s.node.V.Elem().Field(s.f.Idx).Interface())
			if prevRestore != nil {
				prevRestore()
			}
			site := s
			prevRestore = func() { site.node.V.Elem().Field(site.f.Idx).Set(origList) }
			for ti, t := range s.tuples {
				other := s.tuples[(ti+1)%len(s.tuples)]
				kc := keyClassOf(s, t)
				r.Hit("keytype:" + kc)
				if os.Getenv("VERIF_VERBOSE") != "" {
					fmt.Println("C16 tuple", cfg.Name, s.lname, t.id)
				}
				r.Hit("list:" + cfg.Name + ":" + s.lname)
				r.Case(cfg.Name+s.lname+t.id, true)
				w := func(more map[string]interface{}) map[string]interface{} {
					more["list"] = strings.Join(lnames, "/")
					more["keys"] = t.id
					return wit(cfg, r.Seed, ti, more)
				}
				// build: the site's tree with exactly two entries in this list
				fv := s.node.V.Elem().Field(s.f.Idx)
				fv.Set(reflect.Zero(fv.Type()))
				e1, e2 := s.newElem(t), s.newElem(other)
				insert := func(e reflect.Value) bool {
					if s.f.Kind == lib.KList {
						if fv.IsNil() {
							fv.Set(reflect.MakeMap(fv.Type()))
						}
						mk, ok := lib.MapKeyFor(fv.Type().Key(), e, s.kfs)
						if !ok {
							return false
						}
						fv.SetMapIndex(mk, e)
						return true
					}
					if fv.IsNil() {
						fv.Set(reflect.New(fv.Type().Elem()))
					}
					return errOf(fv.MethodByName("Append").Call([]reflect.Value{e})[0]) == nil
				}
				if !insert(e1) || !insert(e2) {
					continue
				}
				// keep the rest of the tree small: only this list matters
				for src, name := range map[int]string{0: "TogNMINotifications", 1: "Diff"} {
					var ns []*gpb.Notification
					var err error
					if r.Guard(name, w(map[string]interface{}{}), func() {
						if src == 0 {
							ns, err = ygot.TogNMINotifications(s.root, 1, ygot.GNMINotificationsConfig{UsePathElem: true})
						} else {
							ns, err = ygot.DiffWithAtomic(cfg.NewRoot(), s.root)
						}
					}) {
						continue
					}
					if err != nil {
						if strings.Contains(err.Error(), "nested `ordered-by user`") {
							r.Hit("skipped:nested-ordered-list")
							continue
						}
						for _, c := range lib.ErrClasses(err.Error()) {
							r.Violate("render-error:"+name, kc+":"+c, err.Error(), w(map[string]interface{}{}))
						}
						continue
					}
					em := emittedKeys(cfg, ns, lnames, s.node.Path)
					if len(em) != 2 {
						dbg := ""
						if len(em) == 0 {
							for _, n := range ns {
								for _, u := range n.Update {
									full := &gpb.Path{Elem: append(append([]*gpb.PathElem{}, n.Prefix.GetElem()...), u.Path.GetElem()...)}
									if len(full.Elem) >= len(s.node.Path) {
										_, e := cfg.CanonGNMIPath(&gpb.Path{Elem: full.Elem[:len(s.node.Path)]})
										dbg = fmt.Sprintf(" (parent %s; first update %s; parent parse error: %v)", lib.PathString(s.node.Path), lib.GNMIPathString(full), e)
										break
									}
								}
								if dbg != "" {
									break
								}
							}
						}
						ekc := kc
						for _, tp := range []keyTuple{t, other} {
							for i, kf := range s.kfs {
								cv, _ := lib.CanonScalar(tp.params[i], true)
								if kf.YType.Kind.String() == "union" && (cv == "int64:0" || cv == "uint64:0" || cv == `string:` || cv == "bool:false" || cv == "float64:0") {
									ekc = "union-key-holding-zero-value"
								}
							}
						}
						r.Violate("emitted-key-count:"+name, ekc, fmt.Sprintf("%d distinct key maps emitted for 2 entries: %v%s", len(em), keysOf(em), dbg), w(map[string]interface{}{}))
						continue
					}
					found := map[uintptr]string{}
					for ks, ups := range em {
						ep := &gpb.Path{Elem: ups[0].Path.Elem[:len(lnames)]}
						// GetNode addresses the same entry
						var nodes []*ytypes.TreeNode
						var gerr error
						if r.Guard("GetNode", w(map[string]interface{}{"key": ks}), func() { nodes, gerr = ytypes.GetNode(rootEntry, s.root, ep) }) {
							continue
						}
						if gerr != nil {
							for _, c := range lib.ErrClasses(gerr.Error()) {
								r.Violate("getnode-error", kc+":"+c, "GetNode with ygot's own key string "+ks+": "+gerr.Error(), w(map[string]interface{}{"key": ks}))
							}
							continue
						}
						if len(nodes) != 1 {
							r.Violate("getnode-count", kc, fmt.Sprintf("GetNode with %s returned %d nodes", ks, len(nodes)), w(map[string]interface{}{"key": ks}))
							continue
						}
						dp := reflect.ValueOf(nodes[0].Data)
						if dp.Kind() != reflect.Ptr || (dp.Pointer() != e1.Pointer() && dp.Pointer() != e2.Pointer()) {
							r.Violate("getnode-wrong-entry", kc, "GetNode with "+ks+" did not return one of the entries", w(map[string]interface{}{"key": ks}))
							continue
						}
						found[dp.Pointer()] = ks
						which := e1
						if dp.Pointer() == e2.Pointer() {
							which = e2
						}
						wantKeys := s.elemKeys(cfg, which)
						// SetNode on an empty root creates an entry with equal key leaves
						nroot := cfg.NewRoot()
						setOK := true
						for _, u := range ups {
							var serr error
							if r.Guard("SetNode", w(map[string]interface{}{"key": ks}), func() {
								serr = ytypes.SetNode(rootEntry, nroot, u.Path, u.Val, &ytypes.InitMissingElements{})
							}) {
								setOK = false
								break
							}
							if serr != nil {
								setOK = false
								for _, c := range lib.ErrClasses(serr.Error()) {
									r.Violate("setnode-error", kc+":"+c, "SetNode with ygot's own path "+lib.GNMIPathString(u.Path)+": "+serr.Error(), w(map[string]interface{}{"key": ks}))
								}
								break
							}
						}
						if setOK {
							var created []string
							for _, n := range cfg.Nodes(nroot) {
								if n.IsEntry && n.Field == s.f {
									created = append(created, s.elemKeys(cfg, n.V))
									// the map key under which the entry is stored must agree with its key leaves
									if s.f.Kind == lib.KList && n.Parent != nil {
										lm := n.Parent.V.Elem().Field(s.f.Idx)
										for _, mk := range lm.MapKeys() {
											if lm.MapIndex(mk).Pointer() != n.V.Pointer() {
												continue
											}
											if exp, ok := lib.MapKeyFor(lm.Type().Key(), n.V, s.kfs); ok && !reflect.DeepEqual(mk.Interface(), exp.Interface()) {
												r.Violate("setnode-map-key-differs-from-key-leaves", kc, fmt.Sprintf("SetNode via %s stored the entry under map key %v but its key leaves are %s", ks, mk.Interface(), s.elemKeys(cfg, n.V)), w(map[string]interface{}{"key": ks}))
											}
										}
									}
								}
							}
							if os.Getenv("VERIF_VERBOSE") != "" {
								fmt.Println("C16 setnode", ks, created, wantKeys)
							}
							if len(created) != 1 || created[0] != wantKeys {
								r.Violate("setnode-created-keys", kc, fmt.Sprintf("SetNode via %s created entries %v, original keys %s", ks, created, wantKeys), w(map[string]interface{}{"key": ks}))
							} else {
								r.Hit("setnode-ok")
							}
						}
					}
					if len(found) == 2 {
						r.Hit("getnode-ok")
					} else if len(found) == 1 {
						r.Violate("getnode-same-entry-for-two-keys", kc, "two emitted key maps address the same entry", w(map[string]interface{}{}))
					}
					// DeleteNode removes e1 and only e1 (once, with the TogNMI strings)
					if src == 0 && len(found) == 2 {
						ks := found[e1.Pointer()]
						ep := &gpb.Path{Elem: em[ks][0].Path.Elem[:len(lnames)]}
						var derr error
						if r.Guard("DeleteNode", w(map[string]interface{}{"key": ks}), func() { derr = ytypes.DeleteNode(rootEntry, s.root, ep) }) {
							continue
						}
						if derr != nil {
							for _, c := range lib.ErrClasses(derr.Error()) {
								r.Violate("deletenode-error", kc+":"+c, derr.Error(), w(map[string]interface{}{"key": ks}))
							}
							continue
						}
						var left []uintptr
						fv2 := s.node.V.Elem().Field(s.f.Idx)
						if !fv2.IsNil() {
							if s.f.Kind == lib.KList {
								for _, k := range fv2.MapKeys() {
									left = append(left, fv2.MapIndex(k).Pointer())
								}
							} else {
								for _, v := range lib.OrderedValues(fv2) {
									left = append(left, v.Pointer())
								}
							}
						}
						if len(left) != 1 || left[0] != e2.Pointer() {
							r.Violate("deletenode-wrong-effect", kc, fmt.Sprintf("after DeleteNode(%s) %d entries remain (expected only the other entry)", ks, len(left)), w(map[string]interface{}{"key": ks}))
						} else {
							r.Hit("deletenode-ok")
						}
						insert(e1) // restore for the Diff pass
						if s.f.Kind == lib.KOrdered {
							// keep the original order e1, e2
							fv.Set(reflect.Zero(fv.Type()))
							insert(e1)
							insert(e2)
						}
					}
				}
			}
		}
	}
	r.RequireCov("getnode-ok", "setnode-ok", "deletenode-ok")
}

func keysOf(m map[string][]*gpb.Update) []string {
	var out []string
	for k := range m {
		out = append(out, k)
	}
	sort.Strings(out)
	return out
}
