package mon

import (
	"github.com/openconfig/ygot/ygot"
	"github.com/openconfig/ygot/zzverif/lib"
	"math/rand"
	"reflect"
)

func init() { Monitors["C14"] = runC14 }

func c14Opts(i int) lib.GenOpts {
	opt := lib.DefaultGen()
	opt.Unkeyed = i%2 == 0
	opt.OrderedSiblings = true
	opt.EmptyContainers = i%3 != 0
	opt.Density = 0.6
	opt.ZeroLenBinary = true
	opt.EmptyLists = i%5 < 3
	opt.EmptyLeafLists = i%4 >= 2
	return opt
}

// hasSetDescendant reports whether some leaf lies strictly below container path p.
func hasSetDescendant(o *lib.Obs, p string) bool {
	for lp, l := range o.Leaves {
		if lp != p && lib.HasPrefixPath(lp, p) {
			if l.IsList && l.N == 0 {
				continue // an allocated but empty leaf-list is not data
			}
			return true
		}
	}
	return false
}

func runC14(r *lib.Run) {
	r.Rule = "tree from generator incl. ordered lists whose entries hold containers/enums/unions, unkeyed lists and empty non-presence containers; optionally BuildEmptyTree first; PruneEmptyBranches twice; non-trivial = tree has >=3 leaves and >=1 container; distinct by cfg+variant+leaf set+shape"
	n := r.N(1000, 20000)
	for _, cfg := range cfgsFor(r, quick3) {
		for i := 0; i < n; i++ {
			if skip(cfg, i) {
				continue
			}
			g := lib.NewGen(cfg, r.Seed, i, c14Opts(i))
			t := g.Tree()
			if i%6 == 5 {
				// hollow out one container: nothing but an allocated, empty leaf-list remains in it
				hrng := rand.New(rand.NewSource(r.Seed*613 + int64(i)))
				nodes := cfg.Nodes(t)
				for tries := 0; tries < 12 && len(nodes) > 1; tries++ {
					nd := nodes[1+hrng.Intn(len(nodes)-1)]
					if nd.IsEntry || nd.Keyless {
						continue
					}
					var ll *lib.FieldInfo
					for _, f := range nd.Info.Fields {
						if f.Kind == lib.KLeafList {
							ll = f
						}
					}
					if ll == nil {
						continue
					}
					sv := nd.V.Elem()
					for _, f := range nd.Info.Fields {
						fv := sv.Field(f.Idx)
						fv.Set(reflect.Zero(fv.Type()))
					}
					lv := sv.Field(ll.Idx)
					lv.Set(reflect.MakeSlice(lv.Type(), 0, 4))
					r.Hit("tag:hollow-container-with-empty-leaflist")
					break
				}
			}
			before := cfg.Observe(t)
			variant := "plain"
			if i%4 == 1 {
				variant = "build-empty-first"
			}
			r.Hit("variant:" + variant)
			for k := range g.Tags {
				r.Hit("tag:" + k)
			}
			r.Case(cfg.Name+variant+caseKey(cfg, before)+jsonStr(before.Shape), len(before.Leaves) >= 3 && len(before.Shape) >= 1)
			w := func(more map[string]interface{}) map[string]interface{} {
				more["variant"] = variant
				more["tree"] = before.Dump()
				more["shape"] = before.Shape
				return wit(cfg, r.Seed, i, more)
			}
			if variant == "build-empty-first" {
				if r.Guard("BuildEmptyTree", w(map[string]interface{}{}), func() { ygot.BuildEmptyTree(t) }) {
					continue
				}
				// BuildEmptyTree must not add or change leaves
				for _, d := range lib.DiffObs(before, cfg.Observe(t), lib.DiffOpts{EmptyLeafListIsAbsent: true}) {
					if d.What == "presence" {
						continue // documented: containers (presence included) are instantiated
					}
					r.Violate("buildemptytree-changes-data", featOf(d), d.String(), w(map[string]interface{}{"delta": d.String()}))
				}
			}
			if r.Guard("PruneEmptyBranches", w(map[string]interface{}{}), func() { ygot.PruneEmptyBranches(t) }) {
				continue
			}
			after := cfg.Observe(t)
			for _, d := range lib.DiffObs(before, after, lib.DiffOpts{EmptyLeafListIsAbsent: true}) {
				if d.What == "presence" && d.B == "" && !hasSetDescendant(before, d.Path) {
					continue // empty presence containers are pruned as documented
				}
				if d.What == "presence" && d.A == "" {
					continue // created by BuildEmptyTree and kept only if populated (checked below)
				}
				r.Violate("data-changed", featOf(d), d.String(), w(map[string]interface{}{"delta": d.String()}))
			}
			for p, k := range after.Shape {
				if k == "container" && !hasSetDescendant(after, p) {
					r.Violate("empty-branch-remains", "container", "container without set descendants remains: "+p, w(map[string]interface{}{"path": p}))
				}
				if k == "emptymap" || k == "emptyorderedmap" || k == "emptyslice" {
					r.Hit("left:" + k)
				}
			}
			for p := range after.Presence {
				if !hasSetDescendant(after, p) {
					r.Violate("empty-branch-remains", "presence-container", "presence container without set descendants remains: "+p, w(map[string]interface{}{"path": p}))
				}
			}
			// idempotence
			if r.Guard("PruneEmptyBranches", w(map[string]interface{}{"call": "second"}), func() { ygot.PruneEmptyBranches(t) }) {
				continue
			}
			for _, d := range lib.DiffObs(after, cfg.Observe(t), lib.DiffOpts{Shape: true}) {
				r.Violate("not-idempotent", featOf(d), d.String(), w(map[string]interface{}{"delta": d.String()}))
			}
			r.Hit("pruned-ok")
			if i < 2 {
				r.Sample(map[string]interface{}{"cfg": cfg.Name, "variant": variant, "leaves": len(before.Leaves), "containers_before": len(before.Shape), "containers_after": len(after.Shape)})
			}
		}
	}
	r.RequireCov("variant:plain", "variant:build-empty-first", "tag:ordered-list", "tag:unkeyed", "tag:empty-container", "tag:empty-list", "tag:empty-leaflist", "tag:hollow-container-with-empty-leaflist", "pruned-ok")
}
