package mon

import (
	"fmt"
	"math/rand"
	"reflect"
	"sort"
	"strings"

	gpb "github.com/openconfig/gnmi/proto/gnmi"
	"github.com/openconfig/ygot/ygot"
	"github.com/openconfig/ygot/ytypes"
	"github.com/openconfig/ygot/zzverif/lib"
)

func init() { Monitors["C10"] = runC10 }

func c10Opts(i int) lib.GenOpts {
	opt := lib.DefaultGen()
	opt.OrderedSiblings = true
	return opt
}

// keyLeavesOnPath lists the key-leaf paths (canonical) and values implied by the
// list entries along a leaf's path, using the donor tree's struct info.
func keyLeavesOnPath(cfg *lib.Cfg, donor *lib.Obs, l *lib.Leaf) map[string]*lib.Leaf {
	out := map[string]*lib.Leaf{}
	for i, e := range l.Elems {
		if len(e.Keys) == 0 {
			continue
		}
		pre := lib.PathString(l.Elems[:i+1])
		// every donor leaf that is a key leaf of this entry: its last element path is below pre and it is a key field
		for p, dl := range donor.Leaves {
			if !strings.HasPrefix(p, pre+"/") || dl.Field == nil {
				continue
			}
			rel := dl.Elems[i+1:]
			if len(rel) != len(dl.Field.Path) {
				continue
			}
			// is it a key of the entry? its value equals one of the keys and an alt path is the bare key name
			for _, ap := range dl.Field.AltPaths {
				if len(ap) == 1 {
					if kv, ok := e.Keys[ap[0]]; ok && kv == dl.Val {
						out[p] = dl
					}
				}
			}
		}
	}
	return out
}

func runC10(r *lib.Run) {
	r.Rule = "target tree t (seed,index) and a donor tree; sequences of 10 SetNode calls whose (path, value) are leaves of the donor (new paths through lists of every key type, ordered lists, compressed paths) or changed values of existing leaves; payload scalar TypedValue, leaflist_val or json_ietf_val; after each successful set: GetNode, and the whole-tree frame; non-trivial = SetNode succeeded; distinct by cfg+path+value+payload form"
	r.Assume("a SetNode error on a type-correct payload is not judged here (C02/C16/C18 own encoding acceptance); at least half of the sets must succeed")
	n := r.N(200, 6000)
	okSets, allSets := 0, 0
	cfgs := cfgsFor(r, quick3)
	if r.Quick() {
		for _, nm := range lib.Names() {
			if nm == "vtk/U-simple" {
				cfgs = append(cfgs, lib.Get(nm))
			}
		}
	}
	for _, cfg := range cfgs {
		r.Hit("configuration:" + cfg.Name)
		for i := 0; i < n; i++ {
			if skip(cfg, i) {
				continue
			}
			t := lib.NewGen(cfg, r.Seed, i, c10Opts(i)).Tree()
			donor := lib.NewGen(cfg, r.Seed+4242, i, c10Opts(i)).Tree()
			od := cfg.Observe(donor)
			rng := rand.New(rand.NewSource(r.Seed*977 + int64(i)))
			paths := od.SortedLeafPaths()
			if len(paths) == 0 {
				continue
			}
			sch := cfg.SchemaWith(t)
			rootEntry := cfg.RootEntry()
			var history []string
			for step := 0; step < 10; step++ {
				l := od.Leaves[paths[rng.Intn(len(paths))]]
				if strings.Contains(l.Path, "[#") {
					continue // unkeyed list entries are not addressable
				}
				form := "scalar"
				if rng.Intn(3) == 0 {
					form = "json_ietf"
				}
				var tv *gpb.TypedValue
				var err error
				if form == "scalar" {
					tv, err = lib.LeafTV(l)
				} else {
					var jv interface{}
					jv, err = lib.LeafJSON(l)
					if err == nil {
						tv, err = lib.JSONIETF(jv)
					}
				}
				if err != nil {
					continue
				}
				before := cfg.Observe(t)
				gp := lib.ToGNMIPath(l.Elems)
				history = append(history, fmt.Sprintf("%s <- %s (%s)", l.Path, l.Val, form))
				w := func(more map[string]interface{}) map[string]interface{} {
					more["history"] = history
					more["path"] = l.Path
					more["value"] = l.Val
					more["form"] = form
					return wit(cfg, r.Seed, i, more)
				}
				allSets++
				r.Hit("form:" + form)
				var serr error
				if r.Guard("SetNode", w(map[string]interface{}{}), func() {
					serr = ytypes.SetNode(rootEntry, sch.Root, gp, tv, &ytypes.InitMissingElements{})
				}) {
					break
				}
				if serr != nil {
					r.Hit("setnode-error")
					r.Hit("setnode-error:" + l.Feature())
					r.Case(cfg.Name+l.Path+l.Val+form, false)
					// a failed set must not have half-applied the leaf value itself; do not judge further
					continue
				}
				okSets++
				r.Hit("setnode-ok")
				r.Hit("set:" + l.Feature())
				r.Case(cfg.Name+l.Path+l.Val+form, true)
				if step == 0 && i < 3 {
					r.Sample(map[string]interface{}{"cfg": cfg.Name, "path": l.Path, "value": l.Val, "form": form, "typed_value": tv.String()})
				}
				// GetNode returns exactly one node holding v
				var nodes []*ytypes.TreeNode
				var gerr error
				if r.Guard("GetNode", w(map[string]interface{}{}), func() { nodes, gerr = ytypes.GetNode(rootEntry, sch.Root, gp) }) {
					break
				}
				if gerr != nil {
					r.ViolateErr("getnode-after-set-error:"+lib.TypeFeature(l.Field), gerr, w(map[string]interface{}{}))
				} else if len(nodes) != 1 {
					r.Violate("getnode-count", fmt.Sprintf("%d-nodes:%s", len(nodes), lib.LeafFeat(l)), fmt.Sprintf("GetNode returned %d nodes", len(nodes)), w(map[string]interface{}{}))
				} else {
					got := canonData(nodes[0].Data, l.IsList)
					if got != l.Val {
						r.Violate("getnode-value", l.Feature()+":"+form, fmt.Sprintf("GetNode returned %s, SetNode wrote %s", got, l.Val), w(map[string]interface{}{"got": got}))
					}
				}
				// frame: everything else unchanged, p = v, key leaves of created entries
				want := before.Clone()
				want.Leaves[l.Path] = l
				for p, kl := range keyLeavesOnPath(cfg, od, l) {
					want.Leaves[p] = kl
				}
				after := cfg.Observe(t)
				for _, d := range lib.DiffObs(want, after, lib.DiffOpts{IgnoreOrder: true, EmptyLeafListIsAbsent: true}) {
					if d.What == "entry" || d.What == "presence" {
						continue
					}
					cl := "frame-violated"
					if d.Path == l.Path {
						cl = "stored-value-differs"
					}
					r.Violate(cl, featOf(d)+":"+form, d.String(), w(map[string]interface{}{"delta": d.String()}))
				}
				// a populated leaf-list is then set to the empty list (only JSON can say that)
				if l.IsList && rng.Intn(2) == 0 {
					etv, _ := lib.JSONIETF([]interface{}{})
					var eerr error
					if r.Guard("SetNode", w(map[string]interface{}{"second_set": "[]"}), func() {
						eerr = ytypes.SetNode(rootEntry, sch.Root, gp, etv, &ytypes.InitMissingElements{})
					}) {
						break
					}
					if eerr == nil {
						r.Hit("set:leaf-list-to-empty")
						want2 := after.Clone()
						delete(want2.Leaves, l.Path)
						after2 := cfg.Observe(t)
						for _, d := range lib.DiffObs(want2, after2, lib.DiffOpts{IgnoreOrder: true, EmptyLeafListIsAbsent: true}) {
							if d.What == "entry" || d.What == "presence" {
								continue
							}
							cl := "frame-violated"
							if d.Path == l.Path {
								cl = "stored-value-differs"
							}
							r.Violate(cl, featOf(d)+":json_ietf-empty-list", d.String(), w(map[string]interface{}{"delta": d.String(), "second_set": "[]"}))
						}
						after = after2
					} else {
						r.Hit("setnode-error:leaf-list-to-empty")
					}
				}
				// order of pre-existing ordered-list entries is preserved
				for lp, ord := range before.Order {
					na := after.Order[lp]
					if !isSubsequence(ord, na) {
						r.Violate("frame-violated", "ordered-list-order", "order of existing entries changed at "+lp, w(map[string]interface{}{"before": ord, "after": na}))
					}
				}
			}
		}
	}
	r.Extra("setnode_success_ratio", fmt.Sprintf("%d/%d", okSets, allSets))
	if allSets > 0 && okSets*2 < allSets {
		r.Inconclusive(fmt.Sprintf("only %d of %d SetNode calls succeeded", okSets, allSets))
	}
	r.RequireCov("configuration:vtk/U-simple", "setnode-ok", "form:scalar", "form:json_ietf")
}

func isSubsequence(sub, full []string) bool {
	j := 0
	for _, x := range full {
		if j < len(sub) && sub[j] == x {
			j++
		}
	}
	return j == len(sub)
}

// canonData canonicalises the Data of a TreeNode for a leaf or leaf-list.
func canonData(d interface{}, isList bool) string {
	v := reflect.ValueOf(d)
	if !v.IsValid() {
		return "<nil>"
	}
	if isList {
		if v.Kind() != reflect.Slice {
			return "?not-a-slice:" + v.Type().String()
		}
		vals := make([]string, v.Len())
		for i := range vals {
			c, _ := lib.CanonScalar(v.Index(i), true)
			vals[i] = fmt.Sprintf("%q", c)
		}
		return "[" + strings.Join(vals, ",") + "]"
	}
	c, ok := lib.CanonScalar(v, true)
	if !ok {
		return "<unset>"
	}
	return c
}

var _ = sort.Strings
var _ ygot.GoStruct
