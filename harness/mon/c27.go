package mon

import (
	"fmt"
	"reflect"
	"sort"
	"strings"

	"github.com/openconfig/goyang/pkg/yang"
	"github.com/openconfig/ygot/zzverif/lib"
)

func init() { Monitors["C27"] = runC27 }

func rangeString(r yang.YangRange) string {
	var parts []string
	for _, p := range r {
		parts = append(parts, p.Min.String()+".."+p.Max.String())
	}
	return strings.Join(parts, "|")
}

func identNames(id *yang.Identity) string {
	if id == nil {
		return "<nil>"
	}
	var vs []string
	for _, v := range id.Values {
		vs = append(vs, v.Name)
	}
	sort.Strings(vs)
	return id.Name + "{" + strings.Join(vs, ",") + "}"
}

func enumString(e *yang.EnumType) string {
	if e == nil {
		return "<nil>"
	}
	var vs []string
	for n, v := range e.ToInt {
		vs = append(vs, fmt.Sprintf("%s=%d", n, v))
	}
	sort.Strings(vs)
	return strings.Join(vs, ",")
}

// cmpType compares the goyang type g with the embedded type e.
func cmpType(g, e *yang.YangType, at string, report func(attr, detail string)) {
	cmpTypeX(g, e, at, report, false)
}

// cmpTypeX: keyToState applies the documented transformation of
// prefer_operational_state (list keys reference ../state/<key>).
func cmpTypeX(g, e *yang.YangType, at string, report func(attr, detail string), keyToState bool) {
	if (g == nil) != (e == nil) {
		report("type-presence", fmt.Sprintf("%s: goyang type nil=%v, embedded nil=%v", at, g == nil, e == nil))
		return
	}
	if g == nil {
		return
	}
	chk := func(attr string, a, b interface{}) {
		if !reflect.DeepEqual(a, b) && fmt.Sprint(a) != fmt.Sprint(b) {
			report("type-"+attr, fmt.Sprintf("%s: goyang %v, embedded %v", at, a, b))
		}
	}
	chk("kind", g.Kind, e.Kind)
	chk("fraction-digits", g.FractionDigits, e.FractionDigits)
	chk("range", rangeString(g.Range), rangeString(e.Range))
	chk("length", rangeString(g.Length), rangeString(e.Length))
	chk("pattern", g.Pattern, e.Pattern)
	chk("posix-pattern", g.POSIXPattern, e.POSIXPattern)
	gp := g.Path
	ep := e.Path
	if keyToState {
		// prefer_operational_state re-points references at the state twin
		gp = strings.ReplaceAll(gp, "/config/", "/state/")
		ep = strings.ReplaceAll(ep, "/config/", "/state/")
	}
	chk("leafref-path", gp, ep)
	if g.Kind == yang.Yenum {
		chk("enum-values", enumString(g.Enum), enumString(e.Enum))
	}
	if g.Kind == yang.Yidentityref {
		chk("identity-base", identNames(g.IdentityBase), identNames(e.IdentityBase))
	}
	if g.Kind == yang.Yunion {
		if len(g.Type) != len(e.Type) {
			report("type-union-members", fmt.Sprintf("%s: goyang has %d members, embedded %d", at, len(g.Type), len(e.Type)))
			return
		}
		for i := range g.Type {
			cmpType(g.Type[i], e.Type[i], fmt.Sprintf("%s/union[%d]", at, i), report)
		}
	}
}

func runC27(r *lib.Run) {
	r.Level = "translation_validation"
	r.Rule = "every linked configuration: the schema tree rebuilt by Schema()/UnzipSchema() is walked in lock step with a direct goyang compilation (yang.NewModules, Process, ToEntry) of the same files; per node: name, kind, key, list attributes (min/max-elements, ordered-by), config, presence, defaults and the type recursively (kind, range, length, patterns, enum name/value pairs, identity base and derived identities, union members and order, leafref path, fraction-digits); plus structname annotations; non-trivial = configuration has >=20 nodes; distinct by configuration"
	for _, name := range lib.Names() {
		cfg := lib.Get(name)
		gy, err := cfg.Goyang()
		if err != nil {
			r.Inconclusive("goyang compile of " + name + ": " + err.Error())
			continue
		}
		root := cfg.RootEntry()
		nodes := 0
		report := func(attr, detail string) {
			r.Violate("schema-differs", attr, detail, map[string]interface{}{"cfg": name, "yang": cfg.YangFiles, "detail": detail})
		}
		var cmp func(g, e *yang.Entry, at string)
		cmp = func(g, e *yang.Entry, at string) {
			nodes++
			r.Hit("node:" + entryKind(g))
			chk := func(attr string, a, b interface{}) {
				if !reflect.DeepEqual(a, b) && fmt.Sprint(a) != fmt.Sprint(b) {
					report(attr, fmt.Sprintf("%s: goyang %v, embedded %v", at, a, b))
				}
			}
			chk("name", g.Name, e.Name)
			chk("kind", g.Kind, e.Kind)
			chk("key", g.Key, e.Key)
			chk("config", g.Config, e.Config)
			chk("default", g.Default, e.Default)
			chk("is-list-or-leaflist", g.ListAttr != nil, e.ListAttr != nil)
			if g.ListAttr != nil && e.ListAttr != nil {
				chk("min-elements", g.ListAttr.MinElements, e.ListAttr.MinElements)
				chk("max-elements", g.ListAttr.MaxElements, e.ListAttr.MaxElements)
				chk("ordered-by", g.ListAttr.OrderedByUser, e.ListAttr.OrderedByUser)
			}
			_, gp := g.Extra["presence"]
			_, ep := e.Extra["presence"]
			chk("presence", gp, ep)
			if g.Type != nil || e.Type != nil {
				isKey := false
				if p := g.Parent; p != nil && p.IsList() {
					for _, k := range strings.Fields(p.Key) {
						if k == g.Name {
							isKey = true
						}
					}
				}
				_ = isKey
				cmpTypeX(g.Type, e.Type, at, report, cfg.OpState)
				if g.Type != nil {
					r.Hit("type:" + g.Type.Kind.String())
				}
			}
			// children, including choice and case nodes
			for n, gc := range g.Dir {
				if gc.RPC != nil || gc.Kind == yang.NotificationEntry {
					continue
				}
				ec, ok := e.Dir[n]
				if !ok {
					report("child-missing-in-embedded-schema", at+"/"+n+" ("+entryKind(gc)+")")
					continue
				}
				cmp(gc, ec, at+"/"+n)
			}
			for n := range e.Dir {
				if _, ok := g.Dir[n]; !ok {
					report("child-not-in-goyang", at+"/"+n)
				}
			}
			if sn, ok := e.Annotation["structname"]; ok {
				if s, _ := sn.(string); cfg.Tree()[s] != e {
					report("structname-annotation", fmt.Sprintf("%s: annotation %v does not map back to this entry", at, sn))
				}
			}
		}
		seenTop := map[string]bool{}
		for _, mn := range gy.Names {
			for n, gc := range gy.Tops[mn].Dir {
				if gc.RPC != nil || gc.Kind == yang.NotificationEntry {
					continue
				}
				seenTop[n] = true
				ec, ok := root.Dir[n]
				if !ok {
					report("top-level-node-missing", n)
					continue
				}
				cmp(gc, ec, "/"+n)
			}
		}
		for n := range root.Dir {
			if !seenTop[n] {
				report("top-level-node-not-in-goyang", n)
			}
		}
		r.Case(name, nodes >= 20)
		r.Hit("configuration")
		r.HitN("nodes", nodes)
		r.Sample(map[string]interface{}{"cfg": name, "nodes_compared": nodes, "yang": cfg.YangFiles})
	}
	r.RequireCov("configuration", "node:leaf", "node:list", "node:container", "node:leaf-list", "node:choice", "type:union", "type:enumeration", "type:identityref", "type:leafref", "type:decimal64")
}
