package mon

import (
	"fmt"
	"math"
	"math/rand"
	"reflect"
	"strings"

	gpb "github.com/openconfig/gnmi/proto/gnmi"
	"github.com/openconfig/ygot/gnmidiff"
	"github.com/openconfig/ygot/ytypes"
	"github.com/openconfig/ygot/zzverif/lib"
	"google.golang.org/protobuf/proto"
)

func init() { Monitors["C22"] = runC22 }

func diffEmpty(d gnmidiff.SetRequestIntentDiff) (bool, string) {
	var why []string
	if len(d.MissingDeletes) > 0 {
		why = append(why, fmt.Sprintf("missing deletes %v", sortedSet(d.MissingDeletes)))
	}
	if len(d.ExtraDeletes) > 0 {
		why = append(why, fmt.Sprintf("extra deletes %v", sortedSet(d.ExtraDeletes)))
	}
	if len(d.MissingUpdates) > 0 {
		why = append(why, fmt.Sprintf("missing updates %v", sortedKeys(d.MissingUpdates)))
	}
	if len(d.ExtraUpdates) > 0 {
		why = append(why, fmt.Sprintf("extra updates %v", sortedKeys(d.ExtraUpdates)))
	}
	if len(d.MismatchedUpdates) > 0 {
		var ks []string
		for k, v := range d.MismatchedUpdates {
			ks = append(ks, fmt.Sprintf("%s: %v (%T) vs %v (%T)", k, v.A, v.A, v.B, v.B))
		}
		why = append(why, fmt.Sprintf("mismatched %v", ks))
	}
	return len(why) == 0, strings.Join(why, "; ")
}

// leafClassOfKey finds the leaf feature behind a diff-map key (for signatures).
func leafClassOfKey(cfg *lib.Cfg, o *lib.Obs, key string) string {
	ck := canonDiffKey(cfg, key)
	if l, ok := o.Leaves[ck]; ok {
		return lib.LeafFeat(l)
	}
	if strings.HasPrefix(ck, "unparseable:") || strings.HasPrefix(ck, "noncanonical:") {
		return ck[:strings.Index(ck, ":")]
	}
	return "non-leaf-path"
}

func runC22(r *lib.Run) {
	r.Rule = "SetRequests built from trees (scope = a random container or list entry; scalar leaf updates under a prefix) and intent-preserving rewrites: one JSON update for the scope, another prefix split, permuted updates, leaf replaces instead of updates, duplicated identical updates (incl. leaf-lists); with the generated schema and (OpenConfig-style configuration only) without; oracle: Diff(a,a) empty, Diff(b,a) mirrors Diff(a,b), Diff(r, rewrite(r)) empty whenever no error is returned; non-trivial = scope has >=3 leaves; distinct by cfg+schema mode+rewrite+request"
	r.Assume("without schema, 64-bit integer and decimal64 leaves are left out of the scalar-versus-JSON comparison (the code documents TypedValue as lossy there); key values avoid the characters whose path-string encoding is a C08 finding")
	n := r.N(300, 6000)
	for _, cn := range []string{"vtoc/C-simple", "vt/U-simple"} {
		cfg := lib.Get(cn)
		for i := 0; i < n; i++ {
			if skip(cfg, i) {
				continue
			}
			opt := lib.DefaultGen()
			opt.Hostile = false
			opt.OrderedSiblings = true
			t := lib.NewGen(cfg, r.Seed, i, opt).Tree()
			o := cfg.Observe(t)
			nodes := dataNodes(cfg, t)
			if len(nodes) == 0 {
				continue
			}
			rng := rand.New(rand.NewSource(r.Seed*887 + int64(i)))
			scope := nodes[rng.Intn(len(nodes))]
			withSchema := cn != "vtoc/C-simple" || i%2 == 0
			var sch *ytypes.Schema
			mode := "no-schema"
			if withSchema {
				sch = cfg.Schema()
				mode = "schema"
			}
			k := rng.Intn(len(scope.Path) + 1)
			prefix := scope.Path[:k]
			skip64 := !withSchema
			ups := leafUpdatesK(o, scope.Path, skip64, true)
			// paths relative to prefix
			for _, u := range ups {
				u.Path = &gpb.Path{Elem: append(append([]*gpb.PathElem{}, lib.ToGNMIPath(scope.Path[k:]).Elem...), u.Path.Elem...)}
			}
			if len(ups) == 0 {
				continue
			}
			a := &gpb.SetRequest{Prefix: lib.ToGNMIPath(prefix), Update: ups}
			r.Hit("mode:" + mode)
			r.Case(cfg.Name+mode+a.String(), len(ups) >= 3)
			w := func(more map[string]interface{}) map[string]interface{} {
				more["schema"] = mode
				more["a"] = lib.Clip(a.String(), 4000)
				return wit(cfg, r.Seed, i, more)
			}
			// (1) Diff(a,a)
			var d gnmidiff.SetRequestIntentDiff
			var err error
			if r.Guard("DiffSetRequest", w(map[string]interface{}{}), func() { d, err = gnmidiff.DiffSetRequest(a, proto.Clone(a).(*gpb.SetRequest), sch) }) {
				continue
			}
			if err != nil {
				r.Hit("error:" + mode)
				for _, c := range lib.ErrClasses(err.Error()) {
					r.Hit("error-class:" + c)
				}
				continue
			}
			if ok, why := diffEmpty(d); !ok {
				r.Violate("self-diff-nonempty", mode, why, w(map[string]interface{}{}))
				continue
			}
			r.Hit("self-diff-empty")
			if i < 2 {
				r.Sample(map[string]interface{}{"cfg": cfg.Name, "schema": mode, "request": lib.Clip(a.String(), 500), "common_updates": len(d.CommonUpdates)})
			}
			// rewrites
			rewrites := map[string]*gpb.SetRequest{}
			if ju, e := jsonUpdate(obsForJSON(o, skip64), prefix, scope.Path); e == nil {
				rewrites["json-for-leaves"] = &gpb.SetRequest{Prefix: lib.ToGNMIPath(prefix), Update: []*gpb.Update{ju}}
			}
			k2 := (k + 1) % (len(scope.Path) + 1)
			ups2 := leafUpdatesK(o, scope.Path, skip64, true)
			for _, u := range ups2 {
				u.Path = &gpb.Path{Elem: append(append([]*gpb.PathElem{}, lib.ToGNMIPath(scope.Path[k2:]).Elem...), u.Path.Elem...)}
			}
			rewrites["prefix-split"] = &gpb.SetRequest{Prefix: lib.ToGNMIPath(scope.Path[:k2]), Update: ups2}
			rewrites["permuted"] = &gpb.SetRequest{Prefix: a.Prefix, Update: shuffleUpdates(ups, rng)}
			rewrites["replace-for-update"] = &gpb.SetRequest{Prefix: a.Prefix, Replace: ups}
			dup := append([]*gpb.Update(nil), ups...)
			for _, u := range ups {
				if rng.Intn(2) == 0 || u.Val.GetLeaflistVal() != nil {
					dup = append(dup, proto.Clone(u).(*gpb.Update))
				}
			}
			rewrites["duplicated-updates"] = &gpb.SetRequest{Prefix: a.Prefix, Update: dup}
			// the same non-negative number sent as int_val instead of uint_val (gNMI lets a client use
			// either for an unsigned leaf; ygot decodes both)
			var iv []*gpb.Update
			nconv := 0
			conv := func(tv *gpb.TypedValue) {
				if u, ok := tv.GetValue().(*gpb.TypedValue_UintVal); ok && u.UintVal <= math.MaxInt64 {
					tv.Value = &gpb.TypedValue_IntVal{IntVal: int64(u.UintVal)}
					nconv++
				}
			}
			for _, u := range ups {
				c := proto.Clone(u).(*gpb.Update)
				conv(c.Val)
				for _, e := range c.Val.GetLeaflistVal().GetElement() {
					conv(e)
				}
				iv = append(iv, c)
			}
			if nconv > 0 {
				rewrites["int-val-for-uint-val"] = &gpb.SetRequest{Prefix: a.Prefix, Update: iv}
			}
			for name, b := range rewrites {
				r.Hit("rewrite:" + name)
				var dab, dba gnmidiff.SetRequestIntentDiff
				var e1, e2 error
				wb := w(map[string]interface{}{"rewrite": name, "b": lib.Clip(b.String(), 4000)})
				if r.Guard("DiffSetRequest", wb, func() {
					dab, e1 = gnmidiff.DiffSetRequest(a, b, sch)
					dba, e2 = gnmidiff.DiffSetRequest(b, a, sch)
				}) {
					continue
				}
				if e1 != nil || e2 != nil {
					r.Hit("rewrite-error:" + name)
					if (e1 == nil) != (e2 == nil) {
						r.Violate("asymmetric-error", name+":"+mode, fmt.Sprintf("Diff(a,b) err=%v, Diff(b,a) err=%v", e1, e2), wb)
					}
					continue
				}
				if ok, why := diffEmpty(dab); !ok {
					// classify by the first offending key
					cls := "other"
					for _, k := range append(append(append(sortedKeys(dab.MissingUpdates), sortedKeys(dab.ExtraUpdates)...), mismatchKeys(dab)...), append(sortedSet(dab.MissingDeletes), sortedSet(dab.ExtraDeletes)...)...) {
						cls = leafClassOfKey(cfg, o, k)
						break
					}
					kind := "updates"
					if len(dab.MissingDeletes)+len(dab.ExtraDeletes) > 0 {
						kind = "deletes"
					}
					if strings.Contains(why, "e+0") || strings.Contains(why, "e+1") {
						cls = "numeric-key-rendered-with-exponent"
					}
					sigf := name + ":" + mode + ":" + kind + ":" + cls
					if !cfg.Compressed && name == "json-for-leaves" {
						// non-OpenConfig list: every direct leaf child of an entry is taken for a key
						// when the JSON (or the marshalled GoStruct) is flattened
						sigf = "json-for-leaves:schema:non-openconfig-list-entry"
					}
					r.Violate("same-intent-differs", sigf, why, wb)
				} else {
					r.Hit("rewrite-ok:" + name)
				}
				// mirror law
				if !reflect.DeepEqual(dab.MissingUpdates, dba.ExtraUpdates) || !reflect.DeepEqual(dab.ExtraUpdates, dba.MissingUpdates) ||
					!reflect.DeepEqual(dab.MissingDeletes, dba.ExtraDeletes) || !reflect.DeepEqual(dab.ExtraDeletes, dba.MissingDeletes) ||
					!reflect.DeepEqual(dab.CommonUpdates, dba.CommonUpdates) || !reflect.DeepEqual(dab.CommonDeletes, dba.CommonDeletes) ||
					!mirrorMismatch(dab, dba) {
					r.Violate("swap-not-mirrored", name+":"+mode, "Diff(b,a) is not the mirror image of Diff(a,b)", wb)
				} else {
					r.Hit("mirror-ok")
				}
			}
			// (3) requests that differ in one value: the difference is reported, and reported the
			// same way (mirrored) whichever request comes first
			for ei, u := range ups {
				if ei > 5 {
					break
				}
				b := proto.Clone(a).(*gpb.SetRequest)
				bu := b.Update[ei]
				edit := ""
				// a key leaf whose value contradicts the key in its own path is not a meaningful request
				isKeyLeaf := false
				full := append(append([]*gpb.PathElem{}, a.Prefix.GetElem()...), bu.Path.GetElem()...)
				if n := len(full); n > 0 {
					for _, e := range full[:n-1] {
						if _, ok := e.Key[full[n-1].Name]; ok {
							isKeyLeaf = true
						}
					}
				}
				if isKeyLeaf {
					continue
				}
				if ll := bu.Val.GetLeaflistVal(); ll != nil && len(ll.Element) > 0 {
					switch (i + ei) % 3 {
					case 0:
						if len(ll.Element) > 1 {
							ll.Element = ll.Element[:len(ll.Element)-1]
							edit = "leaf-list-truncated"
						}
					case 1:
						ll.Element = append(ll.Element, &gpb.TypedValue{Value: &gpb.TypedValue_StringVal{StringVal: "zz-extra"}})
						if ll.Element[0].GetStringVal() == "" {
							ll.Element[len(ll.Element)-1] = proto.Clone(ll.Element[0]).(*gpb.TypedValue)
						}
						edit = "leaf-list-extended"
					default:
						if len(ll.Element) > 1 && !proto.Equal(ll.Element[0], ll.Element[len(ll.Element)-1]) {
							ll.Element[0], ll.Element[len(ll.Element)-1] = ll.Element[len(ll.Element)-1], ll.Element[0]
							edit = "leaf-list-reordered"
						}
					}
				} else if sv, ok := bu.Val.Value.(*gpb.TypedValue_StringVal); ok {
					sv.StringVal += "-edited"
					edit = "string-changed"
				} else if bv, ok := bu.Val.Value.(*gpb.TypedValue_BoolVal); ok {
					bv.BoolVal = !bv.BoolVal
					edit = "bool-changed"
				}
				if edit == "" || proto.Equal(u, bu) {
					continue
				}
				r.Hit("edit:" + edit)
				var dab, dba gnmidiff.SetRequestIntentDiff
				var e1, e2 error
				wb := w(map[string]interface{}{"edit": edit, "b": lib.Clip(b.String(), 4000)})
				if r.Guard("DiffSetRequest", wb, func() {
					dab, e1 = gnmidiff.DiffSetRequest(a, b, sch)
					dba, e2 = gnmidiff.DiffSetRequest(b, a, sch)
				}) {
					continue
				}
				if e1 != nil || e2 != nil {
					r.Hit("edit-error:" + edit)
					if (e1 == nil) != (e2 == nil) {
						r.Violate("asymmetric-error", "edit:"+edit+":"+mode, fmt.Sprintf("Diff(a,b) err=%v, Diff(b,a) err=%v", e1, e2), wb)
					}
					continue
				}
				if !reflect.DeepEqual(dab.MissingUpdates, dba.ExtraUpdates) || !reflect.DeepEqual(dab.ExtraUpdates, dba.MissingUpdates) ||
					!reflect.DeepEqual(dab.CommonUpdates, dba.CommonUpdates) || !mirrorMismatch(dab, dba) {
					r.Violate("swap-not-mirrored", "edit:"+edit+":"+mode, "Diff(b,a) is not the mirror image of Diff(a,b)", wb)
					continue
				}
				if len(dab.MismatchedUpdates)+len(dab.MissingUpdates)+len(dab.ExtraUpdates) == 0 {
					// the statement only demands the mirror law here; that different intents are told
					// apart is not part of C22 (observed e.g. for leaves inside ordered-by user entries)
					r.Hit("edit-not-reported:" + edit)
				}
				r.Hit("edit-ok")
			}
		}
	}
	r.RequireCov("mode:schema", "mode:no-schema", "self-diff-empty", "mirror-ok", "edit-ok", "rewrite-ok:permuted", "rewrite-ok:prefix-split", "rewrite:json-for-leaves", "rewrite:replace-for-update", "rewrite:duplicated-updates")
}

func mismatchKeys(d gnmidiff.SetRequestIntentDiff) []string {
	var out []string
	for k := range d.MismatchedUpdates {
		out = append(out, k)
	}
	return out
}

func mirrorMismatch(x, y gnmidiff.SetRequestIntentDiff) bool {
	if len(x.MismatchedUpdates) != len(y.MismatchedUpdates) {
		return false
	}
	for k, v := range x.MismatchedUpdates {
		o, ok := y.MismatchedUpdates[k]
		if !ok || !reflect.DeepEqual(v.A, o.B) || !reflect.DeepEqual(v.B, o.A) {
			return false
		}
	}
	return true
}

// obsForJSON drops the leaves that are left out without schema.
func obsForJSON(o *lib.Obs, skip64 bool) *lib.Obs {
	if !skip64 {
		return o
	}
	n := lib.NewObs()
	for p, l := range o.Leaves {
		if has64Key(l.Elems) || strings.HasPrefix(l.Val, "int64:") || strings.HasPrefix(l.Val, "uint64:") || strings.Contains(l.Val, `"int64:`) || strings.Contains(l.Val, `"uint64:`) || strings.Contains(l.Val, "float64:") {
			continue
		}
		n.Leaves[p] = l
	}
	for p, v := range o.Order {
		n.Order[p] = v
	}
	return n
}
