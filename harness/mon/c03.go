package mon

import (
	"fmt"
	"strings"

	gpb "github.com/openconfig/gnmi/proto/gnmi"
	"github.com/openconfig/ygot/ygot"
	"github.com/openconfig/ygot/ytypes"
	"github.com/openconfig/ygot/zzverif/lib"
)

func init() { Monitors["C03"] = runC03 }

func c03Opts(i int) lib.GenOpts {
	opt := lib.DefaultGen()
	opt.OrderedSiblings = i%7 == 0
	opt.ZeroLenBinary = true
	opt.PreciseDecimals = true
	return opt
}

func runC03(r *lib.Run) {
	r.Rule = "pairs (a,b): b = a regenerated and mutated by 1..6 random edits (clear/regenerate field, add/remove entry, permute ordered list), or an unrelated tree; plus chains a0..a8 applied to one replica; non-trivial = Diff has >=1 update or delete; distinct by cfg+obs(a)+obs(b)"
	r.Assume("unkeyed lists and non-nil empty leaf-lists are not generated (no addressable path / representation class)")
	n := r.N(300, 8000)
	for _, cfg := range cfgsFor(r, quick3) {
		for i := 0; i < n; i++ {
			if skip(cfg, i) {
				continue
			}
			a := lib.NewGen(cfg, r.Seed, i, c03Opts(i)).Tree()
			var b ygot.GoStruct
			var edits []string
			if i%6 == 5 {
				b = lib.NewGen(cfg, r.Seed+7777, i, c03Opts(i)).Tree()
				edits = []string{"unrelated tree"}
				r.Hit("pair:unrelated")
			} else {
				gb := lib.NewGen(cfg, r.Seed, i, c03Opts(i))
				b = gb.Tree()
				if w := ""; i%6 == 2 {
					// the only difference is the order of one ordered-by-user list
					if w = gb.PermuteOrdered(b); w != "" {
						edits = []string{"permute-only " + w}
						r.Hit("pair:pure-reorder")
					}
				}
				if edits == nil {
					edits = gb.Mutate(b, 1+i%6)
				}
				r.Hit("pair:mutated")
			}
			c03Pair(r, cfg, i, a, b, edits, func() ygot.GoStruct { return lib.NewGen(cfg, r.Seed, i, c03Opts(i)).Tree() })
		}
		// chains
		nc := r.N(30, 600)
		for c := 0; c < nc; c++ {
			idx := 100000 + c
			if skip(cfg, idx) {
				continue
			}
			g := lib.NewGen(cfg, r.Seed, idx, c03Opts(c))
			cur := g.Tree()
			replica := lib.NewGen(cfg, r.Seed, idx, c03Opts(c)).Tree()
			var hist []string
			for step := 0; step < 8; step++ {
				before := cfg.Observe(cur)
				// next version: regenerate current then mutate (mutate in place on cur, but keep a copy of the old)
				old := rebuild(cfg, r.Seed, idx, c03Opts(c), hist)
				ed := g.Mutate(cur, 1+step%3)
				hist = append(hist, fmt.Sprint(len(ed)))
				_ = before
				var ns []*gpb.Notification
				var err error
				if r.Guard("DiffWithAtomic", wit(cfg, r.Seed, idx, map[string]interface{}{"step": step}), func() { ns, err = ygot.DiffWithAtomic(old, cur) }) {
					break
				}
				if err != nil {
					r.ViolateErr("diff-error", err, wit(cfg, r.Seed, idx, map[string]interface{}{"step": step, "edits": ed}))
					break
				}
				if r.Guard("UnmarshalNotifications", wit(cfg, r.Seed, idx, map[string]interface{}{"step": step}), func() { err = ytypes.UnmarshalNotifications(cfg.SchemaWith(replica), ns) }) {
					break
				}
				if err != nil {
					r.ViolateErr("apply-error", err, wit(cfg, r.Seed, idx, map[string]interface{}{"step": step, "edits": ed, "notifications": notifStrings(ns)}))
					break
				}
				ds := lib.DiffObs(cfg.Observe(cur), cfg.Observe(replica), lib.DiffOpts{})
				for _, d := range ds {
					if d.What == "entry" || d.What == "presence" {
						continue
					}
					both := cfg.Observe(cur)
					for lp, v := range cfg.Observe(old).Order {
						if _, ok := both.Order[lp]; !ok {
							both.Order[lp] = v
						}
					}
					r.Violate("applied-differs", c03Feat(both, d), d.String(), wit(cfg, r.Seed, idx, map[string]interface{}{"step": step, "edits": ed, "delta": d.String(), "notifications": notifStrings(ns)}))
				}
				r.Hit("chain-step")
				if len(ds) > 0 {
					break
				}
			}
			r.Case(fmt.Sprintf("%s chain %d", cfg.Name, idx), true)
		}
	}
	r.RequireCov("pair:mutated", "pair:unrelated", "chain-step", "applied-ok", "diff-aa-empty", "ignore-additions", "atomic")
}

// rebuild regenerates the chain's tree up to the recorded history so that an
// independent copy of the previous version exists without using DeepCopy.
func rebuild(cfg *lib.Cfg, seed int64, idx int, opt lib.GenOpts, hist []string) ygot.GoStruct {
	g := lib.NewGen(cfg, seed, idx, opt)
	t := g.Tree()
	for step := range hist {
		g.Mutate(t, 1+step%3)
	}
	return t
}

func c03Feat(o *lib.Obs, d lib.Delta) string {
	feat := featOf(d)
	if strings.Contains(d.Path, `="<unset>"`) || strings.Contains(d.Path, `="enum:#0"`) {
		// an entry survives without its key leaf: Diff deletes the leaves of a
		// removed entry one by one, key leaf included
		return "entry-left-without-key-leaf"
	}
	if orderedSiblingDelta(o, d.Path) {
		return "beside-ordered-list"
	}
	if zeroVal(d.A) || zeroVal(d.B) {
		feat += "+zero-value"
	}
	return feat
}

type upd struct {
	path string
	val  string
}

// flatten turns notifications into canonical (primary) update and delete paths.
func c03Flatten(cfg *lib.Cfg, ns []*gpb.Notification, idxA, idxB map[string]string) (ups []upd, dels []string, atomics []string, err error) {
	for _, n := range ns {
		if n.Atomic {
			p, e := cfg.CanonGNMIPathString(n.Prefix, &gpb.Path{})
			if e != nil {
				return nil, nil, nil, e
			}
			atomics = append(atomics, p)
		}
		for _, u := range n.Update {
			p, e := cfg.CanonGNMIPathString(n.Prefix, u.Path)
			if e != nil {
				return nil, nil, nil, e
			}
			ups = append(ups, upd{p, u.Val.String()})
		}
		for _, d := range n.Delete {
			p, e := cfg.CanonGNMIPathString(n.Prefix, d)
			if e != nil {
				return nil, nil, nil, e
			}
			dels = append(dels, p)
		}
	}
	return
}

func c03Pair(r *lib.Run, cfg *lib.Cfg, idx int, a, b ygot.GoStruct, edits []string, freshA func() ygot.GoStruct) {
	oa, ob := cfg.Observe(a), cfg.Observe(b)
	ia, ib := oa.AltIndex(), ob.AltIndex()
	// ordered lists of either side matter for attributing losses to the atomic-prefix finding
	both := ob.Clone()
	for lp, v := range oa.Order {
		if _, ok := both.Order[lp]; !ok {
			both.Order[lp] = v
		}
	}
	w := func(more map[string]interface{}) map[string]interface{} {
		more["edits"] = edits
		more["a"] = oa.Dump()
		more["b"] = ob.Dump()
		return wit(cfg, r.Seed, idx, more)
	}
	for mode := 0; mode < 2; mode++ {
		name := []string{"Diff", "DiffWithAtomic"}[mode]
		var ns []*gpb.Notification
		var err error
		if r.Guard(name, w(map[string]interface{}{}), func() {
			if mode == 0 {
				var n *gpb.Notification
				n, err = ygot.Diff(a, b)
				if n != nil {
					ns = []*gpb.Notification{n}
				}
			} else {
				ns, err = ygot.DiffWithAtomic(a, b)
				r.Hit("atomic")
			}
		}) {
			continue
		}
		if err != nil {
			r.ViolateErr("diff-error", err, w(map[string]interface{}{"api": name}))
			continue
		}
		ups, dels, atomics, err := c03Flatten(cfg, ns, ia, ib)
		if err != nil {
			r.ViolateErr("diff-path-unparseable", err, w(map[string]interface{}{"notifications": notifStrings(ns)}))
			continue
		}
		if mode == 0 {
			r.Case(cfg.Name+strings.Join(oa.Dump(), "\n")+"=>"+strings.Join(ob.Dump(), "\n"), len(ups)+len(dels) > 0)
			if idx < 2 {
				r.Sample(map[string]interface{}{"cfg": cfg.Name, "edits": edits, "updates": len(ups), "deletes": len(dels)})
			}
		}
		underAtomic := func(p string) bool {
			for _, ap := range atomics {
				if lib.HasPrefixPath(p, ap) {
					return true
				}
			}
			return false
		}
		// (2) minimality / soundness of each update and delete
		for _, u := range ups {
			pb, inB := ib[u.path]
			if !inB {
				r.Violate("update-not-in-b", "path", fmt.Sprintf("update for %s which is not a leaf of b", u.path), w(map[string]interface{}{"update": u.path, "notifications": notifStrings(ns)}))
				continue
			}
			if underAtomic(u.path) {
				continue // atomic notifications restate the whole ordered list
			}
			if pa, inA := ia[u.path]; inA && oa.Leaves[pa].Val == ob.Leaves[pb].Val {
				r.Violate("update-not-minimal", leafFeatOf(ob.Leaves[pb]), fmt.Sprintf("update for unchanged leaf %s = %s", u.path, ob.Leaves[pb].Val), w(map[string]interface{}{"update": u.path, "notifications": notifStrings(ns)}))
			}
		}
		for _, d := range dels {
			pa, inA := ia[d]
			if !inA {
				// deleting the container of a changed ordered list is allowed for atomic diffs
				isAtomicContainer := false
				if mode == 1 {
					for ol := range oa.Order {
						if lib.HasPrefixPath(ol, d) {
							isAtomicContainer = true
						}
					}
				}
				if !isAtomicContainer {
					r.Violate("delete-not-in-a", "path", fmt.Sprintf("delete for %s which is not a leaf set in a", d), w(map[string]interface{}{"delete": d, "notifications": notifStrings(ns)}))
				}
				continue
			}
			if _, inB := ib[d]; inB {
				_ = pa
				r.Violate("delete-of-leaf-in-b", leafFeatOf(oa.Leaves[pa]), fmt.Sprintf("delete for %s which is set in b", d), w(map[string]interface{}{"delete": d, "notifications": notifStrings(ns)}))
			}
		}
		// (1) apply to a regenerated copy of a
		ac := freshA()
		if r.Guard("UnmarshalNotifications", w(map[string]interface{}{"notifications": notifStrings(ns)}), func() { err = ytypes.UnmarshalNotifications(cfg.SchemaWith(ac), ns) }) {
			continue
		}
		if err != nil {
			r.ViolateErr("apply-error", err, w(map[string]interface{}{"notifications": notifStrings(ns)}))
			continue
		}
		ds := lib.DiffObs(ob, cfg.Observe(ac), lib.DiffOpts{IgnoreOrder: mode == 0})
		bad := 0
		for _, d := range ds {
			if d.What == "entry" || d.What == "presence" {
				continue
			}
			bad++
			r.Violate("applied-differs", c03Feat(both, d), d.String(), w(map[string]interface{}{"delta": d.String(), "notifications": notifStrings(ns)}))
		}
		if bad == 0 {
			r.Hit("applied-ok")
		}
	}
	// (3) Diff(a,a) is empty
	var n *gpb.Notification
	var err error
	if !r.Guard("Diff", w(map[string]interface{}{}), func() { n, err = ygot.Diff(a, freshA()) }) {
		if err != nil {
			r.ViolateErr("diff-aa-error", err, w(map[string]interface{}{}))
		} else if len(n.GetUpdate())+len(n.GetDelete()) > 0 {
			r.Violate("diff-aa-nonempty", "updates-or-deletes", "Diff(a, a) is not empty: "+lib.Clip(n.String(), 400), w(map[string]interface{}{"notification": lib.Clip(n.String(), 2000)}))
		} else {
			r.Hit("diff-aa-empty")
		}
	}
	// (4) IgnoreAdditions: updates minus leaves new in b; deletes unchanged
	var full, ign *gpb.Notification
	if !r.Guard("Diff+IgnoreAdditions", w(map[string]interface{}{}), func() {
		full, err = ygot.Diff(a, b)
		if err == nil {
			ign, err = ygot.Diff(a, b, &ygot.IgnoreAdditions{})
		}
	}) && err == nil {
		fu, fd, _, e1 := c03Flatten(cfg, []*gpb.Notification{full}, ia, ib)
		iu, id, _, e2 := c03Flatten(cfg, []*gpb.Notification{ign}, ia, ib)
		if e1 == nil && e2 == nil {
			want := map[string]bool{}
			for _, u := range fu {
				if _, inA := ia[u.path]; inA {
					want[u.path] = true
				}
			}
			got := map[string]bool{}
			for _, u := range iu {
				got[u.path] = true
			}
			for p := range want {
				if !got[p] {
					r.Violate("ignore-additions", "drops-changed-leaf:"+leafFeatOf(ob.Leaves[ib[p]]), "IgnoreAdditions omitted changed leaf "+p, w(map[string]interface{}{"path": p}))
				}
			}
			for p := range got {
				if !want[p] {
					r.Violate("ignore-additions", "keeps-new-leaf", "IgnoreAdditions kept leaf new in b "+p, w(map[string]interface{}{"path": p}))
				}
			}
			if strings.Join(sortedCopy(fd), "\n") != strings.Join(sortedCopy(id), "\n") {
				r.Violate("ignore-additions", "deletes-differ", "IgnoreAdditions changed the deletes", w(map[string]interface{}{"full": fd, "ignore": id}))
			}
			r.Hit("ignore-additions")
		}
	}
	// MapToSinglePath keeps (1) on compressed configurations
	if cfg.Compressed {
		var ns *gpb.Notification
		if !r.Guard("Diff+MapToSinglePath", w(map[string]interface{}{}), func() { ns, err = ygot.Diff(a, b, &ygot.DiffPathOpt{MapToSinglePath: true}) }) && err == nil {
			ac := freshA()
			if !r.Guard("UnmarshalNotifications", w(map[string]interface{}{}), func() {
				err = ytypes.UnmarshalNotifications(cfg.SchemaWith(ac), []*gpb.Notification{ns})
			}) {
				if err != nil {
					r.ViolateErr("apply-error", err, w(map[string]interface{}{"notification": lib.Clip(ns.String(), 2000)}))
				} else {
					for _, d := range lib.DiffObs(ob, cfg.Observe(ac), lib.DiffOpts{IgnoreOrder: true}) {
						if d.What == "entry" || d.What == "presence" {
							continue
						}
						r.Violate("applied-differs", c03Feat(both, d), d.String(), w(map[string]interface{}{"delta": d.String()}))
					}
					r.Hit("single-path")
				}
			}
		}
	}
}

func leafFeatOf(l *lib.Leaf) string {
	if l == nil {
		return "?"
	}
	if zeroVal(l.Val) {
		return l.Feature() + "+zero-value"
	}
	return l.Feature()
}

// zeroVal reports whether a canonical scalar is the Go zero value of its kind.
func zeroVal(v string) bool {
	i := strings.Index(v, ":")
	if i < 0 {
		return false
	}
	switch v[i+1:] {
	case "0", "", "false":
		return v[:i] != "enum" && v[:i] != "empty"
	}
	return false
}

func sortedCopy(s []string) []string {
	out := append([]string(nil), s...)
	for i := 1; i < len(out); i++ {
		for j := i; j > 0 && out[j] < out[j-1]; j-- {
			out[j], out[j-1] = out[j-1], out[j]
		}
	}
	return out
}
