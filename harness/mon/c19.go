package mon

import (
	"bytes"
	"encoding/base64"
	"encoding/json"
	"fmt"
	"math/big"
	"regexp"
	"strconv"
	"strings"

	"github.com/openconfig/goyang/pkg/yang"
	"github.com/openconfig/ygot/ygot"
	"github.com/openconfig/ygot/zzverif/lib"
)

func init() { Monitors["C19"] = runC19 }

var (
	intRe = regexp.MustCompile(`^(0|-?[1-9][0-9]*)$`)
	decRe = regexp.MustCompile(`^-?[0-9]+(\.[0-9]+)?$`)
)

type c19Mode struct {
	name string
	cfg  *ygot.RFC7951JSONConfig
}

func c19Modes(cfg *lib.Cfg, g *lib.Goyang) []c19Mode {
	// every other module is rewritten into the first module that has data nodes,
	// so that augmented nodes must lose their prefix
	rw := map[string]string{}
	main := ""
	for _, n := range g.Names {
		if len(g.Tops[n].Dir) > 0 && main == "" {
			main = n
		}
	}
	for _, n := range g.Names {
		if n != main && main != "" {
			rw[n] = main
		}
	}
	if len(rw) == 0 {
		for _, n := range g.Names {
			rw[n] = n + "-renamed"
		}
	}
	ms := []c19Mode{
		{"plain", &ygot.RFC7951JSONConfig{}},
		{"modname", &ygot.RFC7951JSONConfig{AppendModuleName: true}},
		{"idprefix", &ygot.RFC7951JSONConfig{PrependModuleNameIdentityref: true}},
		{"modname+rewrite", &ygot.RFC7951JSONConfig{AppendModuleName: true, RewriteModuleNames: rw}},
	}
	if cfg.Shadow {
		ms = append(ms, c19Mode{"modname+shadow", &ygot.RFC7951JSONConfig{AppendModuleName: true, PreferShadowPath: true}})
	}
	return ms
}

func splitMember(n string) (prefix, name string) {
	if i := strings.Index(n, ":"); i >= 0 {
		return n[:i], n[i+1:]
	}
	return "", n
}

// jsonChild finds member name (with or without module prefix) in an object.
func jsonChild(obj map[string]interface{}, name string) (interface{}, string, bool) {
	for k, v := range obj {
		p, n := splitMember(k)
		if n == name {
			return v, p, true
		}
	}
	return nil, "", false
}

func runC19(r *lib.Run) {
	r.Rule = "trees biased to numeric extremes rendered with EmitJSON/Marshal7951 under every RFC7951JSONConfig (module names, identityref prefixes, module rewriting, shadow paths); every observed leaf is located in the JSON (decoded with UseNumber) and its token kind and lexical form are checked against its YANG type as compiled by goyang directly; module prefixes of member names are checked against the instantiating modules; non-trivial = tree has >=3 leaves; distinct by cfg+mode+leaf set"
	n := r.N(300, 6000)
	for _, cfg := range cfgsFor(r, quick3) {
		gy, err := cfg.Goyang()
		if err != nil {
			r.Inconclusive("goyang compile failed for " + cfg.Name + ": " + err.Error())
			continue
		}
		modes := c19Modes(cfg, gy)
		for i := 0; i < n; i++ {
			if skip(cfg, i) {
				continue
			}
			opt := lib.DefaultGen()
			opt.OrderedSiblings = true
			opt.Unkeyed = i%4 == 0
			t := lib.NewGen(cfg, r.Seed, i, opt).Tree()
			o := cfg.Observe(t)
			mode := modes[i%len(modes)]
			r.Hit("mode:" + mode.name)
			r.Case(cfg.Name+mode.name+caseKey(cfg, o), len(o.Leaves) >= 3)
			w := func(more map[string]interface{}) map[string]interface{} {
				more["mode"] = mode.name
				return wit(cfg, r.Seed, i, more)
			}
			var js []byte
			var err error
			if r.Guard("Marshal7951", w(map[string]interface{}{}), func() { js, err = ygot.Marshal7951(t, mode.cfg) }) {
				continue
			}
			if err != nil {
				r.ViolateErr("render-error", err, w(map[string]interface{}{}))
				continue
			}
			var doc map[string]interface{}
			dec := json.NewDecoder(bytes.NewReader(js))
			dec.UseNumber()
			if err := dec.Decode(&doc); err != nil {
				r.Violate("invalid-json", "decode", err.Error(), w(map[string]interface{}{"json": lib.Clip(string(js), 2000)}))
				continue
			}
			if i < 2 {
				r.Sample(map[string]interface{}{"cfg": cfg.Name, "mode": mode.name, "json": lib.Clip(string(js), 500)})
			}
			for _, p := range o.SortedLeafPaths() {
				c19Leaf(r, cfg, gy, mode, o.Leaves[p], doc, w)
			}
		}
	}
	r.RequireCov("mode:plain", "mode:modname", "mode:idprefix", "checked:int64", "checked:float64", "checked:uint32", "checked:bin", "checked:enum", "checked:empty", "checked:bool", "prefix-present", "prefix-absent")
}

// c19Leaf locates one leaf in the JSON and checks member-name prefixes on the
// way and the value encoding at the end.
func c19Leaf(r *lib.Run, cfg *lib.Cfg, gy *lib.Goyang, mode c19Mode, l *lib.Leaf, doc map[string]interface{}, w func(map[string]interface{}) map[string]interface{}) {
	elems := l.Elems
	if mode.cfg.PreferShadowPath && l.Field != nil && len(l.Field.Shadow) > 0 {
		base := elems[:len(elems)-len(l.Field.Path)]
		elems = append(append([]lib.PathElem(nil), base...), pathElems(l.Field.Shadow[0])...)
	}
	var cur interface{} = doc
	var names []string
	parentMod := ""
	for i, e := range elems {
		obj, ok := cur.(map[string]interface{})
		if !ok {
			r.Violate("structure", "object-expected", fmt.Sprintf("%s: JSON object expected at %s", l.Path, strings.Join(names, "/")), w(map[string]interface{}{"leaf": l.Path}))
			return
		}
		names = append(names, e.Name)
		v, pfx, found := jsonChild(obj, e.Name)
		if !found {
			r.Violate("leaf-missing-in-json", lib.LeafFeat(l), fmt.Sprintf("%s not found in the rendered JSON (member %s)", l.Path, e.Name), w(map[string]interface{}{"leaf": l.Path}))
			return
		}
		ge := gy.Find(names)
		if ge == nil {
			r.Inconclusive("goyang has no node for " + strings.Join(names, "/"))
			return
		}
		mod := lib.InstModule(ge)
		// member-name prefix rule
		if rn, ok := mode.cfg.RewriteModuleNames[mod]; ok {
			mod = rn // entries of module A are assumed to be in module B before the comparison
		}
		wantPfx := ""
		if mode.cfg.AppendModuleName && mod != parentMod {
			wantPfx = mod
		}
		if pfx != wantPfx {
			kind := "missing"
			if wantPfx == "" {
				kind = "unexpected"
			} else if pfx != "" {
				kind = "wrong-module"
			}
			lvl := "nested"
			if i == 0 {
				lvl = "top-level"
			}
			r.Violate("member-prefix", kind+":"+lvl+":"+mode.name, fmt.Sprintf("%s: member %q has prefix %q, expected %q (module %s, parent module %s)", l.Path, e.Name, pfx, wantPfx, mod, parentMod), w(map[string]interface{}{"leaf": l.Path}))
		} else if pfx != "" {
			r.Hit("prefix-present")
		} else {
			r.Hit("prefix-absent")
		}
		parentMod = mod
		cur = v
		// list entries
		if len(e.Keys) > 0 || e.Pos >= 0 {
			arr, ok := cur.([]interface{})
			if !ok {
				r.Violate("structure", "array-expected", fmt.Sprintf("%s: list %s is not a JSON array", l.Path, e.Name), w(map[string]interface{}{"leaf": l.Path}))
				return
			}
			if e.Pos >= 0 {
				if e.Pos >= len(arr) {
					return
				}
				cur = arr[e.Pos]
				continue
			}
			var hit interface{}
			for _, it := range arr {
				m, ok := it.(map[string]interface{})
				if !ok {
					continue
				}
				if c19EntryMatches(cfg, l.Elems[:i+1], m) {
					hit = m
					break
				}
			}
			if hit == nil {
				// key rendering problems are reported through the key leaf itself
				return
			}
			cur = hit
		}
	}
	ge := gy.Find(names)
	yt := resolveGoyangType(ge)
	c19Value(r, mode, l, cur, yt, w)
}

// c19EntryMatches: do the key leaves of JSON object m denote the keys of the entry?
func c19EntryMatches(cfg *lib.Cfg, elems []lib.PathElem, m map[string]interface{}) bool {
	for _, kl := range cfg.KeyLeaves(elems) {
		if len(kl.Elems) <= len(elems) || lib.PathString(kl.Elems[:len(elems)]) != lib.PathString(elems) {
			continue // key leaf of an ancestor entry
		}
		rel := kl.Elems[len(elems):]
		var cur interface{} = m
		for _, e := range rel {
			obj, ok := cur.(map[string]interface{})
			if !ok {
				return false
			}
			v, _, found := jsonChild(obj, e.Name)
			if !found {
				return false
			}
			cur = v
		}
		if !c19Denotes(cur, kl.Val) {
			return false
		}
	}
	return true
}

// c19Denotes: lenient semantic comparison used only to find a list entry.
func c19Denotes(v interface{}, canon string) bool {
	kind := canon[:strings.Index(canon, ":")]
	pl := canon[len(kind)+1:]
	var s string
	switch x := v.(type) {
	case json.Number:
		s = x.String()
	case string:
		s = x
	case bool:
		s = strconv.FormatBool(x)
	default:
		return false
	}
	switch kind {
	case "float64":
		a, e1 := strconv.ParseFloat(s, 64)
		b, e2 := strconv.ParseFloat(pl, 64)
		return e1 == nil && e2 == nil && a == b
	case "enum":
		_, n := splitMember(s)
		return n == pl
	case "bin":
		b, err := base64.StdEncoding.DecodeString(s)
		return err == nil && fmt.Sprintf("%x", b) == pl
	}
	return s == pl
}

func resolveGoyangType(e *yang.Entry) *yang.YangType {
	if e == nil || e.Type == nil {
		return nil
	}
	t, _, err := lib.ResolveType(e)
	if err != nil {
		return e.Type
	}
	return t
}

// c19Value checks the token kind and lexical form of one leaf value.
func c19Value(r *lib.Run, mode c19Mode, l *lib.Leaf, v interface{}, yt *yang.YangType, w func(map[string]interface{}) map[string]interface{}) {
	vals := []string{l.Val}
	items := []interface{}{v}
	if l.IsList {
		arr, ok := v.([]interface{})
		if !ok {
			r.Violate("encoding", "leaf-list-not-array", fmt.Sprintf("%s: leaf-list rendered as %T", l.Path, v), w(map[string]interface{}{"leaf": l.Path}))
			return
		}
		vals = lib.LeafListElems(l.Val)
		items = arr
		if len(vals) != len(items) {
			r.Violate("encoding", "leaf-list-length", fmt.Sprintf("%s: %d elements rendered for %d values", l.Path, len(items), len(vals)), w(map[string]interface{}{"leaf": l.Path}))
			return
		}
	}
	for i, canon := range vals {
		kind := canon[:strings.Index(canon, ":")]
		pl := canon[len(kind)+1:]
		it := items[i]
		bad := func(feat, why string) {
			r.Violate("encoding", kind+":"+feat, fmt.Sprintf("%s = %s rendered as %s: %s", l.Path, canon, jsonStr(it), why), w(map[string]interface{}{"leaf": l.Path, "value": canon, "rendered": it}))
		}
		r.Hit("checked:" + kind)
		switch kind {
		case "int8", "int16", "int32", "uint8", "uint16", "uint32":
			num, ok := it.(json.Number)
			if !ok {
				bad("not-a-json-number", "8/16/32-bit integers are JSON numbers")
				continue
			}
			if !intRe.MatchString(num.String()) || num.String() != pl {
				bad("number-form", "expected "+pl)
			}
		case "int64", "uint64":
			s, ok := it.(string)
			if !ok {
				bad("not-a-json-string", "64-bit integers are JSON strings")
				continue
			}
			if !intRe.MatchString(s) || s != pl {
				bad("lexical-form", "expected \""+pl+"\"")
			}
		case "float64":
			s, ok := it.(string)
			if !ok {
				bad("not-a-json-string", "decimal64 is a JSON string")
				continue
			}
			if !decRe.MatchString(s) {
				bad("lexical-form:exponent-or-malformed", "decimal64 lexical form is digits with an optional fraction, no exponent")
				continue
			}
			want, _ := new(big.Rat).SetString(strconv.FormatFloat(mustFloat(pl), 'f', -1, 64))
			got, ok2 := new(big.Rat).SetString(s)
			if !ok2 || want == nil || got.Cmp(want) != 0 {
				bad("value-differs", "denotes a different number")
			}
		case "string":
			if s, ok := it.(string); !ok || s != pl {
				bad("string", "expected the string itself")
			}
		case "bool":
			if b, ok := it.(bool); !ok || strconv.FormatBool(b) != pl {
				bad("not-a-json-boolean", "booleans are JSON true/false")
			}
		case "empty":
			arr, ok := it.([]interface{})
			if !ok || len(arr) != 1 || arr[0] != nil {
				bad("not-[null]", "empty is [null]")
			}
		case "bin":
			s, ok := it.(string)
			if !ok {
				bad("not-a-json-string", "binary is a base64 string")
				continue
			}
			b, err := base64.StdEncoding.DecodeString(s)
			if err != nil || fmt.Sprintf("%x", b) != pl {
				bad("base64", "not the padded standard base64 of the value")
			}
		case "enum":
			s, ok := it.(string)
			if !ok {
				bad("not-a-json-string", "enumerations and identityrefs are rendered by name")
				continue
			}
			pfx, name := splitMember(s)
			if s == pl {
				pfx, name = "", s // an enum name may itself contain ':'
			}
			if name != pl {
				bad("name", "expected name "+pl)
				continue
			}
			// is the value an identityref (possibly a union member)?
			idMod := ""
			if yt != nil {
				for _, m := range lib.FlattenUnion(yt) {
					if m.Kind == yang.Yidentityref {
						if im := lib.IdentityModuleByName(m, pl); im != "" {
							idMod = im
						}
					}
				}
			}
			wantPfx := ""
			if idMod != "" && (mode.cfg.AppendModuleName || mode.cfg.PrependModuleNameIdentityref) {
				wantPfx = idMod // RewriteModuleNames is documented for schema entries only: identity values keep their module
			}
			if pfx != wantPfx {
				what := "identityref"
				if idMod == "" {
					what = "enumeration"
				}
				bad(what+"-module-prefix:"+mode.name, fmt.Sprintf("prefix %q, expected %q", pfx, wantPfx))
			} else if wantPfx != "" {
				r.Hit("identityref-prefixed")
			}
		}
	}
}

func mustFloat(s string) float64 {
	f, _ := strconv.ParseFloat(s, 64)
	return f
}
