package mon

import (
	"fmt"
	"math/rand"
	"sort"
	"strings"

	gpb "github.com/openconfig/gnmi/proto/gnmi"
	"github.com/openconfig/ygot/ygot"
	"github.com/openconfig/ygot/zzverif/lib"
)

// Shared SetRequest / Notification builders for the gnmidiff monitors and C11.
// Everything is built from the leaf-set observation with the harness encoders.

// leafUpdates renders one scalar update per leaf below prefix (relative paths).
func leafUpdates(o *lib.Obs, prefix []lib.PathElem, skip64 bool) []*gpb.Update {
	return leafUpdatesK(o, prefix, skip64, false)
}

// has64Key: some list key on the path is a 64-bit number or a decimal.
func has64Key(elems []lib.PathElem) bool {
	for _, e := range elems {
		for _, kv := range e.Keys {
			if strings.HasPrefix(kv, "int64:") || strings.HasPrefix(kv, "uint64:") || strings.HasPrefix(kv, "float64:") {
				return true
			}
		}
	}
	return false
}

// leafUpdatesK: scopeKey also emits the key leaf of the scope entry itself.
func leafUpdatesK(o *lib.Obs, prefix []lib.PathElem, skip64, scopeKey bool) []*gpb.Update {
	var out []*gpb.Update
	pre := lib.PathString(prefix)
	for _, p := range o.SortedLeafPaths() {
		l := o.Leaves[p]
		if !lib.HasPrefixPath(p, pre) || strings.Contains(p, "[#") {
			continue
		}
		tv, err := lib.LeafTV(l)
		if err != nil {
			continue
		}
		if skip64 && (has64Key(l.Elems) || strings.HasPrefix(l.Val, "int64:") || strings.HasPrefix(l.Val, "uint64:") || strings.Contains(l.Val, `"int64:`) || strings.Contains(l.Val, `"uint64:`) || strings.Contains(l.Val, "float64:")) {
			continue
		}
		out = append(out, &gpb.Update{Path: lib.ToGNMIPath(l.Elems[len(prefix):]), Val: tv})
	}
	// OpenConfig-style lists: the key leaf directly under the entry (a leafref to
	// config/<key>) is part of what a client sends; compressed structs fold it
	// into the config leaf, so it is added here from the entry keys.
	seen := map[string]bool{}
	for _, u := range out {
		seen[lib.GNMIPathString(u.Path)] = true
	}
	for _, p := range o.SortedLeafPaths() {
		l := o.Leaves[p]
		if !lib.HasPrefixPath(p, pre) || strings.Contains(p, "[#") || (skip64 && has64Key(l.Elems)) {
			continue
		}
		first := len(prefix)
		if scopeKey && first > 0 {
			first--
		}
		for i := first; i < len(l.Elems); i++ {
			for kn, kv := range l.Elems[i].Keys {
				kp := append(append([]lib.PathElem(nil), l.Elems[:i+1]...), lib.PathElem{Name: kn, Pos: -1})
				if _, isLeaf := o.Leaves[lib.PathString(kp)]; isLeaf {
					continue
				}
				if skip64 && (strings.HasPrefix(kv, "int64:") || strings.HasPrefix(kv, "uint64:") || strings.HasPrefix(kv, "float64:")) {
					continue
				}
				gp := lib.ToGNMIPath(kp[len(prefix):])
				if seen[lib.GNMIPathString(gp)] {
					continue
				}
				seen[lib.GNMIPathString(gp)] = true
				if tv, err := lib.ScalarTV(kv); err == nil {
					out = append(out, &gpb.Update{Path: gp, Val: tv})
				}
			}
		}
	}
	return out
}

// jsonUpdate renders the subtree at elems as one JSON-IETF update (path relative to prefix).
func jsonUpdate(o *lib.Obs, prefix, elems []lib.PathElem) (*gpb.Update, error) {
	obj, err := o.SubtreeJSON(elems)
	if err != nil {
		return nil, err
	}
	if len(obj) == 0 {
		return nil, fmt.Errorf("empty subtree")
	}
	// a payload for a list entry carries the entry's own key leaves, as a client would send it
	if n := len(elems); n > 0 {
		for kn, kv := range elems[n-1].Keys {
			if _, ok := obj[kn]; !ok {
				if jv, err := lib.ScalarJSON(kv); err == nil {
					obj[kn] = jv
				}
			}
		}
	}
	tv, err := lib.JSONIETF(obj)
	if err != nil {
		return nil, err
	}
	return &gpb.Update{Path: lib.ToGNMIPath(elems[len(prefix):]), Val: tv}, nil
}

// topNodes lists the struct nodes (containers and list entries) of a tree that
// hold at least one leaf, in deterministic order.
func dataNodes(cfg *lib.Cfg, t ygot.GoStruct) []*lib.Node {
	var out []*lib.Node
	o := cfg.Observe(t)
	for _, n := range cfg.Nodes(t)[1:] {
		if n.Keyless {
			continue
		}
		ps := lib.PathString(n.Path)
		has := false
		for p := range o.Leaves {
			if strings.HasPrefix(p, ps+"/") {
				has = true
				break
			}
		}
		if has {
			out = append(out, n)
		}
	}
	return out
}

// pathKey renders a (prefix+path) canonically for comparing gnmidiff map keys.
func canonDiffKey(cfg *lib.Cfg, s string) string {
	p, err := ygot.StringToStructuredPath(s)
	if err != nil {
		return "unparseable:" + s
	}
	cs, err := cfg.CanonGNMIPath(p)
	if err != nil {
		return "noncanonical:" + s
	}
	return lib.PathString(cs)
}

func sortedKeys(m map[string]interface{}) []string {
	out := make([]string, 0, len(m))
	for k := range m {
		out = append(out, k)
	}
	sort.Strings(out)
	return out
}

func sortedSet(m map[string]struct{}) []string {
	out := make([]string, 0, len(m))
	for k := range m {
		out = append(out, k)
	}
	sort.Strings(out)
	return out
}

// shuffleUpdates returns a permuted copy.
func shuffleUpdates(u []*gpb.Update, rng *rand.Rand) []*gpb.Update {
	out := append([]*gpb.Update(nil), u...)
	rng.Shuffle(len(out), func(i, j int) { out[i], out[j] = out[j], out[i] })
	return out
}
