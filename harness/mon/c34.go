package mon

import (
	"fmt"
	"math/rand"
	"reflect"
	"strings"

	"github.com/openconfig/ygot/zzverif/lib"
)

// klOp is one operation of the keyed-list helper histories.
type klOp struct {
	name string // New, GetOrCreate, Get, Append, AppendNilKey, Delete, Rename
	a, b int    // key tuples
}

func (o klOp) String(s *listSite) string {
	if o.name == "Rename" {
		return fmt.Sprintf("Rename(%s -> %s)", s.tuples[o.a].id, s.tuples[o.b].id)
	}
	return fmt.Sprintf("%s(%s)", o.name, s.tuples[o.a].id)
}

func c34Ops(s *listSite) []klOp {
	var ops []klOp
	for a := range s.tuples {
		ops = append(ops, klOp{"New", a, 0}, klOp{"GetOrCreate", a, 0}, klOp{"Get", a, 0}, klOp{"Append", a, 0}, klOp{"Delete", a, 0})
		for b := range s.tuples {
			if a != b {
				ops = append(ops, klOp{"Rename", a, b})
			}
		}
	}
	ops = append(ops, klOp{"AppendNilKey", 0, 0})
	return ops
}

// renameArgs builds the (old, new) arguments of Rename<L>: plain key values for
// single-key lists, key structs for multi-key lists.
func (s *listSite) renameArg(mapKeyT reflect.Type, t keyTuple) reflect.Value {
	if len(s.kfs) == 1 {
		v := t.params[0]
		if v.Type() != mapKeyT && v.Type().ConvertibleTo(mapKeyT) {
			return v.Convert(mapKeyT)
		}
		return v
	}
	k := reflect.New(mapKeyT).Elem()
	for i, kf := range s.kfs {
		k.FieldByName(kf.GoName).Set(t.params[i])
	}
	return k
}

func c34Run(r *lib.Run, cfg *lib.Cfg, s *listSite, hist []klOp, w func(map[string]interface{}) map[string]interface{}) bool {
	pv := s.node.V
	fv := pv.Elem().Field(s.f.Idx)
	fv.Set(reflect.Zero(fv.Type()))
	model := map[string]reflect.Value{}
	var trace []string
	multi := "single-key"
	if len(s.kfs) > 1 {
		multi = "multi-key"
	}
	keyKind := lib.TypeFeature(s.kfs[0])
	fail := func(clause, op, detail string) bool {
		r.Violate(clause, op+":"+multi+":"+keyKind, detail, w(map[string]interface{}{"list": s.node.Info.Type.Name() + "." + s.lname, "trace": trace}))
		return false
	}
	has := func(m string) bool { return pv.MethodByName(m + s.lname).IsValid() }
	for _, op := range hist {
		trace = append(trace, op.String(s))
		t := s.tuples[op.a]
		_, inModel := model[t.id]
		switch op.name {
		case "New":
			if !has("New") {
				continue
			}
			out := pv.MethodByName("New" + s.lname).Call(t.params)
			err := errOf(out[1])
			if inModel {
				if err == nil {
					return fail("duplicate-accepted", "New", "New accepted duplicate key "+t.id)
				}
			} else {
				if err != nil {
					return fail("spurious-error", "New", "New failed: "+err.Error())
				}
				model[t.id] = out[0]
			}
		case "GetOrCreate":
			if !has("GetOrCreate") {
				continue
			}
			o1 := pv.MethodByName("GetOrCreate" + s.lname).Call(t.params)[0]
			o2 := pv.MethodByName("GetOrCreate" + s.lname).Call(t.params)[0]
			if o1.IsNil() || o1.Pointer() != o2.Pointer() {
				return fail("getorcreate-not-idempotent", "GetOrCreate", "two GetOrCreate calls returned different entries for "+t.id)
			}
			if inModel && o1.Pointer() != model[t.id].Pointer() {
				return fail("getorcreate-replaced-entry", "GetOrCreate", "GetOrCreate returned a new entry for existing key "+t.id)
			}
			model[t.id] = o1
		case "Get":
			if !has("Get") {
				continue
			}
			out := pv.MethodByName("Get" + s.lname).Call(t.params)[0]
			if inModel {
				if out.IsNil() || out.Pointer() != model[t.id].Pointer() {
					return fail("get-result", "Get", "Get did not return the entry of "+t.id)
				}
			} else if !out.IsNil() {
				return fail("get-result", "Get", "Get returned an entry for absent key "+t.id)
			}
		case "Append", "AppendNilKey":
			if !has("Append") {
				continue
			}
			e := s.newElem(t)
			if op.name == "AppendNilKey" {
				kfv := e.Elem().Field(s.kfs[len(s.kfs)-1].Idx)
				if kfv.Kind() != reflect.Ptr && kfv.Kind() != reflect.Interface {
					continue // enum key left at UNSET: don't-care
				}
				kfv.Set(reflect.Zero(kfv.Type()))
			}
			out := pv.MethodByName("Append" + s.lname).Call([]reflect.Value{e})
			err := errOf(out[0])
			switch {
			case op.name == "AppendNilKey":
				if err == nil {
					kk := "pointer"
					if e.Elem().Field(s.kfs[len(s.kfs)-1].Idx).Kind() == reflect.Interface {
						kk = "union"
					}
					// undo for the rest of the history: remove whatever was inserted
					return fail("nil-key-accepted", "Append:"+kk, "Append accepted an entry whose key leaf is nil")
				}
			case inModel:
				if err == nil {
					return fail("duplicate-accepted", "Append", "Append accepted duplicate key "+t.id)
				}
			default:
				if err != nil {
					return fail("spurious-error", "Append", "Append failed: "+err.Error())
				}
				model[t.id] = e
			}
		case "Delete":
			if !has("Delete") {
				continue
			}
			pv.MethodByName("Delete" + s.lname).Call(t.params)
			delete(model, t.id)
		case "Rename":
			if !has("Rename") {
				continue
			}
			nt := s.tuples[op.b]
			_, tgtExists := model[nt.id]
			kt := fv.Type().Key()
			out := pv.MethodByName("Rename" + s.lname).Call([]reflect.Value{s.renameArg(kt, t), s.renameArg(kt, nt)})
			err := errOf(out[0])
			switch {
			case !inModel || tgtExists:
				if err == nil {
					return fail("rename-should-fail", "Rename", fmt.Sprintf("Rename(%s->%s) succeeded (source present=%v, target present=%v)", t.id, nt.id, inModel, tgtExists))
				}
			default:
				if err != nil {
					return fail("spurious-error", "Rename", "Rename failed: "+err.Error())
				}
				model[nt.id] = model[t.id]
				delete(model, t.id)
			}
		}
		// state: map contents equal the model, entries' key leaves equal their map key
		n := 0
		if !fv.IsNil() {
			n = fv.Len()
		}
		if n != len(model) {
			return fail("state-size", op.name, fmt.Sprintf("map has %d entries, model %d", n, len(model)))
		}
		if fv.IsNil() {
			continue
		}
		for _, mk := range fv.MapKeys() {
			ent := fv.MapIndex(mk)
			if ent.IsNil() {
				return fail("state-nil-entry", op.name, "nil entry in map")
			}
			id := s.elemKeys(cfg, ent)
			me, ok := model[id]
			if !ok || me.Pointer() != ent.Pointer() {
				return fail("state-entry", op.name, "map holds an entry with key leaves "+id+" that the model does not have (or a different pointer)")
			}
			// map key equals key leaves
			want, ok2 := lib.MapKeyFor(fv.Type().Key(), ent, s.kfs)
			if !ok2 || fmt.Sprintf("%#v", want.Interface()) != fmt.Sprintf("%#v", mk.Interface()) {
				return fail("key-leaf-differs-from-map-key", op.name, fmt.Sprintf("entry with key leaves %s is stored under map key %v", id, mk.Interface()))
			}
			// ΛListKeyMap agrees
			km := ent.MethodByName("ΛListKeyMap")
			if km.IsValid() {
				res := km.Call(nil)
				if errOf(res[1]) != nil {
					return fail("listkeymap-error", op.name, errOf(res[1]).Error())
				}
				if res[0].Len() != len(s.kfs) {
					return fail("listkeymap-size", op.name, "ΛListKeyMap has wrong number of keys")
				}
			}
		}
	}
	return true
}

// addUnionStringTwins adds, for a single-key list keyed by a union with a string
// member, the key UnionString("<v>") next to a key of another member whose text
// is <v>: two different keys of a keyed map although their path strings coincide.
func addUnionStringTwins(cfg *lib.Cfg, s *listSite, r *lib.Run) {
	if len(s.kfs) != 1 {
		return
	}
	kt := s.f.Elem.Elem().Field(s.kfs[0].Idx).Type
	if kt.Kind() != reflect.Interface {
		return
	}
	for _, t := range s.tuples {
		cv, _ := lib.CanonScalar(t.params[0], true)
		if strings.HasPrefix(cv, "string:") {
			continue
		}
		ent := reflect.New(s.f.Elem.Elem())
		conv := lib.FindUnionConv(ent.Elem(), kt)
		if !conv.IsValid() {
			return
		}
		out := conv.Call([]reflect.Value{reflect.ValueOf(lib.LexForm(cv))})
		if len(out) != 2 || !out[1].IsNil() {
			continue // no string member (or the text is taken by another member)
		}
		ent.Elem().Field(s.kfs[0].Idx).Set(out[0])
		tw := keyTuple{params: []reflect.Value{ent.Elem().Field(s.kfs[0].Idx)}, keys: cfg.EntryKeys(ent)}
		tw.id = lib.PathElem{Name: "e", Keys: tw.keys, Pos: -1}.String()
		dup := false
		for _, x := range s.tuples {
			if x.id == tw.id {
				dup = true
			}
		}
		if dup || !strings.Contains(tw.id, "string:") {
			continue
		}
		s.tuples = append(s.tuples, tw)
		r.Hit("union-key-string-twin")
		return
	}
}

func runC34(r *lib.Run) {
	r.Rule = "every keyed list of every configuration (all key types, single and multi key), generated New/GetOrCreate/Get/Append/Delete/Rename helpers called by name through reflection; exhaustive histories up to length L over a 3-key domain plus random length-30 histories; model = map key tuple -> entry; non-trivial = history changes the map; distinct by list+history"
	r.Assume("an enum key left at its UNSET zero value is don't-care for the nil-key clause")
	depth := 3
	nrand := 300
	if !r.Quick() {
		depth = 4
		nrand = 20000
	}
	for _, cfg := range cfgsFor(r, quick3) {
		sites := findListSites(cfg, r.Seed, lib.KList, 3)
		for _, s := range sites {
			addUnionStringTwins(cfg, s, r)
			r.Hit("list:" + cfg.Name + ":" + s.node.Info.Type.Name() + "." + s.lname)
			r.Hit("keytype:" + lib.TypeFeature(s.kfs[0]))
			if len(s.kfs) > 1 {
				r.Hit("multi-key")
			}
			ops := c34Ops(s)
			w := func(more map[string]interface{}) map[string]interface{} {
				return wit(cfg, r.Seed, 0, more)
			}
			bad := 0
			var rec func(h []klOp)
			rec = func(h []klOp) {
				if bad > 3 {
					return
				}
				if len(h) > 0 {
					mut := false
					for _, o := range h {
						if o.name != "Get" {
							mut = true
						}
					}
					r.Case(fmt.Sprintf("%s %s %v", cfg.Name, s.lname, h), mut)
					if !c34Run(r, cfg, s, h, w) {
						bad++
					}
				}
				if len(h) == depth {
					return
				}
				for _, o := range ops {
					rec(append(h[:len(h):len(h)], o))
				}
			}
			rec(nil)
			rng := rand.New(rand.NewSource(r.Seed*19 + int64(len(s.lname))))
			for k := 0; k < nrand/len(sites)+1; k++ {
				var h []klOp
				for j := 0; j < 30; j++ {
					h = append(h, ops[rng.Intn(len(ops))])
				}
				r.Case(fmt.Sprintf("%s %s rnd %d", cfg.Name, s.lname, k), true)
				c34Run(r, cfg, s, h, w)
				r.Hit("random-history")
			}
		}
		if len(sites) == 0 {
			r.Inconclusive("no keyed list found in " + cfg.Name)
		}
	}
	r.Extra("exhaustive_depth", depth)
	r.Exhaustive = true
	r.RequireCov("random-history", "multi-key", "keytype:string", "keytype:int64", "keytype:enumeration", "keytype:union", "keytype:decimal64", "keytype:boolean", "keytype:identityref")
}
