package mon

import (
	"sort"
	"strings"

	"github.com/openconfig/ygot/ygot"
	"github.com/openconfig/ygot/zzverif/lib"
)

func init() { Monitors["C04"] = runC04 }

func c04Opts(i int) lib.GenOpts {
	opt := lib.DefaultGen()
	opt.Unkeyed = true
	opt.OrderedSiblings = true
	opt.EmptyLeafLists = i%4 == 0
	opt.Density = 0.7
	opt.ZeroLenBinary = true
	opt.EmptyLists = i%5 < 2
	return opt
}

// sharedClass reduces a shared-memory location to a class for signatures.
func sharedClass(loc string) string {
	// "slice .Scalars.LlBin[0] ([]uint8) == ..." -> kind + go type + context
	parts := strings.SplitN(loc, " == ", 2)
	f := strings.Fields(parts[0])
	kind := f[0]
	typ := ""
	if i := strings.LastIndex(parts[0], "("); i >= 0 {
		typ = strings.Trim(parts[0][i:], "()")
		if j := strings.LastIndex(typ, "."); j >= 0 { // drop the package name
			pre := ""
			for _, c := range typ[:j] {
				if c == '*' || c == '[' || c == ']' {
					pre += string(c)
				}
			}
			typ = pre + "pkg." + typ[j+1:]
		}
	}
	ctx := ""
	if strings.Contains(parts[0], "[") {
		ctx = ":in-slice"
	}
	if kind == "struct" {
		typ = "struct"
	}
	if kind == "map" {
		return "map" // one class for all keyed lists
	}
	if strings.Contains(loc, "{key}") {
		return "map-key-pointer"
	}
	return kind + ":" + typ + ctx
}

func runC04(r *lib.Run) {
	r.Rule = "tree from generator incl. unkeyed lists, ordered lists, binaries in unions and leaf-lists; DeepCopy, then structural disjointness of all reachable mutable memory plus in-place scribbling of one side; MergeStructs(a,b) against both inputs; non-trivial = tree has >=5 leaves; distinct by cfg+leaf set"
	n := r.N(300, 6000)
	for _, cfg := range cfgsFor(r, quick3) {
		for i := 0; i < n; i++ {
			if skip(cfg, i) {
				continue
			}
			g := lib.NewGen(cfg, r.Seed, i, c04Opts(i))
			s := g.Tree()
			o := cfg.Observe(s)
			r.Case(caseKey(cfg, o), len(o.Leaves) >= 5)
			for k := range g.Tags {
				r.Hit("tag:" + k)
			}
			w := func(more map[string]interface{}) map[string]interface{} {
				more["tree"] = o.Dump()
				return wit(cfg, r.Seed, i, more)
			}
			var cp ygot.GoStruct
			var err error
			if r.Guard("DeepCopy", w(map[string]interface{}{}), func() { cp, err = ygot.DeepCopy(s) }) {
				continue
			}
			if err != nil {
				r.ViolateErr("deepcopy-error", err, w(map[string]interface{}{}))
				continue
			}
			c04Independent(r, cfg, "DeepCopy", s, cp, true, w)
			if i < 2 {
				r.Sample(map[string]interface{}{"cfg": cfg.Name, "leaves": len(o.Leaves), "mem_cells": len(lib.Mem(s))})
			}
			// MergeStructs: result vs both inputs. The second tree is built from
			// parts of the first so that the merge succeeds often; both argument
			// orders and every merge option are used.
			mk := func() (ygot.GoStruct, ygot.GoStruct) {
				x := lib.NewGen(cfg, r.Seed, i, c04Opts(i)).Tree()
				y := cfg.NewRoot()
				if i%2 == 0 {
					y = c05Subset(cfg, r.Seed, i, c04Opts(i))
				}
				if i%4 >= 2 {
					return y, x
				}
				return x, y
			}
			var mopts []ygot.MergeOpt
			mname := "plain"
			switch i % 3 {
			case 1:
				mopts, mname = []ygot.MergeOpt{&ygot.MergeEmptyMaps{}}, "empty-maps"
			case 2:
				mopts, mname = []ygot.MergeOpt{&ygot.MergeOverwriteExistingFields{}, &ygot.MergeEmptyMaps{}}, "overwrite+empty-maps"
			}
			a, b := mk()
			var m ygot.GoStruct
			if r.Guard("MergeStructs", w(map[string]interface{}{"opts": mname}), func() { m, err = ygot.MergeStructs(a, b, mopts...) }) {
				continue
			}
			if err != nil {
				r.Hit("merge-error")
				continue
			}
			r.Hit("merge-ok")
			r.Hit("merge-opts:" + mname)
			c04Independent(r, cfg, "MergeStructs:a", a, m, false, w)
			// fresh result for the second input (the first check scribbled on it)
			a2, b2 := mk()
			var m2 ygot.GoStruct
			if r.Guard("MergeStructs", w(map[string]interface{}{"opts": mname}), func() { m2, err = ygot.MergeStructs(a2, b2, mopts...) }) || err != nil {
				continue
			}
			c04Independent(r, cfg, "MergeStructs:b", b2, m2, false, w)
		}
	}
	r.RequireCov("DeepCopy:disjoint", "DeepCopy:scribble-copy", "DeepCopy:scribble-orig", "merge-ok", "merge-opts:plain", "merge-opts:empty-maps", "merge-opts:overwrite+empty-maps", "tag:unkeyed", "tag:ordered-list", "tag:empty-list")
}

// c04Independent checks equality (if eq), structural disjointness and
// observational independence in both directions between orig and derived.
func c04Independent(r *lib.Run, cfg *lib.Cfg, what string, orig, derived ygot.GoStruct, eq bool, w func(map[string]interface{}) map[string]interface{}) {
	oo := cfg.Observe(orig)
	od := cfg.Observe(derived)
	if eq {
		for _, d := range lib.DiffObs(oo, od, lib.DiffOpts{Shape: false, EmptyLeafListIsAbsent: true}) {
			r.Violate("copy-differs:"+what, featOf(d), d.String(), w(map[string]interface{}{"delta": d.String()}))
		}
	}
	shared := lib.SharedMem(orig, derived)
	if len(shared) > 0 {
		sort.Strings(shared)
		classes := map[string]string{}
		for _, s := range shared {
			classes[sharedClass(s)] = s
		}
		for c, s := range classes {
			r.Violate("shared-memory:"+strings.SplitN(what, ":", 2)[0], c, what+": "+s, w(map[string]interface{}{"shared": shared}))
		}
	} else {
		r.Hit(what + ":disjoint")
	}
	// scribble on the derived tree, the original must not change
	n := lib.Scribble(derived)
	after := cfg.Observe(orig)
	bad := false
	for _, d := range lib.DiffObs(oo, after, lib.DiffOpts{Shape: true}) {
		bad = true
		r.Violate("mutation-leaks:"+strings.SplitN(what, ":", 2)[0], "derived->input:"+featOf(d), what+": mutating the result changed the input: "+d.String(), w(map[string]interface{}{"delta": d.String(), "writes": n}))
	}
	if !bad {
		r.Hit(what + ":scribble-copy")
	}
	// and the other direction on fresh state: scribble the original, compare derived against its own snapshot
	snap := cfg.Observe(derived)
	n2 := lib.Scribble(orig)
	after2 := cfg.Observe(derived)
	bad = false
	for _, d := range lib.DiffObs(snap, after2, lib.DiffOpts{Shape: true}) {
		bad = true
		r.Violate("mutation-leaks:"+strings.SplitN(what, ":", 2)[0], "input->derived:"+featOf(d), what+": mutating the input changed the result: "+d.String(), w(map[string]interface{}{"delta": d.String(), "writes": n2}))
	}
	if !bad {
		r.Hit(what + ":scribble-orig")
	}
	r.HitN("writes", n+n2)
}
