// Package mon holds the per-property runtime monitors.
package mon

import (
	"encoding/json"
	"fmt"
	"strings"

	"github.com/openconfig/ygot/ygot"
	"github.com/openconfig/ygot/zzverif/lib"
)

// Monitors maps a property id to its monitor.
var Monitors = map[string]func(*lib.Run){}

// ReplayFile, when set, restricts a run to the case stored in that file.
var ReplayFile string

// cfgsFor returns the configurations a tier uses.
func cfgsFor(r *lib.Run, quick []string) []*lib.Cfg {
	names := quick
	if !r.Quick() {
		names = lib.Names()
	}
	var out []*lib.Cfg
	for _, n := range names {
		out = append(out, lib.Get(n))
	}
	return out
}

var quick3 = []string{"vt/U-simple", "vt/U-wrapper", "vtoc/C-simple"}

// emit renders a tree as RFC7951 JSON without validation.
func emit(t ygot.GoStruct, cfg *ygot.RFC7951JSONConfig) (string, error) {
	return ygot.EmitJSON(t, &ygot.EmitJSONConfig{Format: ygot.RFC7951, SkipValidation: true, Indent: " ", RFC7951Config: cfg})
}

// featSet joins delta features into a signature component.
func featOf(d lib.Delta) string { return d.What + ":" + d.Feature }

func tagsOf(g *lib.Gen) string {
	var ks []string
	for k := range g.Tags {
		ks = append(ks, k)
	}
	return strings.Join(ks, ",")
}

func jsonStr(v interface{}) string {
	b, _ := json.Marshal(v)
	return string(b)
}

func caseKey(cfg *lib.Cfg, o *lib.Obs) string {
	return cfg.Name + "\n" + strings.Join(o.Dump(), "\n")
}

func wit(cfg *lib.Cfg, seed int64, idx int, more map[string]interface{}) map[string]interface{} {
	w := map[string]interface{}{"cfg": cfg.Name, "seed": seed, "index": idx}
	for k, v := range more {
		w[k] = v
	}
	return w
}

var _ = fmt.Sprintf
