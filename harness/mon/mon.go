// Package mon holds the per-property runtime monitors.
package mon

import (
	"encoding/json"
	"fmt"
	"os"
	"runtime/debug"
	"strconv"
	"strings"

	"github.com/openconfig/ygot/ygot"
	"github.com/openconfig/ygot/zzverif/lib"
)

// Monitors maps a property id to its monitor.
var Monitors = map[string]func(*lib.Run){}

// ReplayFile, when set, restricts a run to the case stored in that file.
var ReplayFile string

// cfgsFor returns the configurations a tier uses.
func cfgsFor(r *lib.Run, quick []string) []*lib.Cfg {
	names := quick
	if !r.Quick() {
		names = lib.Names()
	}
	var out []*lib.Cfg
	for _, n := range names {
		out = append(out, lib.Get(n))
	}
	return out
}

var quick3 = []string{"vt/U-simple", "vt/U-wrapper", "vtoc/C-simple"}

// emit renders a tree as RFC7951 JSON without validation.
func emit(t ygot.GoStruct, cfg *ygot.RFC7951JSONConfig) (string, error) {
	return ygot.EmitJSON(t, &ygot.EmitJSONConfig{Format: ygot.RFC7951, SkipValidation: true, Indent: " ", RFC7951Config: cfg})
}

// featSet joins delta features into a signature component.
func featOf(d lib.Delta) string { return d.What + ":" + d.Feature }

func tagsOf(g *lib.Gen) string {
	var ks []string
	for k := range g.Tags {
		ks = append(ks, k)
	}
	return strings.Join(ks, ",")
}

func jsonStr(v interface{}) string {
	b, _ := json.Marshal(v)
	return string(b)
}

func caseKey(cfg *lib.Cfg, o *lib.Obs) string {
	return cfg.Name + "\n" + strings.Join(o.Dump(), "\n")
}

func wit(cfg *lib.Cfg, seed int64, idx int, more map[string]interface{}) map[string]interface{} {
	w := map[string]interface{}{"cfg": cfg.Name, "seed": seed, "index": idx}
	for k, v := range more {
		w[k] = v
	}
	return w
}

var _ = fmt.Sprintf

type replaySel struct {
	Cfg   string
	Index int
	set   bool
}

var replay replaySel

// LoadReplay restricts the run to the (cfg, seed, index) stored in a replay file.
func LoadReplay(r *lib.Run) {
	if ReplayFile == "" {
		return
	}
	b, err := os.ReadFile(ReplayFile)
	if err != nil {
		fmt.Println("cannot read replay file:", err)
		return
	}
	var f struct {
		Seed    int64 `json:"seed"`
		Witness struct {
			Cfg   string `json:"cfg"`
			Index int    `json:"index"`
			Seed  int64  `json:"seed"`
		} `json:"witness"`
	}
	if err := json.Unmarshal(b, &f); err != nil {
		fmt.Println("cannot parse replay file:", err)
		return
	}
	if f.Witness.Cfg == "" {
		fmt.Println("replay file has no (cfg,index) witness; running the whole workload with its seed")
		r.Seed = f.Seed
		return
	}
	r.Seed = f.Witness.Seed
	replay = replaySel{Cfg: f.Witness.Cfg, Index: f.Witness.Index, set: true}
	os.Setenv("VERIF_NO_EVIDENCE", "1")
	fmt.Printf("replaying cfg=%s seed=%d index=%d\n", replay.Cfg, r.Seed, replay.Index)
}

// skip reports whether case (cfg, idx) is outside a replay selection.
func skip(cfg *lib.Cfg, idx int) bool {
	if v := os.Getenv("VERIF_ONLY_CFG"); v != "" && v != cfg.Name {
		return true
	}
	if v := os.Getenv("VERIF_MIN_INDEX"); v != "" {
		if n, _ := strconv.Atoi(v); idx < n {
			return true
		}
	}
	if v := os.Getenv("VERIF_MAX_INDEX"); v != "" {
		if n, _ := strconv.Atoi(v); idx > n {
			return true
		}
	}
	return replay.set && (cfg.Name != replay.Cfg || idx != replay.Index)
}

func stackString() string { return string(debug.Stack()) }
