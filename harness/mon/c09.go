package mon

import (
	"fmt"
	"math/rand"
	"runtime"
	"runtime/debug"
	"sort"
	"strconv"
	"strings"
	"sync"
	"sync/atomic"

	gpb "github.com/openconfig/gnmi/proto/gnmi"
	"github.com/openconfig/ygot/util"
	"github.com/openconfig/ygot/zzverif/lib"
	"google.golang.org/protobuf/proto"
)

// C09: gNMI path relations agree with path-set semantics.
//
// Oracle: every path element denotes a bit set over the key assignments
// {1,2,3}^keys of its list ('*' or a missing key = every value); a path denotes
// the subtrees below the product of its element sets.  The set relation of two
// paths is computed with bit operations on these sets.

func init() { Monitors["C09"] = runC09 }

type c09Name struct {
	name string
	keys []string
}

// The universe: list a has keys k,j; b has k; c is a container; d (three keys)
// is only used outside the exhaustive depth enumeration.
var c09Names = []c09Name{{"a", []string{"k", "j"}}, {"b", []string{"k"}}, {"c", nil}, {"d", []string{"k", "j", "i"}}}

// key value codes: 0 missing, 1 "*", 2 "1", 3 "" (the empty string is an ordinary
// definite value: it must not be confused with a missing key), 4 "3"
var c09ValStr = []string{"", "*", "1", "", "3"}

type c09SKey struct {
	k string
	v uint8
}

type c09Elem struct {
	ni       int // index into c09Names, -1 for the wildcard name "*"
	vals     []uint8
	skeys    []c09SKey // keys of a "*" element
	mask     uint32
	canon    string
	concrete bool
}

func c09NewElem(ni int, vals []uint8) *c09Elem {
	e := &c09Elem{ni: ni, vals: append([]uint8{}, vals...), concrete: true}
	nk := len(c09Names[ni].keys)
	n := 1
	for i := 0; i < nk; i++ {
		n *= 3
	}
	for as := 0; as < n; as++ {
		ok, x := true, as
		for k := 0; k < nk; k++ {
			d := x % 3
			x /= 3
			if v := e.vals[k]; v >= 2 && int(v-2) != d {
				ok = false
			}
		}
		if ok {
			e.mask |= 1 << uint(as)
		}
	}
	var parts []string
	for k, kn := range c09Names[ni].keys {
		if e.vals[k] < 2 {
			e.concrete = false
		}
		if e.vals[k] != 0 {
			parts = append(parts, kn+"="+c09ValStr[e.vals[k]])
		}
	}
	sort.Strings(parts)
	e.canon = c09Names[ni].name
	for _, p := range parts {
		e.canon += "[" + p + "]"
	}
	return e
}

func c09StarElem(sk []c09SKey) *c09Elem {
	e := &c09Elem{ni: -1, skeys: sk, canon: "*"}
	for _, s := range sk {
		e.canon += "[" + s.k + "=" + c09ValStr[s.v] + "]"
	}
	return e
}

// c09AllElems enumerates every element of a name with key values from
// {missing,*,1,2}.
func c09AllElems(ni int) []*c09Elem {
	nk := len(c09Names[ni].keys)
	n := 1
	for i := 0; i < nk; i++ {
		n *= 4
	}
	var out []*c09Elem
	for x := 0; x < n; x++ {
		vals := make([]uint8, nk)
		y := x
		for k := range vals {
			vals[k] = uint8(y % 4)
			y /= 4
		}
		out = append(out, c09NewElem(ni, vals))
	}
	return out
}

func (e *c09Elem) pb(variant int) *gpb.PathElem {
	if e.ni < 0 {
		pe := &gpb.PathElem{Name: "*"}
		if len(e.skeys) > 0 {
			pe.Key = map[string]string{}
			for _, s := range e.skeys {
				pe.Key[s.k] = c09ValStr[s.v]
			}
		}
		return pe
	}
	pe := &gpb.PathElem{Name: c09Names[e.ni].name}
	keys := c09Names[e.ni].keys
	for x := range keys {
		k := (x + variant) % len(keys)
		if variant%2 == 1 {
			k = (len(keys) - 1 - x + variant) % len(keys)
		}
		if e.vals[k] == 0 {
			continue
		}
		if pe.Key == nil {
			pe.Key = map[string]string{}
		}
		pe.Key[keys[k]] = c09ValStr[e.vals[k]]
	}
	return pe
}

const c09Variants = 3

type c09Path struct {
	elems          []*c09Elem
	origin, target string
	pbs            [c09Variants]*gpb.Path
}

func (p *c09Path) build() *c09Path {
	for v := range p.pbs {
		q := &gpb.Path{Origin: p.origin, Target: p.target}
		for _, e := range p.elems {
			q.Elem = append(q.Elem, e.pb(v))
		}
		p.pbs[v] = q
	}
	return p
}

func (p *c09Path) String() string {
	var b strings.Builder
	if p.origin != "" || p.target != "" {
		fmt.Fprintf(&b, "{origin=%q,target=%q}", p.origin, p.target)
	}
	for _, e := range p.elems {
		b.WriteString("/")
		b.WriteString(e.canon)
	}
	if len(p.elems) == 0 {
		b.WriteString("/")
	}
	return b.String()
}

func (p *c09Path) concrete() bool {
	for _, e := range p.elems {
		if !e.concrete {
			return false
		}
	}
	return true
}

func (p *c09Path) names() []string {
	out := make([]string, len(p.elems))
	for i, e := range p.elems {
		if e.ni < 0 {
			out[i] = "*"
		} else {
			out[i] = c09Names[e.ni].name
		}
	}
	return out
}

func c09With(p *c09Path, elems []*c09Elem) *c09Path {
	return (&c09Path{elems: elems, origin: p.origin, target: p.target}).build()
}

// ---------------------------------------------------------------- oracle

var c09RelName = map[util.CompareRelation]string{util.Equal: "Equal", util.Disjoint: "Disjoint", util.Subset: "Subset", util.Superset: "Superset", util.PartialIntersect: "PartialIntersect"}

func c09Swap(r util.CompareRelation) util.CompareRelation {
	switch r {
	case util.Subset:
		return util.Superset
	case util.Superset:
		return util.Subset
	}
	return r
}

func c09OriginEquiv(a, b string) bool {
	return a == b || (a == "" && b == "openconfig") || (a == "openconfig" && b == "")
}

// c09ElemRel is the set relation of two element denotations.
func c09ElemRel(a, b *c09Elem) util.CompareRelation {
	if a.ni != b.ni || a.mask&b.mask == 0 {
		return util.Disjoint
	}
	sub, sup := a.mask&^b.mask == 0, b.mask&^a.mask == 0
	switch {
	case sub && sup:
		return util.Equal
	case sub:
		return util.Subset
	case sup:
		return util.Superset
	}
	return util.PartialIntersect
}

// c09Rel is the set relation of den(a) and den(b).  A longer path lies inside the
// subtree of a shorter one whenever its leading elements do; it can never
// contain it, because the shorter path also covers siblings and values that no
// single further element spans.
func c09Rel(a, b *c09Path) util.CompareRelation {
	if !c09OriginEquiv(a.origin, b.origin) {
		return util.Disjoint
	}
	n := len(a.elems)
	if len(b.elems) < n {
		n = len(b.elems)
	}
	sub, sup := len(a.elems) >= len(b.elems), len(a.elems) <= len(b.elems)
	for i := 0; i < n; i++ {
		x, y := a.elems[i], b.elems[i]
		if x.ni != y.ni || x.mask&y.mask == 0 {
			return util.Disjoint
		}
		if x.mask&^y.mask != 0 {
			sub = false
		}
		if y.mask&^x.mask != 0 {
			sup = false
		}
	}
	switch {
	case sub && sup:
		return util.Equal
	case sub:
		return util.Subset
	case sup:
		return util.Superset
	}
	return util.PartialIntersect
}

// c09DisjointClass names why two paths are disjoint, relative to what has been
// seen of them before the disjoint element: when the elements in front of it
// already overlap only partially the class is later-element-disjoint.
func c09DisjointClass(a, b *c09Path) string {
	if !c09OriginEquiv(a.origin, b.origin) {
		return "origin-differs"
	}
	sub, sup := len(a.elems) >= len(b.elems), len(a.elems) <= len(b.elems)
	for i := 0; i < len(a.elems) && i < len(b.elems); i++ {
		x, y := a.elems[i], b.elems[i]
		if x.ni != y.ni || x.mask&y.mask == 0 {
			switch {
			case !sub && !sup:
				return "later-element-disjoint"
			case x.ni != y.ni:
				return "element-name-differs"
			}
			return "same-element-key-disjoint"
		}
		if x.mask&^y.mask != 0 {
			sub = false
		}
		if y.mask&^x.mask != 0 {
			sup = false
		}
	}
	return "not-disjoint"
}

// c09Shape renders the element-wise relations of a (minimised) pair.
func c09Shape(a, b *c09Path) string {
	l := "eq"
	if len(a.elems) < len(b.elems) {
		l = "lt"
	} else if len(a.elems) > len(b.elems) {
		l = "gt"
	}
	var rs []string
	for i := 0; i < len(a.elems) && i < len(b.elems) && i < 4; i++ {
		rs = append(rs, c09RelName[c09ElemRel(a.elems[i], b.elems[i])])
	}
	s := "len=" + l + ",elems=" + strings.Join(rs, ">")
	if a.origin != b.origin {
		s += ",origins-differ"
	}
	return s
}

// c09QueryMatch: is the concrete path p inside den(q)?  reason names the first
// thing that fails.
func c09QueryMatch(p, q *c09Path) (bool, string) {
	if len(p.elems) < len(q.elems) {
		return false, "path-shorter-than-query"
	}
	if !c09OriginEquiv(p.origin, q.origin) {
		return false, "origin"
	}
	for i, qe := range q.elems {
		pe := p.elems[i]
		if qe.ni < 0 {
			for _, s := range qe.skeys {
				found := false
				for k, kn := range c09Names[pe.ni].keys {
					if kn == s.k {
						found = true
						if s.v >= 2 && pe.vals[k] != s.v {
							return false, "wildcard-name-key-value"
						}
					}
				}
				if !found {
					return false, "wildcard-name-key-absent"
				}
			}
			continue
		}
		if qe.ni != pe.ni {
			return false, "name"
		}
		if pe.mask&^qe.mask != 0 {
			return false, "key-value"
		}
	}
	return true, "match"
}

func c09ElemPrefix(p, pre *c09Path) (bool, string) {
	if len(p.elems) < len(pre.elems) {
		return false, "path-shorter-than-prefix"
	}
	if p.origin != pre.origin {
		return false, "origin"
	}
	for i, e := range pre.elems {
		if e.canon != p.elems[i].canon {
			return false, "element"
		}
	}
	return true, "match"
}

func c09LCP(ps []*c09Path) int {
	n := 0
	for {
		for _, p := range ps {
			if n >= len(p.elems) || p.elems[n].canon != ps[0].elems[n].canon {
				return n
			}
		}
		n++
	}
}

func c09ElemsEq(got []*gpb.PathElem, want []*c09Elem) bool {
	if len(got) != len(want) {
		return false
	}
	for i, g := range got {
		w := want[i].pb(0)
		if g.GetName() != w.Name || len(g.GetKey()) != len(w.Key) {
			return false
		}
		for k, v := range w.Key {
			if gv, ok := g.Key[k]; !ok || gv != v {
				return false
			}
		}
	}
	return true
}

// c09SelfCheck validates c09Rel against explicit sets: every concrete data node
// of depth 1..3 with key values {1,2,3} is tested for membership in den(a) and
// den(b) (a node belongs to a path's denotation when its leading elements
// belong to the path's element sets), and the relation is read off the two
// membership vectors.
func c09SelfCheck(r *lib.Run, paths []*c09Path, n int) {
	var conc []*c09Elem
	for ni := 0; ni < 3; ni++ {
		nk := len(c09Names[ni].keys)
		tot := 1
		for i := 0; i < nk; i++ {
			tot *= 3
		}
		for x := 0; x < tot; x++ {
			vals := make([]uint8, nk)
			y := x
			for k := range vals {
				vals[k] = uint8(2 + y%3)
				y /= 3
			}
			conc = append(conc, c09NewElem(ni, vals))
		}
	}
	var nodes [][]*c09Elem
	cur := [][]*c09Elem{nil}
	for d := 0; d < 3; d++ {
		var next [][]*c09Elem
		for _, p := range cur {
			for _, e := range conc {
				next = append(next, append(append([]*c09Elem{}, p...), e))
			}
		}
		nodes = append(nodes, next...)
		cur = next
	}
	in := func(node []*c09Elem, p *c09Path) bool {
		if len(node) < len(p.elems) {
			return false
		}
		for i, e := range p.elems {
			if node[i].ni != e.ni || node[i].mask&e.mask == 0 {
				return false
			}
		}
		return true
	}
	rnd := rand.New(rand.NewSource(r.Seed*31 + 909))
	for i := 0; i < n; i++ {
		a, b := paths[rnd.Intn(len(paths))], paths[rnd.Intn(len(paths))]
		if i%2 == 1 && len(b.elems) > 0 {
			// related pair: b = a with one element replaced
			es := append([]*c09Elem{}, a.elems...)
			es[rnd.Intn(len(es))] = b.elems[0]
			b = &c09Path{elems: es[:1+rnd.Intn(len(es))]}
		}
		if len(a.elems) > 2 || len(b.elems) > 2 {
			continue
		}
		var onlyA, onlyB, both bool
		for _, nd := range nodes {
			x, y := in(nd, a), in(nd, b)
			onlyA = onlyA || (x && !y)
			onlyB = onlyB || (y && !x)
			both = both || (x && y)
		}
		want := util.PartialIntersect
		switch {
		case !both:
			want = util.Disjoint
		case !onlyA && !onlyB:
			want = util.Equal
		case !onlyA:
			want = util.Subset
		case !onlyB:
			want = util.Superset
		}
		r.Hit("oracle-selfcheck:" + c09RelName[want])
		if got := c09Rel(a, b); got != want {
			r.Inconclusive(fmt.Sprintf("harness oracle self-check failed: c09Rel(%s, %s) = %s, explicit sets give %s", a, b, c09RelName[got], c09RelName[want]))
			return
		}
	}
}

// ---------------------------------------------------------------- checks

type c09Fail struct {
	clause, feat, detail string
}

type c09State struct {
	r     *lib.Run
	seen  sync.Map // signature -> struct{}
	nfull int64
}

type c09Local struct {
	cov map[string]int
	key []byte
}

func c09Compare(a, b *c09Path, evals int) (res [32]util.CompareRelation, n int) {
	for v := 0; v < evals && v < 32; v++ {
		res[v] = util.ComparePaths(a.pbs[v%c09Variants], b.pbs[v%c09Variants])
		n++
	}
	return
}

func c09Results(res []util.CompareRelation) string {
	set := map[string]bool{}
	for _, r := range res {
		set[c09RelName[r]] = true
	}
	var out []string
	for k := range set {
		out = append(out, k)
	}
	sort.Strings(out)
	return strings.Join(out, "|")
}

// c09CheckCompare returns the failures of ComparePaths on (a,b).
func c09CheckCompare(a, b *c09Path, evals int) (fails []c09Fail, want util.CompareRelation) {
	want = c09Rel(a, b)
	res, n := c09Compare(a, b, evals)
	det := true
	for i := 1; i < n; i++ {
		if res[i] != res[0] {
			det = false
		}
	}
	class := func() string {
		if want == util.Disjoint {
			return c09DisjointClass(a, b)
		}
		return ""
	}
	if !det {
		fails = append(fails, c09Fail{clause: "nondeterministic", feat: "results=" + c09Results(res[:n]) + ",want=" + c09RelName[want] + ":" + class(),
			detail: fmt.Sprintf("ComparePaths(%s, %s) answered %s on repeated calls with equal arguments (set relation: %s)", a, b, c09Results(res[:n]), c09RelName[want])})
	}
	done := map[util.CompareRelation]bool{}
	for i := 0; i < n; i++ {
		if res[i] != want && !done[res[i]] {
			done[res[i]] = true
			fails = append(fails, c09Fail{clause: "comparepaths", feat: "got=" + c09RelName[res[i]] + ",want=" + c09RelName[want] + ":" + class(),
				detail: fmt.Sprintf("ComparePaths(%s, %s) = %s, set relation is %s", a, b, c09RelName[res[i]], c09RelName[want])})
		}
	}
	if det {
		back := util.ComparePaths(b.pbs[0], a.pbs[0])
		if back != c09Swap(res[0]) {
			// only an order-independent answer makes the swap law meaningful
			r2, n2 := c09Compare(b, a, 8)
			r1, n1 := c09Compare(a, b, 8)
			if c09Results(r2[:n2]) == c09RelName[back] && c09Results(r1[:n1]) == c09RelName[res[0]] {
				fails = append(fails, c09Fail{clause: "comparepaths-swap", feat: "ab=" + c09RelName[res[0]] + ",ba=" + c09RelName[back] + ",want=" + c09RelName[want] + ":" + class(),
					detail: fmt.Sprintf("ComparePaths(%s, %s) = %s but ComparePaths(b, a) = %s", a, b, c09RelName[res[0]], c09RelName[back])})
			}
		}
	}
	return fails, want
}

func c09CheckQuery(p, q *c09Path) (fails []c09Fail, want bool) {
	want, why := c09QueryMatch(p, q)
	if got := util.PathMatchesQuery(p.pbs[0], q.pbs[0]); got != want {
		fails = append(fails, c09Fail{clause: "matchesquery", feat: fmt.Sprintf("got=%v,want=%v:%s", got, want, why),
			detail: fmt.Sprintf("PathMatchesQuery(path=%s, query=%s) = %v, want %v (%s)", p, q, got, want, why)})
	}
	return fails, want
}

// c09CheckPrefix checks PathMatchesPathElemPrefix, PathMatchesPrefix and the
// Trim/Join laws with pre as the prefix argument.
func c09CheckPrefix(p, pre *c09Path) (fails []c09Fail, isPrefix bool) {
	want, why := c09ElemPrefix(p, pre)
	if got := util.PathMatchesPathElemPrefix(p.pbs[0], pre.pbs[0]); got != want {
		fails = append(fails, c09Fail{clause: "matcheselemprefix", feat: fmt.Sprintf("got=%v,want=%v:%s", got, want, why),
			detail: fmt.Sprintf("PathMatchesPathElemPrefix(path=%s, prefix=%s) = %v, want %v (%s)", p, pre, got, want, why)})
	}
	// string prefix: names only
	names := pre.names()
	wantN, whyN := len(p.elems) >= len(names), "path-shorter-than-prefix"
	if wantN {
		whyN = "match"
		for i, n := range names {
			if pn := p.elems[i]; (pn.ni < 0 && n != "*") || (pn.ni >= 0 && c09Names[pn.ni].name != n) {
				wantN, whyN = false, "name"
				break
			}
		}
	}
	if got := util.PathMatchesPrefix(p.pbs[0], names); got != wantN {
		fails = append(fails, c09Fail{clause: "matchesprefix", feat: fmt.Sprintf("got=%v,want=%v:%s", got, wantN, whyN),
			detail: fmt.Sprintf("PathMatchesPrefix(path=%s, prefix=%v) = %v, want %v (%s)", p, names, got, wantN, whyN)})
	}
	// Trim / Join
	t := util.TrimGNMIPathElemPrefix(p.pbs[0], pre.pbs[0])
	tj := func(f, d string) {
		fails = append(fails, c09Fail{clause: "trim-join", feat: f, detail: fmt.Sprintf("path=%s prefix=%s: %s", p, pre, d)})
	}
	if want {
		if !c09ElemsEq(t.GetElem(), p.elems[len(pre.elems):]) {
			tj("prefix-matches:trimmed-elems-wrong", fmt.Sprintf("TrimGNMIPathElemPrefix returned %v", t))
		} else if p.target != pre.target {
			// the prefix predicate ignores targets; the join law is only stated for equal ones
		} else if j, err := util.JoinPaths(pre.pbs[0], t); err != nil {
			tj("prefix-matches:join-error", fmt.Sprintf("JoinPaths(prefix, Trim(path, prefix)) failed: %v", err))
		} else if !proto.Equal(j, p.pbs[0]) {
			tj("prefix-matches:join-differs", fmt.Sprintf("JoinPaths(prefix, Trim(path, prefix)) = %v, want the path", j))
		}
	} else if !proto.Equal(t, p.pbs[0]) {
		tj("no-match:"+why+":path-changed", fmt.Sprintf("prefix does not match (%s) but TrimGNMIPathElemPrefix returned %v", why, t))
	}
	return fails, want
}

func c09CheckJoin(a, b *c09Path) (fails []c09Fail, wantErr bool) {
	conflict := func(x, y string) bool { return x != "" && y != "" && x != y }
	wantErr = conflict(a.origin, b.origin) || conflict(a.target, b.target)
	j, err := util.JoinPaths(a.pbs[0], b.pbs[0])
	f := func(feat, d string) {
		fails = append(fails, c09Fail{clause: "join", feat: feat, detail: fmt.Sprintf("JoinPaths(%s, %s): %s", a, b, d)})
	}
	pick := func(x, y string) string {
		if y != "" {
			return y
		}
		return x
	}
	switch {
	case (err != nil) != wantErr:
		f(fmt.Sprintf("error=%v,want-error=%v", err != nil, wantErr), fmt.Sprintf("err=%v", err))
	case err != nil:
	case !c09ElemsEq(j.GetElem(), append(append([]*c09Elem{}, a.elems...), b.elems...)):
		f("elems", fmt.Sprintf("elements are not prefix followed by suffix: %v", j))
	case j.GetOrigin() != pick(a.origin, b.origin):
		f("origin", fmt.Sprintf("origin %q", j.GetOrigin()))
	case j.GetTarget() != pick(a.target, b.target):
		f("target", fmt.Sprintf("target %q", j.GetTarget()))
	}
	return fails, wantErr
}

func c09CheckFind(ps []*c09Path) (fails []c09Fail, n int) {
	n = c09LCP(ps)
	var in []*gpb.Path
	for _, p := range ps {
		in = append(in, p.pbs[0])
	}
	got := util.FindPathElemPrefix(in)
	if !c09ElemsEq(got.GetElem(), ps[0].elems[:n]) {
		how := "elem-differs"
		if len(got.GetElem()) > n {
			how = "got-longer"
		} else if len(got.GetElem()) < n {
			how = "got-shorter"
		}
		var ss []string
		for _, p := range ps {
			ss = append(ss, p.String())
		}
		fails = append(fails, c09Fail{clause: "findprefix", feat: fmt.Sprintf("paths=%d:%s", len(ps), how),
			detail: fmt.Sprintf("FindPathElemPrefix(%v) = %v, longest common prefix has %d elements", ss, got, n)})
	}
	return fails, n
}

// c09Minimise shrinks the pair greedily while still(a,b) holds: drop an index
// from both paths, drop the tail of either, replace an element pair by c/c,
// unset single keys, clear origins and targets.
func c09Minimise(a, b *c09Path, still func(a, b *c09Path) bool) (*c09Path, *c09Path) {
	cElem := c09NewElem(2, nil)
	bElem := c09NewElem(1, []uint8{0})
	without := func(es []*c09Elem, i int) []*c09Elem {
		return append(append([]*c09Elem{}, es[:i]...), es[i+1:]...)
	}
	step := func() bool {
		try := func(x, y *c09Path) bool {
			if still(x, y) {
				a, b = x, y
				return true
			}
			return false
		}
		if a.origin != "" || b.origin != "" || a.target != "" || b.target != "" {
			if try((&c09Path{elems: a.elems}).build(), (&c09Path{elems: b.elems}).build()) {
				return true
			}
			if a.target != "" || b.target != "" {
				if try((&c09Path{elems: a.elems, origin: a.origin}).build(), (&c09Path{elems: b.elems, origin: b.origin}).build()) {
					return true
				}
			}
		}
		for i := 0; i < len(a.elems) && i < len(b.elems); i++ {
			if try(c09With(a, without(a.elems, i)), c09With(b, without(b.elems, i))) {
				return true
			}
		}
		if n := len(a.elems); n > 0 && try(c09With(a, a.elems[:n-1]), b) {
			return true
		}
		if n := len(b.elems); n > 0 && try(a, c09With(b, b.elems[:n-1])) {
			return true
		}
		for i := 0; i < len(a.elems) && i < len(b.elems); i++ {
			if a.elems[i].canon == "c" && b.elems[i].canon == "c" {
				continue
			}
			ae := append([]*c09Elem{}, a.elems...)
			be := append([]*c09Elem{}, b.elems...)
			ae[i], be[i] = cElem, cElem
			if try(c09With(a, ae), c09With(b, be)) {
				return true
			}
			if a.elems[i].canon == "b" && b.elems[i].canon == "c" {
				continue
			}
			ae = append([]*c09Elem{}, a.elems...)
			ae[i], be[i] = bElem, cElem
			if try(c09With(a, ae), c09With(b, be)) {
				return true
			}
		}
		for side := 0; side < 2; side++ {
			p := a
			if side == 1 {
				p = b
			}
			for i, e := range p.elems {
				if e.ni < 0 {
					continue
				}
				for k, v := range e.vals {
					if v == 0 {
						continue
					}
					vals := append([]uint8{}, e.vals...)
					vals[k] = 0
					es := append([]*c09Elem{}, p.elems...)
					es[i] = c09NewElem(e.ni, vals)
					q := c09With(p, es)
					if (side == 0 && try(q, b)) || (side == 1 && try(a, q)) {
						return true
					}
				}
			}
		}
		return false
	}
	for n := 0; n < 1000 && step(); n++ {
	}
	return a, b
}

// report files the failures of one check.  A failure whose features do not
// depend on minimisation is minimised only the first time its signature shows
// up (for the stored witness); the others are minimised first, under a budget.
func (st *c09State) report(fails []c09Fail, a, b *c09Path, again func(a, b *c09Path) []c09Fail, lc *c09Local, where string) {
	for _, f := range fails {
		lc.cov["violations:"+f.clause]++
		same := func(x, y *c09Path) bool {
			for _, g := range again(x, y) {
				if g.clause == f.clause && g.feat == f.feat {
					return true
				}
			}
			return false
		}
		needMin := strings.HasSuffix(f.feat, ":") // relation failure that is not about disjointness: shape comes from the minimal pair
		if !needMin {
			sig := f.clause + "/" + f.feat
			if _, ok := st.seen.Load(sig); ok {
				st.r.Violate(f.clause, f.feat, "", nil)
				continue
			}
			// marked as seen only after the witness is stored, so that a
			// concurrent worker never files the signature without one
			ma, mb := c09Minimise(a, b, same)
			detail := f.detail
			for _, g := range again(ma, mb) {
				if g.clause == f.clause && g.feat == f.feat {
					detail = g.detail
				}
			}
			st.r.Violate(f.clause, f.feat, detail, map[string]interface{}{"a": ma.String(), "b": mb.String(), "generated_a": a.String(), "generated_b": b.String(), "where": where, "seed": st.r.Seed})
			st.seen.Store(sig, struct{}{})
			continue
		}
		if n := atomic.AddInt64(&st.nfull, 1); n > 3000 && n%500 != 0 {
			lc.cov["violations-not-minimised"]++
			continue
		}
		ma, mb := c09Minimise(a, b, same)
		feat := f.feat + c09Shape(ma, mb)
		detail := f.detail
		for _, g := range again(ma, mb) {
			if g.clause == f.clause && g.feat == f.feat {
				detail = g.detail
			}
		}
		st.r.Violate(f.clause, feat, detail, map[string]interface{}{"a": ma.String(), "b": mb.String(), "generated_a": a.String(), "generated_b": b.String(), "where": where, "seed": st.r.Seed})
	}
}

// pair runs every pairwise check on (a,b).
func (st *c09State) pair(a, b *c09Path, lc *c09Local, where string, full bool) {
	cov := lc.cov
	fails, want := c09CheckCompare(a, b, c09Variants)
	cov["rel:"+c09RelName[want]]++
	cov["fn:ComparePaths"]++
	if len(fails) > 0 {
		st.report(fails, a, b, func(x, y *c09Path) []c09Fail { f, _ := c09CheckCompare(x, y, 32); return f }, lc, where)
	}
	if a.concrete() {
		fails, m := c09CheckQuery(a, b)
		cov["fn:PathMatchesQuery"]++
		if m {
			cov["matchesquery:true"]++
		} else {
			cov["matchesquery:false"]++
		}
		if len(fails) > 0 {
			st.report(fails, a, b, func(x, y *c09Path) []c09Fail {
				if !x.concrete() {
					return nil
				}
				f, _ := c09CheckQuery(x, y)
				return f
			}, lc, where)
		}
	}
	fails, isPre := c09CheckPrefix(a, b)
	cov["fn:PathMatchesPathElemPrefix"]++
	cov["fn:PathMatchesPrefix"]++
	cov["fn:TrimGNMIPathElemPrefix"]++
	if isPre {
		cov["elemprefix:true"]++
		cov["fn:JoinPaths"]++
	} else {
		cov["elemprefix:false"]++
	}
	if len(fails) > 0 {
		st.report(fails, a, b, func(x, y *c09Path) []c09Fail { f, _ := c09CheckPrefix(x, y); return f }, lc, where)
	}
	fails, n := c09CheckFind([]*c09Path{a, b})
	cov["fn:FindPathElemPrefix"]++
	cov["findprefix:len"+strconv.Itoa(n)]++
	if len(fails) > 0 {
		st.report(fails, a, b, func(x, y *c09Path) []c09Fail { f, _ := c09CheckFind([]*c09Path{x, y}); return f }, lc, where)
	}
	if full {
		fails, we := c09CheckJoin(a, b)
		cov["fn:JoinPaths"]++
		if we {
			cov["join:conflict"]++
		} else {
			cov["join:ok"]++
		}
		if len(fails) > 0 {
			st.report(fails, a, b, func(x, y *c09Path) []c09Fail { f, _ := c09CheckJoin(x, y); return f }, lc, where)
		}
	}
}

func c09Nontrivial(a, b *c09Path) bool {
	return len(a.elems) > 0 && len(b.elems) > 0 && c09ElemRel(a.elems[0], b.elems[0]) != util.Disjoint && c09OriginEquiv(a.origin, b.origin)
}

// ---------------------------------------------------------------- workload

func c09Enumerate(base []*c09Elem, depth int) []*c09Path {
	var out []*c09Path
	cur := [][]*c09Elem{nil}
	for d := 1; d <= depth; d++ {
		var next [][]*c09Elem
		for _, p := range cur {
			for _, e := range base {
				q := append(append([]*c09Elem{}, p...), e)
				next = append(next, q)
				out = append(out, (&c09Path{elems: q}).build())
			}
		}
		cur = next
	}
	return out
}

type c09Gen struct {
	rnd   *rand.Rand
	elems [4][]*c09Elem
}

func (g *c09Gen) elem() *c09Elem {
	x := g.rnd.Intn(100)
	ni := 0
	switch {
	case x < 40:
		ni = 0
	case x < 60:
		ni = 1
	case x < 75:
		ni = 2
	default:
		ni = 3
	}
	return g.elems[ni][g.rnd.Intn(len(g.elems[ni]))]
}

// related returns an element with e's name whose keys are e's, perturbed.
func (g *c09Gen) related(e *c09Elem) *c09Elem {
	if e.ni < 0 {
		return e
	}
	vals := append([]uint8{}, e.vals...)
	for k := range vals {
		if g.rnd.Intn(2) == 0 {
			vals[k] = uint8(g.rnd.Intn(4))
		}
	}
	return c09NewElem(e.ni, vals)
}

func (g *c09Gen) meta(a, b *c09Path) {
	if g.rnd.Intn(5) == 0 {
		os := []string{"", "openconfig", "x"}
		a.origin, b.origin = os[g.rnd.Intn(3)], os[g.rnd.Intn(3)]
	}
	if g.rnd.Intn(10) == 0 {
		ts := []string{"", "t1", "t2"}
		a.target, b.target = ts[g.rnd.Intn(3)], ts[g.rnd.Intn(3)]
	}
}

func (g *c09Gen) pair() (*c09Path, *c09Path) {
	a := &c09Path{}
	for n := 3 + g.rnd.Intn(2); len(a.elems) < n; {
		a.elems = append(a.elems, g.elem())
	}
	b := &c09Path{}
	for _, e := range a.elems {
		switch x := g.rnd.Intn(100); {
		case x < 45:
			b.elems = append(b.elems, e)
		case x < 85:
			b.elems = append(b.elems, g.related(e))
		default:
			b.elems = append(b.elems, g.elem())
		}
	}
	switch x := g.rnd.Intn(10); {
	case x < 2:
		b.elems = b.elems[:len(b.elems)-1-g.rnd.Intn(2)]
	case x < 4:
		b.elems = append(b.elems, g.elem())
	}
	if g.rnd.Intn(2) == 0 {
		a, b = b, a
	}
	g.meta(a, b)
	return a.build(), b.build()
}

// concretise gives every key of p a definite value from {1,2,3} (keeping
// definite ones).
func (g *c09Gen) concretise(p *c09Path) *c09Path {
	q := &c09Path{origin: p.origin, target: p.target}
	for _, e := range p.elems {
		vals := append([]uint8{}, e.vals...)
		for k := range vals {
			if vals[k] < 2 {
				vals[k] = uint8(2 + g.rnd.Intn(3))
			}
		}
		q.elems = append(q.elems, c09NewElem(e.ni, vals))
	}
	return q.build()
}

// starred replaces some element names of p by the wildcard name.
func (g *c09Gen) starred(p *c09Path) *c09Path {
	q := &c09Path{origin: p.origin, target: p.target}
	for _, e := range p.elems {
		if g.rnd.Intn(5) != 0 {
			q.elems = append(q.elems, e)
			continue
		}
		var sk []c09SKey
		if len(e.vals) > 0 && e.vals[0] >= 2 && g.rnd.Intn(2) == 0 {
			sk = append(sk, c09SKey{"k", e.vals[0]})
		}
		q.elems = append(q.elems, c09StarElem(sk))
	}
	return q.build()
}

func runC09(r *lib.Run) {
	if r.Quick() {
		// small live heap, many short-lived protos: collect less often
		defer debug.SetGCPercent(debug.SetGCPercent(400))
	}
	depth := r.N(2, 3)
	r.Rule = fmt.Sprintf("universe: lists a[k,j], b[k], container c, key values {missing,*,1,2} (21 elements); every ordered pair of paths of depth 1..%d is one case (key = pair index), plus all pairs of single elements of the three-key list d[k,j,i], plus random pairs (seed,index) of depth 3..5 where b is a perturbed copy of a, with origins/targets, concretised paths and wildcard-name queries; non-trivial = the first elements of the pair overlap; distinct by pair", depth)
	r.Assume("names and keys come from a fixed schema-free universe; a missing key and '*' both denote every value; value 3 is never used by a compared path, so no finite set of definite values covers a wildcard")
	r.Assume("ComparePaths: origin \"\" is equivalent to \"openconfig\" as the code documents; any other pair of different origins is Disjoint; wildcard element names are outside its contract and not generated for it")
	r.Assume("PathMatchesQuery: the path argument is concrete (every key definite), only the query holds wildcards, a path shorter than the query does not match; a '*'-named query element carries no key or a definite key k")
	r.Assume("PathMatchesPathElemPrefix / TrimGNMIPathElemPrefix: 'match exactly' is read literally, including the Origin field (\"\" and \"openconfig\" are different there) and '*' as a literal value; PathMatchesPrefix: string prefixes without empty strings; the law JoinPaths(pre, Trim(p, pre)) == p is checked when pre matches and both carry the same target")
	r.Assume("FindPathElemPrefix: a nil result is the empty prefix; the list of paths is non-empty (an empty list makes the pinned implementation loop forever and is not exercised)")
	r.Exhaustive = true
	r.Extra("exhaustive_bound", fmt.Sprintf("all ordered pairs of paths of depth<=%d over 21 elements", depth))

	st := &c09State{r: r}
	var base []*c09Elem
	gens := c09Elems
	for ni := 0; ni < 3; ni++ {
		base = append(base, gens[ni]...)
	}
	paths := c09Enumerate(base, depth)
	var dpaths []*c09Path
	for _, e := range gens[3] {
		dpaths = append(dpaths, (&c09Path{elems: []*c09Elem{e}}).build())
	}
	c09SelfCheck(r, paths[:21+441], 4000)
	r.Extra("elements", len(base))
	r.Extra("paths", len(paths))
	nrand := r.N(200000, 2000000)
	r.Extra("random_pairs", nrand)

	workers := runtime.GOMAXPROCS(0)
	if workers > 16 {
		workers = 16
	}
	if workers < 1 {
		workers = 1
	}
	type job struct{ kind, lo, hi int }
	var jobs []job
	for i := range paths {
		jobs = append(jobs, job{0, i, i + 1})
	}
	jobs = append(jobs, job{1, 0, len(dpaths)})
	for lo := 0; lo < nrand; lo += 4096 {
		hi := lo + 4096
		if hi > nrand {
			hi = nrand
		}
		jobs = append(jobs, job{2, lo, hi})
	}
	var next int64
	var wg sync.WaitGroup
	for w := 0; w < workers; w++ {
		wg.Add(1)
		go func() {
			defer wg.Done()
			lc := &c09Local{cov: map[string]int{}}
			defer func() {
				for k, n := range lc.cov {
					r.HitN(k, n)
				}
			}()
			for {
				j := int(atomic.AddInt64(&next, 1)) - 1
				if j >= len(jobs) {
					return
				}
				jb := jobs[j]
				switch jb.kind {
				case 0:
					a := paths[jb.lo]
					for bi, b := range paths {
						lc.key = strconv.AppendInt(append(strconv.AppendInt(append(lc.key[:0], 'x'), int64(jb.lo), 10), ':'), int64(bi), 10)
						r.Case(string(lc.key), c09Nontrivial(a, b))
						st.pair(a, b, lc, "exhaustive", false)
						if (jb.lo*len(paths)+bi)%70001 == 0 {
							r.Sample(map[string]interface{}{"a": a.String(), "b": b.String(), "set_relation": c09RelName[c09Rel(a, b)], "ComparePaths": c09RelName[util.ComparePaths(a.pbs[0], b.pbs[0])]})
						}
					}
				case 1:
					for ai, a := range dpaths {
						for bi, b := range dpaths {
							r.Case(fmt.Sprintf("d%d:%d", ai, bi), c09Nontrivial(a, b))
							lc.cov["elem:3keys"]++
							st.pair(a, b, lc, "three-key elements", false)
						}
					}
				case 2:
					for i := jb.lo; i < jb.hi; i++ {
						st.random(i, lc)
					}
				}
			}
		}()
	}
	wg.Wait()
	// a nil prefix leaves the path alone
	if p := paths[len(paths)-1]; !proto.Equal(util.TrimGNMIPathElemPrefix(p.pbs[0], nil), p.pbs[0]) {
		r.Violate("trim-join", "nil-prefix:path-changed", "TrimGNMIPathElemPrefix(path, nil) changed the path", map[string]interface{}{"path": p.String()})
	}
	r.RequireCov("rel:Equal", "rel:Subset", "rel:Superset", "rel:Disjoint", "rel:PartialIntersect",
		"fn:ComparePaths", "fn:PathMatchesQuery", "fn:PathMatchesPrefix", "fn:PathMatchesPathElemPrefix", "fn:TrimGNMIPathElemPrefix", "fn:JoinPaths", "fn:FindPathElemPrefix",
		"matchesquery:true", "matchesquery:false", "matchesquery:wildcard-name", "elemprefix:true", "elemprefix:false", "join:conflict", "join:ok",
		"oracle-selfcheck:Equal", "oracle-selfcheck:Subset", "oracle-selfcheck:Superset", "oracle-selfcheck:Disjoint", "oracle-selfcheck:PartialIntersect",
		"elem:3keys", "origin:differs", "origin:openconfig-equivalent", "findprefix:paths=3", "unequal-length")
	r.SetFloor(1000)
}

func (st *c09State) random(i int, lc *c09Local) {
	r := st.r
	g := &c09Gen{rnd: rand.New(rand.NewSource(r.Seed*1000003 + int64(i)*7919 + 9))}
	for ni := range c09Names {
		g.elems[ni] = c09Elems[ni]
	}
	a, b := g.pair()
	r.Case("r"+a.String()+"|"+b.String(), c09Nontrivial(a, b))
	cov := lc.cov
	if a.origin != b.origin {
		if c09OriginEquiv(a.origin, b.origin) {
			cov["origin:openconfig-equivalent"]++
		} else {
			cov["origin:differs"]++
		}
	}
	if len(a.elems) != len(b.elems) {
		cov["unequal-length"]++
	}
	for _, e := range a.elems {
		if e.ni == 3 {
			cov["elem:3keys"]++
			break
		}
	}
	st.pair(a, b, lc, fmt.Sprintf("random index %d", i), true)
	if i%50021 == 0 {
		r.Sample(map[string]interface{}{"a": a.String(), "b": b.String(), "set_relation": c09RelName[c09Rel(a, b)], "ComparePaths": c09RelName[util.ComparePaths(a.pbs[0], b.pbs[0])]})
	}
	// concrete path against a query with wildcard names
	p, q := g.concretise(a), g.starred(b)
	fails, m := c09CheckQuery(p, q)
	cov["fn:PathMatchesQuery"]++
	for _, e := range q.elems {
		if e.ni < 0 {
			cov["matchesquery:wildcard-name"]++
			break
		}
	}
	if m {
		cov["matchesquery:true"]++
	} else {
		cov["matchesquery:false"]++
	}
	if len(fails) > 0 {
		st.report(fails, p, q, func(x, y *c09Path) []c09Fail {
			if !x.concrete() {
				return nil
			}
			f, _ := c09CheckQuery(x, y)
			return f
		}, lc, fmt.Sprintf("random index %d (query)", i))
	}
	// three paths
	c := &c09Path{}
	for k, e := range a.elems {
		if g.rnd.Intn(6) == 0 {
			e = g.related(e)
		}
		if k < 4 {
			c.elems = append(c.elems, e)
		}
	}
	c.build()
	fails, n := c09CheckFind([]*c09Path{a, b, c})
	cov["findprefix:paths=3"]++
	cov["findprefix:len"+strconv.Itoa(n)]++
	if len(fails) > 0 {
		for _, f := range fails {
			r.Violate(f.clause, f.feat, f.detail, map[string]interface{}{"paths": []string{a.String(), b.String(), c.String()}, "where": fmt.Sprintf("random index %d", i)})
		}
	}
}

var c09Elems = func() (out [4][]*c09Elem) {
	for ni := range c09Names {
		out[ni] = c09AllElems(ni)
	}
	return
}()
