package mon

import (
	"fmt"
	"math/rand"
	"sort"
	"strings"

	gpb "github.com/openconfig/gnmi/proto/gnmi"
	"github.com/openconfig/ygot/ygot"
	"github.com/openconfig/ygot/ytypes"
	"github.com/openconfig/ygot/zzverif/lib"
)

func init() { Monitors["C13"] = runC13 }

type setOp struct {
	op      string // delete, replace, update
	kind    string // leaf, container, list-entry, ordered-container, ordered-list-node, whole-list
	elems   []lib.PathElem
	payload string // scalar, json
	src     *lib.Obs
	leaf    *lib.Leaf
	tv      *gpb.TypedValue
	isKey   bool
}

func (o setOp) String() string {
	return fmt.Sprintf("%s %s %s (%s)", o.op, o.kind, lib.PathString(o.elems), o.payload)
}

// splitPath cuts a full path into prefix and relative path at k.
func splitPath(elems []lib.PathElem, k int) (*gpb.Path, *gpb.Path) {
	return lib.ToGNMIPath(elems[:k]), lib.ToGNMIPath(elems[k:])
}

// c13Ops builds the candidate operations offered by a donor tree.
func c13Ops(cfg *lib.Cfg, donor ygot.GoStruct, rng *rand.Rand) []setOp {
	od := cfg.Observe(donor)
	var out []setOp
	for _, n := range cfg.Nodes(donor)[1:] {
		if n.Keyless {
			continue
		}
		kind := "container"
		if n.IsEntry {
			kind = "list-entry"
			if n.Field.Kind == lib.KOrdered {
				kind = "ordered-entry"
			}
		}
		hasOrdered := false
		for lp := range od.Order {
			if lib.HasPrefixPath(lp, lib.PathString(n.Path)) {
				hasOrdered = true
			}
		}
		if hasOrdered && kind == "container" {
			kind = "ordered-container"
		}
		out = append(out, setOp{kind: kind, elems: n.Path, payload: "json", src: od})
		if n.IsEntry {
			lk := "whole-list"
			if n.Field.Kind == lib.KOrdered {
				lk = "ordered-list-node"
			}
			out = append(out, setOp{kind: lk, elems: stripLastKeys(n.Path), payload: "json", src: od})
		}
	}
	keyLeaf := map[string]bool{}
	for _, n := range cfg.Nodes(donor) {
		for _, kp := range n.KeyPaths {
			keyLeaf[kp] = true
		}
	}
	for _, p := range od.SortedLeafPaths() {
		l := od.Leaves[p]
		if strings.Contains(p, "[#") {
			continue
		}
		pl := "scalar"
		if rng.Intn(4) == 0 {
			pl = "json"
		}
		out = append(out, setOp{kind: "leaf", elems: l.Elems, payload: pl, src: od, leaf: l, isKey: keyLeaf[p]})
	}
	return out
}

// payloadFor renders the TypedValue of an operation with the harness encoders.
func payloadFor(o *setOp) error {
	if o.leaf != nil {
		var err error
		if o.payload == "scalar" {
			o.tv, err = lib.LeafTV(o.leaf)
			return err
		}
		jv, err := lib.LeafJSON(o.leaf)
		if err != nil {
			return err
		}
		o.tv, err = lib.JSONIETF(jv)
		return err
	}
	if o.kind == "whole-list" || o.kind == "ordered-list-node" {
		// JSON array of the entries of the list
		parent := o.elems[:len(o.elems)-1]
		obj, err := o.src.SubtreeJSON(parent)
		if err != nil {
			return err
		}
		arr, ok := obj[o.elems[len(o.elems)-1].Name]
		if !ok {
			return fmt.Errorf("no entries")
		}
		o.tv, err = lib.JSONIETF(arr)
		return err
	}
	obj, err := o.src.SubtreeJSON(o.elems)
	if err != nil {
		return err
	}
	if len(obj) == 0 {
		return fmt.Errorf("empty subtree")
	}
	o.tv, err = lib.JSONIETF(obj)
	return err
}

func runC13(r *lib.Run) {
	r.Rule = "sequences of 6 SetRequests over one root; operations (delete/replace/update) with targets and payloads cut from donor trees: leaves (scalar or JSON), containers, list entries, containers around ordered lists, list nodes with JSON arrays, keyless list deletes; prefix split at a random depth; after each request the root is compared with a reference interpreter (prefix join; deletes, then replaces, then updates) on the leaf-set model; plus atomic notifications; non-trivial = request changed the model; distinct by cfg+request text"
	r.Assume("an update (not replace) whose JSON carries an ordered list that is already populated in the root is don't-care (documented: ordered lists are unmarshalled as a whole); unkeyed lists excluded")
	n := r.N(300, 8000)
	for _, cfg := range cfgsFor(r, quick3) {
		for i := 0; i < n; i++ {
			if skip(cfg, i) {
				continue
			}
			root := lib.NewGen(cfg, r.Seed, i, c10Opts(i)).Tree()
			sch := cfg.SchemaWith(root)
			model := lib.NewModel(cfg, cfg.Observe(root))
			rng := rand.New(rand.NewSource(r.Seed*7001 + int64(i)))
			var history []string
			for step := 0; step < 6; step++ {
				donor := lib.NewGen(cfg, r.Seed+int64(100+step), i, c10Opts(i)).Tree()
				cands := c13Ops(cfg, donor, rng)
				// deletes may also target what is in the root now
				gcur := lib.NewGen(cfg, r.Seed, i, c10Opts(i))
				cur := gcur.Tree()
				if step%2 == 1 {
					// an edited copy of what the root started as: payloads that name existing list
					// entries (also at the second list level) but lack some of their leaves and
					// children, which an update must leave alone
					gcur.Mutate(cur, 3+rng.Intn(6))
					r.Hit("donor:edited-copy-of-root")
				}
				cands = append(cands, c13Ops(cfg, cur, rng)...)
				if len(cands) == 0 {
					break
				}
				byKind := map[string][]setOp{}
				var kinds []string
				for _, c := range cands {
					if _, ok := byKind[c.kind]; !ok {
						kinds = append(kinds, c.kind)
					}
					byKind[c.kind] = append(byKind[c.kind], c)
				}
				sort.Strings(kinds)
				nops := 1 + rng.Intn(3)
				var ops []setOp
				// prefer, half of the time, a single target whose path repeats its own beginning
				var reps []setOp
				for _, c := range cands {
					for m := 1; 2*m <= len(c.elems); m++ {
						rep := true
						for x := 0; x < m; x++ {
							if c.elems[x].String() != c.elems[m+x].String() {
								rep = false
							}
						}
						if rep && len(c.elems[m-1].Keys) > 0 {
							reps = append(reps, c)
							break
						}
					}
				}
				if len(reps) > 0 && rng.Intn(2) == 0 {
					o := reps[rng.Intn(len(reps))]
					o.op = []string{"delete", "replace", "update", "update"}[rng.Intn(4)]
					if o.isKey || o.kind == "whole-list" || o.kind == "ordered-list-node" {
						o.op = "update"
					}
					if o.op == "delete" || payloadFor(&o) == nil {
						if !(o.kind == "whole-list" || o.kind == "ordered-list-node") {
							ops = append(ops, o)
							nops = 0
						}
					}
				}
				for k := 0; k < nops; k++ {
					ks := byKind[kinds[rng.Intn(len(kinds))]]
					o := ks[rng.Intn(len(ks))]
					o.op = []string{"delete", "replace", "update", "update"}[rng.Intn(4)]
					if o.kind == "whole-list" || o.kind == "ordered-list-node" {
						o.op = []string{"delete", "replace"}[rng.Intn(2)]
					}
					if o.isKey {
						o.op = "update" // deleting or replacing a key leaf alone is not a legal operation
					}
					if o.op != "delete" {
						if err := payloadFor(&o); err != nil {
							continue
						}
					}
					ops = append(ops, o)
				}
				if len(ops) == 0 {
					continue
				}
				// sometimes a second update of the same container / list entry with a payload
				// cut from the other tree: both payloads must be merged, in message order
				if rng.Intn(3) == 0 {
					for _, o := range ops {
						if o.op != "update" || o.leaf != nil || o.kind == "ordered-container" || o.kind == "ordered-entry" {
							continue
						}
						ps := lib.PathString(o.elems)
						for _, c := range cands {
							if c.leaf == nil && c.kind == o.kind && c.src != o.src && lib.PathString(c.elems) == ps {
								c.op = "update"
								if payloadFor(&c) == nil {
									ops = append(ops, c)
									r.Hit("same-path-updated-twice")
								}
								break
							}
						}
						break
					}
				}
				// sometimes a second replace at or below a node this request already replaces (equal or
				// ancestor/descendant paths, either order): replaces take effect one after the other, in
				// message order
				if rng.Intn(3) == 0 {
					for oi, o := range ops {
						if o.op != "replace" || o.leaf != nil || strings.Contains(o.kind, "ordered") || o.kind == "whole-list" {
							continue
						}
						ps := lib.PathString(o.elems)
						var subs []setOp
						for _, c := range cands {
							if c.isKey || strings.Contains(c.kind, "ordered") || c.kind == "whole-list" || len(c.elems) < len(o.elems) {
								continue
							}
							if lib.PathString(c.elems[:len(o.elems)]) == ps && !(c.src == o.src && len(c.elems) == len(o.elems)) {
								subs = append(subs, c)
							}
						}
						if len(subs) == 0 {
							continue
						}
						c := subs[rng.Intn(len(subs))]
						c.op = "replace"
						if payloadFor(&c) != nil {
							continue
						}
						if rng.Intn(2) == 0 {
							ops = append(ops, c)
						} else {
							ops = append(append(append([]setOp{}, ops[:oi]...), c), ops[oi:]...)
						}
						r.Hit("overlapping-replaces")
						break
					}
				}
				// common prefix split
				k := 0
				minLen := len(ops[0].elems)
				for _, o := range ops {
					if len(o.elems) < minLen {
						minLen = len(o.elems)
					}
				}
				for k < minLen {
					same := true
					for _, o := range ops[1:] {
						if o.elems[k].String() != ops[0].elems[k].String() {
							same = false
						}
					}
					if !same {
						break
					}
					k++
				}
				if k > 0 {
					k = rng.Intn(k + 1)
				}
				if k == minLen && k > 0 {
					k--
				}
				// a target whose path repeats its own beginning (a list nested in an entry of a list of
				// the same name and key): split exactly there, so that the relative paths start with the
				// same elements as the prefix
				for m := 1; 2*m <= minLen && len(ops) == 1; m++ {
					rep := true
					for x := 0; x < m; x++ {
						if ops[0].elems[x].String() != ops[0].elems[m+x].String() {
							rep = false
						}
					}
					if rep && rng.Intn(4) > 0 {
						k = m
						r.Hit("prefix-repeated-in-relative-path")
					}
				}
				req := &gpb.SetRequest{}
				req.Prefix, _ = splitPath(ops[0].elems, k)
				dontCare := ""
				var applyOrder []setOp
				for _, want := range []string{"delete", "replace", "update"} {
					for _, o := range ops {
						if o.op != want {
							continue
						}
						_, rel := splitPath(o.elems, k)
						switch o.op {
						case "delete":
							req.Delete = append(req.Delete, rel)
						case "replace":
							req.Replace = append(req.Replace, &gpb.Update{Path: rel, Val: o.tv})
						case "update":
							req.Update = append(req.Update, &gpb.Update{Path: rel, Val: o.tv})
						}
						applyOrder = append(applyOrder, o)
					}
				}
				// reference interpreter
				next := lib.NewModel(cfg, model.Obs())
				for _, o := range applyOrder {
					switch o.op {
					case "delete":
						next.Delete(o.elems)
					case "replace", "update":
						if o.op == "update" && o.leaf == nil {
							for lp := range o.src.Order {
								if lib.ElemsUnder(mustElems(o.src, lp), o.elems) || strings.HasPrefix(lib.PathString(o.elems), lp+"[") {
									if _, populated := next.Order[lp]; populated {
										dontCare = "update of a populated ordered list"
									}
								}
							}
						}
						if o.op == "replace" {
							next.Delete(o.elems)
						}
						if o.leaf != nil {
							next.WriteLeaf(o.leaf)
						} else {
							next.WriteSubtree(o.src, o.elems)
						}
					}
				}
				var opStr []string
				for _, o := range applyOrder {
					opStr = append(opStr, o.String())
					r.Hit("op:" + o.op + ":" + o.kind)
				}
				history = append(history, fmt.Sprintf("prefix=%s %s", lib.GNMIPathString(req.Prefix), strings.Join(opStr, "; ")))
				if dontCare != "" {
					r.Hit("dont-care:" + dontCare)
					break // the root state is unspecified from here on
				}
				w := func(more map[string]interface{}) map[string]interface{} {
					more["history"] = history
					more["request"] = lib.Clip(req.String(), 6000)
					return wit(cfg, r.Seed, i, more)
				}
				changed := len(lib.DiffObs(model.Obs(), next.Obs(), lib.DiffOpts{})) > 0
				r.Case(cfg.Name+req.String(), changed)
				if step == 0 && i < 3 {
					r.Sample(map[string]interface{}{"cfg": cfg.Name, "request": lib.Clip(req.String(), 800)})
				}
				var err error
				if r.Guard("UnmarshalSetRequest", w(map[string]interface{}{}), func() { err = ytypes.UnmarshalSetRequest(sch, req) }) {
					break
				}
				if err != nil {
					kindsIn := map[string]bool{}
					for _, o := range applyOrder {
						kindsIn[o.op+":"+o.kind] = true
					}
					var kl []string
					for k := range kindsIn {
						kl = append(kl, k)
					}
					sort.Strings(kl)
					ctx := "multi-op"
					_ = ctx
					if len(kl) == 1 {
						ctx = kl[0]
					}
					if (kindsIn["delete:whole-list"] || kindsIn["delete:ordered-list-node"] || kindsIn["replace:whole-list"] || kindsIn["replace:ordered-list-node"]) &&
						(strings.Contains(err.Error(), "is not found in gNMI path") || strings.Contains(err.Error(), "does not contain a map entry") || strings.Contains(err.Error(), "valid keys")) {
						r.Violate("request-rejected", "list-path-without-keys", err.Error(), w(map[string]interface{}{}))
					} else {
						for _, c := range lib.ErrClasses(err.Error()) {
							r.Violate("request-rejected", c, err.Error(), w(map[string]interface{}{}))
						}
					}
					break
				}
				r.Hit("request-ok")
				model = next
				got := cfg.Observe(sch.Root)
				bad := false
				for _, d := range lib.DiffObs(model.Obs(), got, lib.DiffOpts{EmptyLeafListIsAbsent: true}) {
					if d.What == "entry" || d.What == "presence" {
						continue
					}
					if d.What == "order" && nestedOrdered(model.Order, got.Order, d.Path) {
						continue // nested ordered lists are documented as unsupported
					}
					bad = true
					var kl []string
					for _, o := range applyOrder {
						kl = append(kl, o.op+":"+o.kind)
					}
					ctx := "multi-op"
					_ = ctx
					if len(kl) == 1 {
						ctx = kl[0]
					}
					note := ""
					if l := model.Leaves[d.Path]; l != nil {
						note = cfg.KeyNote(l.Elems)
					} else if l := got.Leaves[d.Path]; l != nil {
						note = cfg.KeyNote(l.Elems)
					}
					r.Violate("tree-differs-from-model", featOf(d)+note, d.String(), w(map[string]interface{}{"delta": d.String()}))
				}
				if bad {
					break
				}
			}
		}
		c13Atomic(r, cfg)
	}
	r.RequireCov("request-ok", "op:delete:leaf", "op:replace:container", "op:update:list-entry", "op:update:leaf", "op:replace:ordered-container", "atomic-ok", "same-path-updated-twice", "overlapping-replaces", "prefix-repeated-in-relative-path")
}

func mustElems(o *lib.Obs, listPath string) []lib.PathElem {
	// elements of an ordered list path: take them from any leaf below it
	for p, l := range o.Leaves {
		if strings.HasPrefix(p, listPath+"[") {
			n := strings.Count(listPath, "/")
			el := append([]lib.PathElem(nil), l.Elems[:n]...)
			el[n-1] = lib.PathElem{Name: el[n-1].Name, Pos: -1}
			return el
		}
	}
	return nil
}

// c13Atomic: atomic notifications replace the subtree at their prefix.
func c13Atomic(r *lib.Run, cfg *lib.Cfg) {
	n := r.N(100, 2000)
	for i := 0; i < n; i++ {
		idx := 500000 + i
		if skip(cfg, idx) {
			continue
		}
		opt := c10Opts(i)
		opt.OrderedSiblings = false
		root := lib.NewGen(cfg, r.Seed, idx, opt).Tree()
		donor := lib.NewGen(cfg, r.Seed+55, idx, opt).Tree()
		od := cfg.Observe(donor)
		var lps []string
		for lp := range od.Order {
			lps = append(lps, lp)
		}
		if len(lps) == 0 {
			continue
		}
		sort.Strings(lps)
		lp := lps[i%len(lps)]
		le := mustElems(od, lp)
		if le == nil || len(le) < 2 {
			continue
		}
		prefix := le[:len(le)-1] // container around the ordered list
		model := lib.NewModel(cfg, cfg.Observe(root))
		model.Delete(prefix)
		nf := &gpb.Notification{Atomic: true, Prefix: lib.ToGNMIPath(prefix), Timestamp: 1}
		src := lib.NewObs()
		parent := lp[:strings.LastIndex(lp, "/")+1]
		for _, es := range od.Order[lp] {
			for _, p := range od.SortedLeafPaths() {
				l := od.Leaves[p]
				if !strings.HasPrefix(p, parent+es+"/") {
					continue
				}
				tv, err := lib.LeafTV(l)
				if err != nil {
					continue
				}
				nf.Update = append(nf.Update, &gpb.Update{Path: lib.ToGNMIPath(l.Elems[len(prefix):]), Val: tv})
				src.Leaves[p] = l
				model.WriteLeaf(l)
			}
		}
		if len(nf.Update) == 0 {
			continue
		}
		w := wit(cfg, r.Seed, idx, map[string]interface{}{"notification": lib.Clip(nf.String(), 4000)})
		r.Case(cfg.Name+nf.String(), true)
		sch := cfg.SchemaWith(root)
		var err error
		if r.Guard("UnmarshalNotifications", w, func() { err = ytypes.UnmarshalNotifications(sch, []*gpb.Notification{nf}) }) {
			continue
		}
		if err != nil {
			r.ViolateErr("atomic-rejected", err, w)
			continue
		}
		bad := false
		for _, d := range lib.DiffObs(model.Obs(), cfg.Observe(sch.Root), lib.DiffOpts{}) {
			if d.What == "entry" || d.What == "presence" {
				continue
			}
			bad = true
			r.Violate("atomic-differs-from-model", featOf(d), d.String(), w)
		}
		if !bad {
			r.Hit("atomic-ok")
		}
	}
}

func nestedOrdered(a, b map[string][]string, p string) bool {
	for _, m := range []map[string][]string{a, b} {
		for q := range m {
			if q != p && strings.HasPrefix(p, q+"[") {
				return true
			}
		}
	}
	return false
}
