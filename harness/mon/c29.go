package mon

import (
	"fmt"
	"math"
	"reflect"
	"sort"
	"strings"

	gpb "github.com/openconfig/gnmi/proto/gnmi"
	"github.com/openconfig/ygot/ygot"
	"github.com/openconfig/ygot/zzverif/lib"
)

func init() { Monitors["C29"] = runC29 }

// splitWildNames returns every way of writing s as the concatenation of a
// subsequence of names (in order); each solution is the set of indices used.
func splitWildNames(s string, names []string) []map[int]bool {
	var out []map[int]bool
	var rec func(rest string, from int, used []int)
	rec = func(rest string, from int, used []int) {
		if rest == "" {
			m := map[int]bool{}
			for _, u := range used {
				m[u] = true
			}
			if len(m) > 0 {
				out = append(out, m)
			}
			return
		}
		for i := from; i < len(names); i++ {
			if names[i] != "" && strings.HasPrefix(rest, names[i]) {
				rec(rest[len(names[i]):], i+1, append(append([]int(nil), used...), i))
			}
		}
	}
	rec(s, 0, nil)
	return out
}

// c29Boundary: per parameter type, boundary values that every third draw uses instead of a pooled one.
var c29Boundary = map[reflect.Type][]reflect.Value{}

// c29Pick draws argument idx of the candidates vs for parameter type t.
func c29Pick(t reflect.Type, vs []reflect.Value, idx int) reflect.Value {
	if b := c29Boundary[t]; len(b) > 0 && idx%3 == 0 {
		return b[(idx/3)%len(b)]
	}
	v := vs[idx%len(vs)]
	// under -simplify_wildcard_paths an element whose keys are all wildcards is rendered without keys;
	// the expectation cannot tell a supplied string "*" from a wildcard, so "*" is not supplied there
	for tries := 1; c29NoStar && tries < len(vs); tries++ {
		if c, _ := lib.CanonScalar(v, true); c != "string:*" {
			break
		}
		v = vs[(idx+tries)%len(vs)]
	}
	return v
}

// c29ZeroEnums: generated enumeration types in which Go value 0 carries a name (reported once per run).
var c29ZeroEnums = map[string]bool{}

// c29NoStar is set while a configuration generated with -simplify_wildcard_paths is driven.
var c29NoStar bool

var pathStructT = reflect.TypeOf((*ygot.PathStruct)(nil)).Elem()

// keyValuePool collects, per Go type, example key values from generated trees
// (typed exactly as the generated helpers and path-struct accessors take them).
func keyValuePool(cfg *lib.Cfg, seed int64, n int) map[reflect.Type][]reflect.Value {
	c29Boundary = map[reflect.Type][]reflect.Value{}
	pool := map[reflect.Type][]reflect.Value{}
	seen := map[string]bool{}
	add := func(v reflect.Value) {
		if e := v; e.IsValid() {
			for e.Kind() == reflect.Interface && !e.IsNil() {
				e = e.Elem()
			}
			if e.Kind() == reflect.Int64 && e.Type().Implements(goEnumType) && e.Int() == 0 {
				// a YANG enumeration value -1 is generated as Go value 0, which ygot reads as "unset"
				c29ZeroEnums[e.Type().Name()] = true
				return
			}
		}
		c, _ := lib.CanonScalar(v, true)
		k := v.Type().String() + "|" + c
		if seen[k] {
			return
		}
		seen[k] = true
		pool[v.Type()] = append(pool[v.Type()], v)
	}
	for _, kind := range []lib.Kind{lib.KList, lib.KOrdered} {
		for _, s := range findListSitesOpt(cfg, seed, kind, n, true) {
			for _, t := range s.tuples {
				for _, p := range t.params {
					add(p)
				}
			}
		}
	}
	// boundary values of the 64-bit integer key types (a key rendered through a signed
	// conversion only goes wrong from 2^63 up)
	for t, vs := range pool {
		if len(vs) == 0 {
			continue
		}
		dyn := vs[0]
		if t.Kind() == reflect.Interface {
			dyn = dyn.Elem()
		}
		if !dyn.IsValid() || dyn.Type().Implements(goEnumType) {
			continue
		}
		mk := func(set func(reflect.Value)) {
			nv := reflect.New(dyn.Type()).Elem()
			set(nv)
			if t.Kind() == reflect.Interface {
				iv := reflect.New(t).Elem()
				iv.Set(nv)
				nv = iv
			}
			c29Boundary[t] = append(c29Boundary[t], nv)
		}
		switch dyn.Kind() {
		case reflect.Uint64:
			mk(func(v reflect.Value) { v.SetUint(math.MaxUint64) })
			mk(func(v reflect.Value) { v.SetUint(1 << 63) })
		case reflect.Int64:
			mk(func(v reflect.Value) { v.SetInt(math.MinInt64) })
			mk(func(v reflect.Value) { v.SetInt(math.MaxInt64) })
		}
	}
	return pool
}

// valuesFor returns candidate argument values of Go type t (also values whose
// dynamic type implements t, for union interfaces).
func valuesFor(pool map[reflect.Type][]reflect.Value, t reflect.Type) []reflect.Value {
	if vs, ok := pool[t]; ok {
		return vs
	}
	var out []reflect.Value
	if t.Kind() == reflect.Interface {
		for pt, vs := range pool {
			if pt.Kind() == reflect.Interface {
				for _, v := range vs {
					if v.Elem().IsValid() && v.Elem().Type().Implements(t) {
						nv := reflect.New(t).Elem()
						nv.Set(v.Elem())
						out = append(out, nv)
					}
				}
			} else if pt.Implements(t) {
				for _, v := range vs {
					nv := reflect.New(t).Elem()
					nv.Set(v)
					out = append(out, nv)
				}
			}
		}
	}
	return out
}

func runC29(r *lib.Run) {
	r.Rule = "every configuration generated with path structs (OpenConfig-style harness schema and seeded random schemas): starting at DeviceRoot, every accessor chain down to every node is called through reflection with key values drawn per parameter type (and with the Any / partial-wildcard variants); ygot.ResolvePath must give the data-tree path that the corresponding GoStruct field tags give (element names), the supplied keys rendered by the harness formatter, omitted keys as '*'; non-trivial = chain contains a list; distinct by cfg+accessor chain+key tuple"
	tuples := 4
	if !r.Quick() {
		tuples = 40
	}
	any := false
	for _, name := range lib.Names() {
		cfg := lib.Get(name)
		if cfg.PathRoot == nil {
			continue
		}
		any = true
		r.Hit("configuration")
		r.Hit("configuration:" + name)
		c29NoStar = cfg.Simplify
		c29ZeroEnums = map[string]bool{}
		pool := keyValuePool(cfg, r.Seed, tuples)
		for tn := range c29ZeroEnums {
			r.Violate("enum-key-value-unusable", "yang-value-minus-one-is-go-zero", "enumeration type "+tn+" names Go value 0 (YANG value -1 + 1), which ygot treats as unset: as a list key it resolves to an empty key string", map[string]interface{}{"cfg": name, "type": tn})
		}
		root := reflect.ValueOf(cfg.PathRoot())
		rootInfo := cfg.Info(reflect.TypeOf(cfg.NewRoot()))
		type frame struct {
			ps    reflect.Value   // path struct value
			si    *lib.StructInfo // GoStruct counterpart (nil below leaves)
			elems []lib.PathElem  // expected data path so far
			chain string
		}
		var visit func(f frame, depth int, round int)
		visited := map[string]bool{}
		visit = func(f frame, depth int, round int) {
			if depth > 14 {
				return
			}
			t := f.ps.Type()
			var withs []int // builder-style key setters of a list node, exercised after everything else
			defer func() {
				if len(withs) == 0 || f.si == nil || len(f.elems) == 0 {
					return
				}
				kfs := f.si.KeyFields()
				cur := append([]lib.PathElem(nil), f.elems...)
				last := cur[len(cur)-1]
				keys := map[string]string{}
				for k, v := range last.Keys {
					keys[k] = v
				}
				for wi, mi := range withs {
					m := t.Method(mi)
					ki := -1
					for i, kf := range kfs {
						if kf != nil && "With"+kf.GoName == m.Name {
							ki = i
						}
					}
					vs := valuesFor(pool, m.Type.In(1))
					if ki < 0 || len(vs) == 0 {
						r.Hit("skipped:builder-method-without-key")
						continue
					}
					arg := c29Pick(m.Type.In(1), vs, round+wi*5+mi)
					chain := f.chain + "." + m.Name
					w := map[string]interface{}{"cfg": name, "chain": chain}
					var out reflect.Value
					if r.Guard("accessor", w, func() { out = f.ps.Method(mi).Call([]reflect.Value{arg})[0] }) {
						continue
					}
					c, _ := lib.CanonScalar(arg, true)
					keys[f.si.KeyNames[ki]] = lib.KeyLex(c)
					exp := append([]lib.PathElem(nil), cur[:len(cur)-1]...)
					nk := map[string]string{}
					for k, v := range keys {
						nk[k] = v
					}
					exp = append(exp, lib.PathElem{Name: last.Name, Keys: nk, Pos: -1})
					r.Case(name+chain+fmt.Sprint(argStrings([]reflect.Value{arg})), true)
					r.Hit("accessor:builder-with")
					ps, ok := out.Interface().(ygot.PathStruct)
					if !ok || out.IsNil() {
						r.Violate("accessor-returned-nil", "builder", chain, w)
						continue
					}
					var gp *gpb.Path
					var errs []error
					if r.Guard("ResolvePath", w, func() { gp, _, errs = ygot.ResolvePath(ps) }) {
						continue
					}
					if len(errs) > 0 {
						for _, c := range lib.ErrClasses(fmt.Sprint(errs)) {
							r.Violate("resolve-error", "builder:"+c, fmt.Sprintf("%s: %v", chain, errs), w)
						}
						continue
					}
					if got, want := gnmiElems(gp), expectedElems(exp); got != want {
						r.Violate("resolved-path-differs", "builder-key-after-resolve", fmt.Sprintf("%s resolved to %s, expected %s", chain, got, want), map[string]interface{}{"cfg": name, "chain": chain, "got": got, "want": want})
					} else {
						r.Hit("resolved-ok:builder")
					}
				}
			}()
			for mi := 0; mi < t.NumMethod(); mi++ {
				m := t.Method(mi)
				if m.Type.NumOut() != 1 || !m.Type.Out(0).Implements(pathStructT) {
					continue
				}
				if f.si == nil {
					continue
				}
				if strings.HasPrefix(m.Name, "With") && m.Type.NumIn() == 2 && m.Type.Out(0) == t && f.si.Field(m.Name) == nil {
					withs = append(withs, mi)
					continue
				}
				// GoStruct field this accessor corresponds to
				fname := m.Name
				wild := ""
				if i := strings.Index(fname, "Any"); i > 0 && f.si.Field(fname[:i]) != nil && f.si.Field(fname) == nil {
					wild = fname[i+3:]
					fname = fname[:i]
				}
				fi := f.si.Field(fname)
				if fi == nil {
					if strings.HasPrefix(m.Name, "With") || strings.HasSuffix(m.Name, "Map") {
						continue // builder API / whole-map accessors are outside this monitor
					}
					r.Violate("accessor-without-field", "method", fmt.Sprintf("%s.%s has no GoStruct field counterpart in %s", t.Elem().Name(), m.Name, f.si.Type.Name()), map[string]interface{}{"cfg": name})
					continue
				}
				// arguments
				nin := m.Type.NumIn() - 1
				args := make([]reflect.Value, nin)
				okArgs := true
				for a := 0; a < nin; a++ {
					vs := valuesFor(pool, m.Type.In(a+1))
					if len(vs) == 0 {
						okArgs = false
						break
					}
					args[a] = c29Pick(m.Type.In(a+1), vs, round+a*7+mi)
				}
				if !okArgs {
					r.Hit("skipped:no-value-for-parameter-type")
					continue
				}
				chain := f.chain + "." + m.Name
				var out reflect.Value
				w := map[string]interface{}{"cfg": name, "chain": chain}
				if r.Guard("accessor", w, func() { out = f.ps.Method(mi).Call(args)[0] }) {
					continue
				}
				// expected elements
				exp := append(append([]lib.PathElem(nil), f.elems...), pathElems(fi.Path)...)
				var nextSI *lib.StructInfo
				hasList := false
				switch fi.Kind {
				case lib.KList, lib.KOrdered:
					hasList = true
					nextSI = cfg.Info(fi.Elem)
					keys := map[string]string{}
					for _, kn := range nextSI.KeyNames {
						keys[kn] = "*"
					}
					// supplied keys: parameters are named after the key leaves (CamelCase), in key order minus the wildcarded ones
					kfs := nextSI.KeyFields()
					ai := 0
					// "<List>Any<K1><K2>": the named keys (a subsequence of the keys, in key
					// order) are the wildcarded ones; key names may be prefixes of each other
					var wildSet map[int]bool
					if wild != "" {
						var gn []string
						for _, kf := range kfs {
							if kf == nil {
								gn = append(gn, "\x00")
							} else {
								gn = append(gn, kf.GoName)
							}
						}
						sols := splitWildNames(wild, gn)
						if len(sols) != 1 || len(gn)-len(sols[0]) != nin {
							r.Hit("skipped:ambiguous-wildcard-accessor-name")
							continue
						}
						wildSet = sols[0]
					}
					for ki, kn := range nextSI.KeyNames {
						if kfs[ki] == nil {
							continue
						}
						isWild := wild != "" || (strings.Contains(m.Name, "Any") && nin == 0)
						if wild != "" {
							isWild = wildSet[ki]
						}
						if nin == 0 {
							isWild = true
						}
						if isWild {
							continue
						}
						if ai < len(args) {
							c, _ := lib.CanonScalar(args[ai], true)
							keys[kn] = lib.KeyLex(c)
							ai++
						}
					}
					exp[len(exp)-1].Keys = keys
				case lib.KContainer:
					nextSI = cfg.Info(fi.Elem)
				}
				for _, e := range f.elems {
					if len(e.Keys) > 0 {
						hasList = true
					}
				}
				r.Case(name+chain+fmt.Sprint(argStrings(args)), hasList)
				r.Hit("accessor:" + fi.Kind.String())
				if len(args) > 0 {
					for _, a := range args {
						c, _ := lib.CanonScalar(a, true)
						k := strings.SplitN(c, ":", 2)[0]
						if (k == "uint64" || k == "int64") && len(c) >= len(k)+19 {
							k += ":19-20-digits"
						}
						r.Hit("key-arg:" + k)
					}
				}
				// resolve
				ps, ok := out.Interface().(ygot.PathStruct)
				if !ok || out.IsNil() {
					r.Violate("accessor-returned-nil", fi.Kind.String(), chain, w)
					continue
				}
				var gp *gpb.Path
				var errs []error
				if r.Guard("ResolvePath", w, func() { gp, _, errs = ygot.ResolvePath(ps) }) {
					continue
				}
				if len(errs) > 0 {
					cls := "keys"
					if nin == 0 {
						cls = "no-keys"
					}
					if strings.Contains(fmt.Sprint(errs), "got unexpected root") && root.MethodByName("Id").IsValid() && root.MethodByName("Id").Type().NumIn() > 0 {
						// a top-level node named "id" generates DevicePath.Id(...), which hides the root's own Id() method
						r.Violate("resolve-error", "top-level-node-named-id-hides-root-Id-method", fmt.Sprintf("%s: %v", chain, errs), w)
						continue
					}
					for _, c := range lib.ErrClasses(fmt.Sprint(errs)) {
						r.Violate("resolve-error", fi.Kind.String()+":"+cls+":"+argKinds(args)+":"+c, fmt.Sprintf("%s: %v", chain, errs), w)
					}
					continue
				}
				got := gnmiElems(gp)
				if cfg.Simplify {
					// documented: an element all of whose keys are wildcards is rendered without keys
					se := append([]lib.PathElem(nil), exp...)
					for i := range se {
						all := len(se[i].Keys) > 0
						for _, v := range se[i].Keys {
							if v != "*" {
								all = false
							}
						}
						if all {
							se[i] = lib.PathElem{Name: se[i].Name, Pos: se[i].Pos}
							r.Hit("simplified-wildcard-element")
						}
					}
					exp = se
				}
				want := expectedElems(exp)
				if got != want {
					feat := fi.Kind.String()
					if namesOnly(got) != namesOnly(want) {
						feat += ":element-names"
					} else {
						feat = "keys:" + argKinds(args)
						if strings.Contains(got, "e+") || strings.Contains(got, "e-") {
							feat = "keys:decimal64-rendered-with-exponent"
						}
					}
					r.Violate("resolved-path-differs", feat, fmt.Sprintf("%s resolved to %s, expected %s", chain, got, want), map[string]interface{}{"cfg": name, "chain": chain, "got": got, "want": want})
				} else {
					r.Hit("resolved-ok")
					if wild != "" || (nin == 0 && (fi.Kind == lib.KList || fi.Kind == lib.KOrdered)) {
						r.Hit("resolved-ok:wildcard")
					}
					// every call must return the node's path, whatever the caller did with an
					// earlier result: overwrite the keys of the path just returned (as a client
					// building a wildcard query from it would) and resolve the same node again
					edited := 0
					for _, e := range gp.GetElem() {
						for k := range e.Key {
							e.Key[k] = "edited-by-caller"
							edited++
						}
						e.Name = e.Name + "-edited"
					}
					if edited > 0 {
						var gp2 *gpb.Path
						var errs2 []error
						if !r.Guard("ResolvePath", w, func() { gp2, _, errs2 = ygot.ResolvePath(ps) }) {
							r.Hit("re-resolved-after-caller-edit")
							if got2 := gnmiElems(gp2); len(errs2) > 0 || got2 != want {
								r.Violate("resolved-path-differs", "second-resolve-after-caller-edited-first-result", fmt.Sprintf("%s resolved to %s the second time (errors %v), expected %s", chain, got2, errs2, want), map[string]interface{}{"cfg": name, "chain": chain, "got": got2, "want": want})
							}
						}
					}
				}
				key := chain
				if nextSI != nil && !visited[key] {
					visited[key] = true
					// keep wildcard keys in the expected path for the nodes below
					visit(frame{out, nextSI, exp, chain}, depth+1, round)
				}
			}
		}
		for round := 0; round < tuples; round++ {
			visited = map[string]bool{}
			visit(frame{root, rootInfo, nil, "DeviceRoot"}, 0, round)
		}
		r.Sample(map[string]interface{}{"cfg": name, "key_types_in_pool": len(pool)})
	}
	if !any {
		r.Inconclusive("no configuration with path structs is linked")
	}
	r.RequireCov("configuration", "configuration:vtoc/C-paths", "configuration:vtoc/C-paths-builder", "configuration:vtoc/C-paths-nowild", "configuration:vtoc/C-paths-simplify", "configuration:vtocu/C-paths-wrapper", "key-arg:uint64:19-20-digits", "accessor:leaf", "accessor:list", "accessor:container", "resolved-ok", "resolved-ok:wildcard", "re-resolved-after-caller-edit")
}

func argStrings(args []reflect.Value) []string {
	var out []string
	for _, a := range args {
		c, _ := lib.CanonScalar(a, true)
		out = append(out, c)
	}
	return out
}

func argKinds(args []reflect.Value) string {
	var ks []string
	for _, a := range args {
		c, _ := lib.CanonScalar(a, true)
		k := c
		if i := strings.Index(c, ":"); i >= 0 {
			k = c[:i]
			if k == "float64" && strings.ContainsAny(c[i+1:], "eE") {
				k = "float64e"
			}
		}
		ks = append(ks, k)
	}
	sort.Strings(ks)
	return strings.Join(ks, "+")
}

func gnmiElems(p *gpb.Path) string {
	return lib.GNMIPathString(p)
}

func expectedElems(el []lib.PathElem) string {
	p := &gpb.Path{}
	for _, e := range el {
		pe := &gpb.PathElem{Name: e.Name}
		if len(e.Keys) > 0 {
			pe.Key = map[string]string{}
			for k, v := range e.Keys {
				pe.Key[k] = v // already lexical
			}
		}
		p.Elem = append(p.Elem, pe)
	}
	return lib.GNMIPathString(p)
}

func namesOnly(s string) string {
	var b strings.Builder
	depth := 0
	for _, c := range s {
		switch c {
		case '[':
			depth++
		case ']':
			depth--
		default:
			if depth == 0 {
				b.WriteRune(c)
			}
		}
	}
	return b.String()
}
