package mon

import (
	"encoding/json"
	"fmt"
	"math/rand"
	"reflect"
	"regexp"
	"sort"
	"strconv"
	"strings"

	"github.com/openconfig/goyang/pkg/yang"
	"github.com/openconfig/ygot/ygot"
	"github.com/openconfig/ygot/zzverif/lib"
)

func init() { Monitors["C05"] = runC05 }

// c05Subset regenerates tree (seed,i) and clears random fields.
func c05Subset(cfg *lib.Cfg, seed int64, i int, opt lib.GenOpts) ygot.GoStruct {
	g := lib.NewGen(cfg, seed, i, opt)
	t := g.Tree()
	g.MutOps = "clear"
	g.Mutate(t, 3+i%5)
	return t
}

var unkeyedRe = regexp.MustCompile(`^(.*?[^/\[]+)\[#(\d+)\](.*)$`)

// mergeModel is the executable set-union model of MergeStructs on observations.
type mergeModel struct {
	Conflicts     []string // classes of conflicts found
	LeafConflicts []string // paths of scalar-leaf conflicts
	OrderedAt     []string // paths of the ordered lists behind the ordered-list-* conflict classes
	Want          *lib.Obs
}

func parseLL(v string) []string {
	var out []string
	json.Unmarshal([]byte(v), &out)
	return out
}

func llString(vals []string) string {
	q := make([]string, len(vals))
	for i, v := range vals {
		q[i] = strconv.Quote(v)
	}
	return "[" + strings.Join(q, ",") + "]"
}

// unkeyedGroups returns list path -> entry index -> relative path -> value.
func unkeyedGroups(o *lib.Obs) map[string]map[int]map[string]string {
	out := map[string]map[int]map[string]string{}
	for p, l := range o.Leaves {
		m := unkeyedRe.FindStringSubmatch(p)
		if m == nil {
			continue
		}
		idx, _ := strconv.Atoi(m[2])
		if out[m[1]] == nil {
			out[m[1]] = map[int]map[string]string{}
		}
		if out[m[1]][idx] == nil {
			out[m[1]][idx] = map[string]string{}
		}
		out[m[1]][idx][m[3]] = l.Val
	}
	return out
}

func entrySig(e map[string]string) string {
	ks := make([]string, 0, len(e))
	for k := range e {
		ks = append(ks, k)
	}
	sort.Strings(ks)
	var b strings.Builder
	for _, k := range ks {
		b.WriteString(k + "=" + e[k] + ";")
	}
	return b.String()
}

func buildMergeModel(a, b *lib.Obs, overwrite bool) *mergeModel {
	m := &mergeModel{Want: a.Clone()}
	// unkeyed lists: equal, disjoint (append) or conflict
	ga, gb := unkeyedGroups(a), unkeyedGroups(b)
	shift := map[string]int{}
	skipList := map[string]bool{}
	for lp, eb := range gb {
		ea, both := ga[lp]
		if !both {
			continue
		}
		equal := len(ea) == len(eb)
		if equal {
			for i := range ea {
				if eb[i] == nil || entrySig(ea[i]) != entrySig(eb[i]) {
					equal = false
				}
			}
		}
		if equal {
			skipList[lp] = true
			continue
		}
		seen := map[string]bool{}
		for _, e := range ea {
			seen[entrySig(e)] = true
		}
		overlap := false
		for _, e := range eb {
			if seen[entrySig(e)] {
				overlap = true
			}
		}
		if overlap {
			m.Conflicts = append(m.Conflicts, "unkeyed-list-overlap")
			continue
		}
		shift[lp] = len(ea)
	}
	for p, lb := range b.Leaves {
		tp := p
		if um := unkeyedRe.FindStringSubmatch(p); um != nil {
			if skipList[um[1]] {
				continue
			}
			if s, ok := shift[um[1]]; ok {
				i, _ := strconv.Atoi(um[2])
				tp = fmt.Sprintf("%s[#%d]%s", um[1], i+s, um[3])
			}
		}
		la, both := a.Leaves[tp]
		if !both || tp != p {
			nl := *lb
			nl.Path = tp
			m.Want.Leaves[tp] = &nl
			continue
		}
		if la.Val == lb.Val {
			continue
		}
		if la.IsList {
			va, vb := parseLL(la.Val), parseLL(lb.Val)
			set := map[string]bool{}
			for _, x := range va {
				set[x] = true
			}
			overlap := false
			for _, x := range vb {
				if set[x] {
					overlap = true
				}
			}
			if overlap {
				m.Conflicts = append(m.Conflicts, "leaf-list-overlap")
				continue
			}
			nl := *la
			nl.Val = llString(append(append([]string{}, va...), vb...))
			nl.N = len(va) + len(vb)
			m.Want.Leaves[tp] = &nl
			continue
		}
		m.LeafConflicts = append(m.LeafConflicts, tp)
		if overwrite {
			m.Want.Leaves[tp] = lb
		} else {
			m.Conflicts = append(m.Conflicts, "leaf-conflict:"+lb.Feature())
		}
	}
	for p := range b.Presence {
		m.Want.Presence[p] = true
	}
	for p := range b.Entries {
		m.Want.Entries[p] = true
	}
	for lp, kb := range b.Order {
		ka, both := a.Order[lp]
		if !both {
			m.Want.Order[lp] = kb
			continue
		}
		inA := map[string]int{}
		for i, k := range ka {
			inA[k] = i
		}
		common := 0
		for _, k := range kb {
			if _, ok := inA[k]; ok {
				common++
			}
		}
		switch {
		case common == 0:
			m.Want.Order[lp] = append(append([]string{}, ka...), kb...)
		case common == len(kb):
			last := -1
			ok := true
			for _, k := range kb {
				if inA[k] < last {
					ok = false
				}
				last = inA[k]
			}
			if !ok {
				m.Conflicts = append(m.Conflicts, "ordered-list-order-conflict")
				m.OrderedAt = append(m.OrderedAt, lp)
			}
		default:
			m.Conflicts = append(m.Conflicts, "ordered-list-partial-overlap")
			m.OrderedAt = append(m.OrderedAt, lp)
		}
	}
	return m
}

func c05Opts(i int) lib.GenOpts {
	opt := lib.DefaultGen()
	opt.Unkeyed = i%3 == 0
	opt.OrderedSiblings = true
	return opt
}

func runC05(r *lib.Run) {
	r.Rule = "pairs (a,b): b = a regenerated with random fields cleared (subset), or leaves regenerated (conflict candidates), or ordered lists permuted, or an independent tree; outcome and result compared with an executable union model on the leaf-set observations; non-trivial = both trees have >=3 leaves; distinct by cfg+obs(a)+obs(b)"
	r.Assume("non-nil empty leaf-lists are not generated; order of merged leaf-lists/ordered lists under argument swap is don't-care")
	n := r.N(500, 10000)
	for _, cfg := range cfgsFor(r, quick3) {
		for i := 0; i < n; i++ {
			if skip(cfg, i) {
				continue
			}
			mk := func() (ygot.GoStruct, ygot.GoStruct, string) {
				a := lib.NewGen(cfg, r.Seed, i, c05Opts(i)).Tree()
				var b ygot.GoStruct
				kind := ""
				switch i % 6 {
				case 5:
					kind = "leaflist-overlap"
					g := lib.NewGen(cfg, r.Seed, i, c05Opts(i))
					b = g.Tree()
					g.LeafListOverlaps(b, 0.3)
				case 0:
					kind = "subset"
					b = c05Subset(cfg, r.Seed, i, c05Opts(i))
				case 1:
					kind = "regen"
					g := lib.NewGen(cfg, r.Seed, i, c05Opts(i))
					b = g.Tree()
					g.MutOps = "clear+regen"
					g.Mutate(b, 2+i%4)
				case 2:
					kind = "mutated"
					g := lib.NewGen(cfg, r.Seed, i, c05Opts(i))
					b = g.Tree()
					g.Mutate(b, 2+i%5)
				case 3:
					kind = "independent"
					b = lib.NewGen(cfg, r.Seed+991, i, c05Opts(i)).Tree()
				default:
					kind = "sparse-independent"
					o := c05Opts(i)
					o.Density = 0.25
					b = lib.NewGen(cfg, r.Seed+313, i, o).Tree()
				}
				return a, b, kind
			}
			c05Pair(r, cfg, i, mk)
		}
	}
	// set-but-empty binary leaves: b is a's twin, and one non-empty binary leaf of one of the
	// two is replaced by the empty (non-nil) byte string, so the same leaf holds "" on one side
	// and a non-empty value on the other - a conflict like any other pair of different values
	for _, cfg := range cfgsFor(r, quick3) {
		for i := 0; i < n/4; i++ {
			if skip(cfg, i) {
				continue
			}
			blank := func(t ygot.GoStruct) bool {
				rng := rand.New(rand.NewSource(r.Seed*7919 + int64(i)))
				s, ok := pick(rng, sites(cfg, t, func(nd *lib.Node, f *lib.FieldInfo, v reflect.Value) bool {
					return f.Kind == lib.KLeaf && f.YType != nil && f.YType.Kind == yang.Ybinary && v.Kind() == reflect.Slice &&
						v.Type().Elem().Kind() == reflect.Uint8 && v.Len() > 0 && !isKeyField(nd, f) && len(f.YType.Length) == 0
				}))
				if !ok {
					return false
				}
				s.v.Set(reflect.MakeSlice(s.v.Type(), 0, 0))
				return true
			}
			probe := lib.NewGen(cfg, r.Seed, i, c05Opts(i)).Tree()
			if !blank(probe) {
				r.Hit("empty-binary:no-site")
				continue
			}
			side := i % 2
			mk := func() (ygot.GoStruct, ygot.GoStruct, string) {
				a := lib.NewGen(cfg, r.Seed, i, c05Opts(i)).Tree()
				b := lib.NewGen(cfg, r.Seed, i, c05Opts(i)).Tree()
				if side == 0 {
					blank(a)
					return a, b, "empty-binary-in-first"
				}
				blank(b)
				return a, b, "empty-binary-in-second"
			}
			c05Pair(r, cfg, i, mk)
		}
	}
	r.RequireCov("outcome:ok", "outcome:conflict", "overwrite:ok", "swap:ok", "pair:subset", "pair:independent", "pair:leaflist-overlap", "conflict:leaf-list-overlap", "pair:empty-binary-in-first", "pair:empty-binary-in-second")
}

func c05Pair(r *lib.Run, cfg *lib.Cfg, idx int, mk func() (ygot.GoStruct, ygot.GoStruct, string)) {
	a, b, kind := mk()
	oa, ob := cfg.Observe(a), cfg.Observe(b)
	r.Hit("pair:" + kind)
	r.Case(cfg.Name+strings.Join(oa.Dump(), "\n")+"+"+strings.Join(ob.Dump(), "\n"), len(oa.Leaves) >= 3 && len(ob.Leaves) >= 3)
	w := func(more map[string]interface{}) map[string]interface{} {
		more["a"] = oa.Dump()
		more["b"] = ob.Dump()
		more["pair"] = kind
		return wit(cfg, r.Seed, idx, more)
	}
	model := buildMergeModel(oa, ob, false)
	var res ygot.GoStruct
	var err error
	if r.Guard("MergeStructs", w(map[string]interface{}{}), func() { res, err = ygot.MergeStructs(a, b) }) {
		return
	}
	confClass := func() string {
		cs := append([]string{}, model.Conflicts...)
		sort.Strings(cs)
		return cs[0]
	}
	switch {
	case err != nil && len(model.Conflicts) == 0:
		r.ViolateErr("spurious-conflict", err, w(map[string]interface{}{"error": err.Error()}))
	case err == nil && len(model.Conflicts) > 0:
		// attribute to each distinct conflict class only when it is the sole class
		cl := map[string]bool{}
		for _, c := range model.Conflicts {
			cl[c] = true
		}
		// the key-representation note of the node behind each class (wrapper-union keys are
		// pointers: entries with equal keys are never recognised as the same entry)
		noteOf := func(c string) string {
			note := ""
			switch {
			case strings.HasPrefix(c, "leaf-conflict"):
				for _, lp := range model.LeafConflicts {
					if l := oa.Leaves[lp]; l != nil {
						if n := cfg.KeyNote(l.Elems); n != "" {
							note = n
						}
					}
				}
			case strings.HasPrefix(c, "ordered-list"):
				for _, lp := range model.OrderedAt {
					for _, o := range []*lib.Obs{oa, ob} {
						for p, l := range o.Leaves {
							if strings.HasPrefix(p, lp+"[") {
								if n := cfg.KeyNote(l.Elems); n != "" {
									note = n
								}
							}
						}
					}
				}
			}
			return note
		}
		if len(cl) == 1 {
			r.Violate("conflict-not-detected", confClass()+noteOf(confClass()), "MergeStructs succeeded although the inputs conflict: "+confClass(), w(map[string]interface{}{"conflicts": model.Conflicts, "leaf_conflicts": model.LeafConflicts}))
		} else {
			r.Hit("multi-class-conflict-undetected")
			for c := range cl {
				r.Violate("conflict-not-detected", c+noteOf(c), "MergeStructs succeeded although the inputs conflict: "+c, w(map[string]interface{}{"conflicts": model.Conflicts, "leaf_conflicts": model.LeafConflicts}))
			}
		}
	case err != nil:
		r.Hit("outcome:conflict")
		for _, c := range model.Conflicts {
			r.Hit("conflict:" + c)
		}
	default:
		r.Hit("outcome:ok")
		for _, d := range lib.DiffObs(model.Want, cfg.Observe(res), lib.DiffOpts{}) {
			if d.What == "entry" {
				continue
			}
			r.Violate("result-not-union", featOf(d)+noteFor(cfg, model.Want, d), d.String(), w(map[string]interface{}{"delta": d.String()}))
		}
		if idx < 3 {
			r.Sample(map[string]interface{}{"cfg": cfg.Name, "pair": kind, "leaves_a": len(oa.Leaves), "leaves_b": len(ob.Leaves), "leaves_result": len(cfg.Observe(res).Leaves)})
		}
	}
	// inputs unchanged (representation included)
	for _, d := range lib.DiffObs(oa, cfg.Observe(a), lib.DiffOpts{Shape: true}) {
		r.Violate("input-mutated", "a:"+featOf(d), d.String(), w(map[string]interface{}{"delta": d.String()}))
	}
	for _, d := range lib.DiffObs(ob, cfg.Observe(b), lib.DiffOpts{Shape: true}) {
		r.Violate("input-mutated", "b:"+featOf(d), d.String(), w(map[string]interface{}{"delta": d.String()}))
	}
	// swap: when both directions succeed the leaf sets agree (order don't-care)
	if err == nil {
		var sw ygot.GoStruct
		var e2 error
		if !r.Guard("MergeStructs", w(map[string]interface{}{}), func() { sw, e2 = ygot.MergeStructs(b, a) }) && e2 == nil {
			r.Hit("swap:ok")
			x, y := cfg.Observe(res), cfg.Observe(sw)
			for _, d := range lib.DiffObs(x, y, lib.DiffOpts{IgnoreOrder: true}) {
				if d.What == "entry" {
					continue
				}
				if l := x.Leaves[d.Path]; l != nil && l.IsList {
					va, vb := parseLL(d.A), parseLL(d.B)
					sort.Strings(va)
					sort.Strings(vb)
					if strings.Join(va, "\x00") == strings.Join(vb, "\x00") {
						continue
					}
				}
				if strings.Contains(d.Path, "[#") {
					continue // unkeyed entries are positional: order under swap is don't-care
				}
				r.Violate("swap-differs", featOf(d)+noteFor(cfg, x, d), d.String(), w(map[string]interface{}{"delta": d.String()}))
			}
		}
	}
	// MergeOverwriteExistingFields: only scalar-leaf conflicts => success and b wins
	a2, b2, _ := mk()
	om := buildMergeModel(oa, ob, true)
	if len(om.Conflicts) == 0 {
		var ores ygot.GoStruct
		var e3 error
		if r.Guard("MergeStructs+Overwrite", w(map[string]interface{}{}), func() {
			ores, e3 = ygot.MergeStructs(a2, b2, &ygot.MergeOverwriteExistingFields{})
		}) {
			return
		}
		if e3 != nil {
			r.ViolateErr("overwrite-fails", e3, w(map[string]interface{}{"leaf_conflicts": om.LeafConflicts}))
			return
		}
		r.Hit("overwrite:ok")
		if len(om.LeafConflicts) > 0 {
			r.Hit("overwrite:with-leaf-conflicts")
		}
		for _, d := range lib.DiffObs(om.Want, cfg.Observe(ores), lib.DiffOpts{}) {
			if d.What == "entry" {
				continue
			}
			r.Violate("overwrite-result", featOf(d)+noteFor(cfg, om.Want, d), d.String(), w(map[string]interface{}{"delta": d.String(), "leaf_conflicts": om.LeafConflicts}))
		}
	}
}

// noteFor adds the key-representation note of the leaf behind a delta.
func noteFor(cfg *lib.Cfg, o *lib.Obs, d lib.Delta) string {
	if l := o.Leaves[d.Path]; l != nil {
		return cfg.KeyNote(l.Elems)
	}
	if d.What == "order" {
		// the list itself: the note of any leaf inside one of its entries
		for _, l := range o.Leaves {
			if strings.HasPrefix(l.Path, d.Path+"[") {
				return cfg.KeyNote(l.Elems)
			}
		}
	}
	return ""
}
