package mon

import (
	"fmt"
	"math/rand"
	"reflect"
	"regexp"
	"sort"
	"strings"

	gpb "github.com/openconfig/gnmi/proto/gnmi"
	"github.com/openconfig/ygot/gnmidiff"
	"github.com/openconfig/ygot/ygot"
	"github.com/openconfig/ygot/ytypes"
	"github.com/openconfig/ygot/zzverif/lib"
)

func init() { Monitors["C23"] = runC23 }

// notifsFor renders leaves as scalar updates split over a few notifications
// with different prefixes.
func notifsFor(leaves []*lib.Leaf, rng *rand.Rand) []*gpb.Notification {
	var ns []*gpb.Notification
	i := 0
	for i < len(leaves) {
		n := 1 + rng.Intn(4)
		if i+n > len(leaves) {
			n = len(leaves) - i
		}
		chunk := leaves[i : i+n]
		i += n
		// common prefix of the chunk
		k := len(chunk[0].Elems) - 1
		for _, l := range chunk[1:] {
			j := 0
			for j < k && j < len(l.Elems)-1 && l.Elems[j].String() == chunk[0].Elems[j].String() {
				j++
			}
			k = j
		}
		if k > 0 {
			k = rng.Intn(k + 1)
		}
		nf := &gpb.Notification{Timestamp: 1, Prefix: lib.ToGNMIPath(chunk[0].Elems[:k])}
		if k == 0 && rng.Intn(2) == 0 {
			nf.Prefix = nil // no prefix at all, absolute paths
		}
		for _, l := range chunk {
			tv, err := lib.LeafTV(l)
			if err != nil {
				continue
			}
			nf.Update = append(nf.Update, &gpb.Update{Path: lib.ToGNMIPath(l.Elems[k:]), Val: tv})
		}
		ns = append(ns, nf)
	}
	return ns
}

func canonKeySet(cfg *lib.Cfg, m map[string]interface{}) []string {
	var out []string
	for k := range m {
		out = append(out, canonDiffKey(cfg, k))
	}
	sort.Strings(out)
	return out
}

func runC23(r *lib.Run) {
	r.Rule = "SetRequest r built from a tree (replace of a container/list entry with a JSON payload, or leaf updates, optionally with deletes); L = leaves its intent writes, from the C13 reference interpreter on an empty model; notifications carrying exactly L (scalar updates, split over notifications and prefixes); then one edit: drop a leaf, change a leaf's value, add a leaf under a subtree r deletes or replaces; oracle: unedited => nothing missing/extra/mismatched and Common = L; edited => exactly that leaf in Missing / Mismatched / Extra; non-trivial = |L| >= 3; distinct by cfg+request+edit"
	r.Assume("OpenConfig-style configuration with the generated schema; key values avoid characters whose path-string form is a C08 finding; empty-typed leaves, 64-bit numbers and decimals are excluded from the edited leaf because their JSON/TypedValue forms are compared textually by design")
	n := r.N(2000, 40000)
	for _, cn := range []string{"vtoc/C-simple", "vtoc/C-opstate"} {
		if r.Quick() && cn != "vtoc/C-simple" {
			continue
		}
		cfg := lib.Get(cn)
		for i := 0; i < n; i++ {
			if skip(cfg, i) {
				continue
			}
			opt := lib.DefaultGen()
			opt.Hostile = false
			opt.OrderedSiblings = true
			opt.EmptyLeafLists = i%4 == 3
			t := lib.NewGen(cfg, r.Seed, i, opt).Tree()
			// every fifth case runs without a schema; values whose JSON and TypedValue
			// forms gnmidiff documents as not comparable there are removed from the tree
			noSchema := i%5 == 4
			if noSchema {
				stripLossy(cfg, t)
			}
			o := cfg.Observe(t)
			nodes := dataNodes(cfg, t)
			if len(nodes) == 0 {
				continue
			}
			rng := rand.New(rand.NewSource(r.Seed*919 + int64(i)))
			scope := nodes[rng.Intn(len(nodes))]
			sch := cfg.Schema()
			mode := "schema"
			if noSchema {
				sch, mode = nil, "no-schema"
			}
			r.Hit("mode:" + mode)
			// request: replace scope with JSON (or leaf updates), prefix split
			k := rng.Intn(len(scope.Path) + 1)
			prefix := scope.Path[:k]
			req := &gpb.SetRequest{Prefix: lib.ToGNMIPath(prefix)}
			kind := "replace-json"
			model := lib.NewModel(cfg, lib.NewObs())
			switch i % 3 {
			case 0, 1:
				ju, err := jsonUpdate(o, prefix, scope.Path)
				if err != nil {
					continue
				}
				req.Replace = []*gpb.Update{ju}
				model.WriteSubtree(o, scope.Path)
			default:
				kind = "leaf-updates"
				ups := leafUpdates(o, scope.Path, false)
				for _, u := range ups {
					u.Path = &gpb.Path{Elem: append(append([]*gpb.PathElem{}, lib.ToGNMIPath(scope.Path[k:]).Elem...), u.Path.Elem...)}
				}
				req.Update = ups
				model.WriteSubtree(o, scope.Path)
			}
			// L: intent leaves (key leaves implied by the path of a replace are not written by the payload unless present in it)
			L := ocLeaves(o, scope.Path, kind == "replace-json")
			if len(L) == 0 {
				continue
			}
			r.Hit("request:" + kind)
			edit := []string{"none", "drop", "change", "add"}[i%4]
			if edit == "add" && kind != "replace-json" {
				edit = "none" // extras are only defined under deleted/replaced subtrees
			}
			r.Hit("edit:" + edit)
			leaves := append([]*lib.Leaf(nil), L...)
			var target *lib.Leaf
			editable := func(l *lib.Leaf) bool {
				return l.Field != nil && !l.IsList && !strings.HasPrefix(l.Val, "empty:") && !strings.HasPrefix(l.Val, "int64:") && !strings.HasPrefix(l.Val, "uint64:") && !strings.HasPrefix(l.Val, "float64:") && !strings.HasPrefix(l.Val, "bin:") && !isKeyLeafOf(cfg, t, l)
			}
			switch edit {
			case "drop":
				var c []int
				for j, l := range leaves {
					if editable(l) {
						c = append(c, j)
					}
				}
				if len(c) == 0 {
					edit = "none"
					break
				}
				j := c[rng.Intn(len(c))]
				target = leaves[j]
				leaves = append(leaves[:j:j], leaves[j+1:]...)
			case "change":
				var c []int
				for j, l := range leaves {
					if editable(l) && (strings.HasPrefix(l.Val, "string:") || strings.HasPrefix(l.Val, "uint") || strings.HasPrefix(l.Val, "int") || strings.HasPrefix(l.Val, "bool:")) {
						c = append(c, j)
					}
					// a leaf-list whose entries are reordered is a changed value as well
					if l.Field != nil && l.IsList && !strings.Contains(l.Val, "int64:") && !strings.Contains(l.Val, "float64:") && !strings.Contains(l.Val, "bin:") && !strings.Contains(l.Val, "empty:") {
						if vs := parseLL(l.Val); len(vs) >= 2 && vs[0] != vs[len(vs)-1] {
							c = append(c, j)
						}
					}
				}
				if len(c) == 0 {
					edit = "none"
					break
				}
				j := c[rng.Intn(len(c))]
				target = leaves[j]
				nl := *target
				switch {
				case nl.IsList:
					vs := parseLL(nl.Val)
					vs[0], vs[len(vs)-1] = vs[len(vs)-1], vs[0]
					nl.Val = llString(vs)
					r.Hit("edit:change:leaf-list-reordered")
				case strings.HasPrefix(nl.Val, "string:"):
					nl.Val += "-changed"
				case strings.HasPrefix(nl.Val, "bool:true"):
					nl.Val = "bool:false"
				case strings.HasPrefix(nl.Val, "bool:false"):
					nl.Val = "bool:true"
				default:
					kd := nl.Val[:strings.Index(nl.Val, ":")]
					if strings.HasSuffix(nl.Val, ":1") {
						nl.Val = kd + ":2"
					} else {
						nl.Val = kd + ":1"
					}
				}
				leaves[j] = &nl
			case "add":
				// a leaf of the donor tree that lies under the replaced scope but is not in L
				donor := lib.NewGen(cfg, r.Seed+123, i, opt).Tree()
				od := cfg.Observe(donor)
				// the added leaf must live in an entry that L already knows (otherwise its key leaves are extra too)
				inL := map[string]bool{}
				for _, l := range L {
					inL[l.Path] = true
				}
				for _, p := range od.SortedLeafPaths() {
					l := od.Leaves[p]
					if lib.ElemsUnder(l.Elems, scope.Path) && !inL[p] && editable(l) && !strings.Contains(p, "[#") {
						known := true
						for _, kl := range cfg.KeyLeaves(l.Elems) {
							if !inL[kl.Path] && len(kl.Elems) > len(scope.Path) {
								known = false
							}
						}
						if !known {
							continue
						}
						target = l
						break
					}
				}
				if target == nil {
					edit = "none"
					break
				}
				leaves = append(leaves, target)
			}
			ns := notifsFor(leaves, rng)
			// a stream may carry a leaf several times, the last value counts: v, another value, v again
			// (a flapping leaf) ahead of the notifications built above leaves the final state unchanged
			if rng.Intn(2) == 0 {
				var c []*lib.Leaf
				for _, l := range leaves {
					if editable(l) && !l.IsList && (strings.HasPrefix(l.Val, "string:") || strings.HasPrefix(l.Val, "bool:") || strings.HasPrefix(l.Val, "uint8:") || strings.HasPrefix(l.Val, "uint16:") || strings.HasPrefix(l.Val, "uint32:")) {
						c = append(c, l)
					}
				}
				if len(c) > 0 {
					x := c[rng.Intn(len(c))]
					alt := *x
					switch {
					case strings.HasPrefix(alt.Val, "string:"):
						alt.Val += "-flap"
					case alt.Val == "bool:true":
						alt.Val = "bool:false"
					case alt.Val == "bool:false":
						alt.Val = "bool:true"
					case strings.HasSuffix(alt.Val, ":1"):
						alt.Val = alt.Val[:strings.Index(alt.Val, ":")] + ":2"
					default:
						alt.Val = alt.Val[:strings.Index(alt.Val, ":")] + ":1"
					}
					tvx, e1 := lib.LeafTV(x)
					tva, e2 := lib.LeafTV(&alt)
					if e1 == nil && e2 == nil {
						pre := []*gpb.Notification{
							{Timestamp: 1, Update: []*gpb.Update{{Path: lib.ToGNMIPath(x.Elems), Val: tvx}}},
							{Timestamp: 1, Update: []*gpb.Update{{Path: lib.ToGNMIPath(x.Elems), Val: tva}}},
						}
						ns = append(pre, ns...)
						r.Hit("stream:flapping-leaf")
					}
				}
			}
			r.Case(cfg.Name+edit+req.String()+fmt.Sprint(len(ns)), len(L) >= 3)
			w := wit(cfg, r.Seed, i, map[string]interface{}{"request": lib.Clip(req.String(), 4000), "edit": edit, "notifications": notifStrings(ns)})
			if target != nil {
				w["edited_leaf"] = target.Path
			}
			var d gnmidiff.SetToNotifsDiff
			var err error
			if r.Guard("DiffSetRequestToNotifications", w, func() { d, err = gnmidiff.DiffSetRequestToNotifications(req, ns, sch) }) {
				continue
			}
			if err != nil {
				r.Hit("error")
				for _, c := range lib.ErrClasses(err.Error()) {
					r.Hit("error-class:" + c)
				}
				continue
			}
			miss, extra, mism := canonKeySet(cfg, d.MissingUpdates), canonKeySet(cfg, d.ExtraUpdates), canonMismatch(cfg, d)
			want := map[string][]string{"missing": nil, "extra": nil, "mismatched": nil}
			switch edit {
			case "drop":
				want["missing"] = []string{target.Path}
			case "change":
				want["mismatched"] = []string{target.Path}
			case "add":
				want["extra"] = []string{target.Path}
			}
			got := map[string][]string{"missing": miss, "extra": extra, "mismatched": mism}
			okAll := true
			for _, cls := range []string{"missing", "extra", "mismatched"} {
				if strings.Join(got[cls], "\n") != strings.Join(want[cls], "\n") {
					okAll = false
					feat := mode + ":" + kind + ":" + edit + ":" + cls
					// classify the first unexpected key
					unexpected := diffStrings(got[cls], want[cls])
					absent := diffStrings(want[cls], got[cls])
					detail := fmt.Sprintf("%s: unexpected %v, not reported %v", cls, unexpected, absent)
					lf := "-"
					if len(unexpected) > 0 {
						if l, ok := o.Leaves[unexpected[0]]; ok {
							lf = lib.LeafFeat(l)
						} else {
							lf = "non-leaf-or-key-path"
						}
						feat += ":unexpected:" + lf
					} else {
						if target != nil {
							lf = lib.LeafFeat(target)
						}
						feat += ":not-reported:" + lf
					}
					if strings.Contains(strings.Join(got["missing"], " ")+strings.Join(got["extra"], " "), "e+0") || bigNumericKey(target) || bigNumericKeyIn(got[cls]) || bigNumericKeyIn(want[cls]) {
						// JSON numbers used as list keys are rendered with %v of a float64 (1e+06 form) when flattening
						feat = "numeric-list-key>=1e6-rendered-with-exponent"
					}
					r.Violate("classification", feat, detail, w)
				}
			}
			if okAll {
				r.Hit("classified-ok:" + edit)
				r.Hit("classified-ok:" + mode)
			}
			if edit == "none" && okAll {
				// Common = L
				if len(d.CommonUpdates) < len(L) {
					feat := mode + ":" + kind
					for _, l := range L {
						if bigNumericKey(l) {
							feat = "numeric-list-key>=1e6-rendered-with-exponent"
						}
					}
					r.Violate("common-incomplete", feat, fmt.Sprintf("%d common updates for %d intent leaves", len(d.CommonUpdates), len(L)), w)
				}
			}
			if i < 2 {
				r.Sample(map[string]interface{}{"cfg": cfg.Name, "request": kind, "edit": edit, "intent_leaves": len(L), "notifications": len(ns)})
			}
		}
	}
	r.RequireCov("request:replace-json", "request:leaf-updates", "edit:none", "edit:drop", "edit:change", "edit:add", "classified-ok:none", "classified-ok:drop", "classified-ok:change", "classified-ok:schema", "classified-ok:no-schema")
}

// lossyKind reports Go kinds whose JSON form (string, base64, [null]) differs
// from their scalar TypedValue form.
func lossyKind(t reflect.Type) bool {
	for t.Kind() == reflect.Ptr {
		t = t.Elem()
	}
	switch t.Kind() {
	case reflect.Uint64, reflect.Float64:
		return true
	case reflect.Int64:
		return !t.Implements(reflect.TypeOf((*ygot.GoEnum)(nil)).Elem())
	case reflect.Slice:
		return t.Elem().Kind() == reflect.Uint8
	case reflect.Bool:
		return t.Name() == "YANGEmpty"
	}
	return false
}

func lossyValue(v reflect.Value) bool {
	switch v.Kind() {
	case reflect.Interface:
		return !v.IsNil() && lossyValue(v.Elem())
	case reflect.Ptr:
		if v.IsNil() {
			return false
		}
		if v.Elem().Kind() == reflect.Struct && v.Elem().NumField() == 1 {
			return lossyValue(v.Elem().Field(0)) // wrapper union
		}
		return lossyKind(v.Type())
	case reflect.Slice:
		if v.Type().Elem().Kind() == reflect.Uint8 {
			return true
		}
		for i := 0; i < v.Len(); i++ {
			if lossyValue(v.Index(i)) {
				return true
			}
		}
		return lossyKind(v.Type().Elem())
	}
	return lossyKind(v.Type())
}

// stripLossy removes leaves, leaf-lists and lists keyed by values of lossy kinds.
func stripLossy(cfg *lib.Cfg, t ygot.GoStruct) {
	for _, n := range cfg.Nodes(t) {
		sv := n.V.Elem()
		for _, f := range n.Info.Fields {
			fv := sv.Field(f.Idx)
			switch f.Kind {
			case lib.KLeaf, lib.KLeafList:
				if fv.IsZero() {
					continue
				}
				keyLeaf := false
				if n.IsEntry {
					for _, kf := range n.Info.KeyFields() {
						if kf != nil && kf.Idx == f.Idx {
							keyLeaf = true
						}
					}
				}
				if !keyLeaf && lossyValue(fv) {
					fv.Set(reflect.Zero(fv.Type()))
				}
			case lib.KList, lib.KOrdered:
				for _, kf := range cfg.Info(f.Elem).KeyFields() {
					if kf == nil {
						continue
					}
					kt := f.Elem.Elem().Field(kf.Idx).Type
					if lossyKind(kt) {
						fv.Set(reflect.Zero(fv.Type()))
					} else if kt.Kind() == reflect.Interface && f.Kind == lib.KList && !fv.IsNil() {
						// union keys: the entries whose key holds a member of a lossy kind
						for _, mk := range fv.MapKeys() {
							if e := fv.MapIndex(mk); !e.IsNil() && lossyValue(e.Elem().Field(kf.Idx)) {
								fv.SetMapIndex(mk, reflect.Value{})
							}
						}
						if fv.Len() == 0 {
							fv.Set(reflect.Zero(fv.Type()))
						}
					}
				}
			case lib.KUnkeyed:
				fv.Set(reflect.Zero(fv.Type()))
			}
		}
	}
}

func canonMismatch(cfg *lib.Cfg, d gnmidiff.SetToNotifsDiff) []string {
	var out []string
	for k := range d.MismatchedUpdates {
		out = append(out, canonDiffKey(cfg, k))
	}
	sort.Strings(out)
	return out
}

func diffStrings(a, b []string) []string {
	in := map[string]bool{}
	for _, x := range b {
		in[x] = true
	}
	var out []string
	for _, x := range a {
		if !in[x] {
			out = append(out, x)
		}
	}
	return out
}

// isKeyLeafOf reports whether leaf l is a key leaf of a list entry of tree t.
func isKeyLeafOf(cfg *lib.Cfg, t interface{}, l *lib.Leaf) bool {
	for _, kl := range cfg.KeyLeaves(l.Elems[:len(l.Elems)-1]) {
		if kl.Path == l.Path {
			return true
		}
	}
	// the entry's own key when the leaf sits directly in a list entry
	if l.Field != nil {
		for _, ap := range l.Field.AltPaths {
			if len(ap) == 1 {
				if n := len(l.Elems) - len(l.Field.Path) - 1; n >= 0 {
					if _, ok := l.Elems[n].Keys[ap[0]]; ok {
						return true
					}
				}
			}
		}
	}
	return false
}

var _ = ytypes.Schema{}

// ocLeaves lists the leaves under scope plus, for OpenConfig-style lists, the key
// leaf that sits directly under each entry (compressed structs fold it into
// config/<key>).
func ocLeaves(o *lib.Obs, scope []lib.PathElem, scopeKey bool) []*lib.Leaf {
	var out []*lib.Leaf
	seen := map[string]bool{}
	for _, p := range o.SortedLeafPaths() {
		l := o.Leaves[p]
		if !lib.ElemsUnder(l.Elems, scope) || strings.Contains(p, "[#") {
			continue
		}
		out = append(out, l)
		seen[p] = true
	}
	for _, l := range append([]*lib.Leaf(nil), out...) {
		for i := len(scope) - 1; i < len(l.Elems); i++ {
			if i < 0 {
				continue
			}
			for kn, kv := range l.Elems[i].Keys {
				kp := append(append([]lib.PathElem(nil), l.Elems[:i+1]...), lib.PathElem{Name: kn, Pos: -1})
				ps := lib.PathString(kp)
				if seen[ps] || i < len(scope)-1 || (i == len(scope)-1 && !scopeKey) {
					continue
				}
				if i == len(scope)-1 && len(scope) > 0 {
					// the scope entry's own key: part of a JSON payload rendered for the entry
				}
				seen[ps] = true
				out = append(out, &lib.Leaf{Path: ps, Elems: kp, Val: kv})
			}
		}
	}
	sort.Slice(out, func(i, j int) bool { return out[i].Path < out[j].Path })
	return out
}

var bigKeyRe = regexp.MustCompile(`="u?int(8|16|32|64):-?[0-9]{7,}"`)

func bigNumericKey(l *lib.Leaf) bool { return l != nil && bigKeyRe.MatchString(l.Path) }

func bigNumericKeyIn(paths []string) bool {
	for _, p := range paths {
		if bigKeyRe.MatchString(p) {
			return true
		}
	}
	return false
}
