package mon

import (
	"encoding/json"
	"fmt"
	"math"
	"math/big"
	"math/rand"
	"reflect"
	"sort"
	"strconv"
	"strings"

	gpb "github.com/openconfig/gnmi/proto/gnmi"
	"github.com/openconfig/goyang/pkg/yang"
	"github.com/openconfig/ygot/ytypes"
	"github.com/openconfig/ygot/zzverif/lib"
)

func init() { Monitors["C18"] = runC18 }

// leafTarget is one leaf (not union, not leafref) addressed through a concrete path.
type leafTarget struct {
	elems []lib.PathElem
	f     *lib.FieldInfo
	kind  string // int8..uint64, decimal64, string, boolean, empty, binary, enumeration, identityref
}

func findLeafTargets(cfg *lib.Cfg, seed int64) []leafTarget {
	seen := map[string]bool{}
	var out []leafTarget
	for i := 0; i < 30; i++ {
		opt := lib.DefaultGen()
		opt.Density = 0.85
		opt.Hostile = false
		opt.OrderedSiblings = true
		t := lib.NewGen(cfg, seed+4141, i, opt).Tree()
		for _, n := range cfg.Nodes(t) {
			if n.Keyless {
				continue
			}
			for _, f := range n.Info.Fields {
				if (f.Kind != lib.KLeaf && f.Kind != lib.KLeafList) || f.LeafrefPath != "" || f.YType.Kind == yang.Yunion || isKeyField(n, f) {
					continue
				}
				id := n.Info.Type.Name() + "." + f.GoName
				if seen[id] {
					continue
				}
				seen[id] = true
				out = append(out, leafTarget{elems: append(append([]lib.PathElem(nil), n.Path...), pathElems(f.Path)...), f: f, kind: f.YType.Kind.String()})
			}
		}
	}
	return out
}

// jsonAt wraps value v into the JSON document that places it at elems.
func jsonAt(cfg *lib.Cfg, elems []lib.PathElem, v interface{}) map[string]interface{} {
	keyLeaves := cfg.KeyLeaves(elems)
	root := map[string]interface{}{}
	cur := root
	for i, e := range elems {
		if i == len(elems)-1 {
			cur[e.Name] = v
			break
		}
		nxt := map[string]interface{}{}
		if len(e.Keys) > 0 {
			cur[e.Name] = []interface{}{nxt}
			// key leaves of this entry
			for _, kl := range keyLeaves {
				if len(kl.Elems) > i+1 && lib.PathString(kl.Elems[:i+1]) == lib.PathString(elems[:i+1]) {
					jv, _ := lib.ScalarJSON(kl.Val)
					o := nxt
					rel := kl.Elems[i+1:]
					for j, re := range rel {
						if j == len(rel)-1 {
							o[re.Name] = jv
						} else {
							c, _ := o[re.Name].(map[string]interface{})
							if c == nil {
								c = map[string]interface{}{}
								o[re.Name] = c
							}
							o = c
						}
					}
				}
			}
		} else {
			if ex, ok := cur[e.Name].(map[string]interface{}); ok {
				nxt = ex
			} else {
				cur[e.Name] = nxt
			}
		}
		// descend (entries may already have a container created for key leaves)
		if len(e.Keys) == 0 {
			cur = nxt
		} else {
			cur = nxt
		}
	}
	return root
}

type c18Input struct {
	class   string      // input class for signatures
	verdict string      // accept, reject, dontcare
	json    interface{} // JSON value (json.RawMessage for exact text)
	want    string      // canonical value when verdict == accept
}

func raw(s string) json.RawMessage { return json.RawMessage(s) }

func intBounds(kind string) (lo, hi *big.Int) {
	m := map[string][2]string{
		"int8": {"-128", "127"}, "int16": {"-32768", "32767"}, "int32": {"-2147483648", "2147483647"}, "int64": {"-9223372036854775808", "9223372036854775807"},
		"uint8": {"0", "255"}, "uint16": {"0", "65535"}, "uint32": {"0", "4294967295"}, "uint64": {"0", "18446744073709551615"},
	}
	b := m[kind]
	lo, _ = new(big.Int).SetString(b[0], 10)
	hi, _ = new(big.Int).SetString(b[1], 10)
	return
}

// jsonInputs builds the classified JSON inputs for one scalar YANG kind.
func jsonInputs(t leafTarget, rng *rand.Rand, nrand int) []c18Input {
	var in []c18Input
	wrong := func(except ...string) {
		all := map[string]string{"object": `{}`, "array": `[]`, "true": `true`, "string": `"abc"`, "number": `7`, "null-array": `[null]`}
		for k, v := range all {
			skip := false
			for _, e := range except {
				if e == k {
					skip = true
				}
			}
			if !skip {
				in = append(in, c18Input{class: "wrong-kind:" + k, verdict: "reject", json: raw(v)})
			}
		}
	}
	switch t.kind {
	case "int8", "int16", "int32", "uint8", "uint16", "uint32":
		lo, hi := intBounds(t.kind)
		goKind := t.kind
		for _, v := range []*big.Int{lo, hi, big.NewInt(0), big.NewInt(1)} {
			in = append(in, c18Input{class: "canonical-number", verdict: "accept", json: raw(v.String()), want: goKind + ":" + v.String()})
		}
		for k := 0; k < nrand; k++ {
			v := new(big.Int).Rand(rng, new(big.Int).Add(new(big.Int).Sub(hi, lo), big.NewInt(1)))
			v.Add(v, lo)
			in = append(in, c18Input{class: "canonical-number", verdict: "accept", json: raw(v.String()), want: goKind + ":" + v.String()})
			// fractional neighbours
			f := v.String() + "." + strconv.Itoa(1+rng.Intn(9))
			in = append(in, c18Input{class: "fractional-number", verdict: "reject", json: raw(f)})
		}
		in = append(in,
			c18Input{class: "fractional-number", verdict: "reject", json: raw("1.5")},
			c18Input{class: "fractional-number", verdict: "reject", json: raw(hi.String() + ".9")},
			c18Input{class: "fractional-number", verdict: "reject", json: raw("0.0000001")},
			c18Input{class: "out-of-range-number", verdict: "reject", json: raw(new(big.Int).Add(hi, big.NewInt(1)).String())},
			c18Input{class: "out-of-range-number", verdict: "reject", json: raw(new(big.Int).Sub(lo, big.NewInt(1)).String())},
			c18Input{class: "out-of-range-number", verdict: "reject", json: raw("1e30")},
			c18Input{class: "out-of-range-number", verdict: "reject", json: raw("-1e30")},
			c18Input{class: "exponent-number", verdict: "dontcare", json: raw("1e1")},
			c18Input{class: "number-as-string", verdict: "dontcare", json: raw(`"5"`)},
		)
		wrong("number", "string")
		in = append(in, c18Input{class: "wrong-kind:string", verdict: "reject", json: raw(`"abc"`)})
	case "int64", "uint64":
		lo, hi := intBounds(t.kind)
		for _, v := range []*big.Int{lo, hi, big.NewInt(0), big.NewInt(1)} {
			in = append(in, c18Input{class: "canonical-string", verdict: "accept", json: raw(`"` + v.String() + `"`), want: t.kind + ":" + v.String()})
		}
		for k := 0; k < nrand; k++ {
			v := new(big.Int).Rand(rng, new(big.Int).Add(new(big.Int).Sub(hi, lo), big.NewInt(1)))
			v.Add(v, lo)
			in = append(in, c18Input{class: "canonical-string", verdict: "accept", json: raw(`"` + v.String() + `"`), want: t.kind + ":" + v.String()})
		}
		for _, s := range []string{"1.5", "1e3", "0x10", "1_0", " 5", "5 ", "", "abc", "5abc", "١٢", new(big.Int).Add(hi, big.NewInt(1)).String(), new(big.Int).Sub(lo, big.NewInt(1)).String(), "NaN"} {
			in = append(in, c18Input{class: "malformed-string:" + classifyBad(s), verdict: "reject", json: raw(strconv.Quote(s))})
		}
		in = append(in, c18Input{class: "plus-sign", verdict: "dontcare", json: raw(`"+5"`)}, c18Input{class: "leading-zero", verdict: "dontcare", json: raw(`"05"`)},
			c18Input{class: "json-number-for-64bit", verdict: "dontcare", json: raw("5")},
			c18Input{class: "fractional-number", verdict: "reject", json: raw("1.5")})
		wrong("number", "string")
	case "decimal64":
		fd := t.f.YType.FractionDigits
		for _, s := range []string{"0", "1.5", "-0.5", "10", "0." + strings.Repeat("0", fd-1) + "1"} {
			f, _ := strconv.ParseFloat(s, 64)
			in = append(in, c18Input{class: "canonical-string", verdict: "accept", json: raw(`"` + s + `"`), want: "float64:" + strconv.FormatFloat(f, 'g', -1, 64)})
		}
		for _, s := range []string{"1e1", "1E-2", "0x1p-2", "1_0", "NaN", "Inf", "-Inf", "", "abc", " 1.5", "1.5 ", "1.5.5", "--1"} {
			in = append(in, c18Input{class: "malformed-string:" + classifyBad(s), verdict: "reject", json: raw(strconv.Quote(s))})
		}
		in = append(in, c18Input{class: "json-number-for-decimal64", verdict: "dontcare", json: raw("1.5")},
			c18Input{class: "too-many-fraction-digits", verdict: "dontcare", json: raw(`"0.` + strings.Repeat("1", fd+1) + `"`)},
			c18Input{class: "plus-sign", verdict: "dontcare", json: raw(`"+1.5"`)})
		wrong("number", "string")
	case "string":
		in = append(in, c18Input{class: "canonical-string", verdict: "accept", json: raw(`"ab"`), want: "string:ab"})
		wrong("string")
	case "boolean":
		in = append(in, c18Input{class: "canonical", verdict: "accept", json: raw("true"), want: "bool:true"}, c18Input{class: "canonical", verdict: "accept", json: raw("false"), want: "bool:false"},
			c18Input{class: "wrong-kind:string-true", verdict: "reject", json: raw(`"true"`)}, c18Input{class: "wrong-kind:number", verdict: "reject", json: raw("1")})
		wrong("true", "number")
	case "empty":
		in = append(in, c18Input{class: "canonical", verdict: "accept", json: raw("[null]"), want: "empty:true"},
			c18Input{class: "not-[null]:empty-array", verdict: "reject", json: raw("[]")}, c18Input{class: "not-[null]:true", verdict: "reject", json: raw("true")},
			c18Input{class: "not-[null]:two-nulls", verdict: "reject", json: raw("[null,null]")}, c18Input{class: "not-[null]:empty-string", verdict: "reject", json: raw(`""`)},
			c18Input{class: "not-[null]:array-of-string", verdict: "reject", json: raw(`["x"]`)}, c18Input{class: "not-[null]:object", verdict: "reject", json: raw(`{}`)}, c18Input{class: "not-[null]:number", verdict: "reject", json: raw(`0`)})
	case "binary":
		in = append(in, c18Input{class: "canonical", verdict: "accept", json: raw(`"AQI="`), want: "bin:0102"},
			c18Input{class: "invalid-base64", verdict: "reject", json: raw(`"!!!"`)}, c18Input{class: "invalid-base64", verdict: "reject", json: raw(`"AQI"`)}, c18Input{class: "invalid-base64", verdict: "reject", json: raw(`"AQI=="`)})
		wrong("string")
	case "enumeration", "identityref":
		names := lib.MemberNames(t.f.YType)
		for _, n := range sortedNames(names) {
			in = append(in, c18Input{class: "canonical", verdict: "accept", json: raw(strconv.Quote(n)), want: "enum:" + n})
			for _, m := range enumNameMutants(n, names) {
				in = append(in, c18Input{class: "unknown-name:" + m.class, verdict: "reject", json: raw(strconv.Quote(m.s))})
			}
		}
		in = append(in, c18Input{class: "unknown-name", verdict: "reject", json: raw(`"NO_SUCH_NAME"`)}, c18Input{class: "unknown-name:empty", verdict: "reject", json: raw(`""`)},
			c18Input{class: "wrong-kind:number", verdict: "reject", json: raw("1")})
		wrong("string", "number")
	}
	return in
}

func classifyBad(s string) string {
	switch {
	case s == "":
		return "empty"
	case strings.ContainsAny(s, "eE") && !strings.Contains(s, "x") && s != "abc" && !strings.Contains(s, "N"):
		return "exponent"
	case strings.HasPrefix(s, "0x"):
		return "hex"
	case strings.Contains(s, "_"):
		return "underscore"
	case strings.TrimSpace(s) != s:
		return "blank"
	case s == "NaN" || strings.Contains(s, "Inf"):
		return "nan-inf"
	case strings.Contains(s, "."):
		return "fraction"
	}
	if _, ok := new(big.Int).SetString(s, 10); ok {
		return "out-of-range"
	}
	return "junk"
}

// denotes: does stored canonical value equal the number/text the JSON input denotes?
func denotes(stored string, input json.RawMessage) (bool, bool) {
	var v interface{}
	d := json.NewDecoder(strings.NewReader(string(input)))
	d.UseNumber()
	if d.Decode(&v) != nil {
		return false, false
	}
	kind := stored[:strings.Index(stored, ":")]
	pl := stored[len(kind)+1:]
	txt := ""
	switch x := v.(type) {
	case json.Number:
		txt = x.String()
	case string:
		txt = x
	default:
		return false, false
	}
	switch kind {
	case "int8", "int16", "int32", "int64", "uint8", "uint16", "uint32", "uint64", "float64":
		a, ok1 := new(big.Rat).SetString(strings.TrimSpace(txt))
		var b *big.Rat
		var ok2 bool
		if kind == "float64" {
			f, err := strconv.ParseFloat(pl, 64)
			if err != nil || math.IsNaN(f) || math.IsInf(f, 0) {
				return false, true
			}
			b, ok2 = new(big.Rat).SetString(strconv.FormatFloat(f, 'f', -1, 64))
		} else {
			b, ok2 = new(big.Rat).SetString(pl)
		}
		if !ok1 || !ok2 {
			return false, true // input is not a number at all, yet a number was stored
		}
		if kind == "float64" {
			// compare as float64: the decimal the input denotes must round to the stored float
			fa, _ := a.Float64()
			fb, _ := b.Float64()
			return fa == fb, true
		}
		return a.Cmp(b) == 0, true
	}
	return true, false
}

func runC18(r *lib.Run) {
	r.Rule = "every non-union, non-leafref leaf and leaf-list of every configuration x classified inputs (must-accept with its exact value, must-reject, don't-care) through JSON Unmarshal and through SetNode with every TypedValue kind; must-reject => error, must-accept => stored value exact, any accepted input => the stored value denotes the input; non-trivial = must-accept or must-reject input; distinct by cfg+leaf+route+input"
	r.Assume("don't-care classes: exponent form or quoted numbers for <=32-bit integers, unquoted numbers for 64-bit and decimal64, '+' sign, leading zeros, surplus fraction digits, TypedValue kinds that denote the same number (int_val for a uint leaf within range)")
	nrand := 20
	if !r.Quick() {
		nrand = 2000
	}
	for _, cfg := range cfgsFor(r, quick3) {
		rootEntry := cfg.RootEntry()
		targets := findLeafTargets(cfg, r.Seed)
		rng := rand.New(rand.NewSource(r.Seed * 271))
		for _, t := range targets {
			isList := t.f.Kind == lib.KLeafList
			lk := t.kind
			if isList {
				lk = "leaf-list:" + t.kind
			}
			r.Hit("leaf:" + lk)
			lp := lib.PathString(t.elems)
			for _, in := range jsonInputs(t, rng, nrand) {
				jv := in.json
				if isList {
					jv = raw("[" + string(in.json.(json.RawMessage)) + "]")
				}
				doc, _ := json.Marshal(jsonAt(cfg, t.elems, jv))
				w := wit(cfg, r.Seed, 0, map[string]interface{}{"leaf": lp, "type": lk, "class": in.class, "json": string(doc)})
				r.Case(cfg.Name+lp+"json"+string(in.json.(json.RawMessage)), in.verdict != "dontcare")
				r.Hit("json:" + in.verdict)
				root := cfg.NewRoot()
				var err error
				if r.Guard("Unmarshal", w, func() { err = cfg.UnmarshalJSON(doc, root) }) {
					continue
				}
				stored := cfg.Observe(root).Leaves[lp]
				sv := ""
				if stored != nil {
					sv = stored.Val
					if isList {
						el := lib.LeafListElems(sv)
						if len(el) == 1 {
							sv = el[0]
						}
					}
				}
				feat := "json:" + kindFamily(t.kind) + ":" + in.class
				switch {
				case in.verdict == "reject" && err == nil:
					r.Violate("must-reject-accepted", feat, fmt.Sprintf("%s accepted %s, stored %s", lp, string(in.json.(json.RawMessage)), sv), w)
				case in.verdict == "accept" && err != nil:
					r.Violate("must-accept-rejected", feat, err.Error(), w)
				case in.verdict == "accept" && sv != in.want:
					r.Violate("stored-value-differs", feat, fmt.Sprintf("%s: input %s stored as %s, want %s", lp, string(in.json.(json.RawMessage)), sv, in.want), w)
				case in.verdict == "reject":
					r.Hit("rejected-ok")
				case in.verdict == "accept":
					r.Hit("accepted-ok")
				}
				if err == nil && sv != "" && in.verdict == "dontcare" {
					if same, num := denotes(sv, in.json.(json.RawMessage)); num && !same {
						r.Violate("accepted-value-coerced", feat, fmt.Sprintf("%s: input %s stored as %s", lp, string(in.json.(json.RawMessage)), sv), w)
					}
				}
			}
			if isList {
				// a scalar where an array is required
				doc, _ := json.Marshal(jsonAt(cfg, t.elems, raw(`{}`)))
				root := cfg.NewRoot()
				w := wit(cfg, r.Seed, 0, map[string]interface{}{"leaf": lp, "json": string(doc)})
				var err error
				if !r.Guard("Unmarshal", w, func() { err = cfg.UnmarshalJSON(doc, root) }) && err == nil {
					r.Violate("must-reject-accepted", "json:"+lk+":object-for-leaf-list", "object accepted for a leaf-list", w)
				}
				continue
			}
			// TypedValue route (scalar leaves)
			for _, tv := range tvInputs(t, rng, nrand) {
				for _, tol := range []bool{false, true} {
					w := wit(cfg, r.Seed, 0, map[string]interface{}{"leaf": lp, "type": lk, "class": tv.class, "typed_value": tv.tv.String(), "tolerate_json": tol})
					r.Case(cfg.Name+lp+"tv"+tv.tv.String()+fmt.Sprint(tol), tv.verdict != "dontcare")
					r.Hit("tv:" + tv.verdict)
					root := cfg.NewRoot()
					opts := []ytypes.SetNodeOpt{&ytypes.InitMissingElements{}}
					if tol {
						opts = append(opts, &ytypes.TolerateJSONInconsistencies{})
					}
					var err error
					if r.Guard("SetNode", w, func() { err = ytypes.SetNode(rootEntry, root, lib.ToGNMIPath(t.elems), tv.tv, opts...) }) {
						continue
					}
					stored := cfg.Observe(root).Leaves[lp]
					sv := ""
					if stored != nil {
						sv = stored.Val
					}
					feat := "typedvalue:" + kindFamily(t.kind) + ":" + tv.class
					switch {
					case tv.verdict == "reject" && err == nil && !(tol && tv.tolerantOK):
						r.Violate("must-reject-accepted", feat, fmt.Sprintf("%s accepted %s, stored %s", lp, tv.tv, sv), w)
					case tv.verdict == "accept" && err != nil:
						r.Violate("must-accept-rejected", feat, err.Error(), w)
					case tv.verdict == "accept" && sv != tv.want:
						r.Violate("stored-value-differs", feat, fmt.Sprintf("%s: %s stored as %s, want %s", lp, tv.tv, sv, tv.want), w)
					case tv.verdict == "accept":
						r.Hit("accepted-ok")
					case tv.verdict == "reject":
						r.Hit("rejected-ok")
					}
					if err == nil && sv != "" && tv.num != nil {
						if same, num := denotesRat(sv, tv.num); num && !same {
							r.Violate("accepted-value-coerced", feat, fmt.Sprintf("%s: %s stored as %s", lp, tv.tv, sv), w)
						}
					}
				}
			}
		}
	}
	r.RequireCov("leaf:int8", "leaf:int64", "leaf:uint64", "leaf:decimal64", "leaf:boolean", "leaf:empty", "leaf:binary", "leaf:enumeration", "leaf:identityref", "leaf:string", "leaf:leaf-list:string", "json:accept", "json:reject", "tv:accept", "tv:reject", "accepted-ok", "rejected-ok")
}

type tvInput struct {
	class      string
	verdict    string
	tv         *gpb.TypedValue
	want       string
	num        *big.Rat // number the value denotes, if any
	tolerantOK bool     // acceptable under TolerateJSONInconsistencies
}

func denotesRat(stored string, n *big.Rat) (bool, bool) {
	kind := stored[:strings.Index(stored, ":")]
	pl := stored[len(kind)+1:]
	switch kind {
	case "int8", "int16", "int32", "int64", "uint8", "uint16", "uint32", "uint64":
		b, ok := new(big.Rat).SetString(pl)
		return ok && b.Cmp(n) == 0, true
	case "float64":
		f, err := strconv.ParseFloat(pl, 64)
		if err != nil {
			return false, true
		}
		fa, _ := n.Float64()
		return fa == f, true
	}
	return true, false
}

func tvInputs(t leafTarget, rng *rand.Rand, nrand int) []tvInput {
	var in []tvInput
	iv := func(n int64) *gpb.TypedValue { return &gpb.TypedValue{Value: &gpb.TypedValue_IntVal{IntVal: n}} }
	uv := func(n uint64) *gpb.TypedValue { return &gpb.TypedValue{Value: &gpb.TypedValue_UintVal{UintVal: n}} }
	sv := func(s string) *gpb.TypedValue { return &gpb.TypedValue{Value: &gpb.TypedValue_StringVal{StringVal: s}} }
	bv := func(b bool) *gpb.TypedValue { return &gpb.TypedValue{Value: &gpb.TypedValue_BoolVal{BoolVal: b}} }
	dv := func(f float64) *gpb.TypedValue {
		return &gpb.TypedValue{Value: &gpb.TypedValue_DoubleVal{DoubleVal: f}}
	}
	fv := func(f float32) *gpb.TypedValue { return &gpb.TypedValue{Value: &gpb.TypedValue_FloatVal{FloatVal: f}} }
	byv := func(b []byte) *gpb.TypedValue { return &gpb.TypedValue{Value: &gpb.TypedValue_BytesVal{BytesVal: b}} }
	ll := &gpb.TypedValue{Value: &gpb.TypedValue_LeaflistVal{LeaflistVal: &gpb.ScalarArray{Element: []*gpb.TypedValue{iv(1)}}}}
	rat := func(s string) *big.Rat { x, _ := new(big.Rat).SetString(s); return x }
	switch t.kind {
	case "int8", "int16", "int32", "int64":
		lo, hi := intBounds(t.kind)
		for _, v := range []*big.Int{lo, hi, big.NewInt(0), big.NewInt(-1)} {
			in = append(in, tvInput{class: "int_val-in-range", verdict: "accept", tv: iv(v.Int64()), want: t.kind + ":" + v.String(), num: new(big.Rat).SetInt(v)})
		}
		if t.kind != "int64" {
			in = append(in, tvInput{class: "int_val-out-of-range", verdict: "reject", tv: iv(new(big.Int).Add(hi, big.NewInt(1)).Int64())},
				tvInput{class: "int_val-out-of-range", verdict: "reject", tv: iv(new(big.Int).Sub(lo, big.NewInt(1)).Int64())},
				tvInput{class: "uint_val-out-of-range", verdict: "reject", tv: uv(new(big.Int).Add(hi, big.NewInt(1)).Uint64())})
		}
		in = append(in, tvInput{class: "uint_val-out-of-range", verdict: "reject", tv: uv(math.MaxUint64)},
			tvInput{class: "uint_val-in-range", verdict: "dontcare", tv: uv(5), num: rat("5")},
			tvInput{class: "double_val-non-integral", verdict: "reject", tv: dv(1.5), num: rat("1.5")},
			tvInput{class: "float_val-non-integral", verdict: "reject", tv: fv(2.5), num: rat("2.5")},
			tvInput{class: "double_val-integral", verdict: "dontcare", tv: dv(3), num: rat("3")},
			tvInput{class: "string_val", verdict: "reject", tv: sv("5"), tolerantOK: t.kind == "int64", num: rat("5")},
			tvInput{class: "string_val-junk", verdict: "reject", tv: sv("abc")},
			tvInput{class: "bool_val", verdict: "reject", tv: bv(true)},
			tvInput{class: "bytes_val", verdict: "reject", tv: byv([]byte{1})},
			tvInput{class: "leaflist_val", verdict: "reject", tv: ll})
		for k := 0; k < nrand; k++ {
			v := new(big.Int).Rand(rng, new(big.Int).Add(new(big.Int).Sub(hi, lo), big.NewInt(1)))
			v.Add(v, lo)
			in = append(in, tvInput{class: "int_val-in-range", verdict: "accept", tv: iv(v.Int64()), want: t.kind + ":" + v.String(), num: new(big.Rat).SetInt(v)})
		}
	case "uint8", "uint16", "uint32", "uint64":
		_, hi := intBounds(t.kind)
		for _, v := range []*big.Int{hi, big.NewInt(0), big.NewInt(1)} {
			in = append(in, tvInput{class: "uint_val-in-range", verdict: "accept", tv: uv(v.Uint64()), want: t.kind + ":" + v.String(), num: new(big.Rat).SetInt(v)})
		}
		if t.kind != "uint64" {
			in = append(in, tvInput{class: "uint_val-out-of-range", verdict: "reject", tv: uv(new(big.Int).Add(hi, big.NewInt(1)).Uint64())},
				tvInput{class: "int_val-out-of-range", verdict: "reject", tv: iv(new(big.Int).Add(hi, big.NewInt(1)).Int64())})
		}
		in = append(in, tvInput{class: "int_val-negative", verdict: "reject", tv: iv(-1), num: rat("-1")},
			tvInput{class: "int_val-in-range", verdict: "dontcare", tv: iv(5), num: rat("5")},
			tvInput{class: "double_val-non-integral", verdict: "reject", tv: dv(1.5), num: rat("1.5")},
			tvInput{class: "string_val", verdict: "reject", tv: sv("5"), tolerantOK: t.kind == "uint64", num: rat("5")},
			tvInput{class: "bool_val", verdict: "reject", tv: bv(true)},
			tvInput{class: "leaflist_val", verdict: "reject", tv: ll})
		for k := 0; k < nrand; k++ {
			v := new(big.Int).Rand(rng, new(big.Int).Add(hi, big.NewInt(1)))
			in = append(in, tvInput{class: "uint_val-in-range", verdict: "accept", tv: uv(v.Uint64()), want: t.kind + ":" + v.String(), num: new(big.Rat).SetInt(v)})
		}
	case "decimal64":
		in = append(in, tvInput{class: "double_val", verdict: "accept", tv: dv(1.5), want: "float64:1.5", num: rat("1.5")},
			tvInput{class: "double_val", verdict: "accept", tv: dv(-0.25), want: "float64:-0.25", num: rat("-0.25")},
			tvInput{class: "float_val", verdict: "dontcare", tv: fv(2.5), num: rat("2.5")},
			tvInput{class: "int_val", verdict: "dontcare", tv: iv(3), num: rat("3")},
			tvInput{class: "string_val-junk", verdict: "reject", tv: sv("abc")},
			tvInput{class: "string_val-nan", verdict: "reject", tv: sv("NaN")},
			tvInput{class: "string_val-exponent", verdict: "reject", tv: sv("1e1"), num: rat("10")},
			tvInput{class: "string_val-decimal", verdict: "dontcare", tv: sv("1.5"), num: rat("1.5")},
			tvInput{class: "bool_val", verdict: "reject", tv: bv(true)},
			tvInput{class: "double_val-nan", verdict: "reject", tv: dv(math.NaN())},
			tvInput{class: "double_val-inf", verdict: "reject", tv: dv(math.Inf(1))},
			tvInput{class: "leaflist_val", verdict: "reject", tv: ll})
	case "string":
		in = append(in, tvInput{class: "string_val", verdict: "accept", tv: sv("ab"), want: "string:ab"},
			tvInput{class: "int_val", verdict: "reject", tv: iv(5)}, tvInput{class: "bool_val", verdict: "reject", tv: bv(true)},
			tvInput{class: "bytes_val", verdict: "reject", tv: byv([]byte("ab"))}, tvInput{class: "leaflist_val", verdict: "reject", tv: ll})
	case "boolean":
		in = append(in, tvInput{class: "bool_val", verdict: "accept", tv: bv(true), want: "bool:true"}, tvInput{class: "bool_val", verdict: "accept", tv: bv(false), want: "bool:false"},
			tvInput{class: "string_val", verdict: "reject", tv: sv("true")}, tvInput{class: "int_val", verdict: "reject", tv: iv(1)}, tvInput{class: "uint_val", verdict: "reject", tv: uv(1)})
	case "binary":
		in = append(in, tvInput{class: "bytes_val", verdict: "accept", tv: byv([]byte{1, 2}), want: "bin:0102"},
			tvInput{class: "string_val-not-base64", verdict: "reject", tv: sv("!!!")}, tvInput{class: "int_val", verdict: "reject", tv: iv(1)}, tvInput{class: "bool_val", verdict: "reject", tv: bv(true)})
	case "enumeration", "identityref":
		names := lib.MemberNames(t.f.YType)
		for _, n := range sortedNames(names) {
			in = append(in, tvInput{class: "string_val-name", verdict: "accept", tv: sv(n), want: "enum:" + n})
			for _, m := range enumNameMutants(n, names) {
				in = append(in, tvInput{class: "string_val-unknown-name:" + m.class, verdict: "reject", tv: sv(m.s)})
			}
		}
		in = append(in, tvInput{class: "string_val-unknown-name", verdict: "reject", tv: sv("NO_SUCH_NAME")}, tvInput{class: "string_val-empty", verdict: "reject", tv: sv("")},
			tvInput{class: "int_val", verdict: "reject", tv: iv(1)}, tvInput{class: "uint_val", verdict: "reject", tv: uv(1)}, tvInput{class: "bool_val", verdict: "reject", tv: bv(true)})
	case "empty":
		in = append(in, tvInput{class: "string_val", verdict: "reject", tv: sv("x")}, tvInput{class: "int_val", verdict: "reject", tv: iv(1)})
	}
	return in
}

var _ = reflect.TypeOf

func sortedNames(m map[string]bool) []string {
	out := make([]string, 0, len(m))
	for n := range m {
		out = append(out, n)
	}
	sort.Strings(out)
	return out
}

type nameMutant struct{ class, s string }

// enumNameMutants derives strings from a defined name that are not names of
// the type: they must be rejected, never coerced to the name they resemble.
func enumNameMutants(n string, names map[string]bool) []nameMutant {
	cands := []nameMutant{
		{"case-changed", strings.ToLower(n) + "x"},
		{"trailing-space", n + " "},
		{"leading-space", " " + n},
		{"trailing-colon", n + ":"},
		{"two-prefixes", "a:b:" + n},
		{"three-prefixes", "urn:x:y:" + n},
		{"doubled", n + n},
		{"truncated", n[:len(n)-1]},
		{"suffix-after-colon", n + ":x"},
	}
	var out []nameMutant
	for _, c := range cands {
		if c.s != "" && !names[c.s] {
			out = append(out, c)
		}
	}
	return out
}

// kindFamily groups YANG kinds that share one decoding path, so that one root
// cause gets one signature.
func kindFamily(k string) string {
	switch k {
	case "int8", "int16", "int32", "uint8", "uint16", "uint32":
		return "int<=32bit"
	case "int64", "uint64":
		return "int-64bit"
	}
	return k
}
