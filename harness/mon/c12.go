package mon

import (
	"fmt"
	"math/rand"
	"reflect"
	"strings"

	gpb "github.com/openconfig/gnmi/proto/gnmi"
	"github.com/openconfig/ygot/ygot"
	"github.com/openconfig/ygot/ytypes"
	"github.com/openconfig/ygot/zzverif/lib"
)

func init() { Monitors["C12"] = runC12 }

type delTarget struct {
	elems []lib.PathElem
	kind  string // container, list-entry, whole-list, leaf, leaf-list, ordered-entry, whole-ordered-list, ordered-container, shadow-leaf
	from  string // "present" (taken from t) or "donor"
}

// elemsUnder: is path p at or below target tgt, where a target element without
// keys matches any keys.
func elemsUnder(p, tgt []lib.PathElem) bool {
	if len(p) < len(tgt) {
		return false
	}
	for i, e := range tgt {
		if p[i].Name != e.Name {
			return false
		}
		if len(e.Keys) > 0 {
			if len(p[i].Keys) != len(e.Keys) {
				return false
			}
			for k, v := range e.Keys {
				if p[i].Keys[k] != v {
					return false
				}
			}
		}
		if e.Pos >= 0 && p[i].Pos != e.Pos {
			return false
		}
	}
	return true
}

func stripLastKeys(p []lib.PathElem) []lib.PathElem {
	out := append([]lib.PathElem(nil), p...)
	out[len(out)-1] = lib.PathElem{Name: out[len(out)-1].Name, Pos: -1}
	return out
}

// c12Targets enumerates deletion targets of every kind from a tree.
func c12Targets(cfg *lib.Cfg, t ygot.GoStruct, from string) []delTarget {
	var out []delTarget
	nodes := cfg.Nodes(t)
	for _, n := range nodes[1:] {
		if n.Keyless {
			continue
		}
		switch {
		case n.IsEntry && n.Field.Kind == lib.KOrdered:
			out = append(out, delTarget{n.Path, "ordered-entry", from}, delTarget{stripLastKeys(n.Path), "whole-ordered-list", from})
			if len(n.Path) > 1 {
				out = append(out, delTarget{n.Path[:len(n.Path)-1], "ordered-container", from})
			}
		case n.IsEntry:
			out = append(out, delTarget{n.Path, "list-entry", from}, delTarget{stripLastKeys(n.Path), "whole-list", from})
		default:
			out = append(out, delTarget{n.Path, "container", from})
		}
	}
	o := cfg.Observe(t)
	keyLeaf := map[string]bool{}
	for _, n := range nodes {
		for _, kp := range n.KeyPaths {
			keyLeaf[kp] = true
		}
	}
	for _, p := range o.SortedLeafPaths() {
		l := o.Leaves[p]
		if strings.Contains(p, "[#") || keyLeaf[p] {
			continue // unkeyed entries are not addressable; deleting a key leaf is not a legal operation (don't-care)
		}
		k := "leaf"
		if l.IsList {
			k = "leaf-list"
		}
		out = append(out, delTarget{l.Elems, k, from})
		if len(l.Field.Shadow) > 0 {
			base := l.Elems[:len(l.Elems)-len(l.Field.Path)]
			sh := append([]lib.PathElem(nil), base...)
			for _, nme := range l.Field.Shadow[0] {
				sh = append(sh, lib.PathElem{Name: nme, Pos: -1})
			}
			out = append(out, delTarget{sh, "shadow-leaf", from})
		}
	}
	return out
}

func runC12(r *lib.Run) {
	r.Rule = "tree t (seed,index); sequences of 8 DeleteNode calls on targets of every kind taken from t (present) or from a donor tree (mostly absent): container, list entry, whole list (path without keys), leaf, leaf-list, ordered-list entry, whole ordered list, container of an ordered list, shadow path; each followed by GetNode and a second DeleteNode; non-trivial = the target held data; distinct by cfg+target+tree"
	n := r.N(300, 8000)
	for _, cfg := range cfgsFor(r, quick3) {
		rootEntry := cfg.RootEntry()
		for i := 0; i < n; i++ {
			if skip(cfg, i) {
				continue
			}
			t := lib.NewGen(cfg, r.Seed, i, c10Opts(i)).Tree()
			donor := lib.NewGen(cfg, r.Seed+999, i, c10Opts(i)).Tree()
			rng := rand.New(rand.NewSource(r.Seed*613 + int64(i)))
			var history []string
			for step := 0; step < 8; step++ {
				var cands []delTarget
				if rng.Intn(4) != 0 {
					cands = c12Targets(cfg, t, "present")
				}
				if len(cands) == 0 {
					cands = c12Targets(cfg, donor, "donor")
				}
				if len(cands) == 0 {
					break
				}
				// choose a kind first so that rare kinds are exercised
				kinds := map[string][]delTarget{}
				var kn []string
				for _, c := range cands {
					if _, ok := kinds[c.kind]; !ok {
						kn = append(kn, c.kind)
					}
					kinds[c.kind] = append(kinds[c.kind], c)
				}
				ks := kinds[kn[rng.Intn(len(kn))]]
				tg := ks[rng.Intn(len(ks))]
				before := cfg.Observe(t)
				ps := lib.PathString(tg.elems)
				held := 0
				want := before.Clone()
				if tg.kind != "shadow-leaf" {
					for p, l := range before.Leaves {
						if elemsUnder(l.Elems, tg.elems) {
							delete(want.Leaves, p)
							held++
						}
					}
				}
				for lp, ord := range before.Order {
					parent := lp[:strings.LastIndex(lp, "/")+1]
					var keep []string
					for _, es := range ord {
						ep := parent + es
						if lib.HasPrefixPath(ep, ps) || strings.HasPrefix(ep, ps+"[") || lib.HasPrefixPath(lp, ps) {
							continue
						}
						keep = append(keep, es)
					}
					if tg.kind == "shadow-leaf" {
						keep = ord
					}
					if len(keep) == 0 {
						delete(want.Order, lp)
					} else {
						want.Order[lp] = keep
					}
				}
				history = append(history, tg.kind+" "+ps)
				r.Hit("kind:" + tg.kind)
				if held > 0 {
					r.Hit("present:" + tg.kind)
				} else {
					r.Hit("absent:" + tg.kind)
				}
				r.Case(cfg.Name+ps+strings.Join(before.Dump(), "\n"), held > 0)
				w := func(more map[string]interface{}) map[string]interface{} {
					more["history"] = history
					more["target"] = ps
					more["kind"] = tg.kind
					more["tree_before"] = before.Dump()
					return wit(cfg, r.Seed, i, more)
				}
				gp := lib.ToGNMIPath(tg.elems)
				var err error
				if r.Guard("DeleteNode", w(map[string]interface{}{}), func() { err = ytypes.DeleteNode(rootEntry, t, gp) }) {
					break
				}
				if err != nil {
					pres := "absent"
					if held > 0 {
						pres = "present"
					}
					if strings.HasPrefix(tg.kind, "whole-") && (strings.Contains(err.Error(), "is not found in gNMI path") || strings.Contains(err.Error(), "does not contain a map entry for schema")) {
						r.Violate("delete-error", tg.kind+":"+pres+":list-path-without-keys", err.Error(), w(map[string]interface{}{}))
						continue
					}
					for _, c := range lib.ErrClasses(err.Error()) {
						r.Violate("delete-error", tg.kind+":"+pres+":"+c, err.Error(), w(map[string]interface{}{}))
					}
					continue
				}
				if step == 0 && i < 3 {
					r.Sample(map[string]interface{}{"cfg": cfg.Name, "target": ps, "kind": tg.kind, "leaves_removed": held})
				}
				after := cfg.Observe(t)
				feat := func(d lib.Delta) string { return tg.kind + ":" + featOf(d) }
				for _, d := range lib.DiffObs(want, after, lib.DiffOpts{EmptyLeafListIsAbsent: true}) {
					if d.What == "entry" {
						continue
					}
					if d.What == "presence" {
						// presence containers that became (or were) empty on the way are pruned as documented
						if d.B == "" && !hasSetDescendant(after, d.Path) {
							continue
						}
					}
					cl := "frame-violated"
					if d.What == "leaf" && d.B != "" && d.A == "" {
						cl = "data-remains-below-target"
					}
					r.Violate(cl, feat(d), d.String(), w(map[string]interface{}{"delta": d.String()}))
				}
				// GetNode finds no data at or below p
				if tg.kind != "shadow-leaf" {
					var nodes []*ytypes.TreeNode
					var gerr error
					if !r.Guard("GetNode", w(map[string]interface{}{}), func() {
						nodes, gerr = ytypes.GetNode(rootEntry, t, gp, &ytypes.GetPartialKeyMatch{})
					}) && gerr == nil {
						for _, nd := range nodes {
							if dataHeld(cfg, nd) {
								r.Violate("getnode-finds-data-after-delete", tg.kind, fmt.Sprintf("GetNode(%s) still returns data %T", ps, nd.Data), w(map[string]interface{}{}))
							}
						}
					}
				}
				// ancestors: absent or still hold data
				for k := 1; k <= len(tg.elems); k++ {
					ap := lib.PathString(tg.elems[:k])
					holdsPresence := false
					for pp, set := range after.Presence {
						if set && pp != ap && lib.HasPrefixPath(pp, ap) {
							holdsPresence = true // a set presence container below it is data: the ancestor is not empty
						}
					}
					hollow := false
					for sp := range after.Shape {
						if sp != ap && lib.HasPrefixPath(sp, ap) && before.Shape[sp] != "" {
							hollow = true // it already held an allocated but data-less container / list before: a representation-only state, the struct is not zero and ygot keeps it
						}
					}
					if hollow && after.Shape[ap] == "container" && !hasSetDescendant(after, ap) && !holdsPresence {
						r.Hit("dont-care:ancestor-with-hollow-child")
					}
					if after.Shape[ap] == "container" && !hasSetDescendant(after, ap) && !holdsPresence && !hollow {
						ctx := "container"
						for sp, sk := range after.Shape {
							if sk == "emptyorderedmap" && lib.HasPrefixPath(sp, ap) {
								ctx = "container-above-emptied-ordered-map"
							}
						}
						r.Violate("empty-ancestor-remains", ctx, "empty container remains at "+ap, w(map[string]interface{}{"ancestor": ap}))
					}
					if after.Shape[ap] == "emptymap" || after.Shape[ap] == "emptyorderedmap" {
						r.Violate("empty-ancestor-remains", after.Shape[ap], "empty list remains at "+ap, w(map[string]interface{}{"ancestor": ap}))
					}
				}
				// deleting twice changes nothing
				if r.Guard("DeleteNode", w(map[string]interface{}{"call": "second"}), func() { err = ytypes.DeleteNode(rootEntry, t, gp) }) {
					break
				}
				if err != nil {
					for _, c := range lib.ErrClasses(err.Error()) {
						r.Violate("second-delete-error", tg.kind+":"+c, err.Error(), w(map[string]interface{}{}))
					}
					continue
				}
				for _, d := range lib.DiffObs(after, cfg.Observe(t), lib.DiffOpts{Shape: true}) {
					r.Violate("second-delete-changes-tree", feat(d), d.String(), w(map[string]interface{}{"delta": d.String()}))
				}
				r.Hit("delete-ok")
			}
		}
	}
	// clause "list entries on the way to p that become empty are removed", as a history: every leaf of
	// one keyed-list entry is deleted, one at a time in a random order (the key leaf wherever the order
	// puts it); at the end the entry must be gone and nothing else changed
	for _, cfg := range cfgsFor(r, quick3) {
		rootEntry := cfg.RootEntry()
		for i := 0; i < n/2; i++ {
			if skip(cfg, i) {
				continue
			}
			t := lib.NewGen(cfg, r.Seed+515, i, c10Opts(i)).Tree()
			rng := rand.New(rand.NewSource(r.Seed*619 + int64(i)))
			var cands []*lib.Node
			for _, nd := range cfg.Nodes(t) {
				if !nd.IsEntry || nd.Keyless || nd.Field.Kind != lib.KList {
					continue
				}
				kfs := nd.Info.KeyFields()
				if len(kfs) != 1 || kfs[0] == nil || kfs[0].Type.Kind() != reflect.Ptr {
					continue // single scalar key (after a union key leaf is gone the entry cannot be addressed: C03's known finding)
				}
				cands = append(cands, nd)
			}
			if len(cands) == 0 {
				continue
			}
			nd := cands[rng.Intn(len(cands))]
			before := cfg.Observe(t)
			want := lib.NewObs()
			var under []*lib.Leaf
			skipCase := false
			for _, p := range before.SortedLeafPaths() {
				l := before.Leaves[p]
				if lib.ElemsUnder(l.Elems, nd.Path) {
					under = append(under, l)
					if strings.Contains(p[len(lib.PathString(nd.Path)):], "[") {
						skipCase = true // lists nested in the entry: their entries' own key leaves make the order matter
					}
				} else {
					want.Leaves[p] = l
				}
			}
			for lp := range before.Order {
				if strings.HasPrefix(lp, lib.PathString(nd.Path)) {
					skipCase = true
				}
			}
			for pp, set := range before.Presence {
				if set && strings.HasPrefix(pp, lib.PathString(nd.Path)+"/") {
					skipCase = true // a presence container is data of its own: the entry is not empty without its leaves
				}
			}
			if skipCase || len(under) < 2 {
				continue
			}
			rng.Shuffle(len(under), func(a, b int) { under[a], under[b] = under[b], under[a] })
			var order []string
			failed := false
			for _, l := range under {
				order = append(order, l.Path)
				var err error
				w := wit(cfg, r.Seed, i, map[string]interface{}{"entry": lib.PathString(nd.Path), "order": order, "tree": before.Dump()})
				if r.Guard("DeleteNode", w, func() { err = ytypes.DeleteNode(rootEntry, t, lib.ToGNMIPath(l.Elems)) }) {
					failed = true
					break
				}
				if err != nil {
					r.Hit("one-by-one:delete-error")
					failed = true
					break
				}
			}
			if failed {
				continue
			}
			r.Case(cfg.Name+"one-by-one"+strings.Join(order, ","), true)
			keyPos := "key-leaf-last"
			for k, l := range under {
				if k < len(under)-1 && isKeyLeafOf(cfg, t, l) {
					keyPos = "key-leaf-before-last"
				}
			}
			r.Hit("one-by-one:" + keyPos)
			w := wit(cfg, r.Seed, i, map[string]interface{}{"entry": lib.PathString(nd.Path), "order": order, "tree": before.Dump()})
			bad := false
			after := cfg.Observe(t)
			for _, d := range lib.DiffObs(want, after, lib.DiffOpts{EmptyLeafListIsAbsent: true}) {
				if d.What != "leaf" {
					continue // presence containers / order / shape are compared by the main clause above
				}
				bad = true
				r.Violate("frame-violated", "one-by-one:"+featOf(d), d.String(), w)
			}
			ep := lib.PathString(nd.Path)
			still := after.Entries[ep]
			for p := range after.Entries {
				// the entry may linger under another map key rendering once its key leaf is gone
				if strings.HasPrefix(p, lib.PathString(nd.Path[:len(nd.Path)-1])+"/"+nd.Path[len(nd.Path)-1].Name+"[") && !before.Entries[p] {
					still = true
				}
			}
			if still || after.Shape[ep] != "" {
				bad = true
				r.Violate("entry-emptied-leaf-by-leaf-not-removed", keyPos, "every leaf of "+ep+" was deleted, the entry is still in the list", w)
			}
			if !bad {
				r.Hit("one-by-one-ok")
			}
		}
	}
	r.RequireCov("one-by-one-ok", "one-by-one:key-leaf-before-last", "delete-ok", "present:container", "present:list-entry", "present:whole-list", "present:leaf", "present:leaf-list", "present:ordered-entry", "absent:leaf", "absent:list-entry")
}

// dataHeld reports whether a TreeNode returned by GetNode carries data.
func dataHeld(cfg *lib.Cfg, nd *ytypes.TreeNode) bool {
	if nd == nil || nd.Data == nil {
		return false
	}
	c := canonDataAny(nd.Data)
	return c
}

var _ = gpb.Path{}

// canonDataAny reports whether a Go value returned as TreeNode.Data holds any
// set data (non-nil leaf, non-empty list, struct with a set field).
func canonDataAny(d interface{}) bool {
	v := reflect.ValueOf(d)
	return valueHolds(v)
}

func valueHolds(v reflect.Value) bool {
	if !v.IsValid() {
		return false
	}
	switch v.Kind() {
	case reflect.Ptr:
		if v.IsNil() {
			return false
		}
		if lib.IsOrderedMapType(v.Type()) {
			return len(lib.OrderedKeys(v)) > 0
		}
		if v.Elem().Kind() == reflect.Struct {
			e := v.Elem()
			for i := 0; i < e.NumField(); i++ {
				if e.Type().Field(i).PkgPath != "" {
					continue
				}
				if valueHolds(e.Field(i)) {
					return true
				}
			}
			return false
		}
		return true
	case reflect.Interface:
		return !v.IsNil()
	case reflect.Slice, reflect.Map:
		return v.Len() > 0
	case reflect.Int64:
		return v.Int() != 0
	case reflect.Bool:
		return v.Bool()
	}
	return !v.IsZero()
}
