package mon

// C24: protomap paths<->proto mapping round-trips.
//
// A protoreflect-driven populator fills ygen-style protobuf messages (the
// repository's annotated test protos exschemapath and gribi_aft) using only the
// kinds the property lists.  For every message m:
//
//	paths := PathsFromProto(m)
//	ProtoFromPaths(new(M), paths)                        // "direct": the statement read literally
//	ProtoFromPaths(new(M), {p: value.FromScalar(v)})     // "typed": what protomap's integration tests do
//
// Oracle: no error, the reconstructed message equals m (keyed lists compared as
// sets), and the emitted path set is exactly the one an independent walk over
// the yext.schemapath annotations predicts (keys = key field values).
//
// When a whole message fails, every leaf of the message is re-tested alone
// ("atom": the leaf plus the chain of containers / list entries above it) and
// the failure is attributed to the kinds of the atoms that fail alone.  A
// signature says in which feeding mode the atom fails:
//
//	both:        same failure in direct and typed mode
//	direct-only: fails when fed back unchanged, holds after value.FromScalar
//	typed-only:  the reverse
//	direct:/typed: fails in both modes, differently
//
// Errors are named by leaf kind + normalised error text; silent differences by
// "<kind above>><kind>:<what happened>" at the first point of divergence.

import (
	"bytes"
	"encoding/json"
	"fmt"
	"math"
	"math/rand"
	"regexp"
	"runtime/debug"
	"sort"
	"strconv"
	"strings"

	"google.golang.org/protobuf/encoding/prototext"
	"google.golang.org/protobuf/proto"
	"google.golang.org/protobuf/reflect/protoreflect"
	"google.golang.org/protobuf/types/descriptorpb"

	gpb "github.com/openconfig/gnmi/proto/gnmi"
	"github.com/openconfig/gnmi/value"
	yextpb "github.com/openconfig/ygot/proto/yext"
	"github.com/openconfig/ygot/protomap"
	aftpb "github.com/openconfig/ygot/protomap/integration_tests/testdata/gribi_aft"
	epb "github.com/openconfig/ygot/protomap/testdata/exschemapath"
	"github.com/openconfig/ygot/zzverif/lib"
)

func init() { Monitors["C24"] = runC24 }

// c24ReportDirectOnly controls whether a failure that only happens when the
// map returned by PathsFromProto is fed back unchanged (and disappears when the
// values are converted with value.FromScalar first) is a violation.  The
// statement is literally ProtoFromPaths(new, PathsFromProto(m)), so it is.
const c24ReportDirectOnly = true

// c24ReportAbsOnly: sub-tree roots need unmap options, which the statement does
// not speak about.  The way protomap's integration tests pass them (relative
// paths, ProtobufMessagePrefix + ValuePathPrefix) is the reference; a failure
// seen only with absolute paths + ProtobufMessagePrefix alone is kept as a
// coverage note ("note:abs-paths-only-failure:...") and not as a violation.
const c24ReportAbsOnly = false

// ---------------------------------------------------------------- schema view

const (
	c24Unsupported = iota
	c24Leaf        // ywrapper message or enum
	c24LeafList    // repeated ywrapper, (yext.leaflist)
	c24UnionLL     // repeated union message, (yext.leaflistunion)
	c24Container   // child message
	c24List        // repeated XXXKey message
)

type c24Field struct {
	fd    protoreflect.FieldDescriptor
	class int
	kind  string     // feature name (or the reason when unsupported)
	paths [][]string // annotated schema paths
	// keyed lists
	keys     []protoreflect.FieldDescriptor
	keyNames []string
	keyPaths [][][]string
	member   protoreflect.FieldDescriptor
	// union leaf-lists
	members  []protoreflect.FieldDescriptor
	siblings string
	// enums
	enumVals []protoreflect.EnumValueDescriptor
}

type c24Schema struct {
	cache   map[protoreflect.FullName]*c24Field
	skipped map[string]bool
}

func c24SplitPath(s string) []string {
	s = strings.Trim(s, "/")
	if s == "" {
		return nil
	}
	return strings.Split(s, "/")
}

func c24Annot(fd protoreflect.FieldDescriptor) [][]string {
	po, _ := fd.Options().(*descriptorpb.FieldOptions)
	if po == nil {
		return nil
	}
	ex, _ := proto.GetExtension(po, yextpb.E_Schemapath).(string)
	if ex == "" {
		return nil
	}
	var out [][]string
	for _, p := range strings.Split(ex, "|") {
		out = append(out, c24SplitPath(p))
	}
	return out
}

func c24BoolExt(fd protoreflect.FieldDescriptor, x protoreflect.ExtensionType) bool {
	po, _ := fd.Options().(*descriptorpb.FieldOptions)
	if po == nil {
		return false
	}
	b, _ := proto.GetExtension(po, x).(bool)
	return b
}

func c24YangName(ev protoreflect.EnumValueDescriptor) string {
	eo, _ := ev.Options().(*descriptorpb.EnumValueOptions)
	if eo == nil {
		return ""
	}
	s, _ := proto.GetExtension(eo, yextpb.E_YangName).(string)
	return s
}

func c24NamedEnumVals(ed protoreflect.EnumDescriptor) []protoreflect.EnumValueDescriptor {
	var out []protoreflect.EnumValueDescriptor
	for i := 0; i < ed.Values().Len(); i++ {
		if ev := ed.Values().Get(i); c24YangName(ev) != "" && ev.Number() != 0 {
			out = append(out, ev)
		}
	}
	return out
}

var c24Wrappers = map[protoreflect.FullName]string{
	"ywrapper.StringValue":    "string",
	"ywrapper.UintValue":      "uint",
	"ywrapper.BytesValue":     "bytes",
	"ywrapper.BoolValue":      "bool",
	"ywrapper.IntValue":       "int",
	"ywrapper.Decimal64Value": "decimal64",
}

func samePath(a, b []string) bool { return strings.Join(a, "/") == strings.Join(b, "/") }

func (c *c24Schema) info(fd protoreflect.FieldDescriptor) *c24Field {
	if fi, ok := c.cache[fd.FullName()]; ok {
		return fi
	}
	fi := &c24Field{fd: fd}
	c.cache[fd.FullName()] = fi
	fi.paths = c24Annot(fd)
	uns := func(why string) *c24Field {
		fi.class, fi.kind = c24Unsupported, why
		c.skipped[string(fd.FullName())+":"+why] = true
		return fi
	}
	if fd.IsMap() {
		return uns("map")
	}
	if len(fi.paths) == 0 {
		return uns("no-annotation")
	}
	if fd.IsList() {
		if fd.Kind() != protoreflect.MessageKind {
			return uns("repeated-scalar")
		}
		if len(fi.paths) != 1 {
			return uns("list-multi-path")
		}
		md := fd.Message()
		switch {
		case c24BoolExt(fd, yextpb.E_Leaflist):
			w, ok := c24Wrappers[md.FullName()]
			if !ok {
				return uns("leaflist-of-non-wrapper")
			}
			if w == "decimal64" {
				return uns("leaflist-decimal64")
			}
			fi.class, fi.kind = c24LeafList, "leaflist-"+w
		case c24BoolExt(fd, yextpb.E_Leaflistunion):
			var sib []string
			for i := 0; i < md.Fields().Len(); i++ {
				f := md.Fields().Get(i)
				sib = append(sib, f.Kind().String())
				switch f.Kind() {
				case protoreflect.StringKind, protoreflect.Uint64Kind, protoreflect.BoolKind:
					fi.members = append(fi.members, f)
				case protoreflect.EnumKind:
					if len(c24NamedEnumVals(f.Enum())) > 0 {
						fi.members = append(fi.members, f)
					}
				default:
					c.skipped[string(f.FullName())+":union-member-"+f.Kind().String()] = true
				}
			}
			if len(fi.members) == 0 {
				return uns("leaflist-union-no-supported-member")
			}
			sort.Strings(sib)
			fi.siblings = strings.Join(sib, "+")
			fi.class, fi.kind = c24UnionLL, "leaflist-union"
		default:
			var kk []string
			for i := 0; i < md.Fields().Len(); i++ {
				f := md.Fields().Get(i)
				if f.Kind() == protoreflect.MessageKind {
					if fi.member != nil || f.IsList() || f.IsMap() {
						return uns("list-bad-member")
					}
					fi.member = f
					continue
				}
				if f.ContainingOneof() != nil {
					return uns("list-oneof-key")
				}
				if f.IsList() {
					return uns("list-repeated-key")
				}
				if f.Kind() != protoreflect.StringKind && f.Kind() != protoreflect.Uint64Kind {
					return uns("list-key-" + f.Kind().String())
				}
				kp := c24Annot(f)
				if len(kp) == 0 {
					return uns("list-key-no-annotation")
				}
				name := kp[0][len(kp[0])-1]
				for _, p := range kp {
					if len(p) == 0 || p[len(p)-1] != name {
						return uns("list-key-bad-annotation")
					}
				}
				fi.keys = append(fi.keys, f)
				fi.keyNames = append(fi.keyNames, name)
				fi.keyPaths = append(fi.keyPaths, kp)
				kk = append(kk, f.Kind().String())
			}
			if fi.member == nil || len(fi.keys) == 0 {
				return uns("list-no-member-or-key")
			}
			fi.class, fi.kind = c24List, "list["+strings.Join(kk, ",")+"]"
		}
		return fi
	}
	switch fd.Kind() {
	case protoreflect.MessageKind:
		md := fd.Message()
		if w, ok := c24Wrappers[md.FullName()]; ok {
			switch w {
			case "string", "uint", "bytes":
				fi.class, fi.kind = c24Leaf, w+"-wrapper"
				return fi
			}
			return uns(w + "-wrapper")
		}
		if len(fi.paths) != 1 {
			return uns("container-multi-path")
		}
		// A message all of whose fields carry the parent's own path is a union, not a container.
		union := md.Fields().Len() > 0
		for i := 0; i < md.Fields().Len(); i++ {
			f := md.Fields().Get(i)
			ap := c24Annot(f)
			if f.Kind() == protoreflect.MessageKind || len(ap) != 1 || !samePath(ap[0], fi.paths[0]) {
				union = false
			}
		}
		if union {
			return uns("union-message")
		}
		fi.class, fi.kind = c24Container, "container"
	case protoreflect.EnumKind:
		if fd.ContainingOneof() != nil {
			return uns("oneof-enum")
		}
		fi.enumVals = c24NamedEnumVals(fd.Enum())
		if len(fi.enumVals) == 0 {
			return uns("enum-without-yang-names")
		}
		fi.class, fi.kind = c24Leaf, "enum"
	default:
		if fd.ContainingOneof() != nil {
			return uns("oneof-" + fd.Kind().String())
		}
		return uns("scalar-" + fd.Kind().String())
	}
	return fi
}

// listKind qualifies a list's kind with how deep its schema path is below the
// enclosing message's path (ygen's compressed output always gives 2: the
// surrounding container plus the list).
func c24KindAt(fi *c24Field, parentLen int) string {
	if fi.class == c24List {
		if d := len(fi.paths[0]) - parentLen; d != 2 {
			return fmt.Sprintf("%s@depth%d", fi.kind, d)
		}
	}
	return fi.kind
}

// visit statically walks everything reachable so that skipped fields are listed
// independently of the random choices.
func (c *c24Schema) visit(md protoreflect.MessageDescriptor, seen map[protoreflect.FullName]bool) {
	if seen[md.FullName()] {
		return
	}
	seen[md.FullName()] = true
	for i := 0; i < md.Fields().Len(); i++ {
		fi := c.info(md.Fields().Get(i))
		switch fi.class {
		case c24Container:
			c.visit(fi.fd.Message(), seen)
		case c24List:
			c.visit(fi.member.Message(), seen)
		}
	}
}

// ---------------------------------------------------------------- roots

type c24Root struct {
	name   string
	mk     func() proto.Message
	prefix []string
}

func c24Roots() []c24Root {
	return []c24Root{
		{"exschemapath.Root", func() proto.Message { return &epb.Root{} }, nil},
		{"exschemapath.ExampleMessage", func() proto.Message { return &epb.ExampleMessage{} }, nil},
		{"exschemapath.Interface", func() proto.Message { return &epb.Interface{} }, c24SplitPath("/interfaces/interface")},
		{"gribi_aft.Device", func() proto.Message { return &aftpb.Device{} }, nil},
		{"gribi_aft.Afts", func() proto.Message { return &aftpb.Afts{} }, c24SplitPath("/afts")},
		{"gribi_aft.Afts.NextHop", func() proto.Message { return &aftpb.Afts_NextHop{} }, c24SplitPath("/afts/next-hops/next-hop")},
		{"gribi_aft.Afts.NextHopGroup", func() proto.Message { return &aftpb.Afts_NextHopGroup{} }, c24SplitPath("/afts/next-hop-groups/next-hop-group")},
		{"gribi_aft.Afts.Ipv4Entry", func() proto.Message { return &aftpb.Afts_Ipv4Entry{} }, c24SplitPath("/afts/ipv4-unicast/ipv4-entry")},
		{"gribi_aft.Afts.LabelEntry", func() proto.Message { return &aftpb.Afts_LabelEntry{} }, c24SplitPath("/afts/mpls/label-entry")},
		{"gribi_aft.Afts.PolicyForwardingEntry", func() proto.Message { return &aftpb.Afts_PolicyForwardingEntry{} }, c24SplitPath("/afts/policy-forwarding/policy-forwarding-entry")},
	}
}

func c24GPath(elems []string) *gpb.Path {
	p := &gpb.Path{}
	for _, e := range elems {
		p.Elem = append(p.Elem, &gpb.PathElem{Name: e})
	}
	return p
}

// opts returns the unmap options for a sub-tree root.  The default is what
// protomap's integration tests do: paths relative to the message's path, with
// ProtobufMessagePrefix and ValuePathPrefix both set to it.  abs selects the
// other documented use: absolute paths and ProtobufMessagePrefix only.
func (rt c24Root) opts(abs bool) []protomap.UnmapOpt {
	if len(rt.prefix) == 0 {
		return nil
	}
	if abs {
		return []protomap.UnmapOpt{protomap.ProtobufMessagePrefix(c24GPath(rt.prefix))}
	}
	return []protomap.UnmapOpt{protomap.ProtobufMessagePrefix(c24GPath(rt.prefix)), protomap.ValuePathPrefix(c24GPath(rt.prefix))}
}

// ---------------------------------------------------------------- populator

type c24Gen struct {
	sc  *c24Schema
	rng *rand.Rand
}

var c24Strings = []string{"", "a", "eth0", "1.0.0.0/24", "10.0.0.1", "x y", "ü-ñ", "a=b", "a]b", "[k=v]", "\"q\"", "VAL_ONE", "IPV4", "42", "hello world", "00:11:22:33:44:55", "/", "*", "..."}

func (g *c24Gen) str(allowEmpty bool) string {
	for {
		var s string
		if g.rng.Intn(4) == 0 {
			n := 1 + g.rng.Intn(8)
			b := make([]byte, n)
			for i := range b {
				b[i] = byte('a' + g.rng.Intn(26))
			}
			s = string(b)
		} else {
			s = c24Strings[g.rng.Intn(len(c24Strings))]
		}
		if s != "" || allowEmpty {
			return s
		}
	}
}

func (g *c24Gen) u64(allowZero bool) uint64 {
	for {
		var v uint64
		switch g.rng.Intn(8) {
		case 0:
			v = 0
		case 1:
			v = 1
		case 2:
			v = 42
		case 3:
			v = 1 << 32
		case 4:
			v = math.MaxUint64
		case 5:
			v = g.rng.Uint64()
		default:
			v = uint64(g.rng.Intn(1000))
		}
		if v != 0 || allowZero {
			return v
		}
	}
}

func (g *c24Gen) byts() []byte {
	n := g.rng.Intn(6)
	if n == 0 {
		return nil
	}
	b := make([]byte, n)
	g.rng.Read(b)
	return b
}

func (g *c24Gen) wrapper(md protoreflect.MessageDescriptor, m protoreflect.Message) {
	f := md.Fields().ByName("value")
	switch f.Kind() {
	case protoreflect.StringKind:
		m.Set(f, protoreflect.ValueOfString(g.str(true)))
	case protoreflect.Uint64Kind:
		m.Set(f, protoreflect.ValueOfUint64(g.u64(true)))
	case protoreflect.BytesKind:
		m.Set(f, protoreflect.ValueOfBytes(g.byts()))
	case protoreflect.BoolKind:
		m.Set(f, protoreflect.ValueOfBool(g.rng.Intn(2) == 0))
	case protoreflect.Sint64Kind, protoreflect.Int64Kind:
		m.Set(f, protoreflect.ValueOfInt64(int64(g.rng.Intn(2001))-1000))
	}
}

// fill populates m and returns the number of leaves set.
func (g *c24Gen) fill(m protoreflect.Message, depth int) int {
	n := 0
	fds := m.Descriptor().Fields()
	pLeaf := 0.45
	if fds.Len() > 8 {
		pLeaf = 0.25
	}
	for i := 0; i < fds.Len(); i++ {
		fd := fds.Get(i)
		fi := g.sc.info(fd)
		switch fi.class {
		case c24Leaf:
			if g.rng.Float64() > pLeaf {
				continue
			}
			if fd.Kind() == protoreflect.EnumKind {
				m.Set(fd, protoreflect.ValueOfEnum(fi.enumVals[g.rng.Intn(len(fi.enumVals))].Number()))
			} else {
				w := m.NewField(fd).Message()
				g.wrapper(fd.Message(), w)
				m.Set(fd, protoreflect.ValueOfMessage(w))
			}
			n++
		case c24LeafList:
			if g.rng.Float64() > pLeaf {
				continue
			}
			l := m.Mutable(fd).List()
			for k := 1 + g.rng.Intn(3); k > 0; k-- {
				e := l.NewElement().Message()
				g.wrapper(fd.Message(), e)
				l.Append(protoreflect.ValueOfMessage(e))
			}
			n++
		case c24UnionLL:
			if g.rng.Float64() > pLeaf {
				continue
			}
			l := m.Mutable(fd).List()
			for k := 1 + g.rng.Intn(3); k > 0; k-- {
				e := l.NewElement().Message()
				mf := fi.members[g.rng.Intn(len(fi.members))]
				zero := g.rng.Intn(12) == 0 // a member holding its proto3 zero value
				switch mf.Kind() {
				case protoreflect.StringKind:
					if !zero {
						e.Set(mf, protoreflect.ValueOfString(g.str(false)))
					}
				case protoreflect.Uint64Kind:
					if !zero {
						e.Set(mf, protoreflect.ValueOfUint64(g.u64(false)))
					}
				case protoreflect.BoolKind:
					if !zero {
						e.Set(mf, protoreflect.ValueOfBool(true))
					}
				case protoreflect.EnumKind:
					ev := c24NamedEnumVals(mf.Enum())
					e.Set(mf, protoreflect.ValueOfEnum(ev[g.rng.Intn(len(ev))].Number()))
				}
				l.Append(protoreflect.ValueOfMessage(e))
			}
			n++
		case c24Container:
			if g.rng.Float64() > 0.6 {
				continue
			}
			c := m.Mutable(fd).Message()
			k := g.fill(c, depth+1)
			if k == 0 {
				m.Clear(fd) // an empty non-presence container carries no data
			}
			n += k
		case c24List:
			if g.rng.Float64() > 0.6 {
				continue
			}
			max := 3
			if depth > 1 {
				max = 2
			}
			l := m.Mutable(fd).List()
			seen := map[string]bool{}
			for k := 1 + g.rng.Intn(max); k > 0; k-- {
				e := l.NewElement().Message()
				var ks []string
				for _, kf := range fi.keys {
					if kf.Kind() == protoreflect.StringKind {
						s := g.str(g.rng.Intn(10) == 0)
						e.Set(kf, protoreflect.ValueOfString(s))
						ks = append(ks, strconv.Quote(s))
					} else {
						u := g.u64(true)
						e.Set(kf, protoreflect.ValueOfUint64(u))
						ks = append(ks, strconv.FormatUint(u, 10))
					}
				}
				key := strings.Join(ks, ",")
				if seen[key] {
					continue
				}
				seen[key] = true
				n += g.fill(e.Mutable(fi.member).Message(), depth+1)
				n++ // the key leaves
				l.Append(protoreflect.ValueOfMessage(e))
			}
		}
	}
	return n
}

// ---------------------------------------------------------------- atoms and the reference path set

type c24Step struct {
	fi   *c24Field
	idx  int // list entry index in the original message (-1 otherwise)
	kind string
}

type c24Atom struct {
	steps []c24Step
	elem  int // for union leaf-lists: only this element (-1: all)
}

func (a *c24Atom) leafKind() string { return a.steps[len(a.steps)-1].kind }
func (a *c24Atom) chain() string {
	var s []string
	for _, st := range a.steps {
		s = append(s, st.kind)
	}
	return strings.Join(s, ">")
}

type c24AnyZero struct{} // a union member at its zero value: "", 0 or false, but not nil

type c24Exp struct {
	val    interface{}
	kind   string // parent>kind
	schema string
	isKey  bool
}

type c24KeyAt struct {
	pos  int
	keys map[string]string
}

func c24Canon(elems []string, keyed []c24KeyAt) string {
	var sb strings.Builder
	for i, e := range elems {
		sb.WriteString("/")
		sb.WriteString(e)
		for _, k := range keyed {
			if k.pos == i {
				var ns []string
				for n := range k.keys {
					ns = append(ns, n)
				}
				sort.Strings(ns)
				for _, n := range ns {
					sb.WriteString("[" + n + "=" + strconv.Quote(k.keys[n]) + "]")
				}
			}
		}
	}
	return sb.String()
}

func c24CanonG(p *gpb.Path) (canon, schema string) {
	var sb, ss strings.Builder
	for _, e := range p.GetElem() {
		sb.WriteString("/" + e.GetName())
		ss.WriteString("/" + e.GetName())
		var ns []string
		for n := range e.GetKey() {
			ns = append(ns, n)
		}
		sort.Strings(ns)
		for _, n := range ns {
			sb.WriteString("[" + n + "=" + strconv.Quote(e.Key[n]) + "]")
		}
	}
	if p.GetOrigin() != "" || p.GetTarget() != "" || len(p.GetElement()) != 0 {
		sb.WriteString("#origin/target/element-set")
	}
	return sb.String(), ss.String()
}

type c24Walk struct {
	sc    *c24Schema
	atoms []*c24Atom
	exp   map[string]*c24Exp
}

func c24WrapperVal(m protoreflect.Message) interface{} {
	f := m.Descriptor().Fields().ByName("value")
	v := m.Get(f)
	switch f.Kind() {
	case protoreflect.StringKind:
		return v.String()
	case protoreflect.Uint64Kind:
		return v.Uint()
	case protoreflect.BytesKind:
		return v.Bytes()
	case protoreflect.BoolKind:
		return v.Bool()
	default:
		return v.Int()
	}
}

func c24UnionVal(e protoreflect.Message) (val interface{}, member string) {
	val, member = c24AnyZero{}, "zero"
	e.Range(func(fd protoreflect.FieldDescriptor, v protoreflect.Value) bool {
		member = fd.Kind().String()
		switch fd.Kind() {
		case protoreflect.EnumKind:
			val = c24YangName(fd.Enum().Values().ByNumber(v.Enum()))
		case protoreflect.StringKind:
			val = v.String()
		case protoreflect.Uint64Kind:
			val = v.Uint()
		case protoreflect.BoolKind:
			val = v.Bool()
		}
		return false
	})
	return
}

func (w *c24Walk) walk(m protoreflect.Message, steps []c24Step, keyed []c24KeyAt, parentLen int, parentKind string) int {
	n := 0
	fds := m.Descriptor().Fields()
	for i := 0; i < fds.Len(); i++ {
		fd := fds.Get(i)
		if !m.Has(fd) {
			continue
		}
		fi := w.sc.info(fd)
		kind := c24KindAt(fi, parentLen)
		here := append(append([]c24Step{}, steps...), c24Step{fi: fi, idx: -1, kind: kind})
		switch fi.class {
		case c24Leaf, c24LeafList, c24UnionLL:
			var val interface{}
			switch {
			case fi.class == c24LeafList:
				var l []interface{}
				for j := 0; j < m.Get(fd).List().Len(); j++ {
					l = append(l, c24WrapperVal(m.Get(fd).List().Get(j).Message()))
				}
				val = l
			case fi.class == c24UnionLL:
				var l []interface{}
				for j := 0; j < m.Get(fd).List().Len(); j++ {
					v, _ := c24UnionVal(m.Get(fd).List().Get(j).Message())
					l = append(l, v)
				}
				val = l
			case fd.Kind() == protoreflect.EnumKind:
				val = c24YangName(fd.Enum().Values().ByNumber(m.Get(fd).Enum()))
			default:
				val = c24WrapperVal(m.Get(fd).Message())
			}
			for _, p := range fi.paths {
				w.exp[c24Canon(p, keyed)] = &c24Exp{val: val, kind: parentKind + ">" + kind, schema: "/" + strings.Join(p, "/")}
			}
			w.atoms = append(w.atoms, &c24Atom{steps: here, elem: -1})
			n++
		case c24Container:
			n += w.walk(m.Get(fd).Message(), here, keyed, len(fi.paths[0]), kind)
		case c24List:
			l := m.Get(fd).List()
			for j := 0; j < l.Len(); j++ {
				e := l.Get(j).Message()
				keys := map[string]string{}
				kv := map[string]interface{}{}
				for k, kf := range fi.keys {
					if kf.Kind() == protoreflect.StringKind {
						keys[fi.keyNames[k]] = e.Get(kf).String()
						kv[fi.keyNames[k]] = e.Get(kf).String()
					} else {
						keys[fi.keyNames[k]] = strconv.FormatUint(e.Get(kf).Uint(), 10)
						kv[fi.keyNames[k]] = e.Get(kf).Uint()
					}
				}
				kd := append(append([]c24KeyAt{}, keyed...), c24KeyAt{pos: len(fi.paths[0]) - 1, keys: keys})
				for k := range fi.keys {
					for _, p := range fi.keyPaths[k] {
						w.exp[c24Canon(p, kd)] = &c24Exp{val: kv[fi.keyNames[k]], kind: parentKind + ">" + kind, schema: "/" + strings.Join(p, "/"), isKey: true}
					}
				}
				st := append(append([]c24Step{}, steps...), c24Step{fi: fi, idx: j, kind: kind})
				k := 0
				if e.Has(fi.member) {
					k = w.walk(e.Get(fi.member).Message(), st, kd, len(fi.paths[0]), kind)
				}
				if k == 0 {
					w.atoms = append(w.atoms, &c24Atom{steps: st, elem: -1})
				}
				n += k + 1
			}
		}
	}
	return n
}

// c24Build makes a message of the root's type that holds exactly the given atoms of orig.
func c24Build(rt c24Root, orig proto.Message, atoms []*c24Atom) proto.Message {
	out := rt.mk()
	entries := map[string]protoreflect.Message{}
	for _, a := range atoms {
		o, n := orig.ProtoReflect(), out.ProtoReflect()
		prefix := ""
		for _, st := range a.steps {
			fd := st.fi.fd
			switch st.fi.class {
			case c24Container:
				prefix += fmt.Sprintf("/%d", fd.Number())
				o, n = o.Get(fd).Message(), n.Mutable(fd).Message()
			case c24List:
				prefix += fmt.Sprintf("/%d[%d]", fd.Number(), st.idx)
				oe := o.Get(fd).List().Get(st.idx).Message()
				mem, ok := entries[prefix]
				if !ok {
					l := n.Mutable(fd).List()
					e := l.NewElement().Message()
					for _, kf := range st.fi.keys {
						if oe.Has(kf) {
							e.Set(kf, oe.Get(kf))
						}
					}
					mem = e.Mutable(st.fi.member).Message()
					l.Append(protoreflect.ValueOfMessage(e))
					entries[prefix] = mem
				}
				o, n = oe.Get(st.fi.member).Message(), mem
			default:
				switch {
				case fd.IsList():
					src, dst := o.Get(fd).List(), n.Mutable(fd).List()
					for j := 0; j < src.Len(); j++ {
						if a.elem >= 0 && j != a.elem {
							continue
						}
						dst.Append(protoreflect.ValueOfMessage(proto.Clone(src.Get(j).Message().Interface()).ProtoReflect()))
					}
				case fd.Kind() == protoreflect.MessageKind:
					n.Set(fd, protoreflect.ValueOfMessage(proto.Clone(o.Get(fd).Message().Interface()).ProtoReflect()))
				default:
					n.Set(fd, o.Get(fd))
				}
			}
		}
	}
	return out
}

// c24Sort orders every keyed list by key (YANG system-ordered lists are sets).
func (c *c24Schema) sortLists(m protoreflect.Message) {
	fds := m.Descriptor().Fields()
	for i := 0; i < fds.Len(); i++ {
		fd := fds.Get(i)
		if !m.Has(fd) {
			continue
		}
		fi := c.info(fd)
		switch fi.class {
		case c24Container:
			c.sortLists(m.Mutable(fd).Message())
		case c24List:
			l := m.Mutable(fd).List()
			es := make([]protoreflect.Message, l.Len())
			ks := make([]string, l.Len())
			idx := make([]int, l.Len())
			for j := range es {
				es[j] = l.Get(j).Message()
				idx[j] = j
				var kk []string
				for _, kf := range fi.keys {
					kk = append(kk, strconv.Quote(es[j].Get(kf).String()))
				}
				ks[j] = strings.Join(kk, ",")
				if es[j].Has(fi.member) {
					c.sortLists(es[j].Mutable(fi.member).Message())
				}
			}
			sort.SliceStable(idx, func(a, b int) bool { return ks[idx[a]] < ks[idx[b]] })
			l.Truncate(0)
			for _, j := range idx {
				l.Append(protoreflect.ValueOfMessage(es[j]))
			}
		}
	}
}

func (c *c24Schema) equalAsSets(a, b proto.Message) bool {
	if proto.Equal(a, b) {
		return true
	}
	ac, bc := proto.Clone(a), proto.Clone(b)
	c.sortLists(ac.ProtoReflect())
	c.sortLists(bc.ProtoReflect())
	return proto.Equal(ac, bc)
}

// ---------------------------------------------------------------- round trip

type c24Result struct {
	clause string // "" when the round trip holds
	err    string
	recon  proto.Message
	paths  map[*gpb.Path]interface{}
}

func c24ValEq(exp, got interface{}) bool {
	switch e := exp.(type) {
	case c24AnyZero:
		switch g := got.(type) {
		case string:
			return g == ""
		case uint64:
			return g == 0
		case bool:
			return !g
		}
		return false
	case []byte:
		g, ok := got.([]byte)
		return ok && bytes.Equal(e, g)
	case []interface{}:
		g, ok := got.([]interface{})
		if !ok || len(g) != len(e) {
			return false
		}
		for i := range e {
			if !c24ValEq(e[i], g[i]) {
				return false
			}
		}
		return true
	case string:
		g, ok := got.(string)
		return ok && g == e
	case uint64:
		g, ok := got.(uint64)
		return ok && g == e
	case bool:
		g, ok := got.(bool)
		return ok && g == e
	case int64:
		g, ok := got.(int64)
		return ok && g == e
	}
	return false
}

const (
	c24Direct   = "direct"    // PathsFromProto's map fed back unchanged
	c24Typed    = "typed"     // every value converted with value.FromScalar
	c24TypedAbs = "typed+abs" // as typed; sub-tree roots: absolute paths + ProtobufMessagePrefix only
)

func c24Convert(rt c24Root, paths map[*gpb.Path]interface{}, mode string) (map[*gpb.Path]interface{}, error) {
	out := make(map[*gpb.Path]interface{}, len(paths))
	for p, v := range paths {
		k := p
		if mode != c24TypedAbs && len(rt.prefix) > 0 && len(p.GetElem()) >= len(rt.prefix) {
			k = &gpb.Path{Elem: p.Elem[len(rt.prefix):]}
		}
		if mode != c24Direct {
			tv, err := value.FromScalar(v)
			if err != nil {
				return nil, fmt.Errorf("value.FromScalar(%T): %v", v, err)
			}
			out[k] = tv
		} else {
			out[k] = v
		}
	}
	return out, nil
}

// c24Lazy is a witness that is only rendered if it is kept (first occurrence of a signature).
type c24Lazy func() map[string]interface{}

func (l c24Lazy) MarshalJSON() ([]byte, error) { return json.Marshal(l()) }

type c24Mon struct {
	r  *lib.Run
	sc *c24Schema
}

func c24Text(m proto.Message) string {
	if m == nil {
		return "<nil>"
	}
	return lib.Clip(prototext.MarshalOptions{}.Format(m), 3000)
}

func c24PathsText(p map[*gpb.Path]interface{}) []string {
	var out []string
	for k, v := range p {
		c, _ := c24CanonG(k)
		out = append(out, lib.Clip(fmt.Sprintf("%s = (%T) %v", c, v, v), 300))
	}
	sort.Strings(out)
	if len(out) > 40 {
		out = out[:40]
	}
	return out
}

// trip runs PathsFromProto and then ProtoFromPaths in one mode.  paths may be
// supplied when PathsFromProto has already been run on m.
func (c *c24Mon) trip(rt c24Root, m proto.Message, paths map[*gpb.Path]interface{}, mode string, w c24Lazy) c24Result {
	var err error
	if paths == nil {
		if c.r.Guard("PathsFromProto", w, func() { paths, err = protomap.PathsFromProto(m) }) {
			return c24Result{clause: "panic"}
		}
		if err != nil {
			return c24Result{clause: "pathsfromproto-error", err: err.Error()}
		}
	}
	vals, err := c24Convert(rt, paths, mode)
	if err != nil {
		return c24Result{clause: "value-not-convertible", err: err.Error(), paths: paths}
	}
	n := rt.mk()
	if c.r.Guard("ProtoFromPaths", w, func() { err = protomap.ProtoFromPaths(n, vals, rt.opts(mode == c24TypedAbs)...) }) {
		return c24Result{clause: "panic", paths: paths}
	}
	if err != nil {
		return c24Result{clause: "protofrompaths-error", err: err.Error(), paths: paths}
	}
	if !c.sc.equalAsSets(m, n) {
		return c24Result{clause: "roundtrip-differs", recon: n, paths: paths}
	}
	if !proto.Equal(m, n) {
		c.r.Hit("note:list-order-differs")
	}
	return c24Result{paths: paths, recon: n}
}

var (
	c24ReValue1   = regexp.MustCompile(`\(value: .*\) for`)
	c24ReValue2   = regexp.MustCompile(`, value: .*$`)
	c24ReValue3   = regexp.MustCompile(`for value .* in union`)
	c24ReFullName = regexp.MustCompile(`[A-Za-z_][A-Za-z0-9_]*(\.[A-Za-z_][A-Za-z0-9_]*)+`)
	c24RePath     = regexp.MustCompile(`elem:\{.*\}`)
	c24ReUnion    = regexp.MustCompile(`invalid value .* \(`)
)

func c24NormErr(s string) string {
	s = c24RePath.ReplaceAllString(s, "_")
	s = c24ReValue1.ReplaceAllString(s, "(value: _) for")
	s = c24ReValue2.ReplaceAllString(s, "")
	s = c24ReValue3.ReplaceAllString(s, "for value _ in union")
	s = c24ReUnion.ReplaceAllString(s, "invalid value _ (")
	s = c24ReFullName.ReplaceAllStringFunc(s, func(t string) string {
		if strings.HasPrefix(t, "gnmi.") || strings.HasPrefix(t, "value.") {
			return t
		}
		return "_"
	})
	for strings.HasPrefix(s, "field _, ") { // one wrapper per enclosing list
		s = strings.TrimPrefix(s, "field _, ")
	}
	return lib.NormErr(s)
}

// diverge names the first place at which the reconstruction of a single-atom
// message departs from it: "<kind above>><kind>:<how>".
func (c *c24Mon) diverge(a *c24Atom, orig, recon proto.Message) string {
	o, n := orig.ProtoReflect(), recon.ProtoReflect()
	parent := "root"
	for _, st := range a.steps {
		fd := st.fi.fd
		at := parent + ">" + st.kind
		switch st.fi.class {
		case c24Container:
			if !n.Has(fd) {
				return at + ":missing"
			}
			o, n = o.Get(fd).Message(), n.Get(fd).Message()
		case c24List:
			nl := n.Get(fd).List()
			if nl.Len() == 0 {
				return at + ":missing"
			}
			if nl.Len() > 1 {
				return at + ":extra-entries"
			}
			oe, ne := o.Get(fd).List().Get(0).Message(), nl.Get(0).Message()
			for _, kf := range st.fi.keys {
				if !oe.Get(kf).Equal(ne.Get(kf)) {
					return at + ":key-changed"
				}
			}
			if !ne.Has(st.fi.member) {
				return at + ":member-missing"
			}
			o, n = oe.Get(st.fi.member).Message(), ne.Get(st.fi.member).Message()
		default:
			if !n.Has(fd) {
				return at + ":missing"
			}
			only := n.New()
			only.Set(fd, n.Get(fd))
			if !proto.Equal(o.Interface(), only.Interface()) {
				if st.fi.class == c24UnionLL && n.Get(fd).List().Len() == o.Get(fd).List().Len() && a.elem >= 0 {
					_, om := c24UnionVal(o.Get(fd).List().Get(0).Message())
					_, nm := c24UnionVal(n.Get(fd).List().Get(0).Message())
					return fmt.Sprintf("%s:changed(member %s->%s)", st.kind, om, nm)
				}
				return st.kind + ":changed"
			}
		}
		parent = st.kind
	}
	return parent + ":extra-data"
}

func c24Opt(rt c24Root, mode string) string {
	if len(rt.prefix) == 0 {
		return "none"
	}
	p := "/" + strings.Join(rt.prefix, "/")
	if mode == c24TypedAbs {
		return "absolute paths, ProtobufMessagePrefix(" + p + ")"
	}
	return "paths relative to " + p + ", ProtobufMessagePrefix(" + p + "), ValuePathPrefix(" + p + ")"
}

// oddList returns the kind of the first list of the chain whose schema path is
// not exactly two elements below the enclosing message.
func (a *c24Atom) oddList() string {
	for _, st := range a.steps {
		if st.fi.class == c24List && strings.Contains(st.kind, "@depth") {
			return st.kind
		}
	}
	return ""
}

func c24HasNil(paths map[*gpb.Path]interface{}) bool {
	for _, v := range paths {
		if v == nil {
			return true
		}
		if l, ok := v.([]interface{}); ok {
			for _, x := range l {
				if x == nil {
					return true
				}
			}
		}
	}
	return false
}

// modes lists the feeding modes for one message; the absolute-path variant
// (a note only, see c24ReportAbsOnly) is exercised on every fourth message.
func (c *c24Mon) modes(rt c24Root, idx int) []string {
	if len(rt.prefix) > 0 && (idx/16)%4 == 0 {
		return []string{c24Direct, c24Typed, c24TypedAbs}
	}
	return []string{c24Direct, c24Typed}
}

const c24OddListDetail = "a keyed list whose schema path is not exactly <container>/<list> below the enclosing message is not rebuilt: createListField takes the first two path elements below the message as the entry's path, so depending on map iteration order ProtoFromPaths returns an error or silently drops the entry's leaves"

type c24Outcome struct {
	clause, body string
	res          c24Result
}

// testAtom round-trips one atom in every mode and reports what fails.
// need[i] says whether mode i has to be run; a mode in which the whole message
// round-tripped is taken to hold for the message's parts too.
func (c *c24Mon) testAtom(rt c24Root, orig proto.Message, a *c24Atom, seed int64, idx int, report bool, need []bool) bool {
	am := c24Build(rt, orig, []*c24Atom{a})
	kind := a.leafKind()
	detail := ""
	if last := a.steps[len(a.steps)-1]; last.fi.class == c24UnionLL && a.elem >= 0 {
		// name the member of the single element and the union's shape
		m := am.ProtoReflect()
		for _, st := range a.steps[:len(a.steps)-1] {
			if st.fi.class == c24Container {
				m = m.Get(st.fi.fd).Message()
			} else {
				m = m.Get(st.fi.fd).List().Get(0).Message().Get(st.fi.member).Message()
			}
		}
		_, mem := c24UnionVal(m.Get(last.fi.fd).List().Get(0).Message())
		detail = fmt.Sprintf("(elem=%s,union=%s)", mem, last.fi.siblings)
	}
	w := func(mode string, res c24Result) c24Lazy {
		return func() map[string]interface{} {
			out := map[string]interface{}{"root": rt.name, "options": c24Opt(rt, mode), "seed": seed, "index": idx, "mode": mode,
				"message": c24Text(am), "atom": a.chain(), "error": res.err}
			if res.paths != nil {
				out["paths_from_proto"] = c24PathsText(res.paths)
			}
			if res.recon != nil && res.clause != "" {
				out["reconstructed"] = c24Text(res.recon)
			}
			return out
		}
	}
	modes := c.modes(rt, idx)
	res := make([]c24Outcome, 3)
	var paths map[*gpb.Path]interface{}
	first := true
	for i, mode := range modes {
		if need != nil && !need[i] {
			continue
		}
		rr := c.trip(rt, am, paths, mode, w(mode, c24Result{}))
		paths = rr.paths
		if first && c24HasNil(paths) {
			return true // PathsFromProto emitted nil; the path oracle reports that, the rest is a consequence
		}
		o := c24Outcome{clause: rr.clause, res: rr}
		switch rr.clause {
		case "", "panic":
		case "roundtrip-differs":
			o.body = c.diverge(a, am, rr.recon) + detail
		default:
			o.body = kind + detail + ":" + c24NormErr(rr.err)
		}
		first = false
		res[i] = o
		if rr.clause == "pathsfromproto-error" {
			res[0], res[1], res[2] = o, o, o
			break
		}
	}
	d, t, x := res[0], res[1], res[2]
	if odd := a.oddList(); odd != "" {
		for i, o := range res {
			if o.clause != "" {
				if report && o.clause != "panic" {
					what := o.res.err
					if what == "" {
						what = "no error, reconstructed message differs"
					}
					c.r.Violate("list-not-rebuilt", odd, fmt.Sprintf("[%s, %s] %s (this run: %s)", rt.name, a.chain(), c24OddListDetail, what), w(modes[i], o.res))
				}
				return true
			}
		}
		return false
	}
	failed := false
	emit := func(label string, o c24Outcome, mode string) {
		failed = true
		if !report {
			return
		}
		if !c24ReportDirectOnly && label == "direct-only" {
			c.r.Hit("note:direct-only-failure:" + o.body)
			return
		}
		if !c24ReportAbsOnly && label == "abs-paths-only" {
			c.r.Hit("note:abs-paths-only-failure:" + o.clause + ":" + o.body)
			return
		}
		dt := o.res.err
		if dt == "" {
			dt = "reconstructed message differs from the original"
		}
		c.r.Violate(o.clause, label+":"+o.body, fmt.Sprintf("[%s, %s] %s", rt.name, a.chain(), dt), w(mode, o.res))
	}
	switch {
	case d.clause == "panic" || t.clause == "panic" || x.clause == "panic":
		failed = true // recorded by Guard
	case d.clause == "pathsfromproto-error":
		emit("any", d, "n/a")
	case d.clause == "" && t.clause == "":
		if x.clause != "" {
			emit("abs-paths-only", x, c24TypedAbs)
		}
	case d.clause == t.clause && d.body == t.body:
		emit("both", d, c24Direct)
	default:
		if d.clause != "" {
			l := "direct"
			if t.clause == "" {
				l = "direct-only"
			}
			emit(l, d, c24Direct)
		}
		if t.clause != "" {
			l := "typed"
			if d.clause == "" {
				l = "typed-only"
			}
			emit(l, t, c24Typed)
		}
	}
	return failed
}

func c24Key(rt c24Root, m proto.Message) string {
	b, _ := proto.MarshalOptions{Deterministic: true}.Marshal(m)
	return rt.name + "\x00" + string(b)
}

func (c *c24Mon) one(rt c24Root, seed int64, idx int) {
	r := c.r
	g := &c24Gen{sc: c.sc, rng: rand.New(rand.NewSource(seed*1000003 + int64(idx)))}
	m := rt.mk()
	g.fill(m.ProtoReflect(), 0)

	wk := &c24Walk{sc: c.sc, exp: map[string]*c24Exp{}}
	wk.walk(m.ProtoReflect(), nil, nil, len(rt.prefix), "root")
	r.Case(c24Key(rt, m), len(wk.atoms) >= 2)
	r.Hit("root:" + rt.name)
	odd := ""
	for _, a := range wk.atoms {
		for _, st := range a.steps {
			r.Hit("kind:" + st.kind)
		}
		r.Hit("in:" + rt.name + ":" + a.leafKind())
		r.Hit("chain:" + a.chain())
		if o := a.oddList(); o != "" {
			odd = o
		}
	}
	if rb := c24Build(rt, m, wk.atoms); !proto.Equal(rb, m) {
		r.Inconclusive("harness: atoms do not rebuild the message for " + rt.name)
		return
	}
	if idx < 2 {
		r.Sample(map[string]interface{}{"root": rt.name, "message": c24Text(m)})
	}
	base := func() map[string]interface{} {
		return map[string]interface{}{"root": rt.name, "options": c24Opt(rt, ""), "seed": seed, "index": idx, "message": c24Text(m)}
	}
	wit := c24Lazy(base)
	with := func(more map[string]interface{}) c24Lazy {
		return func() map[string]interface{} {
			for k, v := range base() {
				more[k] = v
			}
			return more
		}
	}
	atoms := func(need []bool) bool {
		found := false
		for _, a := range wk.atoms {
			if last := a.steps[len(a.steps)-1]; last.fi.class == c24UnionLL {
				// attribute a failing union leaf-list to the elements that fail alone
				if !c.testAtom(rt, m, a, seed, idx, false, need) {
					continue
				}
				found = true
				o := m.ProtoReflect()
				for _, st := range a.steps[:len(a.steps)-1] {
					if st.fi.class == c24Container {
						o = o.Get(st.fi.fd).Message()
					} else {
						o = o.Get(st.fi.fd).List().Get(st.idx).Message().Get(st.fi.member).Message()
					}
				}
				one := false
				for j := 0; j < o.Get(last.fi.fd).List().Len(); j++ {
					if c.testAtom(rt, m, &c24Atom{steps: a.steps, elem: j}, seed, idx, true, need) {
						one = true
					}
				}
				if !one {
					c.testAtom(rt, m, a, seed, idx, true, need)
				}
				continue
			}
			if c.testAtom(rt, m, a, seed, idx, true, need) {
				found = true
			}
		}
		return found
	}

	snapshot := proto.Clone(m)
	var paths map[*gpb.Path]interface{}
	var err error
	if r.Guard("PathsFromProto", wit, func() { paths, err = protomap.PathsFromProto(m) }) {
		atoms(nil)
		return
	}
	if !proto.Equal(snapshot, m) {
		r.Violate("input-mutated", "PathsFromProto", "PathsFromProto modified its input", wit)
	}
	if err != nil {
		if !atoms(nil) {
			r.Violate("pathsfromproto-error", "combination:"+c24NormErr(err.Error()), err.Error(), wit)
		}
		return
	}

	// Reference oracle on the emitted path set.
	got := map[string]bool{}
	for p, v := range paths {
		canon, schema := c24CanonG(p)
		got[canon] = true
		e, ok := wk.exp[canon]
		if !ok {
			feat := "no-field-annotated-with-this-schema-path"
			for _, x := range wk.exp {
				if x.schema == schema {
					feat = "keys-differ:" + x.kind
					break
				}
			}
			r.Violate("path-not-annotated", feat, "PathsFromProto emitted "+canon+" which no populated field's annotation (with its list keys) yields",
				with(map[string]interface{}{"emitted": canon, "value": fmt.Sprint(v), "expected_paths": c24ExpKeys(wk.exp)}))
			continue
		}
		if !c24ValEq(e.val, v) {
			feat := e.kind
			detail := "value emitted for " + canon + " is not the field's value"
			if c24HasNil(map[*gpb.Path]interface{}{p: v}) {
				feat = "leaflist-union:nil-for-zero-valued-member"
				detail = "PathsFromProto emits a nil leaf-list element for a union entry whose member holds the proto3 zero value (0, \"\" or false), at " + canon
			}
			r.Violate("path-value-differs", feat, detail,
				with(map[string]interface{}{"path": canon, "emitted": fmt.Sprintf("(%T) %v", v, v), "expected": fmt.Sprintf("(%T) %v", e.val, e.val)}))
		}
	}
	for canon, e := range wk.exp {
		if !got[canon] {
			r.Violate("path-missing", e.kind, "PathsFromProto did not emit "+canon, with(map[string]interface{}{"missing": canon, "emitted_paths": c24PathsText(paths)}))
		}
	}
	r.Hit("paths-checked")

	// Whole-message round trips.
	anyFail := false
	modes := c.modes(rt, idx)
	whole := make([]c24Result, len(modes))
	need := make([]bool, len(modes))
	for i, mode := range modes {
		whole[i] = c.trip(rt, m, paths, mode, wit)
		if whole[i].clause == "" {
			r.Hit("whole-ok:" + mode)
		} else {
			r.Hit("whole-fail:" + mode)
			anyFail, need[i] = true, true
		}
	}
	if !anyFail || atoms(need) {
		return
	}
	if odd != "" {
		// the outcome for such lists depends on map iteration order; the atoms passed by luck
		r.Violate("list-not-rebuilt", odd, "["+rt.name+"] "+c24OddListDetail, wit)
		return
	}
	// No atom fails alone: shrink greedily and name the combination.
	for i, mode := range modes {
		if whole[i].clause == "" || whole[i].clause == "panic" {
			continue
		}
		keep := append([]*c24Atom{}, wk.atoms...)
		for changed := true; changed; {
			changed = false
			for j := 0; j < len(keep) && len(keep) > 1; j++ {
				try := append(append([]*c24Atom{}, keep[:j]...), keep[j+1:]...)
				if rr := c.trip(rt, c24Build(rt, m, try), nil, mode, wit); rr.clause == whole[i].clause {
					keep, changed = try, true
					j--
				}
			}
		}
		var ch []string
		for _, a := range keep {
			ch = append(ch, a.chain())
		}
		sort.Strings(ch)
		mm := c24Build(rt, m, keep)
		rr := c.trip(rt, mm, nil, mode, wit)
		r.Violate(whole[i].clause, mode+":combination("+strings.Join(ch, " + ")+"):"+c24NormErr(rr.err), "fails only in combination: "+rr.err,
			map[string]interface{}{"root": rt.name, "options": c24Opt(rt, mode), "seed": seed, "index": idx, "mode": mode, "message": c24Text(mm), "reconstructed": c24Text(rr.recon), "paths_from_proto": c24PathsText(rr.paths)})
	}
}

func c24ExpKeys(m map[string]*c24Exp) []string {
	var out []string
	for k := range m {
		out = append(out, k)
	}
	sort.Strings(out)
	if len(out) > 40 {
		out = out[:40]
	}
	return out
}

func runC24(r *lib.Run) {
	r.Rule = "messages of the annotated test protos (exschemapath, gribi_aft; 10 root types, sub-tree roots with ProtobufMessagePrefix) filled by a protoreflect populator from (seed,index) using only supported kinds; non-trivial = at least 2 leaves; distinct by root type + deterministic wire bytes"
	r.Assume("keyed lists are compared as sets (system-ordered YANG lists); ProtoFromPaths rebuilds them in map order")
	r.Assume("an empty non-presence container is the same as an absent one: the populator never leaves an empty child message set (list members excepted, which PathsFromProto requires)")
	r.Assume("two ways of feeding PathsFromProto's output back are exercised: unchanged ('direct', the statement read literally) and with each value converted by gnmi value.FromScalar ('typed', as protomap's integration tests do)")
	r.Assume("fields of kinds outside the statement's list are never populated; they are listed under skipped_fields")
	defer debug.SetGCPercent(debug.SetGCPercent(400)) // ProtoFromPaths allocates heavily; live heap is tiny
	sc := &c24Schema{cache: map[protoreflect.FullName]*c24Field{}, skipped: map[string]bool{}}
	c := &c24Mon{r: r, sc: sc}
	roots := c24Roots()
	seen := map[protoreflect.FullName]bool{}
	for _, rt := range roots {
		sc.visit(rt.mk().ProtoReflect().Descriptor(), seen)
	}
	var sk []string
	for k := range sc.skipped {
		sk = append(sk, k)
		r.Hit("skipped:" + k)
	}
	sort.Strings(sk)
	r.Extra("skipped_fields", sk)

	n := r.N(2000, 200000)
	for i := 0; i < n; i++ {
		c.one(roots[i%len(roots)], r.Seed, i)
	}
	r.SetFloor(n / 10)
	r.RequireCov("kind:string-wrapper", "kind:uint-wrapper", "kind:bytes-wrapper", "kind:enum",
		"kind:leaflist-string", "kind:leaflist-uint", "kind:leaflist-bytes", "kind:leaflist-union",
		"kind:list[string]", "kind:list[uint64]", "kind:container", "paths-checked", "whole-ok:typed")
}
