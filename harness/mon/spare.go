package mon

import (
	"fmt"
	"reflect"

	"google.golang.org/protobuf/proto"
)

// spareCanary gives every slice of message pointers inside m (Path.Elem,
// SetRequest.Update, Notification.Delete, ScalarArray.Element, ...) three
// elements of spare capacity that hold sentinel pointers, without changing the
// message's content.  A callee that appends to such a slice in place (instead
// of copying it first) writes into the caller's backing array: the returned
// snap reports it.  This is how a prefix cut from a longer path
// (full.Elem[:n]) shares memory with the path it was cut from.
func spareCanary(name string, m proto.Message) snap {
	type site struct {
		where     string
		field     reflect.Value
		n         int
		sentinels []reflect.Value
		base      uintptr
	}
	var sites []site
	seen := map[uintptr]bool{}
	var walk func(v reflect.Value, where string)
	walk = func(v reflect.Value, where string) {
		switch v.Kind() {
		case reflect.Ptr:
			if v.IsNil() || seen[v.Pointer()] {
				return
			}
			seen[v.Pointer()] = true
			walk(v.Elem(), where)
		case reflect.Interface:
			if !v.IsNil() {
				walk(v.Elem(), where)
			}
		case reflect.Struct:
			for i := 0; i < v.NumField(); i++ {
				if v.Type().Field(i).PkgPath != "" {
					continue // unexported protobuf bookkeeping
				}
				walk(v.Field(i), where+"."+v.Type().Field(i).Name)
			}
		case reflect.Slice:
			et := v.Type().Elem()
			if et.Kind() != reflect.Ptr || et.Elem().Kind() != reflect.Struct || !v.CanSet() {
				return
			}
			for i := 0; i < v.Len(); i++ {
				walk(v.Index(i), fmt.Sprintf("%s[%d]", where, i))
			}
			n := v.Len()
			if n == 0 && v.IsNil() {
				return // a nil slice stays nil: content must not change
			}
			full := reflect.MakeSlice(v.Type(), n+3, n+3)
			reflect.Copy(full, v)
			s := site{where: where, n: n, base: full.Pointer()}
			for k := n; k < n+3; k++ {
				sen := reflect.New(et.Elem())
				full.Index(k).Set(sen)
				s.sentinels = append(s.sentinels, sen)
			}
			v.Set(full.Slice(0, n))
			s.field = v
			sites = append(sites, s)
		}
	}
	if m != nil && !reflect.ValueOf(m).IsNil() {
		walk(reflect.ValueOf(m), name)
	}
	return func() string {
		for _, s := range sites {
			cur := s.field
			if cur.Len() < s.n || cur.Cap() < s.n+3 || cur.Pointer() != s.base {
				continue // replaced by another slice: content changes are the other snapshots' business
			}
			full := cur.Slice(0, cur.Cap())
			for k, sen := range s.sentinels {
				if s.n+k < full.Len() && full.Index(s.n+k).Pointer() != sen.Pointer() {
					return s.where + ": the spare capacity of the caller's slice was written (append without copy)"
				}
			}
		}
		return ""
	}
}
