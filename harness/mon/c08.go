package mon

import (
	"encoding/json"
	"fmt"
	"hash/fnv"
	"math/rand"
	"regexp"
	"runtime"
	"runtime/debug"
	"sort"
	"strings"
	"sync"
	"sync/atomic"

	gpb "github.com/openconfig/gnmi/proto/gnmi"
	"github.com/openconfig/ygot/ygot"
	"github.com/openconfig/ygot/zzverif/lib"
	"google.golang.org/protobuf/proto"
)

// C08: gNMI path string encoding round-trips and is injective.
//
// Oracle: proto.Equal(StringToStructuredPath(PathToString(p)), p); a global
// table string -> path finds two distinct paths with one string; the legacy
// []string form obeys the same law; StringToPath agrees with the two
// single-type functions.

func init() { Monitors["C08"] = runC08 }

type c08KV struct{ K, V string }

type c08Elem struct {
	Name string
	Keys []c08KV
}

type c08Path []c08Elem

func (p c08Path) pb() *gpb.Path {
	out := &gpb.Path{}
	for _, e := range p {
		pe := &gpb.PathElem{Name: e.Name}
		if len(e.Keys) > 0 {
			pe.Key = make(map[string]string, len(e.Keys))
			for _, kv := range e.Keys {
				pe.Key[kv.K] = kv.V
			}
		}
		out.Elem = append(out.Elem, pe)
	}
	return out
}

// canon is an unambiguous rendering used for distinctness and as witness.
func (p c08Path) canon() string {
	var b strings.Builder
	for _, e := range p {
		b.WriteString(e.Name)
		ks := append([]c08KV{}, e.Keys...)
		sort.Slice(ks, func(i, j int) bool { return ks[i].K < ks[j].K })
		for _, kv := range ks {
			b.WriteByte(0)
			b.WriteString(kv.K)
			b.WriteByte(1)
			b.WriteString(kv.V)
		}
		b.WriteByte(2)
	}
	return b.String()
}

func (p c08Path) wit() interface{} {
	var out []interface{}
	for _, e := range p {
		m := map[string]interface{}{"name": e.Name}
		if len(e.Keys) > 0 {
			k := map[string]string{}
			for _, kv := range e.Keys {
				k[kv.K] = kv.V
			}
			m["key"] = k
		}
		out = append(out, m)
	}
	return out
}

func (p c08Path) clone() c08Path {
	out := make(c08Path, len(p))
	for i, e := range p {
		out[i] = c08Elem{Name: e.Name, Keys: append([]c08KV{}, e.Keys...)}
	}
	return out
}

func c08FromPB(p *gpb.Path) c08Path {
	var out c08Path
	for _, e := range p.GetElem() {
		ce := c08Elem{Name: e.GetName()}
		var ks []string
		for k := range e.GetKey() {
			ks = append(ks, k)
		}
		sort.Strings(ks)
		for _, k := range ks {
			ce.Keys = append(ce.Keys, c08KV{k, e.Key[k]})
		}
		out = append(out, ce)
	}
	return out
}

// ---------------------------------------------------------------- workload

// c08Alphabet is the exhaustive alphabet of the design.
var c08Alphabet = []rune{'a', '/', '[', ']', '=', '\\', ' ', '.', '*'}

const c08Special = `/[]=\ .*`

// c08Values returns all strings of length 1..maxLen over the alphabet.
func c08Values(maxLen int) []string {
	var out []string
	cur := []string{""}
	for l := 1; l <= maxLen; l++ {
		var next []string
		for _, s := range cur {
			for _, c := range c08Alphabet {
				next = append(next, s+string(c))
			}
		}
		out = append(out, next...)
		cur = next
	}
	return out
}

type c08Block struct {
	name string
	n    int
	gen  func(i int) c08Path
}

func c08Blocks(r *lib.Run) []c08Block {
	v3 := c08Values(3)           // 819
	v2 := c08Values(2)           // 90
	v1 := c08Values(1)           // 9
	v4 := c08Values(4)[len(v3):] // 6561 strings of length exactly 4
	second := v2
	if !r.Quick() {
		second = v3
	}
	one := func(name string, kv ...c08KV) c08Elem { return c08Elem{Name: name, Keys: kv} }
	blocks := []c08Block{
		{"exh:1elem-1key", len(v3), func(i int) c08Path {
			return c08Path{one("x", c08KV{"k", v3[i]})}
		}},
		{"exh:1elem-1key-len4", len(v4), func(i int) c08Path {
			return c08Path{one("x", c08KV{"k", v4[i]})}
		}},
		{"exh:1elem-2keys", len(v3) * len(second), func(i int) c08Path {
			return c08Path{one("x", c08KV{"k", v3[i/len(second)]}, c08KV{"j", second[i%len(second)]})}
		}},
		{"exh:2elems-1key", len(v3) * len(second), func(i int) c08Path {
			return c08Path{one("x", c08KV{"k", v3[i/len(second)]}), one("m:y", c08KV{"k", second[i%len(second)]})}
		}},
		{"exh:2elems-2keys", len(v1) * len(v1) * len(v1) * len(v1), func(i int) c08Path {
			n := len(v1)
			return c08Path{
				one("x", c08KV{"k", v1[i%n]}, c08KV{"j", v1[i/n%n]}),
				one("y", c08KV{"k", v1[i/n/n%n]}, c08KV{"j", v1[i/n/n/n%n]}),
			}
		}},
	}
	if !r.Quick() {
		n := len(v2)
		blocks = append(blocks, c08Block{"exh:2elems-2+1keys", n * n * n, func(i int) c08Path {
			return c08Path{
				one("x", c08KV{"k", v2[i%n]}, c08KV{"j", v2[i/n%n]}),
				one("y", c08KV{"k", v2[i/n/n%n]}),
			}
		}})
	}
	total := r.N(200000, 20000000)
	done := 0
	for _, b := range blocks {
		done += b.n
	}
	nr := total - done
	if nr < 40000 {
		nr = 40000
	}
	seed := r.Seed
	blocks = append(blocks, c08Block{"random", nr, func(i int) c08Path { return c08Random(seed, i) }})
	return blocks
}

const (
	c08First = "abcdefghijklmnopqrstuvwxyzABCDEFGHIJKLMNOPQRSTUVWXYZ_"
	c08Rest  = c08First + "0123456789" + "-."
)

// c08Ident draws from the YANG identifier grammar [a-zA-Z_][a-zA-Z0-9_.-]*.
func c08Ident(rnd *rand.Rand, maxLen int) string {
	n := 1 + rnd.Intn(maxLen)
	b := make([]byte, n)
	b[0] = c08First[rnd.Intn(len(c08First))]
	for i := 1; i < n; i++ {
		if rnd.Intn(4) == 0 {
			b[i] = "-._0"[rnd.Intn(4)]
		} else {
			b[i] = c08Rest[rnd.Intn(len(c08Rest))]
		}
	}
	return string(b)
}

var c08Exotic = []rune{'é', 'ß', 'ж', '日', '本', '🙂', ' ', ' ', '"', '\'', '`', 'Ω'}

func c08Value(rnd *rand.Rand) string {
	n := 1 + rnd.Intn(12)
	rs := make([]rune, n)
	for i := 0; i < n; i++ {
		switch x := rnd.Intn(100); {
		case x < 18:
			rs[i] = '/'
		case x < 32:
			rs[i] = '.'
		case x < 62:
			rs[i] = []rune(`[]=\ *`)[rnd.Intn(6)]
		case x < 74:
			rs[i] = rune(c08Rest[rnd.Intn(len(c08Rest))])
		case x < 80:
			// printf-like sequences: a value must never be interpreted as a format
			rs[i] = '%'
			if i+1 < n {
				i++
				rs[i] = []rune("svdqx%!+#")[rnd.Intn(9)]
			}
		default:
			rs[i] = c08Exotic[rnd.Intn(len(c08Exotic))]
		}
	}
	return string(rs)
}

func c08Random(seed int64, idx int) c08Path {
	rnd := rand.New(rand.NewSource(seed*1000003 + int64(idx)*7919 + 8))
	ne := 1 + rnd.Intn(4)
	p := make(c08Path, ne)
	anyKey := false
	for i := range p {
		name := c08Ident(rnd, 8)
		if rnd.Intn(3) == 0 {
			name = c08Ident(rnd, 6) + ":" + name
		}
		p[i].Name = name
		nk := 0
		switch x := rnd.Intn(10); {
		case x < 3:
			nk = 0
		case x < 7:
			nk = 1
		case x < 9:
			nk = 2
		default:
			nk = 3
		}
		if i == ne-1 && !anyKey && nk == 0 {
			nk = 1
		}
		seen := map[string]bool{}
		for len(p[i].Keys) < nk {
			k := c08Ident(rnd, 5)
			if seen[k] {
				continue
			}
			seen[k] = true
			p[i].Keys = append(p[i].Keys, c08KV{k, c08Value(rnd)})
			anyKey = true
		}
	}
	return p
}

// ---------------------------------------------------------------- oracle

// c08RT evaluates the structured round trip. clause "" means it held.
func c08RT(p c08Path) (clause, detail, s string, back *gpb.Path) {
	pp := p.pb()
	s, err := ygot.PathToString(pp)
	if err != nil {
		return "tostring-error", err.Error(), "", nil
	}
	q, err := ygot.StringToStructuredPath(s)
	if err != nil {
		return "roundtrip-error", err.Error(), s, nil
	}
	if !proto.Equal(q, pp) {
		return "roundtrip", "parsed path differs from the original", s, q
	}
	return "", "", s, q
}

// c08Legacy evaluates the round trip of the legacy []string form.
func c08Legacy(p c08Path) (clause, detail string, w map[string]interface{}) {
	E, err := ygot.PathToStrings(p.pb())
	if err != nil {
		return "tostring-error", err.Error(), nil
	}
	//lint:ignore SA1019 legacy form under test
	ls, err := ygot.PathToString(&gpb.Path{Element: E})
	if err != nil {
		return "legacy-roundtrip-error", "PathToString(Element form): " + err.Error(), map[string]interface{}{"element": E}
	}
	bk, err := ygot.StringToStringSlicePath(ls)
	if err != nil {
		return "legacy-roundtrip-error", err.Error(), map[string]interface{}{"element": E, "string": ls}
	}
	//lint:ignore SA1019 legacy form under test
	got := bk.Element
	same := len(got) == len(E)
	for i := 0; same && i < len(E); i++ {
		same = got[i] == E[i]
	}
	if !same {
		return "legacy-roundtrip", "parsed Element slice differs from the original", map[string]interface{}{"element": E, "string": ls, "got_element": got}
	}
	return "", "", nil
}

func c08IsSpecial(r rune) bool { return strings.ContainsRune(c08Special, r) }

// c08DotSegment reports whether rs[x] is a dot of a "." or ".." segment that is
// delimited by '/' on both sides.  Such dots are not deleted one by one while
// minimising: "/../", "/./" and "//" are three different tokens for a path
// cleaner, and deleting a single dot would turn one into the next.
func c08DotSegment(rs []rune, x int) bool {
	if rs[x] != '.' {
		return false
	}
	i, j := x, x+1
	for i > 0 && rs[i-1] == '.' {
		i--
	}
	for j < len(rs) && rs[j] == '.' {
		j++
	}
	return j-i <= 2 && i > 0 && rs[i-1] == '/' && j < len(rs) && rs[j] == '/'
}

// c08Minimise shrinks a failing path greedily: drop elements, drop keys, plain
// names, then delete single characters of each value (except the dots of a
// /./ or /../ segment) until no deletion keeps the predicate true.  Values stay
// non-empty.
func c08Minimise(p c08Path, fails func(c08Path) bool) c08Path {
	p = p.clone()
	for changed := true; changed; {
		changed = false
		for i := 0; i < len(p) && len(p) > 1; i++ {
			q := append(p[:i:i].clone(), p[i+1:].clone()...)
			if fails(q) {
				p, changed = q, true
				break
			}
		}
	}
	for changed := true; changed; {
		changed = false
	outer:
		for i := range p {
			for k := range p[i].Keys {
				q := p.clone()
				q[i].Keys = append(q[i].Keys[:k:k], q[i].Keys[k+1:]...)
				if fails(q) {
					p, changed = q, true
					break outer
				}
			}
		}
	}
	// names to short plain identifiers when they do not matter
	for i := range p {
		q := p.clone()
		q[i].Name = fmt.Sprintf("e%d", i)
		for k := range q[i].Keys {
			q[i].Keys[k].K = fmt.Sprintf("k%d", k)
		}
		if fails(q) {
			p = q
		}
	}
	try := func(i, k int, v string) bool {
		if v == "" {
			return false
		}
		q := p.clone()
		q[i].Keys[k].V = v
		if fails(q) {
			p = q
			return true
		}
		return false
	}
	for i := range p {
		for k := range p[i].Keys {
			// whole value replaced by a plain one
			if try(i, k, "v") {
				continue
			}
			for changed := true; changed; {
				changed = false
				rs := []rune(p[i].Keys[k].V)
				for x := range rs {
					if c08DotSegment(rs, x) {
						continue
					}
					if try(i, k, string(rs[:x])+string(rs[x+1:])) {
						changed = true
						break
					}
				}
			}
		}
	}
	return p
}

// c08SameString is the two-path predicate: different paths, one string.
func c08SameString(p, o c08Path) bool {
	if len(p) == 0 || len(o) == 0 || p.canon() == o.canon() {
		return false
	}
	for _, x := range []c08Path{p, o} {
		for _, e := range x {
			for _, kv := range e.Keys {
				if kv.V == "" {
					return false
				}
			}
		}
	}
	s1, e1 := ygot.PathToString(p.pb())
	s2, e2 := ygot.PathToString(o.pb())
	return e1 == nil && e2 == nil && s1 == s2
}

func (e c08Elem) keyIndex(k string) int {
	for i, kv := range e.Keys {
		if kv.K == k {
			return i
		}
	}
	return -1
}

func c08DelRune(v string, x int) string {
	rs := []rune(v)
	if x < 0 || x >= len(rs) {
		return v
	}
	return string(rs[:x]) + string(rs[x+1:])
}

// c08MinimisePair shrinks two different paths with one string while they stay
// different with one string: drop an element / a key on both sides, replace a
// value on both sides by a plain one, delete the same character position on
// both sides, or delete one character on one side.
func c08MinimisePair(p, o c08Path) (c08Path, c08Path) {
	p, o = p.clone(), o.clone()
	step := func() bool {
		if len(p) == len(o) {
			for i := range p {
				if len(p) < 2 {
					break
				}
				p2 := append(p[:i:i].clone(), p[i+1:].clone()...)
				o2 := append(o[:i:i].clone(), o[i+1:].clone()...)
				if c08SameString(p2, o2) {
					p, o = p2, o2
					return true
				}
			}
		}
		for i := 0; i < len(p) && i < len(o); i++ {
			for k, kv := range p[i].Keys {
				ok := o[i].keyIndex(kv.K)
				if ok < 0 && len(o[i].Keys) == len(p[i].Keys) {
					ok = k // keys with different names: align by position
				}
				if ok < 0 {
					continue
				}
				p2, o2 := p.clone(), o.clone()
				p2[i].Keys = append(p2[i].Keys[:k:k], p2[i].Keys[k+1:]...)
				o2[i].Keys = append(o2[i].Keys[:ok:ok], o2[i].Keys[ok+1:]...)
				if c08SameString(p2, o2) {
					p, o = p2, o2
					return true
				}
				ov := o[i].Keys[ok].V
				if kv.V == ov && kv.V != "v" {
					p2, o2 = p.clone(), o.clone()
					p2[i].Keys[k].V, o2[i].Keys[ok].V = "v", "v"
					if c08SameString(p2, o2) {
						p, o = p2, o2
						return true
					}
				}
				pr, or := []rune(kv.V), []rune(ov)
				for x := 0; x < len(pr) && x < len(or); x++ {
					// same position from the front, then from the back
					for _, back := range []bool{false, true} {
						xp, xo := x, x
						if back {
							xp, xo = len(pr)-1-x, len(or)-1-x
						}
						if pr[xp] != or[xo] || c08DotSegment(pr, xp) || c08DotSegment(or, xo) {
							continue
						}
						p2, o2 = p.clone(), o.clone()
						p2[i].Keys[k].V, o2[i].Keys[ok].V = c08DelRune(kv.V, xp), c08DelRune(ov, xo)
						if c08SameString(p2, o2) {
							p, o = p2, o2
							return true
						}
					}
				}
			}
		}
		for side := 0; side < 2; side++ {
			x := p
			if side == 1 {
				x = o
			}
			both := func(x2 c08Path) bool {
				p2, o2 := x2, o
				if side == 1 {
					p2, o2 = p, x2
				}
				if c08SameString(p2, o2) {
					p, o = p2, o2
					return true
				}
				return false
			}
			for i := range x {
				if len(x) > 1 && both(append(x[:i:i].clone(), x[i+1:].clone()...)) {
					return true
				}
				for k := range x[i].Keys {
					x2 := x.clone()
					x2[i].Keys = append(x2[i].Keys[:k:k], x2[i].Keys[k+1:]...)
					if both(x2) {
						return true
					}
				}
			}
			for i := range x {
				for k, kv := range x[i].Keys {
					rs := []rune(kv.V)
					for c := range rs {
						if c08DotSegment(rs, c) {
							continue
						}
						x2 := x.clone()
						x2[i].Keys[k].V = c08DelRune(kv.V, c)
						p2, o2 := x2, o
						if side == 1 {
							p2, o2 = p, x2
						}
						if c08SameString(p2, o2) {
							p, o = p2, o2
							return true
						}
					}
				}
			}
		}
		return false
	}
	for n := 0; n < 10000 && step(); n++ {
	}
	return p, o
}

// c08Sibling looks for a second, different path with the same string as p:
// the parse result of p's string, or p with its first element or first key
// renamed.  Any hit is a two-path witness against injectivity.
func c08Sibling(p c08Path) (other c08Path, s, how string) {
	pp := p.pb()
	s, err := ygot.PathToString(pp)
	if err != nil {
		return nil, "", ""
	}
	same := func(o *gpb.Path) bool {
		if proto.Equal(o, pp) {
			return false
		}
		s2, err := ygot.PathToString(o)
		return err == nil && s2 == s
	}
	if q, err := ygot.StringToStructuredPath(s); err == nil && same(q) {
		return c08FromPB(q), s, "the parse result of the string is a different path with the same string"
	}
	if len(p) > 0 {
		o := p.clone()
		o[0].Name += "_2"
		if same(o.pb()) {
			return o, s, "renaming the first element does not change the string"
		}
		for i := range p {
			if len(p[i].Keys) > 0 {
				o := p.clone()
				o[i].Keys[0].K += "_2"
				if same(o.pb()) {
					return o, s, "renaming a key does not change the string"
				}
				break
			}
		}
	}
	return nil, s, ""
}

var (
	c08BracketSlash   = regexp.MustCompile(`\][^\[]*/`)
	c08BracketBracket = regexp.MustCompile(`\][^\[]*\]`)
)

// c08ClassValue names the special character sequence of a minimal value.
func c08ClassValue(v string) string {
	switch {
	case strings.Contains(v, "/../"):
		return "value-contains:/../"
	case strings.Contains(v, "/./"):
		return "value-contains:/./"
	case strings.Contains(v, "//"):
		return "value-contains://"
	case c08BracketSlash.MatchString(v):
		return "value-contains:]/"
	case c08BracketBracket.MatchString(v):
		return "value-contains:]]"
	case strings.Contains(v, `\`):
		return "value-contains:backslash"
	}
	plain := true
	var b strings.Builder
	for _, r := range v {
		switch {
		case c08IsSpecial(r):
			plain = false
			if r == ' ' {
				b.WriteString("space")
			} else {
				b.WriteRune(r)
			}
		case r < 0x80 && strings.ContainsRune(c08Rest, r):
			b.WriteByte('a')
		case r >= 0x80:
			plain = false
			b.WriteByte('U')
		default:
			plain = false
			b.WriteRune(r)
		}
	}
	if plain {
		return ""
	}
	return "value-shape:" + lib.Clip(b.String(), 12)
}

func c08Features(min c08Path) string {
	set := map[string]bool{}
	nk := 0
	for _, e := range min {
		for _, kv := range e.Keys {
			nk++
			if c := c08ClassValue(kv.V); c != "" {
				set[c] = true
			}
		}
	}
	if len(set) == 0 {
		return fmt.Sprintf("no-special-value:elems=%d,keys=%d", len(min), nk)
	}
	// one class per witness: the first of the known sequences in a fixed order,
	// else the (sorted) shapes of the special values that are left
	for _, c := range c08ClassOrder {
		if set[c] {
			return c
		}
	}
	var shapes []string
	for f := range set {
		shapes = append(shapes, f)
	}
	sort.Strings(shapes)
	return strings.Join(shapes, "+")
}

var c08ClassOrder = []string{"value-contains:/../", "value-contains:/./", "value-contains://", "value-contains:]/", "value-contains:]]", "value-contains:backslash"}

// ---------------------------------------------------------------- monitor

type c08Table struct {
	mu sync.Mutex
	m  map[uint64]int64
}

type c08State struct {
	r      *lib.Run
	blocks []c08Block
	offs   []int
	total  int
	tabs   [256]c08Table
	stored int64
	cap    int64

	kmu   sync.RWMutex
	known map[string]map[string]c08Known // family -> minimal token -> signature
	nfail map[string]*int64
}

type c08Known struct{ clause, feat string }

// c08Lazy defers building a witness until it is actually stored.
type c08Lazy func() interface{}

func (l c08Lazy) MarshalJSON() ([]byte, error) { return json.Marshal(l()) }

// learn remembers that the single-value minimal path min yields a signature.
func (st *c08State) learn(fam string, min c08Path, clause, feat string) {
	if len(min) != 1 || len(min[0].Keys) != 1 || strings.HasPrefix(feat, "value-shape:") {
		return
	}
	st.kmu.Lock()
	st.known[fam][min[0].Keys[0].V] = c08Known{clause, feat}
	st.kmu.Unlock()
}

// explained is the fast path for the bulk of the failing cases: after the first
// c08FullMin failures of a family every failing path whose values contain an
// already learnt minimal token is counted under that token's signature without
// being minimised again; every 16th such path, and every path that contains no
// learnt token, still goes through the full minimisation.
func (st *c08State) explained(fam string, cov map[string]int, paths ...c08Path) bool {
	n := atomic.AddInt64(st.nfail[fam], 1)
	if n <= c08FullMin || n%16 == 0 {
		return false
	}
	st.kmu.RLock()
	var toks []string
	for t := range st.known[fam] {
		toks = append(toks, t)
	}
	sort.Strings(toks)
	var hit *c08Known
search:
	for _, t := range toks {
		for _, p := range paths {
			for _, e := range p {
				for _, kv := range e.Keys {
					if strings.Contains(kv.V, t) {
						k := st.known[fam][t]
						hit = &k
						break search
					}
				}
			}
		}
	}
	st.kmu.RUnlock()
	if hit == nil {
		return false
	}
	cov["\x00"+hit.clause+"\x00"+hit.feat]++ // flushed as Violate calls when the worker ends
	cov["minimise:skipped-"+fam]++
	return true
}

const c08FullMin = 4000

func (st *c08State) gen(idx int) (c08Path, string) {
	for b := len(st.blocks) - 1; b >= 0; b-- {
		if idx >= st.offs[b] {
			return st.blocks[b].gen(idx - st.offs[b]), st.blocks[b].name
		}
	}
	return nil, ""
}

func runC08(r *lib.Run) {
	if r.Quick() {
		// small live heap, many short-lived protos: collect less often
		defer debug.SetGCPercent(debug.SetGCPercent(400))
	}
	r.Rule = "paths = exhaustive blocks (1-2 elements, 1-2 keys, values = all strings of length 1..3 over {a / [ ] = \\ space . *}, plus all 4-character values on one key) followed by random paths from rand(seed,index): 1-4 elements, names from the YANG identifier grammar with optional mod: prefix, 0-3 keys, values of 1..12 runes over the special alphabet, identifier characters, non-ASCII and quotes; non-trivial = some key value holds a character outside [A-Za-z0-9_.-] or a '.'; distinct by canonical path"
	r.Assume("element and key names are YANG identifiers, key values are non-empty valid UTF-8; empty values and non-identifier names are outside the statement and never generated")
	r.Assume("a witness is minimised (drop elements, drop keys, plain names, delete single characters of a value except the dots of a /./ or /../ segment) while the round trip still fails, with or without a parse error; the clause and the features are those of the minimal path; after the first 4000 failures per clause family a failing path that contains an already learnt minimal token is counted under that signature without being minimised again (every 16th still is)")
	st := &c08State{r: r, blocks: c08Blocks(r), known: map[string]map[string]c08Known{}, nfail: map[string]*int64{}}
	for _, f := range []string{"rt", "inj", "legacy"} {
		st.known[f] = map[string]c08Known{}
		st.nfail[f] = new(int64)
	}
	for _, b := range st.blocks {
		st.offs = append(st.offs, st.total)
		st.total += b.n
		r.Extra("block:"+b.name, b.n)
	}
	st.cap = int64(r.N(1<<30, 8000000))
	for i := range st.tabs {
		st.tabs[i].m = map[uint64]int64{}
	}
	workers := runtime.GOMAXPROCS(0)
	if workers > 16 {
		workers = 16
	}
	if workers < 1 {
		workers = 1
	}
	const chunk = 2048
	var next int64
	var wg sync.WaitGroup
	for w := 0; w < workers; w++ {
		wg.Add(1)
		go func() {
			defer wg.Done()
			cov := map[string]int{}
			defer func() {
				for k, n := range cov {
					if strings.HasPrefix(k, "\x00") {
						cf := strings.SplitN(k[1:], "\x00", 2)
						for ; n > 0; n-- {
							r.Violate(cf[0], cf[1], "", nil)
						}
						continue
					}
					r.HitN(k, n)
				}
			}()
			for {
				lo := int(atomic.AddInt64(&next, chunk)) - chunk
				if lo >= st.total {
					return
				}
				hi := lo + chunk
				if hi > st.total {
					hi = st.total
				}
				for idx := lo; idx < hi; idx++ {
					st.one(idx, cov)
				}
			}
		}()
	}
	wg.Wait()
	r.Extra("injectivity_table_entries", atomic.LoadInt64(&st.stored))
	r.Extra("paths", st.total)
	r.RequireCov("fn:PathToString", "fn:PathToStrings", "fn:StringToStructuredPath", "fn:StringToStringSlicePath", "fn:StringToPath",
		"value-has:slash", "value-has:lbracket", "value-has:rbracket", "value-has:equals", "value-has:backslash", "value-has:space",
		"value-has:dot", "value-has:star", "value-has:non-ascii", "value-has:quote", "name:prefixed", "roundtrip-ok", "legacy-roundtrip-ok",
		"injectivity:lookups", "block:random")
	r.SetFloor(1000)
}

var c08CharCov = map[rune]string{'/': "slash", '[': "lbracket", ']': "rbracket", '=': "equals", '\\': "backslash", ' ': "space", '.': "dot", '*': "star", '"': "quote", '\'': "quote"}

func (st *c08State) one(idx int, cov map[string]int) {
	r := st.r
	p, block := st.gen(idx)
	nontrivial := false
	nk := 0
	for _, e := range p {
		if strings.Contains(e.Name, ":") {
			cov["name:prefixed"]++
		}
		for _, kv := range e.Keys {
			nk++
			for _, c := range kv.V {
				if n, ok := c08CharCov[c]; ok {
					cov["value-has:"+n]++
					nontrivial = true
				} else if c >= 0x80 {
					cov["value-has:non-ascii"]++
					nontrivial = true
				}
			}
		}
	}
	r.Case(p.canon(), nontrivial)
	cov["block:"+strings.SplitN(block, ":", 2)[0]]++
	cov[fmt.Sprintf("elems:%d", len(p))]++
	if nk > 3 {
		nk = 3
	}
	cov[fmt.Sprintf("keys:%d", nk)]++
	w := func(orig, min c08Path, more map[string]interface{}) map[string]interface{} {
		out := map[string]interface{}{"generated": orig.wit(), "minimal": min.wit(), "index": idx, "block": block, "seed": r.Seed}
		for k, v := range more {
			out[k] = v
		}
		return out
	}
	fails := func(q c08Path) bool { c, _, _, _ := c08RT(q); return c == "roundtrip" || c == "roundtrip-error" }

	// 1. structured round trip
	var clause, detail, s string
	if r.Guard("PathToString/StringToStructuredPath", c08Lazy(func() interface{} { return w(p, p, nil) }), func() { clause, detail, s, _ = c08RT(p) }) {
		return
	}
	cov["fn:PathToString"]++
	cov["fn:StringToStructuredPath"]++
	if idx%50021 == 0 || (block == "random" && idx%50021 == 7) {
		r.Sample(map[string]interface{}{"path": p.wit(), "string": s, "roundtrip": clause == ""})
	}
	switch clause {
	case "":
		cov["roundtrip-ok"]++
	case "tostring-error":
		r.Violate(clause, lib.NormErr(detail), detail, w(p, p, nil))
		return
	default:
		cov["roundtrip-fails"]++
		if !st.explained("rt", cov, p) {
			min := c08Minimise(p, fails)
			mc, md, ms, mq := c08RT(min)
			more := map[string]interface{}{"string": ms, "generated_string": s, "generated_failure": clause + ": " + detail}
			if mq != nil {
				more["parsed"] = c08FromPB(mq).wit()
			}
			feat := c08Features(min)
			r.Violate(mc, feat, fmt.Sprintf("%s: path %s -> %q: %s", mc, jsonStr(min.wit()), ms, md), w(p, min, more))
			st.learn("rt", min, mc, feat)
			cov["minimise:full-rt"]++
		}
		// injectivity witness derived from the failing path itself
		if o, _, _ := c08Sibling(p); o != nil {
			cov["injectivity:derived-collisions"]++
			if !st.explained("inj", cov, p) {
				min := c08Minimise(p, func(q c08Path) bool { o, _, _ := c08Sibling(q); return o != nil })
				other, ms, how := c08Sibling(min)
				feat := c08Features(min)
				r.Violate("not-injective", feat, fmt.Sprintf("paths %s and %s both map to %q", jsonStr(min.wit()), jsonStr(other.wit()), ms),
					w(p, min, map[string]interface{}{"string": ms, "other_path": other.wit(), "how": how}))
				st.learn("inj", min, "not-injective", feat)
				cov["minimise:full-inj"]++
			}
		}
	}

	// 2. injectivity table
	if s != "" {
		h := fnv.New64a()
		h.Write([]byte(s))
		hv := h.Sum64()
		t := &st.tabs[hv&255]
		t.mu.Lock()
		prev, seen := t.m[hv]
		if !seen && atomic.LoadInt64(&st.stored) < st.cap {
			t.m[hv] = int64(idx)
			atomic.AddInt64(&st.stored, 1)
		}
		t.mu.Unlock()
		cov["injectivity:lookups"]++
		if seen && prev != int64(idx) {
			o, _ := st.gen(int(prev))
			os, err := ygot.PathToString(o.pb())
			if err == nil && os == s && o.canon() != p.canon() {
				cov["injectivity:table-collisions"]++
				if st.explained("inj", cov, p, o) {
					goto legacy
				}
				mp, mo := c08MinimisePair(p, o)
				ms, _ := ygot.PathToString(mp.pb())
				cov["minimise:full-inj-pair"]++
				r.Violate("not-injective", c08Features(append(mp.clone(), mo...)), fmt.Sprintf("paths %s and %s both map to %q", jsonStr(mp.wit()), jsonStr(mo.wit()), ms),
					w(p, mp, map[string]interface{}{"string": ms, "other_path": mo.wit(), "generated_string": s, "generated_other_path": o.wit(), "other_index": prev, "how": "two generated paths with one string (table)"}))
			}
		}
	}

legacy:
	// 3. legacy string-slice form
	var lc, ld string
	var lw map[string]interface{}
	if r.Guard("PathToStrings/StringToStringSlicePath", c08Lazy(func() interface{} { return w(p, p, nil) }), func() { lc, ld, lw = c08Legacy(p) }) {
		return
	}
	cov["fn:PathToStrings"]++
	cov["fn:StringToStringSlicePath"]++
	switch lc {
	case "":
		cov["legacy-roundtrip-ok"]++
	case "tostring-error":
	default:
		lfails := func(q c08Path) bool {
			c, _, _ := c08Legacy(q)
			return c == "legacy-roundtrip" || c == "legacy-roundtrip-error"
		}
		cov["legacy-roundtrip-fails"]++
		if !st.explained("legacy", cov, p) {
			min := c08Minimise(p, lfails)
			mc, md, mw := c08Legacy(min)
			if mw == nil {
				mw = map[string]interface{}{}
			}
			mw["generated_failure"] = lc + ": " + ld
			mw["generated_legacy"] = lw
			feat := c08Features(min)
			r.Violate(mc, feat, fmt.Sprintf("%s: Element %s via %q: %s", mc, jsonStr(mw["element"]), mw["string"], md), w(p, min, mw))
			st.learn("legacy", min, mc, feat)
			cov["minimise:full-legacy"]++
		}
	}

	// 4. StringToPath agrees with the single-type functions
	if s != "" {
		r.Guard("StringToPath", c08Lazy(func() interface{} { return w(p, p, map[string]interface{}{"string": s}) }), func() {
			if f, d := c08StringToPath(s, idx%4 == 0); f != "" {
				r.Violate("stringtopath-disagrees", f, d, w(p, p, map[string]interface{}{"string": s}))
			}
		})
		cov["fn:StringToPath"]++
	}
}

func c08StrsEq(a, b []string) bool {
	if len(a) != len(b) {
		return false
	}
	for i := range a {
		if a[i] != b[i] {
			return false
		}
	}
	return true
}

// c08StringToPath compares StringToPath against the single-type functions.
func c08StringToPath(s string, single bool) (feature, detail string) {
	st, errS := ygot.StringToStructuredPath(s)
	sl, errL := ygot.StringToStringSlicePath(s)
	both, errB := ygot.StringToPath(s, ygot.StructuredPath, ygot.StringSlicePath)
	if (errB != nil) != (errS != nil || errL != nil) {
		return "both-types:error-parity", fmt.Sprintf("StringToPath(%q, both) err=%v, structured err=%v, slice err=%v", s, errB, errS, errL)
	}
	if errB == nil {
		if !proto.Equal(&gpb.Path{Elem: both.Elem}, &gpb.Path{Elem: st.Elem}) {
			return "both-types:elem", fmt.Sprintf("StringToPath(%q, both).Elem differs from StringToStructuredPath", s)
		}
		//lint:ignore SA1019 legacy form under test
		if !c08StrsEq(both.Element, sl.Element) {
			return "both-types:element", fmt.Sprintf("StringToPath(%q, both).Element differs from StringToStringSlicePath", s)
		}
	}
	if !single {
		return "", ""
	}
	one, err1 := ygot.StringToPath(s, ygot.StructuredPath)
	if (err1 != nil) != (errS != nil) {
		return "structured:error-parity", fmt.Sprintf("StringToPath(%q, StructuredPath) err=%v, StringToStructuredPath err=%v", s, err1, errS)
	}
	//lint:ignore SA1019 legacy form under test
	if err1 == nil && (!proto.Equal(&gpb.Path{Elem: one.Elem}, &gpb.Path{Elem: st.Elem}) || len(one.Element) != 0) {
		return "structured:elem", fmt.Sprintf("StringToPath(%q, StructuredPath) differs from StringToStructuredPath", s)
	}
	two, err2 := ygot.StringToPath(s, ygot.StringSlicePath)
	if (err2 != nil) != (errL != nil) {
		return "slice:error-parity", fmt.Sprintf("StringToPath(%q, StringSlicePath) err=%v, StringToStringSlicePath err=%v", s, err2, errL)
	}
	//lint:ignore SA1019 legacy form under test
	if err2 == nil && (!c08StrsEq(two.Element, sl.Element) || len(two.Elem) != 0) {
		return "slice:element", fmt.Sprintf("StringToPath(%q, StringSlicePath) differs from StringToStringSlicePath", s)
	}
	return "", ""
}
