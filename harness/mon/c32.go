package mon

import (
	"github.com/openconfig/goyang/pkg/yang"
	"github.com/openconfig/ygot/ygot"
	"github.com/openconfig/ygot/zzverif/lib"
	"math/rand"
	"reflect"
	"strings"
)

func init() { Monitors["C32"] = runC32 }

// configOf walks the goyang compilation (not ygot's util.IsConfig).
func configOf(e *yang.Entry) bool {
	for ; e != nil; e = e.Parent {
		switch e.Config {
		case yang.TSTrue:
			return true
		case yang.TSFalse:
			return false
		}
	}
	return true
}

// hasConfigCounterpart: OpenConfig convention, a leaf .../state/x mirrors .../config/x.
func hasConfigCounterpart(gy *lib.Goyang, names []string) bool {
	n := len(names)
	if n < 2 || names[n-2] != "state" {
		return false
	}
	alt := append(append([]string(nil), names[:n-2]...), "config", names[n-1])
	e := gy.Find(alt)
	return e != nil && configOf(e)
}

func runC32(r *lib.Run) {
	r.Rule = "trees over uncompressed and compressed (prefer-config and prefer-operational-state) code mixing config true/false; PruneConfigFalse; expected leaf set computed from the config flags of a direct goyang compilation (uncompressed: config-true part; compressed: config-false leaves are kept only when a config counterpart exists); non-trivial = tree holds >=1 config-false and >=1 config-true leaf; distinct by cfg+leaf set"
	n := r.N(500, 10000)
	names := []string{"vt/U-simple", "vtoc/C-simple", "vtoc/C-opstate"}
	if !r.Quick() {
		names = lib.Names()
	}
	for _, cn := range names {
		cfg := lib.Get(cn)
		gy, err := cfg.Goyang()
		if err != nil {
			r.Inconclusive("goyang: " + err.Error())
			continue
		}
		for i := 0; i < n; i++ {
			if skip(cfg, i) {
				continue
			}
			opt := lib.DefaultGen()
			opt.OrderedSiblings = true
			opt.Unkeyed = i%2 == 0
			opt.Density = 0.7
			// representation classes: set-but-empty lists, leaf-lists and binaries (what Unmarshal
			// produces from "x": [] and "x": "")
			opt.EmptyLists, opt.EmptyLeafLists, opt.ZeroLenBinary = i%2 == 1, i%2 == 1, i%2 == 1
			t := lib.NewGen(cfg, r.Seed, i, opt).Tree()
			before := cfg.Observe(t)
			want := lib.NewObs()
			nFalse, nTrue := 0, 0
			// the struct handed to PruneConfigFalse: the root, or (every third case) a
			// container / list entry below it with its own schema entry
			target, tschema, scope := t, cfg.RootEntry(), "root"
			var scopePath []lib.PathElem
			if i%3 == 2 {
				nodes := cfg.Nodes(t)
				rng := rand.New(rand.NewSource(r.Seed*733 + int64(i)))
				for tries := 0; tries < 8 && len(nodes) > 1; tries++ {
					nd := nodes[1+rng.Intn(len(nodes)-1)]
					se := cfg.Schema().SchemaTree[nd.V.Type().Elem().Name()]
					gs, ok := nd.V.Interface().(ygot.GoStruct)
					if se == nil || !ok {
						continue
					}
					target, tschema, scope, scopePath = gs, se, "subtree", nd.Path
					break
				}
			}
			r.Hit("scope:" + scope)
			for p, l := range before.Leaves {
				if scope == "subtree" && !lib.ElemsUnder(l.Elems, scopePath) {
					want.Leaves[p] = l // outside the struct that is pruned
					continue
				}
				var dn []string
				for _, e := range l.Elems {
					dn = append(dn, e.Name)
				}
				ge := gy.Find(dn)
				if ge == nil {
					r.Inconclusive("goyang has no node for " + p)
					continue
				}
				keep := configOf(ge)
				if keep {
					nTrue++
				} else {
					nFalse++
					if cfg.Compressed && hasConfigCounterpart(gy, dn) {
						keep = true
						r.Hit("kept:state-leaf-with-config-counterpart")
					}
				}
				if keep {
					want.Leaves[p] = l
				} else {
					r.Hit("pruned:" + l.Feature())
				}
			}
			r.Case(caseKey(cfg, before), nFalse > 0 && nTrue > 0)
			r.Hit("cfg:" + cfg.Name)
			w := wit(cfg, r.Seed, i, map[string]interface{}{"tree": before.Dump(), "scope": scope, "scope_path": lib.PathString(scopePath)})
			var perr error
			if r.Guard("PruneConfigFalse", w, func() { perr = ygot.PruneConfigFalse(tschema, target) }) {
				continue
			}
			if perr != nil {
				r.ViolateErr("prune-error", perr, w)
				continue
			}
			after := cfg.Observe(t)
			bad := false
			for _, d := range lib.DiffObs(want, after, lib.DiffOpts{IgnoreOrder: true, EmptyLeafListIsAbsent: true}) {
				if d.What != "leaf" {
					continue
				}
				bad = true
				cl := "config-false-data-remains"
				if d.A != "" && d.B == "" {
					cl = "config-true-data-removed"
				} else if d.A != "" {
					cl = "value-changed"
				}
				r.Violate(cl, scope+":"+featOf(d), d.String(), w)
			}
			// set-but-empty collections hold no leaf, but are rendered ("alarm": []): a config-false one
			// must be gone as well
			for _, nd := range cfg.Nodes(t) {
				if scope == "subtree" && !lib.ElemsUnder(nd.Path, scopePath) {
					continue
				}
				for _, f := range nd.Info.Fields {
					fv := nd.V.Elem().Field(f.Idx)
					if (fv.Kind() != reflect.Map && fv.Kind() != reflect.Slice) || fv.IsNil() || fv.Len() != 0 {
						continue
					}
					var dn []string
					for _, e := range nd.Path {
						dn = append(dn, e.Name)
					}
					dn = append(dn, f.Path...)
					ge := gy.Find(dn)
					if ge == nil || configOf(ge) || (cfg.Compressed && hasConfigCounterpart(gy, dn)) {
						continue
					}
					bad = true
					kind := map[lib.Kind]string{lib.KLeaf: "binary", lib.KLeafList: "leaf-list", lib.KList: "list"}[f.Kind]
					r.Violate("config-false-data-remains", scope+":empty-"+kind, "a set-but-empty config-false "+kind+" is still set after pruning: /"+strings.Join(dn, "/"), w)
				}
			}
			r.Hit("empty-collections-checked")
			if !bad {
				r.Hit("pruned-ok")
				r.Hit("pruned-ok:" + scope)
			}
			if i < 2 {
				r.Sample(map[string]interface{}{"cfg": cfg.Name, "leaves_before": len(before.Leaves), "config_false": nFalse, "leaves_after": len(after.Leaves)})
			}
		}
	}
	r.RequireCov("pruned-ok", "pruned-ok:root", "pruned-ok:subtree", "cfg:vt/U-simple", "cfg:vtoc/C-simple", "cfg:vtoc/C-opstate", "kept:state-leaf-with-config-counterpart")
}
