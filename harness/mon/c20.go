package mon

import (
	"bytes"
	"encoding/json"
	"fmt"
	"math/rand"
	"os"
	"os/exec"
	"path/filepath"
	"regexp"
	"sort"
	"strconv"
	"strings"
	"time"

	gpb "github.com/openconfig/gnmi/proto/gnmi"
	"github.com/openconfig/ygot/gnmidiff"
	"github.com/openconfig/ygot/ygot"
	"github.com/openconfig/ygot/ytypes"
	"github.com/openconfig/ygot/zzverif/lib"
	"google.golang.org/protobuf/proto"
)

func init() { Monitors["C20"] = runC20 }

var verboseC20 = os.Getenv("VERIF_VERBOSE") != ""

// FuzzTarget is one entry point exercised with arbitrary input; it must return
// normally.  The same functions back the native `go test -fuzz` targets.
type FuzzTarget struct {
	Name string
	Run  func(cfg *lib.Cfg, data []byte)
}

func decodePathTV(data []byte) (*gpb.Path, *gpb.TypedValue) {
	// the input is an Update message: path + val
	u := &gpb.Update{}
	if proto.Unmarshal(data, u) != nil {
		return nil, nil
	}
	return u.Path, u.Val
}

// FuzzTargets lists the C20 entry points.
func FuzzTargets() []FuzzTarget {
	return []FuzzTarget{
		{"Unmarshal", func(cfg *lib.Cfg, data []byte) {
			cfg.UnmarshalJSON(data, cfg.NewRoot())
			cfg.UnmarshalJSON(data, cfg.NewRoot(), &ytypes.IgnoreExtraFields{})
		}},
		{"SetNode", func(cfg *lib.Cfg, data []byte) {
			p, v := decodePathTV(data)
			if p == nil {
				return
			}
			ytypes.SetNode(cfg.RootEntry(), cfg.NewRoot(), p, v, &ytypes.InitMissingElements{})
			ytypes.SetNode(cfg.RootEntry(), cfg.NewRoot(), p, v, &ytypes.InitMissingElements{}, &ytypes.TolerateJSONInconsistencies{})
			ytypes.SetNode(cfg.RootEntry(), cfg.NewRoot(), p, v)
		}},
		{"GetNode", func(cfg *lib.Cfg, data []byte) {
			p, _ := decodePathTV(data)
			if p == nil {
				return
			}
			t := lib.NewGen(cfg, 1, int(len(data)%7), lib.DefaultGen()).Tree()
			ytypes.GetNode(cfg.RootEntry(), t, p)
			ytypes.GetNode(cfg.RootEntry(), t, p, &ytypes.GetPartialKeyMatch{}, &ytypes.GetHandleWildcards{})
			ytypes.GetNode(cfg.RootEntry(), t, p, &ytypes.GetTolerateNil{})
		}},
		{"DeleteNode", func(cfg *lib.Cfg, data []byte) {
			p, _ := decodePathTV(data)
			if p == nil {
				return
			}
			t := lib.NewGen(cfg, 1, int(len(data)%7), lib.DefaultGen()).Tree()
			ytypes.DeleteNode(cfg.RootEntry(), t, p)
		}},
		{"UnmarshalSetRequest", func(cfg *lib.Cfg, data []byte) {
			req := &gpb.SetRequest{}
			if proto.Unmarshal(data, req) != nil {
				return
			}
			ytypes.UnmarshalSetRequest(cfg.Schema(), req)
			ytypes.UnmarshalSetRequest(cfg.Schema(), req, &ytypes.BestEffortUnmarshal{}, &ytypes.IgnoreExtraFields{})
		}},
		{"UnmarshalNotifications", func(cfg *lib.Cfg, data []byte) {
			resp := &gpb.SubscribeResponse{}
			n := &gpb.Notification{}
			if proto.Unmarshal(data, n) != nil {
				return
			}
			_ = resp
			ytypes.UnmarshalNotifications(cfg.Schema(), []*gpb.Notification{n})
		}},
		{"StringToPath", func(cfg *lib.Cfg, data []byte) {
			s := string(data)
			ygot.StringToPath(s, ygot.StructuredPath, ygot.StringSlicePath)
			ygot.StringToStructuredPath(s)
			ygot.StringToStringSlicePath(s)
		}},
		{"DiffSetRequest", func(cfg *lib.Cfg, data []byte) {
			// two requests, length-prefixed by the first byte modulo len
			ab, bb, ok := splitPair(data)
			if !ok {
				return
			}
			a, b := &gpb.SetRequest{}, &gpb.SetRequest{}
			if proto.Unmarshal(ab, a) != nil || proto.Unmarshal(bb, b) != nil {
				return
			}
			gnmidiff.DiffSetRequest(a, b, cfg.Schema())
			_, e2 := gnmidiff.DiffSetRequest(a, b, nil)
			if verboseC20 {
				fmt.Println("C20 DiffSetRequest nil-schema err:", e2)
			}
		}},
		{"DiffSetRequestToNotifications", func(cfg *lib.Cfg, data []byte) {
			ab, nb, ok := splitPair(data)
			if !ok {
				return
			}
			a, n := &gpb.SetRequest{}, &gpb.Notification{}
			if proto.Unmarshal(ab, a) != nil || proto.Unmarshal(nb, n) != nil {
				return
			}
			gnmidiff.DiffSetRequestToNotifications(a, []*gpb.Notification{n}, cfg.Schema())
			gnmidiff.DiffSetRequestToNotifications(a, []*gpb.Notification{n}, nil)
		}},
	}
}

// pair packs two messages: a 2-byte split point (modulo the payload length) and
// the concatenated messages.
func pair(a, b []byte) []byte {
	if len(a) > 65000 {
		return nil
	}
	out := []byte{byte(len(a) >> 8), byte(len(a))}
	out = append(out, a...)
	return append(out, b...)
}

func splitPair(data []byte) ([]byte, []byte, bool) {
	if len(data) < 3 {
		return nil, nil, false
	}
	k := (int(data[0])<<8 | int(data[1])) % (len(data) - 1)
	return data[2 : 2+k], data[2+k:], true
}

// --- structure-aware mutation -------------------------------------------------

func mutateJSON(v interface{}, rng *rand.Rand) (interface{}, string) {
	// collect addressable positions
	type pos struct {
		parent interface{}
		key    string
		idx    int
	}
	var ps []pos
	var walk func(x interface{})
	walk = func(x interface{}) {
		switch t := x.(type) {
		case map[string]interface{}:
			ks := make([]string, 0, len(t))
			for k := range t {
				ks = append(ks, k)
			}
			sort.Strings(ks)
			for _, k := range ks {
				ps = append(ps, pos{t, k, -1})
				walk(t[k])
			}
		case []interface{}:
			for i := range t {
				ps = append(ps, pos{t, "", i})
				walk(t[i])
			}
		}
	}
	walk(v)
	if len(ps) == 0 {
		return v, "none"
	}
	// a value that is reachable by two member paths (OpenConfig key leaves: <k> and config/<k>):
	// put the same non-scalar at both
	if rng.Intn(6) == 0 {
		type twin struct {
			o, c map[string]interface{}
			k    string
		}
		var tw []twin
		for _, q := range ps {
			o, ok := q.parent.(map[string]interface{})
			if !ok || q.idx >= 0 {
				continue
			}
			for _, cn := range []string{"config", "state"} {
				if c, ok := o[cn].(map[string]interface{}); ok {
					if _, has := c[q.key]; has {
						tw = append(tw, twin{o, c, q.key})
					}
				}
			}
		}
		if len(tw) > 0 {
			t := tw[rng.Intn(len(tw))]
			vals := []func() interface{}{
				func() interface{} { return []interface{}{"a"} },
				func() interface{} { return map[string]interface{}{"x": 1.0} },
				func() interface{} { return []interface{}{[]interface{}{1.0}} },
				func() interface{} { return []interface{}{} },
			}
			mk := vals[rng.Intn(len(vals))]
			t.o[t.k], t.c[t.k] = mk(), mk()
			return v, "same-nonscalar-at-both-key-paths"
		}
	}
	p := ps[rng.Intn(len(ps))]
	repl := []struct {
		name string
		v    interface{}
	}{
		{"null", nil}, {"number", 7.5}, {"string", "x"}, {"true", true}, {"empty-object", map[string]interface{}{}}, {"empty-array", []interface{}{}},
		{"array-of-scalars", []interface{}{1.0, "a", nil}}, {"array-of-arrays", []interface{}{[]interface{}{}}}, {"nested-object", map[string]interface{}{"": map[string]interface{}{"x": nil}}},
		{"huge-number", 1e300}, {"negative", -1.0}, {"array-with-null-entry", []interface{}{nil, map[string]interface{}{}}},
	}
	c := repl[rng.Intn(len(repl))]
	set := func(nv interface{}) {
		if p.idx >= 0 {
			p.parent.([]interface{})[p.idx] = nv
		} else {
			p.parent.(map[string]interface{})[p.key] = nv
		}
	}
	switch rng.Intn(5) {
	case 0:
		// rename member
		if p.idx < 0 {
			m := p.parent.(map[string]interface{})
			val := m[p.key]
			delete(m, p.key)
			names := []string{"", ":", "x:", ":" + p.key, p.key + ":", "a:b:c", strings.ToUpper(p.key)}
			m[names[rng.Intn(len(names))]] = val
			return v, "rename-member"
		}
		fallthrough
	case 1:
		// duplicate list element
		if p.idx >= 0 {
			arr := p.parent.([]interface{})
			_ = append(arr, arr[p.idx])
		}
		fallthrough
	default:
		set(c.v)
		return v, "replace-with-" + c.name
	}
}

func mutatePath(p *gpb.Path, rng *rand.Rand) string {
	if p == nil {
		return "nil-path"
	}
	// elements that carry keys, in random order
	var keyed []*gpb.PathElem
	for _, i := range rng.Perm(len(p.Elem)) {
		if len(p.Elem[i].GetKey()) > 0 {
			keyed = append(keyed, p.Elem[i])
		}
	}
	sortedKeys := func(e *gpb.PathElem) []string {
		ks := make([]string, 0, len(e.Key))
		for k := range e.Key {
			ks = append(ks, k)
		}
		sort.Strings(ks)
		return ks
	}
	switch rng.Intn(13) {
	case 9:
		// same number of keys, one of them misnamed
		if len(keyed) > 0 {
			e := keyed[0]
			ks := sortedKeys(e)
			k := ks[rng.Intn(len(ks))]
			v := e.Key[k]
			delete(e.Key, k)
			e.Key[[]string{"bogus-key", k + "x", "", strings.ToUpper(k)}[rng.Intn(4)]] = v
			return "renamed-key"
		}
	case 10:
		// key names of a multi-key element rotated
		if len(keyed) > 0 {
			e := keyed[0]
			ks := sortedKeys(e)
			if len(ks) > 1 {
				vals := make([]string, len(ks))
				for i, k := range ks {
					vals[i] = e.Key[k]
				}
				for i, k := range ks {
					e.Key[k] = vals[(i+1)%len(ks)]
				}
				return "key-values-rotated"
			}
		}
	case 11:
		p.Origin = []string{"openconfig", "cli", "x"}[rng.Intn(3)]
		return "origin-set"
	case 12:
		p.Target = "other-target"
		return "target-set"
	case 0:
		if len(p.Elem) > 0 {
			p.Elem[rng.Intn(len(p.Elem))].Name = ""
			return "empty-elem-name"
		}
	case 1:
		if len(p.Elem) > 0 {
			p.Elem[rng.Intn(len(p.Elem))] = nil
			return "nil-elem"
		}
	case 2:
		for _, e := range keyed {
			if rng.Intn(2) == 0 && len(e.Key) > 1 {
				delete(e.Key, sortedKeys(e)[0])
				return "one-key-dropped"
			}
			e.Key = map[string]string{}
			return "keys-dropped"
		}
	case 3:
		for _, e := range keyed {
			e.Key["bogus-key"] = "x"
			return "extra-key"
		}
	case 4:
		for _, e := range keyed {
			ks := sortedKeys(e)
			e.Key[ks[rng.Intn(len(ks))]] = []string{"", "*", "\x00", "18446744073709551616", "-1", "NaN", "[", "\\"}[rng.Intn(8)]
			return "hostile-key-value"
		}
	case 5:
		p.Elem = append(p.Elem, &gpb.PathElem{Name: "no-such-node", Key: map[string]string{"a": "b"}})
		return "unknown-trailing-elem"
	case 6:
		if len(p.Elem) > 0 {
			i := rng.Intn(len(p.Elem))
			p.Elem[i].Key = map[string]string{"k": "v"}
			return "keys-on-non-list"
		}
	case 7:
		p.Element = []string{"legacy", "elements"}
		p.Origin = "weird"
		return "legacy-elements"
	case 8:
		if len(p.Elem) > 0 {
			p.Elem[rng.Intn(len(p.Elem))].Name = "*"
			return "wildcard-name"
		}
	}
	return "unchanged"
}

func mutateTV(tv *gpb.TypedValue, rng *rand.Rand) string {
	if tv == nil {
		return "nil-tv"
	}
	vals := []struct {
		n string
		v *gpb.TypedValue
	}{
		{"nil-oneof", &gpb.TypedValue{}},
		{"json-garbage", &gpb.TypedValue{Value: &gpb.TypedValue_JsonIetfVal{JsonIetfVal: []byte(`{"a":[{}]`)}}},
		{"json-null", &gpb.TypedValue{Value: &gpb.TypedValue_JsonIetfVal{JsonIetfVal: []byte(`null`)}}},
		{"json-array", &gpb.TypedValue{Value: &gpb.TypedValue_JsonIetfVal{JsonIetfVal: []byte(`[1,"a",{}]`)}}},
		{"json-array-nested-array", &gpb.TypedValue{Value: &gpb.TypedValue_JsonIetfVal{JsonIetfVal: []byte(`["x",["y"]]`)}}},
		{"json-array-nested-object", &gpb.TypedValue{Value: &gpb.TypedValue_JsonIetfVal{JsonIetfVal: []byte(`["x",{"k":1}]`)}}},
		{"json-object-nested-arrays", &gpb.TypedValue{Value: &gpb.TypedValue_JsonIetfVal{JsonIetfVal: []byte(`{"c":[1,[2,3]],"d":{"e":[[1],[2]]}}`)}}},
		{"leaflist-nested", &gpb.TypedValue{Value: &gpb.TypedValue_LeaflistVal{LeaflistVal: &gpb.ScalarArray{Element: []*gpb.TypedValue{{Value: &gpb.TypedValue_StringVal{StringVal: "x"}}, {Value: &gpb.TypedValue_LeaflistVal{LeaflistVal: &gpb.ScalarArray{Element: []*gpb.TypedValue{{Value: &gpb.TypedValue_IntVal{IntVal: 1}}}}}}}}}}},
		{"json-val", &gpb.TypedValue{Value: &gpb.TypedValue_JsonVal{JsonVal: []byte(`{"x":1}`)}}},
		{"leaflist-nil-elems", &gpb.TypedValue{Value: &gpb.TypedValue_LeaflistVal{LeaflistVal: &gpb.ScalarArray{Element: []*gpb.TypedValue{nil, {}}}}}},
		{"leaflist-nil", &gpb.TypedValue{Value: &gpb.TypedValue_LeaflistVal{}}},
		{"leaflist-mixed", &gpb.TypedValue{Value: &gpb.TypedValue_LeaflistVal{LeaflistVal: &gpb.ScalarArray{Element: []*gpb.TypedValue{{Value: &gpb.TypedValue_IntVal{IntVal: 1}}, {Value: &gpb.TypedValue_StringVal{StringVal: "x"}}}}}}},
		{"any-val", &gpb.TypedValue{Value: &gpb.TypedValue_AnyVal{}}},
		{"decimal-val", &gpb.TypedValue{Value: &gpb.TypedValue_DecimalVal{DecimalVal: &gpb.Decimal64{Digits: 5, Precision: 400}}}},
		{"decimal-nil", &gpb.TypedValue{Value: &gpb.TypedValue_DecimalVal{}}},
		{"ascii-val", &gpb.TypedValue{Value: &gpb.TypedValue_AsciiVal{AsciiVal: "x"}}},
		{"proto-bytes", &gpb.TypedValue{Value: &gpb.TypedValue_ProtoBytes{ProtoBytes: []byte{1, 2}}}},
		{"float-nan", &gpb.TypedValue{Value: &gpb.TypedValue_FloatVal{FloatVal: float32(nan())}}},
		{"huge-uint", &gpb.TypedValue{Value: &gpb.TypedValue_UintVal{UintVal: ^uint64(0)}}},
		{"min-int", &gpb.TypedValue{Value: &gpb.TypedValue_IntVal{IntVal: -1 << 63}}},
		{"bool", &gpb.TypedValue{Value: &gpb.TypedValue_BoolVal{BoolVal: true}}},
		{"bytes", &gpb.TypedValue{Value: &gpb.TypedValue_BytesVal{BytesVal: nil}}},
	}
	c := vals[rng.Intn(len(vals))]
	tv.Value = c.v.Value
	return "tv-" + c.n
}

func nan() float64 { var z float64; return z / z }

// c20Inputs produces, for tree (seed, i) of cfg, the seed inputs and their
// structure-aware mutants for every target and hands them to run.  It returns
// the size of the JSON seed and the number of leaf updates (for samples).
func c20Inputs(cfg *lib.Cfg, seed int64, i int, targets []FuzzTarget, run func(tg FuzzTarget, data []byte, mutation string)) (int, int) {
	opt := lib.DefaultGen()
	opt.OrderedSiblings = true
	opt.Unkeyed = i%2 == 0
	t := lib.NewGen(cfg, seed, i, opt).Tree()
	o := cfg.Observe(t)
	rng := rand.New(rand.NewSource(seed*7121 + int64(i)))
	// --- seeds
	var jsonSeed []byte
	if j, err := emit(t, nil); err == nil {
		jsonSeed = []byte(j)
	} else if doc, err := o.SubtreeJSON(nil); err == nil {
		jsonSeed, _ = json.Marshal(doc)
	}
	ups := leafUpdates(o, nil, false)
	req := &gpb.SetRequest{Update: ups}
	nodes := dataNodes(cfg, t)
	if len(nodes) > 0 {
		nd := nodes[rng.Intn(len(nodes))]
		req.Delete = append(req.Delete, lib.ToGNMIPath(nd.Path))
		if ju, err := jsonUpdate(o, nil, nd.Path); err == nil {
			req.Replace = append(req.Replace, ju)
		}
	}
	for _, tg := range targets {
		switch tg.Name {
		case "Unmarshal":
			run(tg, jsonSeed, "seed")
			for k := 0; k < 8 && jsonSeed != nil; k++ {
				var v interface{}
				json.Unmarshal(jsonSeed, &v)
				mv, what := mutateJSON(v, rng)
				b, _ := json.Marshal(mv)
				run(tg, b, what)
			}
			run(tg, flip(jsonSeed, rng), "byte-flip")
		case "SetNode", "GetNode", "DeleteNode":
			for k := 0; k < 6 && len(ups) > 0; k++ {
				u := proto.Clone(ups[rng.Intn(len(ups))]).(*gpb.Update)
				what := "seed"
				switch k % 3 {
				case 1:
					what = mutatePath(u.Path, rng)
				case 2:
					what = mutateTV(u.Val, rng)
				}
				b, _ := proto.Marshal(u)
				run(tg, b, what)
			}
		case "UnmarshalSetRequest", "UnmarshalNotifications":
			for k := 0; k < 6; k++ {
				rq := proto.Clone(req).(*gpb.SetRequest)
				what := "seed"
				all := append(append([]*gpb.Update{}, rq.Update...), rq.Replace...)
				switch {
				case k%3 == 1 && len(all) > 0:
					what = mutatePath(all[rng.Intn(len(all))].Path, rng)
				case k%3 == 2 && len(all) > 0:
					what = mutateTV(all[rng.Intn(len(all))].Val, rng)
				case k == 3 && len(rq.Update) > 0:
					rq.Update = append(rq.Update, rq.Update...)
					what = "repeated-updates"
				}
				if k == 4 {
					switch i % 3 {
					case 0:
						rq.Prefix = &gpb.Path{Elem: []*gpb.PathElem{nil}}
						what = "nil-prefix-elem"
					case 1:
						rq.Prefix = &gpb.Path{Origin: "openconfig"}
						for _, u := range all {
							u.Path.Origin = "cli"
						}
						for _, d := range rq.Delete {
							d.Origin = "cli"
						}
						what = "prefix-origin-differs"
					default:
						rq.Prefix = &gpb.Path{Target: "dev1"}
						for _, u := range all {
							u.Path.Target = "dev2"
						}
						for _, d := range rq.Delete {
							d.Target = "dev2"
						}
						what = "prefix-target-differs"
					}
				}
				var b []byte
				if tg.Name == "UnmarshalSetRequest" {
					b, _ = proto.Marshal(rq)
				} else {
					b, _ = proto.Marshal(&gpb.Notification{Prefix: rq.Prefix, Update: rq.Update, Delete: rq.Delete, Atomic: k%2 == 0})
				}
				run(tg, b, what)
			}
		case "StringToPath":
			for k := 0; k < 6 && len(ups) > 0; k++ {
				s, err := ygot.PathToString(ups[rng.Intn(len(ups))].Path)
				if err != nil {
					continue
				}
				what := "seed"
				if k > 0 {
					s = string(flip([]byte(s), rng))
					extra := []string{"[", "]", "\\", "=", "/", "[a=", "[=]", "//", "[[", "]]", "\\]"}
					pos := rng.Intn(len(s) + 1)
					s = s[:pos] + extra[rng.Intn(len(extra))] + s[pos:]
					what = "path-string-mutation"
				}
				run(tg, []byte(s), what)
			}
		case "DiffSetRequest", "DiffSetRequestToNotifications":
			for k := 0; k < 12; k++ {
				ra := proto.Clone(req).(*gpb.SetRequest)
				rb := proto.Clone(req).(*gpb.SetRequest)
				if k >= 6 {
					// without the delete of the replaced node: gnmidiff refuses that combination
					// ("conflicting replaces") before looking at anything else
					ra.Delete, rb.Delete = nil, nil
				}
				what := "seed"
				all := append(append([]*gpb.Update{}, ra.Update...), ra.Replace...)
				switch {
				case k%6 == 1 && len(ra.Update) > 0:
					ra.Update = append(ra.Update, ra.Update...)
					ra.Delete, ra.Replace = nil, nil
					what = "repeated-updates"
				case k%6 == 2 && len(all) > 0:
					what = mutatePath(all[rng.Intn(len(all))].Path, rng)
				case k%6 == 3 && len(all) > 0:
					what = mutateTV(all[rng.Intn(len(all))].Val, rng)
				case k%6 == 4:
					ra.Delete = append(ra.Delete, &gpb.Path{}, nil)
					what = "empty-and-nil-delete"
				case k%6 == 5 && len(all) > 0:
					// the same malformed value on both sides (and twice on one side)
					j := rng.Intn(len(all))
					what = "both-sides:" + mutateTV(all[j].Val, rng)
					allB := append(append([]*gpb.Update{}, rb.Update...), rb.Replace...)
					allB[j].Val = proto.Clone(all[j].Val).(*gpb.TypedValue)
					ra.Update = append(ra.Update, proto.Clone(all[j]).(*gpb.Update))
				}
				ab, _ := proto.Marshal(ra)
				var bb []byte
				if tg.Name == "DiffSetRequest" {
					bb, _ = proto.Marshal(rb)
				} else {
					bb, _ = proto.Marshal(&gpb.Notification{Update: rb.Update})
				}
				run(tg, pair(ab, bb), what)
			}
		}
	}
	return len(jsonSeed), len(ups)
}

// C20Collect hands every input the seeded mutator builds from the first n trees
// of cfg to emit (used as the seed corpus of the native fuzz target).
func C20Collect(cfg *lib.Cfg, seed int64, n int, emit func(target string, data []byte)) {
	targets := FuzzTargets()
	for i := 0; i < n; i++ {
		c20Inputs(cfg, seed, i, targets, func(tg FuzzTarget, data []byte, mutation string) {
			if data != nil {
				emit(tg.Name, data)
			}
		})
	}
}

func runC20(r *lib.Run) {
	r.Rule = "seed corpus = valid JSON documents, (path, TypedValue) pairs, SetRequests, Notifications and path strings produced from generated trees; each seed is fed as is and after structure-aware mutations (wrong JSON kind at one node, list element not an object, renamed/empty member names, nil or empty path elements, missing/extra/hostile keys, nil oneofs, malformed JSON payloads, repeated updates) and raw byte flips, to every entry point of the statement; oracle: the call returns (a recovered panic is the violation, signature = entry point + innermost ygot frame + normalised panic text); non-trivial = mutated input; distinct by target+input bytes"
	n := r.N(150, 1000)
	targets := FuzzTargets()
	for _, cfg := range cfgsFor(r, quick3) {
		for i := 0; i < n; i++ {
			if skip(cfg, i) {
				continue
			}
			run := func(tg FuzzTarget, data []byte, mutation string) {
				if data == nil {
					return
				}
				r.Case(tg.Name+string(data), mutation != "seed")
				r.Hit("target:" + tg.Name)
				r.Hit("mutation:" + mutation)
				w := wit(cfg, r.Seed, i, map[string]interface{}{"target": tg.Name, "mutation": mutation, "input_hex": fmt.Sprintf("%x", clipBytes(data, 3000)), "input_text": lib.Clip(string(data), 1500)})
				defer func() {
					if p := recover(); p != nil {
						st := lib.PanicFrame(stackString())
						r.Violate("panic", tg.Name+":"+st, fmt.Sprintf("%s panicked: %v", tg.Name, p), w)
					}
				}()
				tg.Run(cfg, data)
			}
			jl, nu := c20Inputs(cfg, r.Seed, i, targets, run)
			if i < 2 {
				r.Sample(map[string]interface{}{"cfg": cfg.Name, "json_seed_bytes": jl, "updates": nu})
			}
		}
	}
	var req []string
	for _, tg := range targets {
		req = append(req, "target:"+tg.Name)
	}
	if bin := os.Getenv("VERIF_FUZZ_BIN"); bin != "" && !r.Quick() {
		c20NativeFuzz(r, bin)
		req = append(req, "native-fuzz:ran")
	}
	r.RequireCov(req...)
}

var fuzzExecsRe = regexp.MustCompile(`execs: (\d+)`)
var fuzzInterestingRe = regexp.MustCompile(`new interesting: (\d+) \(total: (\d+)\)`)

// c20NativeFuzz runs the coverage-guided fuzz target (harness/fuzz) for a fixed
// number of executions and turns the panics it recorded into violations.
func c20NativeFuzz(r *lib.Run, bin string) {
	work := os.Getenv("VERIF_WORK")
	if work == "" {
		work = os.TempDir()
	}
	dir := filepath.Join(work, "fuzzrun")
	os.RemoveAll(dir)
	os.MkdirAll(dir, 0o755)
	crashlog := filepath.Join(dir, "crashes.jsonl")
	execs := os.Getenv("VERIF_FUZZ_EXECS")
	if execs == "" {
		execs = "400000"
	}
	cmd := exec.Command(bin, "-test.run=^$", "-test.fuzz=^FuzzC20$", "-test.fuzztime="+execs+"x", "-test.fuzzcachedir="+filepath.Join(dir, "cache"), "-test.parallel=16")
	cmd.Dir = dir
	cmd.Env = append(os.Environ(), "VERIF_FUZZ_CRASHLOG="+crashlog, fmt.Sprintf("VERIF_SEED=%d", r.Seed))
	var out bytes.Buffer
	cmd.Stdout, cmd.Stderr = &out, &out
	done := make(chan error, 1)
	if err := cmd.Start(); err != nil {
		r.Inconclusive("native fuzzing could not start: " + err.Error())
		return
	}
	go func() { done <- cmd.Wait() }()
	var werr error
	select {
	case werr = <-done:
	case <-time.After(40 * time.Minute): // watchdog only: the run is bounded by the execution count
		cmd.Process.Kill()
		r.Inconclusive("native fuzzing watchdog fired")
		return
	}
	text := out.String()
	os.WriteFile(filepath.Join(dir, "fuzz.log"), out.Bytes(), 0o644)
	n := 0
	for _, m := range fuzzExecsRe.FindAllStringSubmatch(text, -1) {
		if v, _ := strconv.Atoi(m[1]); v > n {
			n = v
		}
	}
	interesting := 0
	for _, m := range fuzzInterestingRe.FindAllStringSubmatch(text, -1) {
		if v, _ := strconv.Atoi(m[2]); v > interesting {
			interesting = v
		}
	}
	r.HitN("native-fuzz:execs", n)
	r.HitN("native-fuzz:coverage-increasing-inputs", interesting)
	r.Extra("native_fuzz", map[string]interface{}{"execs": n, "corpus_total": interesting, "requested_execs": execs})
	if n > 0 {
		r.Hit("native-fuzz:ran")
	} else {
		r.Inconclusive("native fuzzing produced no executions: " + lib.Clip(text, 600))
	}
	if werr != nil && n == 0 {
		return
	}
	// recorded panics
	b, err := os.ReadFile(crashlog)
	if err != nil {
		return
	}
	for _, line := range strings.Split(string(b), "\n") {
		var c map[string]string
		if json.Unmarshal([]byte(line), &c) != nil || c["target"] == "" {
			continue
		}
		r.Violate("panic", c["target"]+":"+c["frame"], fmt.Sprintf("%s panicked (native fuzzing): %s", c["target"], c["panic"]), map[string]interface{}{"cfg": c["cfg"], "target": c["target"], "input_hex": c["input_hex"], "found_by": "native fuzzing"})
	}
}

func flip(b []byte, rng *rand.Rand) []byte {
	if len(b) == 0 {
		return b
	}
	out := append([]byte(nil), b...)
	for k := 0; k < 1+rng.Intn(3); k++ {
		out[rng.Intn(len(out))] ^= byte(1 << uint(rng.Intn(8)))
	}
	return out
}

func clipBytes(b []byte, n int) []byte {
	if len(b) > n {
		return b[:n]
	}
	return b
}
