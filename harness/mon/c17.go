package mon

import (
	"fmt"
	"math"
	"reflect"
	"sort"
	"strings"

	gpb "github.com/openconfig/gnmi/proto/gnmi"
	"github.com/openconfig/goyang/pkg/yang"
	"github.com/openconfig/ygot/ygot"
	"github.com/openconfig/ygot/ytypes"
	"github.com/openconfig/ygot/zzverif/lib"
)

func init() { Monitors["C17"] = runC17 }

// enumPos is one place of a generated tree that can hold a value of an enum type.
type enumPos struct {
	root ygot.GoStruct
	node *lib.Node
	f    *lib.FieldInfo
	kind string // leaf, leaf-list, union, key
	et   reflect.Type
}

func (p enumPos) id() string {
	return p.node.Info.Type.Name() + "." + p.f.GoName + ":" + p.kind + ":" + p.et.Name()
}

// enumTypesAt lists the generated enum types registered for a leaf.
func enumTypesAt(root ygot.GoStruct, f *lib.FieldInfo) []reflect.Type {
	m := reflect.ValueOf(root).MethodByName("ΛEnumTypeMap")
	if !m.IsValid() {
		return nil
	}
	em, _ := m.Call(nil)[0].Interface().(map[string][]reflect.Type)
	var out []reflect.Type
	out = append(out, em["/"+strings.Join(lib.DataPath(f.Entry), "/")]...)
	if len(out) == 0 {
		out = append(out, em[f.Entry.Path()]...)
	}
	return out
}

func findEnumPositions(cfg *lib.Cfg, seed int64) []enumPos {
	seen := map[string]bool{}
	var out []enumPos
	for i := 0; i < 40; i++ {
		opt := lib.DefaultGen()
		opt.Density = 0.85
		opt.Hostile = false
		opt.OrderedSiblings = true
		t := lib.NewGen(cfg, seed+777, i, opt).Tree()
		for _, n := range cfg.Nodes(t) {
			if n.Keyless {
				continue
			}
			for _, f := range n.Info.Fields {
				if f.Kind != lib.KLeaf && f.Kind != lib.KLeafList {
					continue
				}
				var cands []enumPos
				ft := f.Type
				isKey := isKeyField(n, f)
				switch {
				case f.Kind == lib.KLeaf && ft.Kind() == reflect.Int64 && ft.Implements(goEnumType):
					k := "leaf"
					if isKey {
						k = "key"
					}
					cands = append(cands, enumPos{t, n, f, k, ft})
				case f.Kind == lib.KLeafList && ft.Elem().Kind() == reflect.Int64 && ft.Elem().Implements(goEnumType):
					cands = append(cands, enumPos{t, n, f, "leaf-list", ft.Elem()})
				case f.Kind == lib.KLeaf && ft.Kind() == reflect.Interface:
					for _, et := range enumTypesAt(t, f) {
						k := "union"
						if isKey {
							k = "union-key"
						}
						cands = append(cands, enumPos{t, n, f, k, et})
					}
				}
				for _, c := range cands {
					if !seen[c.id()] {
						seen[c.id()] = true
						out = append(out, c)
					}
				}
			}
		}
	}
	sort.Slice(out, func(i, j int) bool { return out[i].id() < out[j].id() })
	return out
}

// place puts enum value v (of type p.et) at the position; for key positions the
// entry is re-keyed.  It returns false if the position cannot take the value.
func (p enumPos) place(cfg *lib.Cfg, v int64) bool {
	ev := reflect.New(p.et).Elem()
	ev.SetInt(v)
	sv := p.node.V.Elem()
	fv := sv.Field(p.f.Idx)
	switch p.kind {
	case "leaf":
		fv.Set(ev)
	case "leaf-list":
		sl := reflect.MakeSlice(fv.Type(), 0, 1)
		fv.Set(reflect.Append(sl, ev))
	case "union", "union-key":
		conv := lib.FindUnionConv(sv, fv.Type())
		if !conv.IsValid() {
			return false
		}
		out := conv.Call([]reflect.Value{ev})
		if !out[1].IsNil() {
			return false
		}
		fv.Set(out[0])
	case "key":
		fv.Set(ev)
	}
	if p.kind == "key" || p.kind == "union-key" {
		// re-key the entry in its parent list
		par := p.node.Parent
		lf := p.node.Field
		lv := par.V.Elem().Field(lf.Idx)
		kfs := p.node.Info.KeyFields()
		if lf.Kind == lib.KList {
			nm := reflect.MakeMap(lv.Type())
			for _, k := range lv.MapKeys() {
				e := lv.MapIndex(k)
				if e.Pointer() == p.node.V.Pointer() {
					continue
				}
				nm.SetMapIndex(k, e)
			}
			mk, ok := lib.MapKeyFor(lv.Type().Key(), p.node.V, kfs)
			if !ok {
				return false
			}
			nm.SetMapIndex(mk, p.node.V)
			lv.Set(nm)
		} else if lf.Kind == lib.KOrdered {
			vals := lib.OrderedValues(lv)
			nm := reflect.New(lv.Type().Elem())
			// the re-keyed entry first; another entry that now has the same key is dropped, as
			// in the map case (a failed Append here used to leave the entry behind with an
			// undefined key that no later restore could replace)
			if !errOfOK(nm.MethodByName("Append").Call([]reflect.Value{p.node.V})[0]) {
				return false
			}
			for _, e := range vals {
				if e.Pointer() != p.node.V.Pointer() {
					nm.MethodByName("Append").Call([]reflect.Value{e})
				}
			}
			lv.Set(nm)
		}
	}
	return true
}

func errOfOK(v reflect.Value) bool { return v.IsNil() }

func runC17(r *lib.Run) {
	r.Rule = "every generated enumeration/identityref type of every configuration: name uniqueness and equality with the goyang name set; every defined value, zero and undefined values (neighbours of defined ones, +-2^31, int64 extremes) placed in every leaf / leaf-list / union / list-key position of that type found by reflection, then rendered (EmitJSON with and without module names, TogNMINotifications, EncodeTypedValue, EnumName, KeyValueAsString) and parsed back (Unmarshal, UnmarshalNotifications, SetNode string_val with and without module prefix); non-trivial = defined value round trip; distinct by cfg+position+value"
	for _, cfg := range cfgsFor(r, append(append([]string{}, quick3...), "vt/U-enumflags", "vtoc/C-enumflags")) {
		gy, gerr := cfg.Goyang()
		if gerr != nil {
			r.Inconclusive("goyang: " + gerr.Error())
			continue
		}
		rootEntry := cfg.RootEntry()
		positions := findEnumPositions(cfg, r.Seed)
		typesSeen := map[reflect.Type]bool{}
		for _, p := range positions {
			defs := lib.EnumDefs(p.et)
			// (1) per type: unique names, zero undefined, names equal the schema's
			if !typesSeen[p.et] {
				typesSeen[p.et] = true
				r.Hit("type:" + cfg.Name + ":" + p.et.Name())
				names := map[string]int64{}
				for v, n := range defs {
					if v == 0 {
						r.Violate("zero-is-defined", p.et.Name(), "value 0 has a name", nil)
					}
					if o, dup := names[n]; dup {
						r.Violate("duplicate-name", "enum-type", fmt.Sprintf("%s: values %d and %d are both named %s", p.et.Name(), o, v, n), nil)
					}
					names[n] = v
				}
			}
			// name set versus goyang for this leaf
			var dn []string
			for _, e := range p.node.Path {
				dn = append(dn, e.Name)
			}
			dn = append(dn, p.f.Path...)
			if ge := gy.Find(dn); ge != nil {
				if yt := resolveGoyangType(ge); yt != nil {
					matched := false
					for _, m := range lib.FlattenUnion(yt) {
						if m.Kind != yang.Yenum && m.Kind != yang.Yidentityref {
							continue
						}
						want := lib.MemberNames(m)
						same := len(want) == len(defs)
						for _, n := range defs {
							if !want[n] {
								same = false
							}
						}
						if same {
							matched = true
						}
					}
					if !matched {
						r.Violate("name-set-differs-from-schema", p.kind, fmt.Sprintf("%s at %s: names %v match no enum/identity member of the YANG type", p.et.Name(), strings.Join(dn, "/"), defs), nil)
					} else {
						r.Hit("name-set-ok")
					}
				}
			}
			// (2) values
			var vals []int64
			for v := range defs {
				vals = append(vals, v)
			}
			sort.Slice(vals, func(i, j int) bool { return vals[i] < vals[j] })
			undef := map[int64]bool{}
			for _, v := range vals {
				for _, u := range []int64{v - 1, v + 1} {
					if _, ok := defs[u]; !ok && u != 0 {
						undef[u] = true
					}
				}
			}
			for _, u := range []int64{math.MaxInt32, math.MinInt32, math.MaxInt32 + 1, math.MaxInt64, math.MinInt64, -1} {
				if _, ok := defs[u]; !ok {
					undef[u] = true
				}
			}
			for _, v := range vals {
				c17Defined(r, cfg, rootEntry, p, v, defs[v])
			}
			var us []int64
			for u := range undef {
				us = append(us, u)
			}
			sort.Slice(us, func(i, j int) bool { return us[i] < us[j] })
			for _, u := range us {
				c17Undefined(r, cfg, p, u)
			}
			if len(vals) > 0 {
				p.place(cfg, vals[0]) // leave the shared tree valid for the next position
			}
			if p.kind == "leaf" || p.kind == "leaf-list" {
				c17Zero(r, cfg, p)
			}
		}
		if len(positions) == 0 {
			r.Inconclusive("no enum positions in " + cfg.Name)
		}
	}
	r.Exhaustive = true
	r.RequireCov("kind:leaf", "kind:leaf-list", "kind:union", "kind:key", "defined-ok", "undefined-rejected", "name-set-ok", "setnode-prefixed-ok")
}

func c17Defined(r *lib.Run, cfg *lib.Cfg, rootEntry *yang.Entry, p enumPos, v int64, name string) {
	w := wit(cfg, r.Seed, 0, map[string]interface{}{"position": p.id(), "value": v, "name": name})
	r.Case(cfg.Name+p.id()+fmt.Sprint(v), true)
	r.Hit("kind:" + p.kind)
	if !p.place(cfg, v) {
		r.Hit("unplaceable")
		return
	}
	feat := p.kind + ":" + lib.TypeFeature(p.f)
	want := cfg.Observe(p.root)
	ok := true
	for _, mode := range jsonModes()[:3] {
		var j string
		var err error
		if r.Guard("EmitJSON", w, func() { j, err = emit(p.root, mode.cfg) }) {
			return
		}
		if err != nil {
			r.Violate("defined-value-render-error", feat+":json:"+mode.name, err.Error(), w)
			ok = false
			continue
		}
		n := cfg.NewRoot()
		if r.Guard("Unmarshal", w, func() { err = cfg.UnmarshalJSON([]byte(j), n) }) {
			return
		}
		if err != nil {
			r.Violate("defined-value-parse-error", feat+":json:"+mode.name, err.Error(), w)
			ok = false
			continue
		}
		for _, d := range lib.DiffObs(want, cfg.Observe(n), lib.DiffOpts{EmptyLeafListIsAbsent: true}) {
			if d.What == "leaf" && strings.Contains(d.A+d.B, "enum:") {
				r.Violate("roundtrip-changes-value", feat+":json:"+mode.name, d.String(), w)
				ok = false
			}
		}
	}
	// gNMI
	var ns []*gpb.Notification
	var err error
	if r.Guard("TogNMINotifications", w, func() {
		ns, err = ygot.TogNMINotifications(p.root, 1, ygot.GNMINotificationsConfig{UsePathElem: true})
	}) {
		return
	}
	if err != nil {
		if !strings.Contains(err.Error(), "nested `ordered-by user`") {
			r.Violate("defined-value-render-error", feat+":gnmi", err.Error(), w)
			ok = false
		}
	} else {
		sch := cfg.Schema()
		if r.Guard("UnmarshalNotifications", w, func() { err = ytypes.UnmarshalNotifications(sch, ns) }) {
			return
		}
		if err == nil {
			for _, d := range lib.DiffObs(want, cfg.Observe(sch.Root), lib.DiffOpts{EmptyLeafListIsAbsent: true}) {
				if d.What == "leaf" && strings.Contains(d.A+d.B, "enum:") && !orderedSiblingDelta(want, d.Path) {
					r.Violate("roundtrip-changes-value", feat+":gnmi", d.String(), w)
					ok = false
				}
			}
		}
	}
	// scalar helpers
	ev := reflect.New(p.et).Elem()
	ev.SetInt(v)
	ge := ev.Interface().(ygot.GoEnum)
	if n, err := ygot.EnumName(ge); err != nil || n != name {
		r.Violate("enumname", feat, fmt.Sprintf("EnumName=%q err=%v, want %q", n, err, name), w)
		ok = false
	}
	if s, err := ygot.KeyValueAsString(ge); err != nil || s != name {
		r.Violate("keyvalueasstring", feat, fmt.Sprintf("KeyValueAsString=%q err=%v, want %q", s, err, name), w)
		ok = false
	}
	if tv, err := ygot.EncodeTypedValue(ge, gpb.Encoding_JSON_IETF); err != nil || tv.GetStringVal() != name {
		r.Violate("encodetypedvalue", feat, fmt.Sprintf("EncodeTypedValue=%v err=%v, want string_val %q", tv, err, name), w)
		ok = false
	}
	// SetNode with and without module prefix (plain leaves only)
	if p.kind == "leaf" {
		gp := lib.ToGNMIPath(append(append([]lib.PathElem(nil), p.node.Path...), pathElems(p.f.Path)...))
		mods := []string{""}
		if p.f.YType.Kind == yang.Yidentityref {
			var dn []string
			for _, e := range p.node.Path {
				dn = append(dn, e.Name)
			}
			dn = append(dn, p.f.Path...)
			if gy, err := cfg.Goyang(); err == nil {
				if m := lib.IdentityModuleByName(resolveGoyangType(gy.Find(dn)), name); m != "" {
					mods = append(mods, m+":")
				}
			}
		}
		for _, pfx := range mods {
			nroot := cfg.NewRoot()
			var serr error
			tv := &gpb.TypedValue{Value: &gpb.TypedValue_StringVal{StringVal: pfx + name}}
			if r.Guard("SetNode", w, func() { serr = ytypes.SetNode(rootEntry, nroot, gp, tv, &ytypes.InitMissingElements{}) }) {
				return
			}
			lp := lib.PathString(append(append([]lib.PathElem(nil), p.node.Path...), pathElems(p.f.Path)...))
			got := cfg.Observe(nroot).Leaves[lp]
			if serr != nil || got == nil || got.Val != "enum:"+name {
				gv := "<unset>"
				if got != nil {
					gv = got.Val
				}
				pk := "plain"
				if pfx != "" {
					pk = "module-prefixed"
				}
				r.Violate("setnode-name", feat+":"+pk, fmt.Sprintf("SetNode(%q) err=%v stored %s", pfx+name, serr, gv), w)
				ok = false
			} else if pfx != "" {
				r.Hit("setnode-prefixed-ok")
			}
		}
	}
	if ok {
		r.Hit("defined-ok")
	}
}

func c17Undefined(r *lib.Run, cfg *lib.Cfg, p enumPos, u int64) {
	w := wit(cfg, r.Seed, 0, map[string]interface{}{"position": p.id(), "undefined_value": u})
	r.Case(cfg.Name+p.id()+fmt.Sprint(u), false)
	if !p.place(cfg, u) {
		return
	}
	feat := p.kind + ":" + lib.TypeFeature(p.f)
	var err error
	var j string
	if !r.Guard("EmitJSON", w, func() { j, err = emit(p.root, nil) }) {
		if err == nil {
			r.Violate("undefined-value-rendered", feat+":json", "EmitJSON produced output for an undefined value: "+lib.Clip(j, 200), w)
		} else {
			r.Hit("undefined-rejected")
		}
	}
	var ns []*gpb.Notification
	if !r.Guard("TogNMINotifications", w, func() {
		ns, err = ygot.TogNMINotifications(p.root, 1, ygot.GNMINotificationsConfig{UsePathElem: true})
	}) {
		if err == nil {
			r.Violate("undefined-value-rendered", feat+":gnmi", fmt.Sprintf("TogNMINotifications produced %d notifications for an undefined value", len(ns)), w)
		}
	}
	ev := reflect.New(p.et).Elem()
	ev.SetInt(u)
	ge := ev.Interface().(ygot.GoEnum)
	if n, err := ygot.EnumName(ge); err == nil {
		r.Violate("undefined-value-rendered", "EnumName", fmt.Sprintf("EnumName(%d) = %q without error", u, n), w)
	}
	if s, err := ygot.KeyValueAsString(ge); err == nil {
		r.Violate("undefined-value-rendered", "KeyValueAsString", fmt.Sprintf("KeyValueAsString(%d) = %q without error", u, s), w)
	}
	if tv, err := ygot.EncodeTypedValue(ge, gpb.Encoding_JSON_IETF); err == nil {
		r.Violate("undefined-value-rendered", "EncodeTypedValue", fmt.Sprintf("EncodeTypedValue(%d) = %v without error", u, tv), w)
	}
}

// c17Zero: the UNSET value is never rendered.
func c17Zero(r *lib.Run, cfg *lib.Cfg, p enumPos) {
	if p.kind != "leaf" {
		return
	}
	w := wit(cfg, r.Seed, 0, map[string]interface{}{"position": p.id(), "value": 0})
	fld := p.node.V.Elem().Field(p.f.Idx)
	old := fld.Int()
	fld.SetInt(0)
	defer fld.SetInt(old)
	var j string
	var err error
	if r.Guard("EmitJSON", w, func() { j, err = emit(p.root, nil) }) || err != nil {
		return
	}
	n := cfg.NewRoot()
	if cfg.UnmarshalJSON([]byte(j), n) != nil {
		return
	}
	lp := lib.PathString(append(append([]lib.PathElem(nil), p.node.Path...), pathElems(p.f.Path)...))
	if l, ok := cfg.Observe(n).Leaves[lp]; ok {
		r.Violate("zero-rendered", "leaf", "UNSET enum leaf was rendered and parsed back as "+l.Val, w)
	} else {
		r.Hit("zero-not-rendered")
	}
}
