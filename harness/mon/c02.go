package mon

import (
	"fmt"
	"math/rand"
	"strings"

	gpb "github.com/openconfig/gnmi/proto/gnmi"
	"github.com/openconfig/ygot/ygot"
	"github.com/openconfig/ygot/ytypes"
	"github.com/openconfig/ygot/zzverif/lib"
)

func init() { Monitors["C02"] = runC02 }

func runC02(r *lib.Run) {
	r.Rule = "tree from generator (seed,index); subtree = root or a random container/list entry with its absolute path as PathElem prefix; non-trivial = subtree has >=2 leaves; distinct by cfg+prefix+leaf set"
	r.Assume("unkeyed lists excluded (no addressable path); union values unambiguous as JSON (even cases) or only as gNMI TypedValues (odd cases); list keys always unambiguous as strings")
	n := r.N(400, 6000)
	for _, cfg := range cfgsFor(r, quick3) {
		for i := 0; i < n; i++ {
			opt := lib.DefaultGen()
			opt.EmptyLeafLists = i%5 == 0
			opt.OrderedSiblings = i%7 == 0
			opt.ZeroLenBinary = true
			opt.PreciseDecimals = true
			opt.GNMIUnions = i%2 == 1
			if skip(cfg, i) {
				continue
			}
			g := lib.NewGen(cfg, r.Seed, i, opt)
			t := g.Tree()
			rng := rand.New(rand.NewSource(r.Seed*31 + int64(i)))
			nodes := cfg.Nodes(t)
			sub := nodes[0]
			if i%3 != 0 && len(nodes) > 1 {
				sub = nodes[rng.Intn(len(nodes))]
			}
			c02Case(r, cfg, g, t, sub, i)
		}
	}
	r.RequireCov("prefix:root", "prefix:nested", "roundtrip-ok", "tag:ordered-list", "atomic-notification")
}

// orderedSiblingDelta reports whether delta path p lies beside (not inside) an
// ordered list under that list's parent container.
func orderedSiblingDelta(o *lib.Obs, p string) bool {
	for ol := range o.Order {
		i := strings.LastIndex(ol, "/")
		parent := ol[:i]
		if parent == "" {
			parent = "/"
		}
		if lib.HasPrefixPath(p, parent) && !strings.HasPrefix(p, ol+"[") && p != ol {
			return true
		}
	}
	return false
}

func c02Case(r *lib.Run, cfg *lib.Cfg, g *lib.Gen, t ygot.GoStruct, sub *lib.Node, idx int) {
	full := cfg.Observe(t)
	want := cfg.ObserveAt(sub.V.Interface().(ygot.GoStruct), sub.Path)
	// a subtree without any leaf (e.g. only an empty presence container) yields no
	// update, so nothing on the prefix is created either
	hasLeaves := len(want.Leaves) > 0
	for _, kp := range sub.KeyPaths {
		if l, ok := full.Leaves[kp]; ok && hasLeaves {
			want.Leaves[kp] = l
		}
	}
	// entries on the prefix exist after applying
	for i := range sub.Path {
		if len(sub.Path[i].Keys) > 0 && hasLeaves {
			want.Entries[lib.PathString(sub.Path[:i+1])] = true
		}
	}
	subOrders := map[string]bool{}
	for p := range want.Order {
		subOrders[p] = true
	}
	// ordered-list entries on the prefix come out as one-element ordered lists
	for n := sub; n != nil && n.Parent != nil; n = n.Parent {
		if n.IsEntry && n.Field.Kind == lib.KOrdered && hasLeaves {
			lp := append([]lib.PathElem(nil), n.Path...)
			last := lp[len(lp)-1]
			lp[len(lp)-1] = lib.PathElem{Name: last.Name, Pos: -1}
			want.Order[lib.PathString(lp)] = []string{last.String()}
		}
	}
	pfx := lib.ToGNMIPath(sub.Path)
	kind := "prefix:nested"
	if len(sub.Path) == 0 {
		kind = "prefix:root"
	}
	r.Hit(kind)
	r.Hit("cfg:" + cfg.Name)
	for k := range g.Tags {
		r.Hit("tag:" + k)
	}
	r.Case(cfg.Name+lib.PathString(sub.Path)+strings.Join(want.Dump(), "\n"), len(want.Leaves) >= 2)
	w := func(more map[string]interface{}) map[string]interface{} {
		more["prefix"] = lib.PathString(sub.Path)
		more["subtree"] = want.Dump()
		return wit(cfg, r.Seed, idx, more)
	}
	var ns []*gpb.Notification
	var err error
	if r.Guard("TogNMINotifications", w(map[string]interface{}{}), func() {
		ns, err = ygot.TogNMINotifications(sub.V.Interface().(ygot.GoStruct), 42, ygot.GNMINotificationsConfig{UsePathElem: true, PathElemPrefix: pfx.Elem})
	}) {
		return
	}
	if err != nil {
		r.ViolateErr("render-error", err, w(map[string]interface{}{}))
		return
	}
	atomic := 0
	for _, nf := range ns {
		if nf.Atomic {
			atomic++
			r.Hit("atomic-notification")
		}
		for _, u := range nf.Update {
			r.Hit(fmt.Sprintf("tv:%T", u.GetVal().GetValue()))
		}
	}
	if idx < 2 && len(ns) > 0 {
		r.Sample(map[string]interface{}{"cfg": cfg.Name, "prefix": lib.PathString(sub.Path), "notifications": len(ns), "first": lib.Clip(ns[0].String(), 600)})
	}
	sch := cfg.Schema()
	if r.Guard("UnmarshalNotifications", w(map[string]interface{}{"notifications": notifStrings(ns)}), func() { err = ytypes.UnmarshalNotifications(sch, ns) }) {
		return
	}
	if err != nil {
		if strings.Contains(err.Error(), "got empty leaf list") {
			r.Violate("rejected", "empty-leaf-list", err.Error(), w(map[string]interface{}{"notifications": notifStrings(ns)}))
			return
		}
		r.ViolateErr("rejected", err, w(map[string]interface{}{"notifications": notifStrings(ns)}))
		return
	}
	got := cfg.Observe(sch.Root)
	deltas := lib.DiffObs(want, got, lib.DiffOpts{EmptyLeafListIsAbsent: false})
	for _, d := range deltas {
		feat := featOf(d)
		if d.B == "" && orderedSiblingDelta(want, d.Path) {
			feat = "sibling-of-ordered-list"
		}
		if d.What == "entry" || d.What == "presence" {
			continue // entries follow from leaves; presence containers are not part of the statement
		}
		r.Violate("tree-differs", feat, d.String(), w(map[string]interface{}{"delta": d.String(), "notifications": notifStrings(ns)}))
	}
	if len(deltas) == 0 {
		r.Hit("roundtrip-ok")
	}
	// each atomic notification carries exactly one (outermost) ordered list
	outer := 0
	for p := range subOrders {
		nested := false
		for q := range subOrders {
			if q != p && strings.HasPrefix(p, q+"[") {
				nested = true
			}
		}
		if !nested {
			outer++
		}
	}
	if atomic != outer {
		r.Violate("atomic-count", "ordered-lists", fmt.Sprintf("%d atomic notifications for %d outermost ordered lists", atomic, outer), w(map[string]interface{}{"notifications": notifStrings(ns)}))
	}
}

func notifStrings(ns []*gpb.Notification) []string {
	var out []string
	for _, n := range ns {
		out = append(out, lib.Clip(n.String(), 1500))
	}
	return out
}
