package mon

import (
	"fmt"
	"math/big"
	"math/rand"
	"regexp"
	"strconv"
	"strings"
	"time"
	"unicode/utf8"

	"github.com/openconfig/goyang/pkg/yang"
	"github.com/openconfig/ygot/ytypes"
	"github.com/openconfig/ygot/zzverif/lib"
)

// C06: scalar restriction checks match YANG value-space semantics.
//
// Entry points under test: ytypes.ValidateIntRestrictions, ValidateUintRestrictions,
// ValidateDecimalRestrictions, ValidateStringRestrictions, ValidateBinaryRestrictions.
// Oracles: math/big membership for ranges and lengths, lib.ParseXSD (no package
// regexp) for XSD patterns, regexp.CompilePOSIX of the unmodified text for
// posix-pattern (that clause is about precedence and conjunction only).

func init() { Monitors["C06"] = runC06 }

const (
	c06SecInt = iota + 1
	c06SecDec
	c06SecStrLen
	c06SecBin
	c06SecPat
	c06SecConj
	c06SecPosix
)

func c06Rng(r *lib.Run, section, idx int) *rand.Rand {
	return rand.New(rand.NewSource(r.Seed*1000003 + int64(section)*1000000007 + int64(idx)))
}

func runC06(r *lib.Run) {
	r.Rule = "per validator: random restrictions (multi-part ranges/lengths hand-built as yang.YangRange; patterns from a grammar over the XSD subset with one optional anchor/ending hazard) x values at every part boundary, boundary+-1, type extremes, random values; for patterns: samples of the pattern's own language, single-edit mutants, junk-prefixed/suffixed members, random strings; plus a fixed hostile list. One case = one (restriction,value) pair, distinct by validator+restriction+value; non-trivial = the restriction is a real restriction (not the type default / not empty)"
	r.Assume("integer and decimal64 types always carry a Range (goyang fills the type default); values passed to the integer validators lie in the Go type's domain")
	r.Assume("decimal64 test values have <=15 significant digits and survive ParseFloat -> shortest-format, so the float64 denotes the decimal unambiguously")
	r.Assume("a leading ^ and a trailing unescaped $ of a pattern may be read either as XSD literals or as redundant anchors; a verdict needs disagreement with both readings")
	r.Assume("test strings are valid UTF-8; with \\w/\\W in a pattern strings are restricted to ASCII alphanumerics, ASCII punctuation of category P*, space; no non-ASCII digits, no form feed; CR is not matched against '.' outside the hostile list")
	total := r.N(20000, 2000000)
	r.MaxSamples = 10
	c06Sampled = map[string]bool{}
	r.SetFloor(total / 4)

	secs := map[string]float64{}
	timed := func(name string, f func()) {
		t0 := time.Now()
		f()
		secs[name] = float64(time.Since(t0).Milliseconds()) / 1000
	}
	timed("hostile", func() { c06Hostile(r) })
	timed("int", func() { c06Ints(r, total*25/100) })
	timed("decimal", func() { c06Decimals(r, total*20/100) })
	timed("string-length", func() { c06StrLen(r, total*8/100) })
	timed("binary-length", func() { c06Binary(r, total*7/100) })
	timed("pattern", func() { c06Patterns(r, total*30/100) })
	timed("conjunction", func() { c06Conj(r, total*5/100) })
	timed("posix-pattern", func() { c06Posix(r, total*5/100) })
	r.Extra("section_seconds", secs)

	for _, k := range c06IntKinds {
		r.RequireCov("int:"+k.name+":accept-expected", "int:"+k.name+":reject-expected")
	}
	r.RequireCov(
		"decimal:accept-expected", "decimal:reject-expected", "decimal:value-at-bound",
		"decimal:off-grid-value", "decimal:off-grid-less-than-half-quantum-outside", "decimal:off-grid-interior",
		"string-length:accept-expected", "string-length:reject-expected", "string-length:bytes-and-chars-disagree",
		"binary-length:accept-expected", "binary-length:reject-expected", "binary-length:bytes-and-chars-disagree",
		"string-pattern:accept-expected", "string-pattern:reject-expected", "string-pattern:own-member",
		"string-pattern:anchored-oc-style", "string-pattern:junk-suffix", "string-pattern:junk-prefix",
		"conjunction:accept-expected", "conjunction:reject-expected",
		"posix-pattern:accept-expected", "posix-pattern:reject-expected", "posix-pattern:plain-pattern-would-reject",
	)
}

// ---------------------------------------------------------------------------
// shared helpers
// ---------------------------------------------------------------------------

var c06Sampled map[string]bool

func c06SampleOnce(r *lib.Run, key string, w interface{}) {
	if !c06Sampled[key] {
		c06Sampled[key] = true
		r.Sample(w)
	}
}

func c06Answer(err error) string {
	if err == nil {
		return "accepted"
	}
	return "rejected: " + lib.Clip(err.Error(), 300)
}

func c06Verdict(in bool) string {
	if in {
		return "member (must accept)"
	}
	return "non-member (must reject)"
}

func c06Num(v *big.Int, fd uint8) yang.Number {
	return yang.Number{Value: new(big.Int).Abs(v).Uint64(), Negative: v.Sign() < 0, FractionDigits: fd}
}

type c06Part struct{ lo, hi *big.Int }

func c06PartsString(ps []c06Part, fd int) string {
	var s []string
	for _, p := range ps {
		if p.lo.Cmp(p.hi) == 0 {
			s = append(s, c06Scaled(p.lo, fd))
		} else {
			s = append(s, c06Scaled(p.lo, fd)+".."+c06Scaled(p.hi, fd))
		}
	}
	return strings.Join(s, "|")
}

// c06Scaled prints k*10^-fd exactly (fd==0: integer).
func c06Scaled(k *big.Int, fd int) string {
	if fd == 0 {
		return k.String()
	}
	a := new(big.Int).Abs(k).String()
	for len(a) <= fd {
		a = "0" + a
	}
	out := a[:len(a)-fd] + "." + a[len(a)-fd:]
	if k.Sign() < 0 {
		out = "-" + out
	}
	return out
}

func c06InParts(ps []c06Part, v *big.Int) bool {
	for _, p := range ps {
		if v.Cmp(p.lo) >= 0 && v.Cmp(p.hi) <= 0 {
			return true
		}
	}
	return false
}

func c06YangRange(ps []c06Part, fd uint8) yang.YangRange {
	var yr yang.YangRange
	for _, p := range ps {
		yr = append(yr, yang.YRange{Min: c06Num(p.lo, fd), Max: c06Num(p.hi, fd)})
	}
	return yr
}

// c06Offset draws an offset in [0, rem].
func c06Offset(rng *rand.Rand, rem *big.Int) *big.Int {
	if rem.Sign() <= 0 {
		return new(big.Int)
	}
	var o *big.Int
	switch x := rng.Intn(10); {
	case x < 4:
		o = big.NewInt(int64(rng.Intn(4)))
	case x < 7:
		o = new(big.Int).Rand(rng, new(big.Int).Add(rem, big.NewInt(1)))
	default:
		o = big.NewInt(int64(rng.Intn(1000)))
	}
	if o.Cmp(rem) > 0 {
		o = new(big.Int).Set(rem)
	}
	return o
}

// c06RandParts builds 1..maxParts sorted, disjoint parts inside [lo,hi].
func c06RandParts(rng *rand.Rand, lo, hi *big.Int, maxParts int) []c06Part {
	n := 1 + rng.Intn(maxParts)
	cur := new(big.Int).Set(lo)
	var ps []c06Part
	one := big.NewInt(1)
	for i := 0; i < n; i++ {
		rem := new(big.Int).Sub(hi, cur)
		if rem.Sign() < 0 {
			break
		}
		gap := c06Offset(rng, rem)
		if i == 0 && rng.Intn(5) == 0 {
			gap = new(big.Int)
		}
		if i > 0 && gap.Sign() == 0 && rng.Intn(100) >= 15 && rem.Sign() > 0 {
			gap = big.NewInt(1) // adjacent parts only occasionally
		}
		plo := new(big.Int).Add(cur, gap)
		rem2 := new(big.Int).Sub(hi, plo)
		w := c06Offset(rng, rem2)
		switch x := rng.Intn(10); {
		case x < 2:
			w = new(big.Int)
		case x == 2:
			w = rem2
		}
		phi := new(big.Int).Add(plo, w)
		ps = append(ps, c06Part{plo, phi})
		cur = new(big.Int).Add(phi, one)
	}
	return ps
}

// c06Probe lists the probe values of a range: every boundary, boundary+-1, the
// domain extremes and their inner neighbours, zero and nRand random values.
func c06Probe(rng *rand.Rand, ps []c06Part, lo, hi *big.Int, nRand int) []*big.Int {
	var vs []*big.Int
	seen := map[string]bool{}
	add := func(v *big.Int) {
		if v.Cmp(lo) < 0 || v.Cmp(hi) > 0 {
			return
		}
		k := v.String()
		if seen[k] {
			return
		}
		seen[k] = true
		vs = append(vs, v)
	}
	one := big.NewInt(1)
	for _, p := range ps {
		for _, b := range []*big.Int{p.lo, p.hi} {
			add(new(big.Int).Sub(b, one))
			add(new(big.Int).Set(b))
			add(new(big.Int).Add(b, one))
		}
	}
	add(new(big.Int).Set(lo))
	add(new(big.Int).Set(hi))
	add(new(big.Int).Add(lo, one))
	add(new(big.Int).Sub(hi, one))
	add(new(big.Int))
	span := new(big.Int).Add(new(big.Int).Sub(hi, lo), one)
	for i := 0; i < nRand; i++ {
		add(new(big.Int).Add(lo, new(big.Int).Rand(rng, span)))
	}
	return vs
}

// ---------------------------------------------------------------------------
// integers
// ---------------------------------------------------------------------------

type c06IntKind struct {
	name     string
	kind     yang.TypeKind
	signed   bool
	min, max *big.Int
}

var c06IntKinds = func() []c06IntKind {
	pow := func(n uint) *big.Int { return new(big.Int).Lsh(big.NewInt(1), n) }
	var out []c06IntKind
	for _, k := range []struct {
		name string
		kind yang.TypeKind
		bits uint
		sg   bool
	}{
		{"int8", yang.Yint8, 8, true}, {"int16", yang.Yint16, 16, true}, {"int32", yang.Yint32, 32, true}, {"int64", yang.Yint64, 64, true},
		{"uint8", yang.Yuint8, 8, false}, {"uint16", yang.Yuint16, 16, false}, {"uint32", yang.Yuint32, 32, false}, {"uint64", yang.Yuint64, 64, false},
	} {
		ik := c06IntKind{name: k.name, kind: k.kind, signed: k.sg}
		if k.sg {
			ik.min = new(big.Int).Neg(pow(k.bits - 1))
			ik.max = new(big.Int).Sub(pow(k.bits-1), big.NewInt(1))
		} else {
			ik.min = new(big.Int)
			ik.max = new(big.Int).Sub(pow(k.bits), big.NewInt(1))
		}
		out = append(out, ik)
	}
	return out
}()

func c06IntCase(r *lib.Run, k c06IntKind, ps []c06Part, v *big.Int, nontrivial bool, origin string) {
	t := &yang.YangType{Name: k.name, Kind: k.kind, Range: c06YangRange(ps, 0)}
	rs := c06PartsString(ps, 0)
	want := c06InParts(ps, v)
	r.Case("int|"+k.name+"|"+rs+"|"+v.String(), nontrivial)
	cls := "reject-expected"
	if want {
		cls = "accept-expected"
	}
	r.Hit("int:" + k.name + ":" + cls)
	var err error
	entry := "ValidateUintRestrictions"
	if k.signed {
		entry = "ValidateIntRestrictions"
	}
	w := map[string]interface{}{"validator": entry, "kind": k.name, "range": rs, "value": v.String(), "oracle": c06Verdict(want), "origin": origin}
	if r.Guard(entry, w, func() {
		if k.signed {
			err = ytypes.ValidateIntRestrictions(t, v.Int64())
		} else {
			err = ytypes.ValidateUintRestrictions(t, v.Uint64())
		}
	}) {
		return
	}
	w["ygot"] = c06Answer(err)
	if origin == "random" && len(ps) > 1 {
		c06SampleOnce(r, "int:"+cls, w)
	}
	got := err == nil
	if got == want {
		return
	}
	feat := "rejects-in-range:" + k.name
	if got {
		feat = "accepts-out-of-range:" + k.name
	}
	r.Violate("int-range", feat, fmt.Sprintf("%s(%s range %q, %s): ygot %s, oracle %s", entry, k.name, rs, v, c06Answer(err), c06Verdict(want)), w)
}

func c06Ints(r *lib.Run, budget int) {
	pairs := 0
	for idx := 0; pairs < budget; idx++ {
		rng := c06Rng(r, c06SecInt, idx)
		k := c06IntKinds[idx%len(c06IntKinds)]
		var ps []c06Part
		nontrivial := true
		if rng.Intn(12) == 0 {
			ps = []c06Part{{k.min, k.max}} // the type default, as goyang fills it
			nontrivial = false
		} else {
			ps = c06RandParts(rng, k.min, k.max, 4)
			if rng.Intn(8) == 0 {
				ps[0].lo = new(big.Int).Set(k.min)
			}
			if rng.Intn(8) == 0 {
				ps[len(ps)-1].hi = new(big.Int).Set(k.max)
			}
		}
		for _, v := range c06Probe(rng, ps, k.min, k.max, 3) {
			c06IntCase(r, k, ps, v, nontrivial, "random")
			pairs++
		}
	}
}

// ---------------------------------------------------------------------------
// decimal64
// ---------------------------------------------------------------------------

var (
	c06DecMin = new(big.Int).Neg(new(big.Int).Lsh(big.NewInt(1), 63))
	c06DecMax = new(big.Int).Sub(new(big.Int).Lsh(big.NewInt(1), 63), big.NewInt(1))
)

// c06Float returns the float64 for k*10^-fd if that float denotes the decimal
// unambiguously: <=15 significant digits and the shortest formatting of the
// float is the same decimal.
func c06Float(k *big.Int, fd int) (float64, bool) {
	digits := strings.TrimLeft(new(big.Int).Abs(k).String(), "0")
	digits = strings.TrimRight(digits, "0")
	if len(digits) > 15 {
		return 0, false
	}
	s := c06Scaled(k, fd)
	f, err := strconv.ParseFloat(s, 64)
	if err != nil {
		return 0, false
	}
	back := strconv.FormatFloat(f, 'f', -1, 64)
	neg := strings.HasPrefix(back, "-")
	back = strings.TrimPrefix(back, "-")
	ip, fp := back, ""
	if i := strings.Index(back, "."); i >= 0 {
		ip, fp = back[:i], back[i+1:]
	}
	if len(fp) > fd {
		return 0, false
	}
	fp += strings.Repeat("0", fd-len(fp))
	b, ok := new(big.Int).SetString(ip+fp, 10)
	if !ok {
		return 0, false
	}
	if neg {
		b.Neg(b)
	}
	if b.Cmp(k) != 0 {
		return 0, false
	}
	return f, true
}

func c06DecPos(ps []c06Part, v *big.Int, in bool) string {
	one := big.NewInt(1)
	if in {
		for _, p := range ps {
			if v.Cmp(p.lo) == 0 || v.Cmp(p.hi) == 0 {
				return "value-equals-bound"
			}
		}
		return "interior-value"
	}
	if c06InParts(ps, new(big.Int).Add(v, one)) || c06InParts(ps, new(big.Int).Sub(v, one)) {
		return "one-quantum-outside-bound"
	}
	return "far-outside"
}

// c06DecCause is used only to name the root cause of a disagreement, never for
// the verdict: it looks at how goyang converts the float64 the validator was
// given into a yang.Number.
func c06DecCause(f float64, v *big.Int, fd int) string {
	n := yang.FromFloat(f)
	if n.FractionDigits > 18 {
		return "float-conversion-yields-more-than-18-fraction-digits"
	}
	ten := big.NewInt(10)
	a := new(big.Int).Mul(new(big.Int).SetUint64(n.Value), new(big.Int).Exp(ten, big.NewInt(int64(fd)), nil))
	if n.Negative {
		a.Neg(a)
	}
	b := new(big.Int).Mul(v, new(big.Int).Exp(ten, big.NewInt(int64(n.FractionDigits)), nil))
	if a.Cmp(b) == 0 {
		return "float-conversion-exact"
	}
	return "float-conversion-inexact"
}

func c06DecCase(r *lib.Run, fd int, ps []c06Part, v *big.Int, origin string) bool {
	f, ok := c06Float(v, fd)
	if !ok {
		r.Hit("decimal:skipped-not-float-exact")
		return false
	}
	t := &yang.YangType{Name: "decimal64", Kind: yang.Ydecimal64, FractionDigits: fd, Range: c06YangRange(ps, uint8(fd))}
	rs := c06PartsString(ps, fd)
	want := c06InParts(ps, v)
	pos := c06DecPos(ps, v, want)
	r.Case(fmt.Sprintf("dec|%d|%s|%s", fd, rs, v), true)
	if want {
		r.Hit("decimal:accept-expected")
	} else {
		r.Hit("decimal:reject-expected")
	}
	if pos == "value-equals-bound" {
		r.Hit("decimal:value-at-bound")
	}
	r.Hit(fmt.Sprintf("decimal:fd=%d", fd))
	w := map[string]interface{}{"validator": "ValidateDecimalRestrictions", "fraction-digits": fd, "range": rs, "value": c06Scaled(v, fd),
		"float64": strconv.FormatFloat(f, 'g', -1, 64), "oracle": c06Verdict(want), "position": pos, "origin": origin}
	var err error
	if r.Guard("ValidateDecimalRestrictions", w, func() { err = ytypes.ValidateDecimalRestrictions(t, f) }) {
		return true
	}
	w["ygot"] = c06Answer(err)
	if origin == "random" && pos == "value-equals-bound" {
		c06SampleOnce(r, "decimal", w)
	}
	got := err == nil
	if got == want {
		return true
	}
	cause := c06DecCause(f, v, fd)
	w["float-conversion"] = cause
	w["goyang-FromFloat"] = fmt.Sprintf("%+v", yang.FromFloat(f))
	feat := "rejects-in-range:" + cause
	if got {
		feat = "accepts-out-of-range:" + cause
	}
	r.Violate("decimal-range", feat, fmt.Sprintf("ValidateDecimalRestrictions(fraction-digits %d, range %q, %s): ygot %s, oracle %s", fd, rs, c06Scaled(v, fd), c06Answer(err), c06Verdict(want)), w)
	return true
}

// c06DecOffGrid probes float64 values that carry one fraction digit more than
// the type (v10 = value * 10^(fd+1)), i.e. values between two members of the
// type. The statement ties acceptance to the range parts only, so the oracle
// is plain interval membership of the exact decimal; a value less than half a
// quantum outside a bound is still outside.
func c06DecOffGrid(r *lib.Run, fd int, ps []c06Part, v10 *big.Int, origin string) bool {
	if fd+1 > 18 {
		return false
	}
	f, ok := c06Float(v10, fd+1)
	if !ok {
		r.Hit("decimal:skipped-not-float-exact")
		return false
	}
	ten := big.NewInt(10)
	if new(big.Int).Mod(v10, ten).Sign() == 0 {
		return false
	}
	ps10 := make([]c06Part, len(ps))
	for i, p := range ps {
		ps10[i] = c06Part{lo: new(big.Int).Mul(p.lo, ten), hi: new(big.Int).Mul(p.hi, ten)}
	}
	t := &yang.YangType{Name: "decimal64", Kind: yang.Ydecimal64, FractionDigits: fd, Range: c06YangRange(ps, uint8(fd))}
	rs := c06PartsString(ps, fd)
	want := c06InParts(ps10, v10)
	pos := "off-grid-interior"
	if !want {
		pos = "off-grid-far-outside"
		for d := int64(1); d <= 9; d++ {
			if c06InParts(ps10, new(big.Int).Add(v10, big.NewInt(d))) || c06InParts(ps10, new(big.Int).Sub(v10, big.NewInt(d))) {
				pos = "off-grid-less-than-one-quantum-outside"
				if d <= 4 {
					pos = "off-grid-less-than-half-quantum-outside"
				}
				break
			}
		}
	}
	r.Case(fmt.Sprintf("decoff|%d|%s|%s", fd, rs, v10), true)
	r.Hit("decimal:off-grid-value")
	r.Hit("decimal:" + pos)
	if want {
		r.Hit("decimal:accept-expected")
	} else {
		r.Hit("decimal:reject-expected")
	}
	w := map[string]interface{}{"validator": "ValidateDecimalRestrictions", "fraction-digits": fd, "range": rs, "value": c06Scaled(v10, fd+1),
		"float64": strconv.FormatFloat(f, 'g', -1, 64), "oracle": c06Verdict(want), "position": pos, "origin": origin}
	var err error
	if r.Guard("ValidateDecimalRestrictions", w, func() { err = ytypes.ValidateDecimalRestrictions(t, f) }) {
		return true
	}
	w["ygot"] = c06Answer(err)
	got := err == nil
	if got == want {
		return true
	}
	cause := c06DecCause(f, v10, fd+1)
	w["float-conversion"] = cause
	w["goyang-FromFloat"] = fmt.Sprintf("%+v", yang.FromFloat(f))
	feat := "rejects-in-range:" + cause
	if got {
		feat = "accepts-out-of-range:" + cause
	}
	r.Violate("decimal-range", feat, fmt.Sprintf("ValidateDecimalRestrictions(fraction-digits %d, range %q, off-grid value %s): ygot %s, oracle %s", fd, rs, c06Scaled(v10, fd+1), c06Answer(err), c06Verdict(want)), w)
	return true
}

func c06Decimals(r *lib.Run, budget int) {
	pairs := 0
	for idx := 0; pairs < budget; idx++ {
		rng := c06Rng(r, c06SecDec, idx)
		fd := 1 + idx%18
		d := 1 + rng.Intn(15)
		bound := new(big.Int).Sub(new(big.Int).Exp(big.NewInt(10), big.NewInt(int64(d)), nil), big.NewInt(1))
		lo, hi := new(big.Int).Neg(bound), bound
		if rng.Intn(10) < 3 {
			lo = new(big.Int)
		}
		ps := c06RandParts(rng, lo, hi, 3)
		if rng.Intn(12) == 0 {
			ps[0].lo = new(big.Int).Set(c06DecMin) // "min.."
		}
		if rng.Intn(12) == 0 {
			ps[len(ps)-1].hi = new(big.Int).Set(c06DecMax) // "..max"
		}
		for _, v := range c06Probe(rng, ps, new(big.Int).Neg(bound), bound, 3) {
			if c06DecCase(r, fd, ps, v, "random") {
				pairs++
			}
		}
		// off-grid values: within one quantum of each bound, and one random
		if d <= 14 {
			p := ps[rng.Intn(len(ps))]
			b := p.lo
			if rng.Intn(2) == 0 {
				b = p.hi
			}
			b10 := new(big.Int).Mul(b, big.NewInt(10))
			for _, dd := range []int64{-(1 + rng.Int63n(4)), 1 + rng.Int63n(4), 5 + rng.Int63n(5), -(5 + rng.Int63n(5))} {
				if c06DecOffGrid(r, fd, ps, new(big.Int).Add(b10, big.NewInt(dd)), "random-off-grid") {
					pairs++
				}
			}
		}
	}
}

// ---------------------------------------------------------------------------
// string / binary length
// ---------------------------------------------------------------------------

var (
	c06MaxU64    = new(big.Int).SetUint64(^uint64(0))
	c06RunesASCI = []rune("abcXYZ019 -_")
	c06RunesMB   = []rune("éßΩж日本語한😀𝄞")
)

func c06LenParts(rng *rand.Rand) []c06Part {
	ps := c06RandParts(rng, new(big.Int), big.NewInt(20), 3)
	if rng.Intn(6) == 0 {
		ps[len(ps)-1].hi = new(big.Int).Set(c06MaxU64) // "..max"
	}
	return ps
}

func c06LenProbe(rng *rand.Rand, ps []c06Part) []int {
	var out []int
	for _, v := range c06Probe(rng, ps, new(big.Int), big.NewInt(24), 2) {
		out = append(out, int(v.Int64()))
	}
	return out
}

func c06StrLenCase(r *lib.Run, ps []c06Part, s string, origin string) {
	t := &yang.YangType{Name: "string", Kind: yang.Ystring, Length: c06YangRange(ps, 0)}
	rs := c06PartsString(ps, 0)
	chars := len([]rune(s))
	want := len(ps) == 0 || c06InParts(ps, big.NewInt(int64(chars)))
	bytesWould := len(ps) == 0 || c06InParts(ps, big.NewInt(int64(len(s))))
	r.Case("strlen|"+rs+"|"+s, len(ps) > 0)
	cls := "reject-expected"
	if want {
		cls = "accept-expected"
	}
	r.Hit("string-length:" + cls)
	if bytesWould != want {
		r.Hit("string-length:bytes-and-chars-disagree")
	}
	w := map[string]interface{}{"validator": "ValidateStringRestrictions", "length": rs, "value": s, "chars": chars, "bytes": len(s), "oracle": c06Verdict(want), "origin": origin}
	var err error
	if r.Guard("ValidateStringRestrictions", w, func() { err = ytypes.ValidateStringRestrictions(t, s) }) {
		return
	}
	w["ygot"] = c06Answer(err)
	if bytesWould != want {
		c06SampleOnce(r, "strlen", w)
	}
	got := err == nil
	if got == want {
		return
	}
	kind := "ascii"
	if chars != len(s) {
		kind = "multibyte"
	}
	feat := "rejects-in-length:" + kind
	if got {
		feat = "accepts-out-of-length:" + kind
	}
	w["a-byte-count-would-say"] = c06Verdict(bytesWould)
	r.Violate("string-length", feat, fmt.Sprintf("ValidateStringRestrictions(length %q, %q = %d chars/%d bytes): ygot %s, oracle %s", rs, s, chars, len(s), c06Answer(err), c06Verdict(want)), w)
}

func c06RandRunes(rng *rand.Rand, n int, mode int) string {
	var b strings.Builder
	for i := 0; i < n; i++ {
		switch {
		case mode == 0, mode == 2 && rng.Intn(2) == 0:
			b.WriteRune(c06RunesASCI[rng.Intn(len(c06RunesASCI))])
		default:
			b.WriteRune(c06RunesMB[rng.Intn(len(c06RunesMB))])
		}
	}
	return b.String()
}

func c06StrLen(r *lib.Run, budget int) {
	pairs := 0
	for idx := 0; pairs < budget; idx++ {
		rng := c06Rng(r, c06SecStrLen, idx)
		var ps []c06Part
		if idx%25 != 24 {
			ps = c06LenParts(rng)
		}
		for _, n := range c06LenProbe(rng, ps) {
			c06StrLenCase(r, ps, c06RandRunes(rng, n, 1+rng.Intn(2)), "random")
			pairs++
			if rng.Intn(4) == 0 {
				c06StrLenCase(r, ps, c06RandRunes(rng, n, 0), "random")
				pairs++
			}
		}
	}
}

func c06BinCase(r *lib.Run, ps []c06Part, b []byte, origin string) {
	t := &yang.YangType{Name: "binary", Kind: yang.Ybinary, Length: c06YangRange(ps, 0)}
	rs := c06PartsString(ps, 0)
	want := len(ps) == 0 || c06InParts(ps, big.NewInt(int64(len(b))))
	chars := len([]rune(string(b)))
	charsWould := len(ps) == 0 || c06InParts(ps, big.NewInt(int64(chars)))
	r.Case("bin|"+rs+"|"+string(b), len(ps) > 0)
	cls := "reject-expected"
	if want {
		cls = "accept-expected"
	}
	r.Hit("binary-length:" + cls)
	if charsWould != want {
		r.Hit("binary-length:bytes-and-chars-disagree")
	}
	w := map[string]interface{}{"validator": "ValidateBinaryRestrictions", "length": rs, "value-hex": fmt.Sprintf("%x", b), "bytes": len(b), "oracle": c06Verdict(want), "origin": origin}
	var err error
	if r.Guard("ValidateBinaryRestrictions", w, func() { err = ytypes.ValidateBinaryRestrictions(t, b) }) {
		return
	}
	w["ygot"] = c06Answer(err)
	if charsWould != want {
		c06SampleOnce(r, "binary", w)
	}
	got := err == nil
	if got == want {
		return
	}
	feat := "rejects-in-length"
	if got {
		feat = "accepts-out-of-length"
	}
	w["a-character-count-would-say"] = c06Verdict(charsWould)
	r.Violate("binary-length", feat, fmt.Sprintf("ValidateBinaryRestrictions(length %q, %d bytes %x): ygot %s, oracle %s", rs, len(b), b, c06Answer(err), c06Verdict(want)), w)
}

func c06Binary(r *lib.Run, budget int) {
	pairs := 0
	for idx := 0; pairs < budget; idx++ {
		rng := c06Rng(r, c06SecBin, idx)
		var ps []c06Part
		if idx%25 != 24 {
			ps = c06LenParts(rng)
		}
		for _, n := range c06LenProbe(rng, ps) {
			var b []byte
			switch rng.Intn(3) {
			case 0: // arbitrary bytes
				b = make([]byte, n)
				rng.Read(b)
			case 1: // bytes that form multi-byte UTF-8 sequences, cut to n bytes
				b = []byte(c06RandRunes(rng, n, 1))[:n]
			default:
				b = []byte(c06RandRunes(rng, n, 2))[:n]
			}
			if n == 0 && rng.Intn(2) == 0 {
				b = nil
			}
			c06BinCase(r, ps, b, "random")
			pairs++
		}
	}
}

// ---------------------------------------------------------------------------
// patterns
// ---------------------------------------------------------------------------

type c06Node interface {
	Match(string) bool
	Sample(*rand.Rand) string
}

// c06Traits is a syntactic description of a pattern, used for the \w and '.'
// input restrictions and to name the root-cause class of a disagreement.
type c06Traits struct {
	empty, endsMultibyte, endsEscDollar, escBracketCaret bool
	leading, trailing, interior, topAlt                  bool
	hasW, hasDot                                         bool
}

func c06Scan(p string) c06Traits {
	var t c06Traits
	rs := []rune(p)
	if len(rs) == 0 {
		t.empty = true
		return t
	}
	t.endsMultibyte = utf8.RuneLen(rs[len(rs)-1]) > 1
	esc, inClass, depth := false, false, 0
	for i := 0; i < len(rs); i++ {
		c := rs[i]
		if esc {
			esc = false
			switch c {
			case 'w', 'W':
				t.hasW = true
			case '[':
				if !inClass && i+1 < len(rs) && rs[i+1] == '^' {
					t.escBracketCaret = true
				}
			case '$':
				if i == len(rs)-1 {
					t.endsEscDollar = true
				}
			}
			continue
		}
		if c == '\\' {
			esc = true
			continue
		}
		if inClass {
			if c == ']' {
				inClass = false
			}
			continue
		}
		switch c {
		case '[':
			inClass = true
			if i+1 < len(rs) && rs[i+1] == '^' {
				i++
			}
		case '(':
			depth++
		case ')':
			depth--
		case '|':
			if depth == 0 {
				t.topAlt = true
			}
		case '.':
			t.hasDot = true
		case '^':
			if i == 0 {
				t.leading = true
			} else {
				t.interior = true
			}
		case '$':
			if i == len(rs)-1 {
				t.trailing = true
			} else {
				t.interior = true
			}
		}
	}
	return t
}

// name is the root-cause class of the pattern, most specific trait first.
func (t c06Traits) name() string {
	switch {
	case t.empty:
		return "empty-pattern"
	case t.escBracketCaret:
		return "caret-after-escaped-bracket"
	case t.leading && t.topAlt:
		return "leading-caret-top-level-alternation"
	case t.endsMultibyte:
		return "pattern-ends-with-multibyte-rune"
	case t.endsEscDollar:
		return "pattern-ends-with-escaped-dollar"
	case t.interior:
		return "interior-anchor-char"
	case t.leading || t.trailing:
		return "anchored-pattern"
	}
	return "plain-pattern"
}

// c06Gen is the grammar-based pattern generator.
type c06Gen struct {
	rng    *rand.Rand
	noPerl bool // POSIX ERE compatible: no \d \w \s
}

var (
	c06LitASCII = []rune("abcxyzABZ019")
	c06LitPunct = []rune("-_ /:,=!@#%&~\"'<>;")
	c06LitMulti = []rune("éßüΩ日本😀")
	c06EscMeta  = []string{`\.`, `\*`, `\+`, `\?`, `\(`, `\)`, `\[`, `\]`, `\{`, `\}`, `\|`, `\\`, `\-`, `\^`, `\$`}
	c06ClsChar  = []rune("abcxyzABZ019_ /:,=!@#%é日Ω.*+$(){}|?")
	c06ClsEsc   = []string{`\]`, `\[`, `\\`, `\-`, `\^`, `\.`}
	c06ClsRange = []string{"a-z", "A-Z", "0-9", "a-f", "0-5", "α-ω", "ぁ-ん", "x-z"}
)

func (g *c06Gen) pick(rs []rune) string { return string(rs[g.rng.Intn(len(rs))]) }

func (g *c06Gen) class() string {
	var b strings.Builder
	b.WriteByte('[')
	neg := g.rng.Intn(4) == 0
	if neg {
		b.WriteByte('^')
	}
	n := 1 + g.rng.Intn(3)
	for i := 0; i < n; i++ {
		switch x := g.rng.Intn(100); {
		case x < 45:
			b.WriteString(g.pick(c06ClsChar))
		case x < 55:
			if i > 0 {
				b.WriteByte('^') // a caret that is not first is an ordinary member
			} else {
				b.WriteString(`\^`)
			}
		case x < 65:
			b.WriteString(c06ClsEsc[g.rng.Intn(len(c06ClsEsc))])
		case x < 88 || g.noPerl:
			b.WriteString(c06ClsRange[g.rng.Intn(len(c06ClsRange))])
		default:
			b.WriteString([]string{`\d`, `\s`, `\w`}[g.rng.Intn(3)])
		}
	}
	b.WriteByte(']')
	return b.String()
}

func (g *c06Gen) atom(depth int) string {
	for {
		switch x := g.rng.Intn(100); {
		case x < 38:
			return g.pick(c06LitASCII)
		case x < 46:
			return g.pick(c06LitPunct)
		case x < 54:
			return g.pick(c06LitMulti)
		case x < 62:
			return c06EscMeta[g.rng.Intn(len(c06EscMeta))]
		case x < 67:
			return "."
		case x < 78:
			return g.class()
		case x < 87:
			if g.noPerl {
				continue
			}
			return []string{`\d`, `\d`, `\d`, `\s`, `\w`, `\w`, `\D`, `\S`, `\W`}[g.rng.Intn(9)]
		default:
			if depth >= 2 {
				continue
			}
			return "(" + g.regex(depth+1) + ")"
		}
	}
}

func (g *c06Gen) quant() string {
	if g.rng.Intn(100) < 55 {
		return ""
	}
	switch x := g.rng.Intn(100); {
	case x < 25:
		return "*"
	case x < 50:
		return "+"
	case x < 75:
		return "?"
	case x < 83:
		return fmt.Sprintf("{%d}", g.rng.Intn(4))
	case x < 90:
		return fmt.Sprintf("{%d,}", g.rng.Intn(3))
	default:
		n := g.rng.Intn(3)
		return fmt.Sprintf("{%d,%d}", n, n+g.rng.Intn(3))
	}
}

func (g *c06Gen) piece(depth int) string { return g.atom(depth) + g.quant() }

func (g *c06Gen) pieces(depth int) []string {
	n := 1 + g.rng.Intn(3)
	if depth == 0 {
		n = 1 + g.rng.Intn(4)
	}
	var out []string
	for i := 0; i < n; i++ {
		out = append(out, g.piece(depth))
	}
	return out
}

func (g *c06Gen) regex(depth int) string {
	nb := 1
	switch x := g.rng.Intn(100); {
	case x >= 90:
		nb = 3
	case x >= 65:
		nb = 2
	}
	var bs []string
	for i := 0; i < nb; i++ {
		if depth > 0 && nb > 1 && g.rng.Intn(20) == 0 {
			bs = append(bs, "") // empty branch inside a group
			continue
		}
		bs = append(bs, strings.Join(g.pieces(depth), ""))
	}
	return strings.Join(bs, "|")
}

// pattern draws a pattern with at most one anchor/ending hazard.
func (g *c06Gen) pattern() (string, string) {
	body := g.regex(0)
	withCaret := func(p string) string {
		if g.rng.Intn(2) == 0 {
			return "^" + p
		}
		return p
	}
	// special inserts sp before piece i (minIdx <= i < len), so sp is never the
	// last piece and, with minIdx 1, never the first.
	special := func(sp string, minIdx int) string {
		ps := g.pieces(0)
		ps = append(ps, g.piece(0))
		i := minIdx + g.rng.Intn(len(ps)-minIdx)
		ps = append(ps[:i], append([]string{sp}, ps[i:]...)...)
		p := strings.Join(ps, "")
		if g.rng.Intn(10) < 3 {
			p = strings.Join(g.pieces(0), "") + "|" + p
		}
		return p
	}
	switch x := g.rng.Intn(100); {
	case x < 38:
		return body, "none"
	case x < 53:
		return "^" + body + "$", "oc-anchored"
	case x < 61:
		return "^" + body, "leading-caret"
	case x < 69:
		return body + "$", "trailing-dollar"
	case x < 74:
		return special("^"+g.quant(), 1), "interior-caret"
	case x < 79:
		return special("$"+g.quant(), 0), "interior-dollar"
	case x < 85:
		return withCaret(body + `\$`), "ends-escaped-dollar"
	case x < 93:
		return withCaret(body + g.pick(c06LitMulti)), "ends-multibyte"
	case x < 97:
		return special(`\[^`+g.quant(), 0), "escaped-bracket-caret"
	default:
		return withCaret(body + `\\$`), "escaped-backslash-dollar"
	}
}

var (
	c06JunkAll  = []rune("Xa0é日 -$^_Z9😀.")
	c06JunkSafe = []rune("Xa0 -Z9.!/")
)

// c06WSafe reports whether every rune of s is classified identically by XSD
// \w, RE2 \w and the reference matcher.
func c06WSafe(s string) bool {
	for _, c := range s {
		switch {
		case c >= '0' && c <= '9', c >= 'a' && c <= 'z', c >= 'A' && c <= 'Z':
		case strings.ContainsRune(" -./:,!@#%&\"';\t\n\r", c):
		default:
			return false
		}
	}
	return true
}

type c06Str struct{ s, origin string }

func c06Mutants(rng *rand.Rand, s string, junk []rune) []c06Str {
	rs := []rune(s)
	j := func() rune { return junk[rng.Intn(len(junk))] }
	var out []c06Str
	cp := func() []rune { return append([]rune(nil), rs...) }
	// trailing and leading junk test whole-string anchoring
	out = append(out, c06Str{string(append(cp(), j())), "junk-suffix"})
	out = append(out, c06Str{string(append([]rune{j()}, rs...)), "junk-prefix"})
	switch rng.Intn(3) {
	case 0:
		i := rng.Intn(len(rs) + 1)
		m := append(cp()[:i], append([]rune{j()}, rs[i:]...)...)
		out = append(out, c06Str{string(m), "insert"})
	case 1:
		if len(rs) > 0 {
			i := rng.Intn(len(rs))
			m := append(cp()[:i], rs[i+1:]...)
			out = append(out, c06Str{string(m), "delete"})
		}
	default:
		if len(rs) > 0 {
			m := cp()
			m[rng.Intn(len(rs))] = j()
			out = append(out, c06Str{string(m), "replace"})
		}
	}
	if rng.Intn(3) == 0 {
		out = append(out, c06Str{string(append(append([]rune{j()}, rs...), j(), j())), "junk-both"})
	}
	return out
}

type c06Res struct {
	c06Str
	err    error
	y      bool
	mS, mL bool
}

func c06IsCompileErr(err error) bool {
	return err != nil && strings.Contains(err.Error(), "error parsing regexp")
}

// c06ContainsMember reports whether a proper substring of s is a member under
// either reading, i.e. the acceptance of s looks like a missing anchor.
func c06ContainsMember(nS, nL c06Node, s string) bool {
	rs := []rune(s)
	n := len(rs)
	for l := n - 1; l >= 0; l-- {
		for i := 0; i+l <= n; i++ {
			sub := string(rs[i : i+l])
			if nS.Match(sub) || nL.Match(sub) {
				return true
			}
		}
	}
	return false
}

// c06CheckPattern runs one pattern against its own language, mutants and
// random strings, plus the extra strings given. It returns the number of
// (pattern, value) pairs evaluated.
func c06CheckPattern(r *lib.Run, rng *rand.Rand, p, hazard string, extra []string, origin string) int {
	nS, errS := lib.ParseXSD(p, lib.XSDOpts{StripAnchors: true})
	nL, errL := lib.ParseXSD(p, lib.XSDOpts{StripAnchors: false})
	if errS != nil || errL != nil {
		r.Hit("string-pattern:skipped-outside-reference-subset")
		r.Extra("pattern-outside-reference-subset", fmt.Sprintf("%q: %v / %v", p, errS, errL))
		return 0
	}
	tr := c06Scan(p)
	trait := tr.name()
	junk := c06JunkAll
	if tr.hasW {
		junk = c06JunkSafe
	}
	var strs []c06Str
	seen := map[string]bool{}
	add := func(s c06Str) bool {
		if seen[s.s] || !utf8.ValidString(s.s) || strings.ContainsRune(s.s, '\f') {
			return false
		}
		if tr.hasW && !c06WSafe(s.s) {
			r.Hit("string-pattern:skipped-w-ambiguous-string")
			return false
		}
		if tr.hasDot && strings.ContainsRune(s.s, '\r') && origin != "hostile" {
			r.Hit("string-pattern:skipped-dot-vs-cr")
			return false
		}
		if len([]rune(s.s)) > 16 {
			return false
		}
		seen[s.s] = true
		strs = append(strs, s)
		return true
	}
	for _, e := range extra {
		add(c06Str{e, "listed"})
	}
	own := func(n c06Node, tag string, want int) {
		got := 0
		for try := 0; try < 6 && got < want; try++ {
			s := n.Sample(rng)
			if add(c06Str{s, tag}) {
				got++
				for _, m := range c06Mutants(rng, s, junk) {
					add(m)
				}
			}
		}
	}
	own(nS, "own-member", 2)
	if tr.leading || tr.trailing {
		own(nL, "own-member-literal-reading", 1)
	}
	for i := 0; i < 2; i++ {
		n := rng.Intn(6)
		var b strings.Builder
		for k := 0; k < n; k++ {
			b.WriteRune(junk[rng.Intn(len(junk))])
		}
		add(c06Str{b.String(), "random"})
	}

	t := &yang.YangType{Name: "string", Kind: yang.Ystring, Pattern: []string{p}}
	var res []c06Res
	accepted := 0
	compileErr := false
	for _, s := range strs {
		x := c06Res{c06Str: s}
		w := map[string]interface{}{"validator": "ValidateStringRestrictions", "pattern": p, "value": s.s}
		if r.Guard("ValidateStringRestrictions", w, func() { x.err = ytypes.ValidateStringRestrictions(t, s.s) }) {
			continue
		}
		x.y = x.err == nil
		x.mS, x.mL = nS.Match(s.s), nL.Match(s.s)
		if x.y {
			accepted++
		}
		if c06IsCompileErr(x.err) {
			compileErr = true
		}
		res = append(res, x)
		r.Case("pat|"+p+"|"+s.s, true)
		switch {
		case x.mS && x.mL:
			r.Hit("string-pattern:accept-expected")
		case !x.mS && !x.mL:
			r.Hit("string-pattern:reject-expected")
		default:
			r.Hit("string-pattern:readings-differ")
		}
		r.Hit("string-pattern:" + s.origin)
		if len(s.s) != len([]rune(s.s)) {
			r.Hit("string-pattern:multibyte-value")
		}
	}
	r.Hit("pattern-trait:" + trait)
	r.Hit("pattern-hazard:" + hazard)
	if tr.leading && tr.trailing {
		r.Hit("string-pattern:anchored-oc-style")
	}
	if tr.hasW {
		r.Hit("string-pattern:with-w-escape")
	}
	if len(res) > 2 && (hazard == "oc-anchored" || hazard == "none") && !c06Sampled["pattern:"+hazard] {
		x := res[0]
		c06SampleOnce(r, "pattern:"+hazard, map[string]interface{}{"validator": "ValidateStringRestrictions", "pattern": p, "value": x.s, "origin": x.origin, "ygot": c06Answer(x.err),
			"oracle-anchors-stripped": c06Verdict(x.mS), "oracle-anchors-literal": c06Verdict(x.mL)})
	}

	// "every value fails": nothing accepted although members of each reading were offered.
	var rejS, rejL *c06Res
	for i := range res {
		x := &res[i]
		if !x.y && x.mS && rejS == nil {
			rejS = x
		}
		if !x.y && x.mL && rejL == nil {
			rejL = x
		}
	}
	everyFails := compileErr || (accepted == 0 && rejS != nil && rejL != nil)
	wit := func(x *c06Res, more map[string]interface{}) map[string]interface{} {
		w := map[string]interface{}{"validator": "ValidateStringRestrictions", "pattern": p, "value": x.s, "value-origin": x.origin,
			"ygot": c06Answer(x.err), "oracle-anchors-stripped": c06Verdict(x.mS), "oracle-anchors-literal": c06Verdict(x.mL),
			"pattern-trait": trait, "generator-hazard": hazard, "origin": origin}
		for k, v := range more {
			w[k] = v
		}
		return w
	}
	rejectedBoth := false
	for i := range res {
		x := &res[i]
		tname := trait
		if tr.hasDot && strings.ContainsRune(x.s, '\r') {
			tname = "dot-matches-carriage-return"
		}
		switch {
		case x.y && !x.mS && !x.mL:
			sym := "accepts-nonmember"
			if c06ContainsMember(nS, nL, x.s) {
				sym = "unanchored-accepts-nonmember"
			}
			r.Violate("string-pattern", sym+":"+tname,
				fmt.Sprintf("pattern %q accepts %q, which is outside the pattern's language whether ^/$ are read as anchors or as literals", p, x.s), wit(x, nil))
		case !x.y && x.mS && x.mL:
			rejectedBoth = true
			detail := fmt.Sprintf("pattern %q rejects %q, a member of the pattern's own language under both readings of ^/$: %s", p, x.s, c06Answer(x.err))
			if everyFails {
				detail = fmt.Sprintf("pattern %q makes every value fail; e.g. its own member %q: %s", p, x.s, c06Answer(x.err))
			}
			r.Violate("pattern-rejects-own-member", "rejects-member:"+tname, detail, wit(x, map[string]interface{}{"every-tested-value-rejected": everyFails}))
		}
	}
	if everyFails && !rejectedBoth && rejS != nil && rejL != nil {
		// the two readings have different languages; ygot rejects members of each.
		r.Violate("pattern-rejects-own-member", "rejects-member:"+trait,
			fmt.Sprintf("pattern %q makes every value fail: rejects %q (member with ^/$ as anchors) and %q (member with ^/$ as literals): %s", p, rejS.s, rejL.s, c06Answer(rejS.err)),
			wit(rejS, map[string]interface{}{"value-literal-reading": rejL.s, "ygot-literal-reading": c06Answer(rejL.err)}))
	}
	return len(res)
}

func c06Patterns(r *lib.Run, budget int) {
	pairs := 0
	for idx := 0; pairs < budget; idx++ {
		rng := c06Rng(r, c06SecPat, idx)
		g := &c06Gen{rng: rng}
		p, hz := g.pattern()
		pairs += c06CheckPattern(r, rng, p, hz, nil, "random")
	}
}

// ---------------------------------------------------------------------------
// conjunction of several pattern statements
// ---------------------------------------------------------------------------

var c06Companions = []string{`.*`, `.+`, `[^q]*`, `.{0,9}`, `(.|\s)*`, `[a-c0-9]*`, `\d+`, `[^ ]+`, `^.*$`, `^[a-z]+$`, `.*a.*`, `\S*`}

func c06Conj(r *lib.Run, budget int) {
	pairs := 0
	for idx := 0; pairs < budget; idx++ {
		rng := c06Rng(r, c06SecConj, idx)
		g := &c06Gen{rng: rng}
		// hazard-free bodies only: a verdict here is about conjunction.
		body := g.regex(0)
		for c06Scan(body).name() != "plain-pattern" {
			body = g.regex(0)
		}
		if rng.Intn(3) == 0 {
			body = "^(" + body + ")$"
		}
		pats := []string{body, c06Companions[rng.Intn(len(c06Companions))]}
		if rng.Intn(3) == 0 {
			pats = append(pats, c06Companions[rng.Intn(len(c06Companions))])
		}
		rng.Shuffle(len(pats), func(i, j int) { pats[i], pats[j] = pats[j], pats[i] })
		pairs += c06ConjCase(r, rng, pats, "random")
	}
}

func c06ConjCase(r *lib.Run, rng *rand.Rand, pats []string, origin string) int {
	var nS, nL []c06Node
	hasW, hasDot := false, false
	for _, p := range pats {
		a, e1 := lib.ParseXSD(p, lib.XSDOpts{StripAnchors: true})
		b, e2 := lib.ParseXSD(p, lib.XSDOpts{StripAnchors: false})
		if e1 != nil || e2 != nil {
			r.Hit("conjunction:skipped-outside-reference-subset")
			return 0
		}
		nS, nL = append(nS, a), append(nL, b)
		tr := c06Scan(p)
		hasW, hasDot = hasW || tr.hasW, hasDot || tr.hasDot
	}
	junk := c06JunkAll
	if hasW {
		junk = c06JunkSafe
	}
	var strs []c06Str
	seen := map[string]bool{}
	add := func(s c06Str) {
		if seen[s.s] || (hasW && !c06WSafe(s.s)) || (hasDot && strings.ContainsRune(s.s, '\r')) || len([]rune(s.s)) > 24 {
			return
		}
		seen[s.s] = true
		strs = append(strs, s)
	}
	for i, n := range nS {
		for k := 0; k < 2; k++ {
			s := n.Sample(rng)
			add(c06Str{s, fmt.Sprintf("own-member-of-pattern-%d", i)})
			if k == 0 {
				ms := c06Mutants(rng, s, junk)
				add(ms[rng.Intn(len(ms))])
			}
		}
	}
	t := &yang.YangType{Name: "string", Kind: yang.Ystring, Pattern: pats}
	n := 0
	for _, s := range strs {
		all, none := true, false // all: member of every pattern under both readings; none: some pattern excludes it under both readings
		failing := -1
		for i := range pats {
			a, b := nS[i].Match(s.s), nL[i].Match(s.s)
			if !(a && b) {
				all = false
			}
			if !a && !b {
				none = true
				if failing < 0 {
					failing = i
				}
			}
		}
		var err error
		w := map[string]interface{}{"validator": "ValidateStringRestrictions", "patterns": pats, "value": s.s, "origin": origin}
		if r.Guard("ValidateStringRestrictions", w, func() { err = ytypes.ValidateStringRestrictions(t, s.s) }) {
			continue
		}
		n++
		r.Case("conj|"+strings.Join(pats, "\x00")+"|"+s.s, true)
		y := err == nil
		w["ygot"] = c06Answer(err)
		switch {
		case all:
			r.Hit("conjunction:accept-expected")
			w["oracle"] = "member of every pattern (must accept)"
			if !y {
				r.Violate("string-pattern", "conjunction:rejects-member-of-every-pattern", fmt.Sprintf("patterns %q: %q matches every pattern but is rejected: %s", pats, s.s, c06Answer(err)), w)
			}
		case none:
			r.Hit("conjunction:reject-expected")
			r.Hit(fmt.Sprintf("conjunction:failing-pattern-index-%d-of-%d", failing, len(pats)))
			w["oracle"] = fmt.Sprintf("not matched by pattern #%d (must reject)", failing)
			if y {
				pos := "first"
				if failing > 0 {
					pos = "later"
				}
				r.Violate("string-pattern", "conjunction:accepts-value-failing-"+pos+"-pattern", fmt.Sprintf("patterns %q: %q is outside pattern #%d but accepted", pats, s.s, failing), w)
			}
		default:
			r.Hit("conjunction:readings-differ")
		}
	}
	return n
}

// ---------------------------------------------------------------------------
// posix-pattern
// ---------------------------------------------------------------------------

func c06Posix(r *lib.Run, budget int) {
	pairs := 0
	for idx := 0; pairs < budget; idx++ {
		rng := c06Rng(r, c06SecPosix, idx)
		g := &c06Gen{rng: rng, noPerl: true}
		mk := func() string {
			b := g.regex(0)
			if rng.Intn(4) > 0 {
				return "^(" + b + ")$"
			}
			return b
		}
		posix := []string{mk()}
		cfg := "single-posix-pattern"
		var plain []string
		switch idx % 3 {
		case 1:
			posix = append(posix, []string{"^.*$", "^[^q]*$", "^.+$", "^[a-z0-9]*$", mk()}[rng.Intn(5)])
			if rng.Intn(2) == 0 {
				posix[0], posix[1] = posix[1], posix[0]
			}
			cfg = "several-posix-patterns"
		case 2:
			// a plain pattern that no test string satisfies: it must be ignored
			plain = []string{"never-matching-\\d{40}"}
			cfg = "posix-with-plain-pattern"
		}
		pairs += c06PosixCase(r, rng, posix, plain, cfg, "random")
	}
}

func c06PosixCase(r *lib.Run, rng *rand.Rand, posix, plain []string, cfg, origin string) int {
	var res []*regexp.Regexp
	for _, p := range posix {
		re, err := regexp.CompilePOSIX(p)
		if err != nil {
			r.Hit("posix-pattern:skipped-not-posix")
			return 0
		}
		res = append(res, re)
	}
	var strs []c06Str
	seen := map[string]bool{}
	add := func(s c06Str) {
		if !seen[s.s] && len([]rune(s.s)) <= 24 {
			seen[s.s] = true
			strs = append(strs, s)
		}
	}
	for _, p := range posix {
		n, err := lib.ParseXSD(p, lib.XSDOpts{StripAnchors: true})
		if err != nil {
			continue
		}
		for k := 0; k < 2; k++ {
			s := n.Sample(rng)
			add(c06Str{s, "own-member"})
			for _, m := range c06Mutants(rng, s, c06JunkAll) {
				add(m)
			}
		}
	}
	add(c06Str{"", "random"})
	t := &yang.YangType{Name: "string", Kind: yang.Ystring, Pattern: plain, POSIXPattern: posix}
	n := 0
	for _, s := range strs {
		want := true
		for _, re := range res {
			if !re.MatchString(s.s) {
				want = false
			}
		}
		w := map[string]interface{}{"validator": "ValidateStringRestrictions", "posix-pattern": posix, "pattern": plain, "value": s.s, "oracle": c06Verdict(want), "origin": origin}
		var err error
		if r.Guard("ValidateStringRestrictions", w, func() { err = ytypes.ValidateStringRestrictions(t, s.s) }) {
			continue
		}
		n++
		r.Case("posix|"+strings.Join(posix, "\x00")+"|"+strings.Join(plain, "\x00")+"|"+s.s, true)
		if want {
			r.Hit("posix-pattern:accept-expected")
			if len(plain) > 0 {
				r.Hit("posix-pattern:plain-pattern-would-reject")
			}
		} else {
			r.Hit("posix-pattern:reject-expected")
		}
		r.Hit("posix-pattern:" + cfg)
		w["ygot"] = c06Answer(err)
		if want && len(plain) > 0 {
			c06SampleOnce(r, "posix", w)
		}
		y := err == nil
		if y == want {
			continue
		}
		feat := "rejects-matching:" + cfg
		if y {
			feat = "accepts-nonmatching:" + cfg
		}
		r.Violate("posix-pattern", feat, fmt.Sprintf("posix-pattern %q (pattern %q), value %q: ygot %s, oracle %s", posix, plain, s.s, c06Answer(err), c06Verdict(want)), w)
	}
	return n
}

// ---------------------------------------------------------------------------
// fixed hostile list
// ---------------------------------------------------------------------------

func c06Hostile(r *lib.Run) {
	rng := c06Rng(r, 0, 0)
	bi := func(s string) *big.Int {
		b, ok := new(big.Int).SetString(s, 10)
		if !ok {
			panic("bad literal " + s)
		}
		return b
	}
	// integers: type extremes as range bounds and values
	for _, k := range c06IntKinds {
		one := big.NewInt(1)
		for _, ps := range [][]c06Part{
			{{k.min, k.min}, {k.max, k.max}},
			{{new(big.Int).Add(k.min, one), new(big.Int).Sub(k.max, one)}},
			{{k.min, new(big.Int)}, {big.NewInt(2), big.NewInt(2)}, {big.NewInt(4), k.max}},
		} {
			for _, v := range c06Probe(rng, ps, k.min, k.max, 0) {
				c06IntCase(r, k, ps, v, true, "hostile")
			}
		}
	}
	// decimal64: bounds that are not exactly representable in binary
	for _, h := range []struct {
		fd     int
		lo, hi string
		vals   []string
	}{
		{2, "201", "1000", []string{"201", "200", "202", "1000", "1001", "999"}},
		{1, "1", "3", []string{"0", "1", "2", "3", "4"}},
		{3, "1001", "1009", []string{"1000", "1001", "1005", "1009", "1010"}},
		{2, "-1000", "-201", []string{"-201", "-200", "-202", "-1000", "-1001"}},
		{18, "1", "5", []string{"0", "1", "3", "5", "6"}},
		{18, "123456789012345", "123456789012347", []string{"123456789012344", "123456789012345", "123456789012346", "123456789012347", "123456789012348"}},
		{5, "-9223372036854775808", "9223372036854775807", []string{"0", "1", "-1", "12345678901234"}},
		{1, "0", "0", []string{"0", "1", "-1"}},
		// tiny magnitudes: goyang's FromFloat runs past 18 fraction digits
		{4, "-10000", "0", []string{"3", "1", "0", "-1"}},
		{12, "-1000000000000", "0", []string{"1", "993", "0"}},
		{3, "1", "9", []string{"1", "3", "7", "9", "10", "0"}},
	} {
		ps := []c06Part{{bi(h.lo), bi(h.hi)}}
		for _, v := range h.vals {
			c06DecCase(r, h.fd, ps, bi(v), "hostile")
		}
	}
	// lengths counted in characters / bytes
	for _, h := range []struct {
		lo, hi int64
		s      string
	}{
		{1, 3, "日本語"}, {1, 3, "日本語日"}, {4, 9, "日本語"}, {2, 2, "😀😀"}, {2, 2, "😀"}, {0, 0, ""}, {0, 0, "é"}, {1, 1, "é"},
	} {
		ps := []c06Part{{big.NewInt(h.lo), big.NewInt(h.hi)}}
		c06StrLenCase(r, ps, h.s, "hostile")
		c06BinCase(r, ps, []byte(h.s), "hostile")
	}
	// patterns
	for _, h := range []struct {
		p    string
		strs []string
	}{
		{`aé`, []string{"aé", "aéX", "a"}},
		{`^aé`, []string{"aé", "aéX", "Xaé"}},
		{`^aé$`, []string{"aé", "aéX"}},
		{`a\$`, []string{"a$", "a$X", "a"}},
		{`^a\$`, []string{"a$", "a$X"}},
		{`a\\$`, []string{`a\`, `a\X`, `a\$`}},
		{`^a|b`, []string{"a", "b", "aX", "Xb", "^a"}},
		{`^a|b$`, []string{"a", "b", "aX", "Xb", "b$"}},
		{`^(a|b)$`, []string{"a", "b", "aX", "Xb"}},
		{`a|b$`, []string{"a", "b", "aX", "Xb"}},
		{`^a|b|c$`, []string{"XbY", "b", "c"}},
		{`\[^a`, []string{"[^a", "[a"}},
		{`a^b`, []string{"a^b", "ab"}},
		{`a$b`, []string{"a$b", "ab"}},
		{`[^a]`, []string{"b", "a", "^"}},
		{`[a^]`, []string{"a", "^", "b"}},
		{`[$]x`, []string{"$x", "x"}},
		{``, []string{"", "x"}},
		{`^`, []string{"", "^"}},
		{`$`, []string{"", "$"}},
		{`.`, []string{"a", "\r", "\n", "日"}},
		{`\d+`, []string{"123", "12a", ""}},
		{`[0-9]+(\.[0-9]+)?`, []string{"1.5", "1.", "1.5.2"}},
		{`^[0-9]+(\.[0-9]+)?$`, []string{"1.5", "1.", "1.5.2"}},
		{`^(([0-9]|[1-9][0-9]|1[0-9][0-9]|2[0-4][0-9]|25[0-5])\.){3}([0-9]|[1-9][0-9]|1[0-9][0-9]|2[0-4][0-9]|25[0-5])$`, []string{"10.0.0.1", "256.1.1.1", "10.0.0.1/8"}},
		{`[a-zA-Z_][a-zA-Z0-9\-_.]*`, []string{"eth0", "0eth", "a-b.c"}},
		{`(日|本)+語`, []string{"日本語", "語", "日本語X"}},
		{`a{2,3}`, []string{"a", "aa", "aaa", "aaaa"}},
		{`(a|)b`, []string{"b", "ab", "aab"}},
		{`\*\+\?\.\(\)\[\]\{\}\|\\\-`, []string{`*+?.()[]{}|\-`, `*+?.()[]{}|\\-`}},
	} {
		c06CheckPattern(r, rng, h.p, "listed", h.strs, "hostile")
	}
	c06ConjCase(r, rng, []string{`[a-z]+`, `.{2,3}`}, "hostile")
	c06ConjCase(r, rng, []string{`.{2,3}`, `[a-z]+`, `[^x]*`}, "hostile")
	c06PosixCase(r, rng, []string{`^[a-z]+$`}, []string{`[0-9]+`}, "posix-with-plain-pattern", "hostile")
	c06PosixCase(r, rng, []string{`^[a-z]+$`, `^.{2,3}$`}, nil, "several-posix-patterns", "hostile")
	c06PosixCase(r, rng, []string{`^(a|b)c$`}, nil, "single-posix-pattern", "hostile")
}
