// vmon runs one runtime monitor over the configurations linked into the binary.
package main

import (
	"flag"
	"fmt"
	"os"

	_ "github.com/openconfig/ygot/zzverif/cfgs"
	"github.com/openconfig/ygot/zzverif/lib"
	"github.com/openconfig/ygot/zzverif/mon"
)

func main() {
	prop := flag.String("prop", "", "property id")
	tier := flag.String("tier", "quick", "quick|thorough")
	seed := flag.Int64("seed", 1, "PRNG seed")
	replay := flag.String("replay", "", "replay file")
	flag.Parse()
	f, ok := mon.Monitors[*prop]
	if !ok {
		fmt.Println("no monitor for", *prop)
		os.Exit(2)
	}
	r := lib.NewRun(*prop, *tier, *seed)
	mon.ReplayFile = *replay
	mon.LoadReplay(r)
	f(r)
	os.Exit(r.Finish())
}
